(** C36 — basic facts: type equality, numeric ranks, option lists, struct field tables. *)
From HailV Require Import Common.Prelude Typing.Model.

Section TyInd.
  Variable P : ty -> Prop.
  Hypothesis H1 : P TI32. Hypothesis H2 : P TI64. Hypothesis H3 : P TF32. Hypothesis H4 : P TF64.
  Hypothesis H5 : P TBool. Hypothesis H6 : P TStr.
  Hypothesis HA : forall t, P t -> P (TArr t).
  Hypothesis HS : forall t, P t -> P (TStream t).
  Hypothesis HR : forall fs, Forall (fun nf => P (snd nf)) fs -> P (TStruct fs).
  Hypothesis HT : forall ts, Forall P ts -> P (TTuple ts).
  Hypothesis HI : forall t, P t -> P (TInterval t).
  Fixpoint ty_ind' (t : ty) : P t :=
    match t with
    | TI32 => H1 | TI64 => H2 | TF32 => H3 | TF64 => H4 | TBool => H5 | TStr => H6
    | TArr x => HA x (ty_ind' x)
    | TStream x => HS x (ty_ind' x)
    | TStruct fs => HR fs ((fix go (l : list (N * ty)) : Forall (fun nf => P (snd nf)) l :=
                              match l with [] => Forall_nil _ | nf :: r => Forall_cons nf (ty_ind' (snd nf)) (go r) end) fs)
    | TTuple ts => HT ts ((fix go (l : list ty) : Forall P l :=
                             match l with [] => Forall_nil _ | x :: r => Forall_cons x (ty_ind' x) (go r) end) ts)
    | TInterval x => HI x (ty_ind' x)
    end.
End TyInd.

Lemma ty_eqb_eq : forall a b, ty_eqb a b = true <-> a = b.
Proof.
  induction a as [| | | | | |a IH|a IH|fs IH|ts IH|a IH] using ty_ind'; intro b; destruct b; cbn [ty_eqb];
    try (split; [discriminate | intro E; discriminate E]); try (split; reflexivity).
  - rewrite IH; split; congruence.
  - rewrite IH; split; congruence.
  - revert fs0. induction fs as [|[n x] fs IHf]; intros [|[m y] gs].
    + split; reflexivity.
    + split; [discriminate | intro E; discriminate E].
    + split; [discriminate | intro E; discriminate E].
    + inversion IH as [|? ? Hx Hr]; subst. cbn [snd] in Hx. specialize (IHf Hr gs).
      rewrite !andb_true_iff, N.eqb_eq, Hx, IHf. split.
      * intros [[E1 E2] E3]; congruence.
      * intro E; inversion E; subst; auto.
  - revert ts0. induction ts as [|x ts IHf]; intros [|y us].
    + split; reflexivity.
    + split; [discriminate | intro E; discriminate E].
    + split; [discriminate | intro E; discriminate E].
    + inversion IH as [|? ? Hx Hr]; subst. specialize (IHf Hr us).
      rewrite !andb_true_iff, Hx, IHf. split.
      * intros [E1 E2]; congruence.
      * intro E; inversion E; subst; auto.
  - rewrite IH; split; congruence.
Qed.
Lemma ty_eqb_refl a : ty_eqb a a = true.
Proof. apply ty_eqb_eq; reflexivity. Qed.

(** ranks *)
Lemma rank_of_rank t r : rank t = Some r -> of_rank r = t.
Proof. destruct t; cbn; intro H; inversion H; reflexivity. Qed.
Lemma rank_le4 t r : rank t = Some r -> (r <= 4)%nat.
Proof. destruct t; cbn; intro H; inversion H; lia. Qed.
Lemma rank_of_rank' r : rank (of_rank r) = Some (Nat.min r 4).
Proof. destruct r as [|[|[|[|[|r]]]]]; reflexivity. Qed.
Lemma is_numeric_rank t : is_numeric t = true <-> exists r, rank t = Some r.
Proof.
  unfold is_numeric; destruct (rank t) as [r|]; split; intro H;
    [exists r; reflexivity | reflexivity | discriminate | destruct H as [r H]; discriminate].
Qed.

(** option lists *)
Lemma all_some_length {A} (l : list (option A)) ys : all_some l = Some ys -> length ys = length l.
Proof.
  revert ys; induction l as [|[x|] l IH]; intros ys H; cbn in *; try discriminate.
  - inversion H; reflexivity.
  - destruct (all_some l) as [zs|]; cbn in H; [|discriminate]. inversion H; subst. cbn. f_equal. apply IH; reflexivity.
Qed.
Lemma all_some_cons {A} (x : option A) l ys : all_some (x :: l) = Some ys ->
  exists y ys', x = Some y /\ all_some l = Some ys' /\ ys = y :: ys'.
Proof.
  cbn. destruct x as [y|]; [|discriminate]. destruct (all_some l) as [zs|]; cbn; [|discriminate].
  intro H; inversion H; eauto.
Qed.
Lemma all_some_map_ext {A B C} (f : A -> option B) (g : A -> option C) (h : B -> C) l ys :
  Forall (fun a => forall b, f a = Some b -> g a = Some (h b)) l ->
  all_some (map f l) = Some ys -> all_some (map g l) = Some (map h ys).
Proof.
  revert ys; induction l as [|a l IH]; intros ys HF H; cbn [map] in *.
  - cbn in H; inversion H; reflexivity.
  - apply all_some_cons in H. destruct H as [y [ys' [E1 [E2 E3]]]]. subst ys. inversion HF as [|? ? Ha Hl]; subst.
    cbn. rewrite (Ha y E1). rewrite (IH ys' Hl E2). reflexivity.
Qed.

(** field tables *)
Lemma lookup_insert_same l k v : lookup_ty (insert_field l k v) k = Some v.
Proof.
  induction l as [|[k' v'] l IH]; cbn; [rewrite N.eqb_refl; reflexivity|].
  destruct (N.eqb k' k) eqn:E; cbn; [rewrite N.eqb_refl; reflexivity | rewrite E; exact IH].
Qed.
Lemma select_lookup l ks sel f t : select_fields l ks = Some sel -> lookup_ty sel f = Some t -> lookup_ty l f = Some t.
Proof.
  revert sel; induction ks as [|k ks IH]; intros sel H Hl; cbn in H.
  - inversion H; subst; discriminate.
  - destruct (lookup_ty l k) as [tk|] eqn:Ek; [|discriminate]. destruct (select_fields l ks) as [rest|]; [|discriminate].
    inversion H; subst. cbn in Hl. destruct (N.eqb k f) eqn:E.
    + apply N.eqb_eq in E; subst. congruence.
    + eapply IH; eauto.
Qed.
Lemma nodupN_filter (p : N -> bool) l : nodupN l = true -> nodupN (filter p l) = true.
Proof.
  induction l as [|x l IH]; cbn; [reflexivity|]. rewrite andb_true_iff, negb_true_iff. intros [H1 H2].
  destruct (p x); [|apply IH; exact H2]. cbn. rewrite IH by exact H2. rewrite andb_true_r, negb_true_iff.
  destruct (existsb (N.eqb x) (filter p l)) eqn:E; [|reflexivity].
  apply existsb_exists in E. destruct E as [y [Hy Ey]]. apply filter_In in Hy.
  assert (existsb (N.eqb x) l = true) by (apply existsb_exists; exists y; tauto). congruence.
Qed.
