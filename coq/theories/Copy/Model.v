(** C22 — hand model of the copy tool (hailtop/aiotools/fs/copier.py on LocalAsyncFS).  Executable definitions only.

    Part 1 (bytes): the chunk arithmetic of [SourceCopier._copy_file] (sequential BUFFER_SIZE reads) and of
    [_copy_file_multi_part_main]/[_copy_part] (n_parts, rem = divmod(size, part_size); part i covers
    [i*part_size, i*part_size + this_part_size) and is read/written in BUFFER_SIZE chunks at explicit offsets, the
    destination being opened "r+b" and seeked to the part start: [LocalMultiPartCreate.create_part]).

    Part 2 (trees): a file system as a finite map path -> File bytes | Dir, the three destination modes of
    [Transfer], [SourceCopier._full_dest], the file/directory classification of the source, and the errors. *)
From HailV Require Import Common.Prelude.

(** ---- Part 1: bytes ------------------------------------------------------------------------------ *)
Section Bytes.
  Context {A : Type}.
  Variable z : A.                      (* what a hole of a sparse file reads as *)

  (** [open_from(start, length=len)] + [readexactly(len)] *)
  Definition slice (data : list A) (off len : nat) : list A := firstn len (skipn off data).

  (** write [bs] at offset [off] of a file whose current content is [f] (seek past the end leaves a hole) *)
  Definition pwrite (f : list A) (off : nat) (bs : list A) : list A :=
    firstn off f ++ repeat z (off - length f) ++ bs ++ skipn (off + length bs) f.

  (** _copy_file:  while True: b = read(BUFFER); if not b: return; write(b)        (chunks as (offset, length)) *)
  Fixpoint seq_chunks (fuel buf off size : nat) : list (nat * nat) :=
    match fuel with
    | O => []
    | S f => if size <=? off then [] else
             let b := Nat.min buf (size - off) in (off, b) :: seq_chunks f buf (off + b) size
    end.

  (** _copy_part:  n = this; while n > 0: b = min(BUFFER, n); read/write at base + (this - n), b bytes; n -= b *)
  Fixpoint part_chunks (fuel buf base this n : nat) : list (nat * nat) :=
    match fuel with
    | O => []
    | S f => if n =? 0 then [] else
             let b := Nat.min buf n in (base + (this - n), b) :: part_chunks f buf base this (n - b)
    end.

  (** n_parts, rem = divmod(size, part_size); if rem: n_parts += 1 *)
  Definition n_parts (size part : nat) : nat := size / part + (if size mod part =? 0 then 0 else 1).

  (** this_part_size = rem if i == n_parts - 1 and rem else part_size *)
  Definition this_part_size (size part i : nat) : nat :=
    if (i =? n_parts size part - 1) && negb (size mod part =? 0) then size mod part else part.

  Definition multi_chunks (size part buf : nat) : list (nat * nat) :=
    flat_map (fun i => let t := this_part_size size part i in part_chunks t buf (i * part) t t)
             (seq 0 (n_parts size part)).

  (** if size <= part_size: _copy_file else multi-part *)
  Definition chunks (size part buf : nat) : list (nat * nat) :=
    if size <=? part then seq_chunks size buf 0 size else multi_chunks size part buf.

  (** the destination file after the chunk transfers have been performed in the order [order] *)
  Definition apply_chunks (data : list A) (order : list (nat * nat)) : list A :=
    fold_left (fun f c => pwrite f (fst c) (slice data (fst c) (snd c))) order [].
End Bytes.

(** ---- Part 2: trees ------------------------------------------------------------------------------ *)
Definition path := list nat.                      (* components; the root is [] *)
Inductive entry := F (data : list nat) | D.
Definition fsys := list (path * entry).           (* finite map, keys without duplicates *)

Inductive err := ENOENT      (* FileNotFoundError *)
               | EISDIR      (* IsADirectoryError *)
               | ENOTDIR.    (* NotADirectoryError *)
Inductive res (T : Type) := Ok (v : T) | Err (e : err).
Arguments Ok {T} v. Arguments Err {T} e.

Fixpoint path_eqb (p q : path) : bool :=
  match p, q with
  | [], [] => true
  | x :: p', y :: q' => Nat.eqb x y && path_eqb p' q'
  | _, _ => false
  end.

Fixpoint lookup (s : fsys) (p : path) : option entry :=
  match s with [] => None | (q, e) :: r => if path_eqb p q then Some e else lookup r p end.

(** the root always exists and is a directory *)
Definition stat (s : fsys) (p : path) : option entry := match p with [] => Some D | _ => lookup s p end.

Fixpoint remove_key (p : path) (s : fsys) : fsys :=
  match s with [] => [] | (q, e) :: r => if path_eqb p q then remove_key p r else (q, e) :: remove_key p r end.

Definition set (s : fsys) (p : path) (e : entry) : fsys := (p, e) :: remove_key p s.

(** all strict prefixes of p, the root included, shortest first *)
Fixpoint prefixes (p : path) : list path :=
  match p with [] => [] | x :: r => [] :: map (cons x) (prefixes r) end.

Definition is_file (s : fsys) (p : path) : bool := match stat s p with Some (F _) => true | _ => false end.
Definition is_dir (s : fsys) (p : path) : bool := match stat s p with Some D => true | _ => false end.
Definition file_prefix (s : fsys) (p : path) : bool := existsb (is_file s) (prefixes p).

Definition mkdirs (s : fsys) (p : path) : fsys :=
  fold_left (fun s q => match q with [] => s | _ => set s q D end) (prefixes p) s.

(** open(p, 'wb') [+ makedirs(dirname p, exist_ok=True) on ENOENT] + write + close *)
Definition write_file (s : fsys) (p : path) (d : list nat) : res fsys :=
  if file_prefix s p then Err ENOTDIR
  else if is_dir s p then Err EISDIR
  else Ok (set (mkdirs s p) p (F d)).

Fixpoint write_all (s : fsys) (ws : list (path * list nat)) : res fsys :=
  match ws with
  | [] => Ok s
  | (p, d) :: r => match write_file s p d with Ok s' => write_all s' r | Err e => Err e end
  end.

Fixpoint strip_prefix (pre p : path) : option path :=
  match pre, p with
  | [], _ => Some p
  | x :: pre', y :: p' => if Nat.eqb x y then strip_prefix pre' p' else None
  | _ :: _, [] => None
  end.

(** listfiles(src + '/', recursive=True): the regular files strictly below src, as (relative path, content) *)
Definition files_under (s : fsys) (src : path) : list (path * list nat) :=
  flat_map (fun qe => match snd qe with
                      | F d => match strip_prefix src (fst qe) with Some (x :: r) => [(x :: r, d)] | _ => [] end
                      | D => []
                      end) s.

Inductive mode := DestDir | DestIsTarget | InferDest.
Inductive kind := KFile | KDir.

Record transfer := { t_is_list : bool;          (* src given as a list of sources *)
                     t_dest : path; t_dest_slash : bool; t_mode : mode }.

(** Transfer.__init__: INFER_DEST with a trailing slash on dest becomes DEST_DIR *)
Definition eff_mode (t : transfer) : mode :=
  match t_mode t with InferDest => if t_dest_slash t then DestDir else InferDest | m => m end.

Definition basename (p : path) : path := match rev p with [] => [] | x :: _ => [x] end.

(** Copier._dest_type (only consulted for INFER_DEST) *)
Definition dest_type (s : fsys) (t : transfer) : res (option kind) :=
  match eff_mode t with
  | InferDest =>
      if t_is_list t then Ok (Some KDir)
      else if file_prefix s (t_dest t) then Err ENOTDIR
      else Ok (match stat s (t_dest t) with Some (F _) => Some KFile | Some D => Some KDir | None => None end)
  | _ => Ok None
  end.

(** SourceCopier._full_dest *)
Definition full_dest (t : transfer) (dt : option kind) (src : path) : path * option kind :=
  match eff_mode t, dt with
  | DestDir, _ | InferDest, Some KDir => (t_dest t ++ basename src, None)
  | DestIsTarget, _ => (t_dest t, if t_dest_slash t then Some KDir else dt)
  | InferDest, _ => (t_dest t, dt)
  end.

(** the (destination path, content) pairs a source gives rise to, destination [fd] *)
Definition src_is_file (s : fsys) (src : path) (slash : bool) : bool := negb slash && is_file s src.

Definition writes (s : fsys) (src : path) (slash : bool) (fd : path) : list (path * list nat) :=
  if src_is_file s src slash
  then match stat s src with Some (F d) => [(fd, d)] | _ => [] end
  else map (fun rd => (fd ++ fst rd, snd rd)) (files_under s src).

(** SourceCopier.copy for one source of a transfer *)
Definition copy_source (s : fsys) (t : transfer) (src : path) (slash : bool) : res fsys :=
  match t_mode t, t_is_list t with
  | DestIsTarget, true => Err ENOTDIR                        (* Transfer.__init__ *)
  | _, _ =>
    if negb slash && file_prefix s src then Err ENOTDIR      (* os.stat(src) itself fails with ENOTDIR *)
    else if negb (src_is_file s src slash) && negb (is_dir s src) then Err ENOENT
    else match dest_type s t with
         | Err e => Err e
         | Ok dt =>
             let (fd, ft) := full_dest t dt src in
             if src_is_file s src slash
             then match ft with Some KDir => Err EISDIR | _ => write_all s (writes s src slash fd) end
             else match ft with Some KFile => Err ENOTDIR | _ => write_all s (writes s src slash fd) end
         end
  end.

(** a sequence of (transfer, source) steps, performed one after the other *)
Definition step := (transfer * path * bool)%type.
Fixpoint run (steps : list step) (s : fsys) : res fsys :=
  match steps with
  | [] => Ok s
  | (t, src, slash) :: r => match copy_source s t src slash with Ok s' => run r s' | Err e => Err e end
  end.
