(** C22 part 1 — the chunk arithmetic reproduces the data, in any order of the chunk transfers. *)
From HailV Require Import Common.Prelude Copy.Model.

Section Bytes.
  Context {A : Type}.
  Variable z : A.

  (** a list of (offset, length) chunks that tiles [a, b) left to right with non-empty chunks *)
  Fixpoint tiles (l : list (nat * nat)) (a b : nat) : Prop :=
    match l with
    | [] => a = b
    | (o, n) :: r => o = a /\ 0 < n /\ tiles r (a + n) b
    end.

  Lemma tiles_app l1 : forall l2 a b c, tiles l1 a b -> tiles l2 b c -> tiles (l1 ++ l2) a c.
  Proof.
    induction l1 as [|[o n] r IH]; intros l2 a b c H1 H2; cbn [tiles app] in *.
    - subst. exact H2.
    - destruct H1 as (-> & Hn & Hr). repeat split; try assumption. exact (IH l2 _ _ _ Hr H2).
  Qed.

  Lemma tiles_le l : forall a b, tiles l a b -> a <= b.
  Proof.
    induction l as [|[o n] r IH]; intros a b H; cbn [tiles] in H; [lia|].
    destruct H as (_ & Hn & Hr). specialize (IH _ _ Hr). lia.
  Qed.

  Lemma tiles_bounds l : forall a b, tiles l a b -> forall o n, In (o, n) l -> a <= o /\ 0 < n /\ o + n <= b.
  Proof.
    induction l as [|[o' n'] r IH]; intros a b H o n Hin; [destruct Hin|].
    cbn [tiles] in H. destruct H as (-> & Hn & Hr). pose proof (tiles_le _ _ _ Hr) as Hle.
    destruct Hin as [E|Hin].
    - inversion E; subst. lia.
    - destruct (IH _ _ Hr o n Hin) as (H1 & H2 & H3). lia.
  Qed.

  Lemma tiles_cover l : forall a b, tiles l a b -> forall p, a <= p < b -> exists o n, In (o, n) l /\ o <= p < o + n.
  Proof.
    induction l as [|[o' n'] r IH]; intros a b H p Hp; cbn [tiles] in H; [lia|].
    destruct H as (-> & Hn & Hr).
    destruct (Nat.lt_ge_cases p (a + n')) as [Hlt|Hge].
    - exists a, n'. split; [left; reflexivity | lia].
    - destruct (IH _ _ Hr p (conj Hge (proj2 Hp))) as (o & n & Hin & Ho). exists o, n. split; [right; exact Hin | exact Ho].
  Qed.

  (** ---- the loops produce tilings ----------------------------------------------------------------- *)
  Lemma seq_chunks_tiles buf size : 0 < buf -> forall fuel off, off <= size -> size - off <= fuel ->
    tiles (seq_chunks fuel buf off size) off size.
  Proof.
    intros Hb fuel. induction fuel as [|f IH]; intros off Hle Hf; cbn [seq_chunks tiles].
    - lia.
    - destruct (size <=? off) eqn:E.
      + apply Nat.leb_le in E. cbn [tiles]. lia.
      + apply Nat.leb_gt in E. cbn [tiles]. split; [reflexivity|]. split; [lia|]. apply IH; lia.
  Qed.

  Lemma part_chunks_tiles buf base this : 0 < buf -> forall fuel n, n <= this -> n <= fuel ->
    tiles (part_chunks fuel buf base this n) (base + (this - n)) (base + this).
  Proof.
    intros Hb fuel. induction fuel as [|f IH]; intros n Hn Hf; cbn [part_chunks tiles].
    - assert (n = 0) by lia. subst. lia.
    - destruct (n =? 0) eqn:E.
      + apply Nat.eqb_eq in E. subst. cbn [tiles]. lia.
      + apply Nat.eqb_neq in E. cbn [tiles]. split; [reflexivity|]. split; [lia|].
        assert (Heq : base + (this - n) + Nat.min buf n = base + (this - (n - Nat.min buf n))) by (clear IH; lia).
        rewrite Heq.
        apply IH; lia.
  Qed.

  (** part boundaries: part i covers [bnd i, bnd (i+1)) *)
  Definition bnd (size part i : nat) : nat := Nat.min (i * part) size.

  Lemma n_parts_upper size part : 0 < part -> size <= n_parts size part * part.
  Proof.
    intros Hp. unfold n_parts.
    pose proof (Nat.div_mod size part ltac:(lia)) as Hdm.
    pose proof (Nat.mod_upper_bound size part ltac:(lia)) as Hub.
    set (q := size / part) in *. set (r := size mod part) in *.
    destruct (r =? 0) eqn:E; [apply Nat.eqb_eq in E | apply Nat.eqb_neq in E]; nia.
  Qed.

  Lemma this_part_size_spec size part i : 0 < part -> i < n_parts size part ->
    bnd size part i = i * part /\ bnd size part i + this_part_size size part i = bnd size part (S i).
  Proof.
    intros Hp Hi. unfold bnd, this_part_size. unfold n_parts in *.
    pose proof (Nat.div_mod size part ltac:(lia)) as Hdm.
    pose proof (Nat.mod_upper_bound size part ltac:(lia)) as Hub.
    set (q := size / part) in *. set (r := size mod part) in *.
    destruct (r =? 0) eqn:E; [apply Nat.eqb_eq in E | apply Nat.eqb_neq in E]; cbn [negb].
    - rewrite andb_false_r. assert (S i * part <= q * part) by nia. nia.
    - rewrite andb_true_r. destruct (i =? q + 1 - 1) eqn:Ei; [apply Nat.eqb_eq in Ei | apply Nat.eqb_neq in Ei].
      + assert (i = q) by lia. subst i. nia.
      + assert (S i <= q) by lia. assert (S i * part <= q * part) by nia. nia.
  Qed.

  Lemma flat_parts_tiles size part (g : nat -> list (nat * nat)) : 
    (forall i, i < n_parts size part -> tiles (g i) (bnd size part i) (bnd size part (S i))) ->
    forall k i0, i0 + k <= n_parts size part ->
    tiles (flat_map g (seq i0 k)) (bnd size part i0) (bnd size part (i0 + k)).
  Proof.
    intros Hg k. induction k as [|k IH]; intros i0 Hk; cbn [seq flat_map].
    - cbn [tiles]. f_equal. lia.
    - apply (tiles_app _ _ _ (bnd size part (S i0))).
      + apply Hg. lia.
      + replace (i0 + S k) with (S i0 + k) by lia. apply IH. lia.
  Qed.

  Lemma multi_chunks_tiles size part buf : 0 < part -> 0 < buf -> tiles (multi_chunks size part buf) 0 size.
  Proof.
    intros Hp Hb. unfold multi_chunks.
    pose proof (flat_parts_tiles size part
      (fun i => let t := this_part_size size part i in part_chunks t buf (i * part) t t)) as H.
    assert (Hg : forall i, i < n_parts size part ->
      tiles ((fun i => let t := this_part_size size part i in part_chunks t buf (i * part) t t) i)
            (bnd size part i) (bnd size part (S i))).
    { intros i Hi. cbn beta zeta. destruct (this_part_size_spec size part i Hp Hi) as [E1 E2].
      pose proof (part_chunks_tiles buf (i * part) (this_part_size size part i) Hb
                    (this_part_size size part i) (this_part_size size part i) (Nat.le_refl _) (Nat.le_refl _)) as T.
      rewrite Nat.sub_diag, Nat.add_0_r in T. rewrite <- E2, E1. exact T. }
    specialize (H Hg (n_parts size part) 0 (Nat.le_refl _)).
    replace (bnd size part 0) with 0 in H by (unfold bnd; lia).
    replace (bnd size part (0 + n_parts size part)) with size in H; [exact H|].
    unfold bnd. pose proof (n_parts_upper size part Hp). cbn [Nat.add]. lia.
  Qed.

  Lemma chunks_tiles size part buf : 0 < part -> 0 < buf -> tiles (chunks size part buf) 0 size.
  Proof.
    intros Hp Hb. unfold chunks. destruct (size <=? part).
    - apply seq_chunks_tiles; [exact Hb | lia | lia].
    - apply multi_chunks_tiles; assumption.
  Qed.

  (** ---- slices and sequential concatenation ------------------------------------------------------- *)
  Lemma nth_firstn_lt (l : list A) : forall n k, k < n -> nth k (firstn n l) z = nth k l z.
  Proof.
    induction l as [|x l IH]; intros n k Hk.
    - rewrite firstn_nil. reflexivity.
    - destruct n as [|n]; [lia|]. destruct k as [|k]; cbn [firstn nth]; [reflexivity|]. apply IH. lia.
  Qed.

  Lemma nth_skipn_add (l : list A) : forall o k, nth k (skipn o l) z = nth (o + k) l z.
  Proof.
    induction l as [|x l IH]; intros o k.
    - rewrite skipn_nil. destruct k, o; reflexivity.
    - destruct o as [|o]; cbn [skipn Nat.add nth]; [reflexivity|]. apply IH.
  Qed.

  Lemma nth_app_full (l1 l2 : list A) p :
    nth p (l1 ++ l2) z = if p <? length l1 then nth p l1 z else nth (p - length l1) l2 z.
  Proof.
    destruct (p <? length l1) eqn:E.
    - apply Nat.ltb_lt in E. apply app_nth1. exact E.
    - apply Nat.ltb_ge in E. apply app_nth2. exact E.
  Qed.

  Lemma nth_repeat_z n p : nth p (repeat z n) z = z.
  Proof. revert p. induction n as [|n IH]; intros [|p]; cbn [repeat nth]; auto. Qed.

  Lemma slice_length (data : list A) o n : o + n <= length data -> length (slice data o n) = n.
  Proof. intros H. unfold slice. rewrite firstn_length, skipn_length. lia. Qed.

  Lemma slice_nth (data : list A) o n k : k < n -> nth k (slice data o n) z = nth (o + k) data z.
  Proof. intros Hk. unfold slice. rewrite (nth_firstn_lt _ n k Hk). apply nth_skipn_add. Qed.

  Lemma firstn_add_skipn (l : list A) : forall n m, firstn n l ++ firstn m (skipn n l) = firstn (n + m) l.
  Proof.
    induction l as [|x l IH]; intros n m.
    - rewrite skipn_nil, !firstn_nil. reflexivity.
    - destruct n as [|n]; cbn [firstn skipn app Nat.add]; [reflexivity|]. rewrite IH. reflexivity.
  Qed.

  Lemma skipn_add (l : list A) : forall a n, skipn (a + n) l = skipn n (skipn a l).
  Proof.
    induction l as [|x l IH]; intros a n.
    - rewrite !skipn_nil. reflexivity.
    - destruct a as [|a]; cbn [Nat.add skipn]; [reflexivity|]. apply IH.
  Qed.

  Lemma slice_app (data : list A) a n m : slice data a n ++ slice data (a + n) m = slice data a (n + m).
  Proof. unfold slice. rewrite skipn_add. apply firstn_add_skipn. Qed.

  Lemma concat_tiles (data : list A) l : forall a b, tiles l a b ->
    concat (map (fun c => slice data (fst c) (snd c)) l) = slice data a (b - a).
  Proof.
    induction l as [|[o n] r IH]; intros a b H; cbn [tiles map concat fst snd] in *.
    - subst. rewrite Nat.sub_diag. reflexivity.
    - destruct H as (-> & Hn & Hr). pose proof (tiles_le _ _ _ Hr) as Hle.
      rewrite (IH _ _ Hr), slice_app. f_equal. lia.
  Qed.

  Theorem parts_concat (data : list A) part buf : 0 < part -> 0 < buf ->
    concat (map (fun c => slice data (fst c) (snd c)) (chunks (length data) part buf)) = data.
  Proof.
    intros Hp Hb. rewrite (concat_tiles data _ 0 (length data) (chunks_tiles _ _ _ Hp Hb)).
    unfold slice. cbn [skipn]. rewrite Nat.sub_0_r. apply firstn_all.
  Qed.

  (** ---- positional writes in any order ------------------------------------------------------------- *)
  Lemma pwrite_length (f : list A) o bs : length (pwrite z f o bs) = Nat.max (length f) (o + length bs).
  Proof. unfold pwrite. rewrite !app_length, firstn_length, repeat_length, skipn_length. lia. Qed.

  Lemma pwrite_nth (f : list A) o bs p :
    nth p (pwrite z f o bs) z = if (o <=? p) && (p <? o + length bs) then nth (p - o) bs z else nth p f z.
  Proof.
    unfold pwrite. rewrite !nth_app_full, firstn_length, repeat_length.
    destruct (Nat.lt_ge_cases p o) as [Hpo|Hpo].
    - assert (E1 : (o <=? p) = false) by (apply Nat.leb_gt; exact Hpo). rewrite E1. cbn [andb].
      destruct (Nat.lt_ge_cases p (length f)) as [Hpf|Hpf].
      + assert (E2 : (p <? Nat.min o (length f)) = true) by (apply Nat.ltb_lt; lia). rewrite E2.
        apply nth_firstn_lt. exact Hpo.
      + assert (E2 : (p <? Nat.min o (length f)) = false) by (apply Nat.ltb_ge; lia). rewrite E2.
        assert (E3 : (p - Nat.min o (length f) <? o - length f) = true) by (apply Nat.ltb_lt; lia). rewrite E3.
        rewrite nth_repeat_z. symmetry. apply nth_overflow. exact Hpf.
    - assert (E1 : (o <=? p) = true) by (apply Nat.leb_le; exact Hpo). rewrite E1. cbn [andb].
      assert (E2 : (p <? Nat.min o (length f)) = false) by (apply Nat.ltb_ge; lia). rewrite E2.
      assert (E3 : (p - Nat.min o (length f) <? o - length f) = false) by (apply Nat.ltb_ge; lia). rewrite E3.
      replace (p - Nat.min o (length f) - (o - length f)) with (p - o) by lia.
      destruct (p <? o + length bs) eqn:E4.
      + apply Nat.ltb_lt in E4. assert (E5 : (p - o <? length bs) = true) by (apply Nat.ltb_lt; lia). rewrite E5. reflexivity.
      + apply Nat.ltb_ge in E4. assert (E5 : (p - o <? length bs) = false) by (apply Nat.ltb_ge; lia). rewrite E5.
        rewrite nth_skipn_add. f_equal. lia.
  Qed.

  Definition covered (p : nat) (l : list (nat * nat)) : Prop := exists o n, In (o, n) l /\ o <= p < o + n.

  Definition wstate (data f : list A) (done : list (nat * nat)) : Prop :=
    length f <= length data
    /\ (forall p, covered p done -> nth p f z = nth p data z)
    /\ (forall o n, In (o, n) done -> o + n <= length f).

  Lemma wstate_step data f done o n : wstate data f done -> o + n <= length data ->
    wstate data (pwrite z f o (slice data o n)) ((o, n) :: done).
  Proof.
    intros (H1 & H2 & H3) Hin. assert (Hl := slice_length data o n Hin). split; [|split].
    - rewrite pwrite_length, Hl. lia.
    - intros p Hc. rewrite pwrite_nth, Hl.
      destruct ((o <=? p) && (p <? o + n)) eqn:E.
      + apply andb_true_iff in E. destruct E as [E1 E2]. apply Nat.leb_le in E1. apply Nat.ltb_lt in E2.
        rewrite slice_nth by lia. f_equal. lia.
      + apply H2. destruct Hc as (o' & n' & [Ec|Hd] & Hp); [|exists o', n'; split; assumption].
        inversion Ec; subst. exfalso. apply andb_false_iff in E. destruct E as [E|E].
        * apply Nat.leb_gt in E. lia.
        * apply Nat.ltb_ge in E. lia.
    - intros o' n' [Ec|Hd]; rewrite pwrite_length, Hl.
      + inversion Ec; subst. lia.
      + specialize (H3 o' n' Hd). lia.
  Qed.

  Lemma wstate_fold data order : forall f done, wstate data f done ->
    (forall o n, In (o, n) order -> o + n <= length data) ->
    wstate data (fold_left (fun f c => pwrite z f (fst c) (slice data (fst c) (snd c))) order f) (rev order ++ done).
  Proof.
    induction order as [|[o n] r IH]; intros f done Hw Hb; cbn [fold_left rev app fst snd]; [exact Hw|].
    rewrite <- app_assoc. cbn [app]. apply IH.
    - apply wstate_step; [exact Hw | apply Hb; left; reflexivity].
    - intros o' n' Hin. apply Hb. right. exact Hin.
  Qed.

  (** The destination equals the source whatever the order (and multiplicity: retried parts) of the chunk transfers,
      as long as exactly the chunks of a tiling of [0, size) are transferred. *)
  Theorem tiling_any_order (data : list A) T order : tiles T 0 (length data) ->
    (forall c, In c order <-> In c T) -> apply_chunks z data order = data.
  Proof.
    intros HT Hset. unfold apply_chunks.
    assert (Hw0 : wstate data [] []) by (split; [cbn; lia | split; [intros p (o & n & [] & _) | intros o n []]]).
    assert (Hb : forall o n, In (o, n) order -> o + n <= length data).
    { intros o n Hin. apply Hset in Hin. destruct (tiles_bounds _ _ _ HT o n Hin) as (_ & _ & H). exact H. }
    destruct (wstate_fold data order [] [] Hw0 Hb) as (H1 & H2 & H3).
    set (f := fold_left _ order []) in *. rewrite app_nil_r in H2, H3.
    assert (Hcov : forall p, p < length data -> covered p (rev order)).
    { intros p Hp. destruct (tiles_cover _ _ _ HT p (conj (Nat.le_0_l p) Hp)) as (o & n & Hin & Ho).
      exists o, n. split; [apply in_rev; rewrite rev_involutive; apply Hset; exact Hin | exact Ho]. }
    assert (Hlen : length f = length data).
    { destruct (length data) as [|m] eqn:Em; [lia|].
      destruct (Hcov m ltac:(lia)) as (o & n & Hin & Ho). specialize (H3 o n Hin). lia. }
    apply (nth_ext f data z z Hlen). intros p Hp. apply H2. apply Hcov. lia.
  Qed.

  Theorem parts_any_order (data : list A) part buf order : 0 < part -> 0 < buf ->
    (forall c, In c order <-> In c (chunks (length data) part buf)) -> apply_chunks z data order = data.
  Proof. intros Hp Hb. apply tiling_any_order. apply chunks_tiles; assumption. Qed.
End Bytes.
