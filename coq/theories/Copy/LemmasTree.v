(** C22 part 2 — destination rules and "identical or documented error" on the file-tree model. *)
From HailV Require Import Common.Prelude Copy.Model.

Lemma path_eqb_eq p : forall q, path_eqb p q = true <-> p = q.
Proof.
  induction p as [|x p IH]; intros [|y q]; cbn [path_eqb]; try (split; [discriminate | congruence]); [tauto|].
  rewrite andb_true_iff, Nat.eqb_eq, IH. split; [intros [-> ->]; reflexivity | intros E; inversion E; auto].
Qed.

Lemma path_eqb_refl p : path_eqb p p = true.
Proof. apply path_eqb_eq. reflexivity. Qed.

Lemma path_eqb_neq p q : path_eqb p q = false <-> p <> q.
Proof. rewrite <- path_eqb_eq. destruct (path_eqb p q); split; congruence. Qed.

Definition keys (s : fsys) : list path := map fst s.
Definition nodup_keys (s : fsys) : Prop := NoDup (keys s).

Lemma lookup_remove p s q : lookup (remove_key p s) q = if path_eqb q p then None else lookup s q.
Proof.
  induction s as [|[k e] s IH]; cbn [remove_key lookup]; [destruct (path_eqb q p); reflexivity|].
  destruct (path_eqb p k) eqn:Epk.
  - apply path_eqb_eq in Epk. subst k. rewrite IH. destruct (path_eqb q p); reflexivity.
  - cbn [lookup]. rewrite IH. destruct (path_eqb q k) eqn:Eqk; [|reflexivity].
    apply path_eqb_eq in Eqk. subst k.
    assert (path_eqb q p = false) as -> by (apply path_eqb_neq; intros ->; rewrite path_eqb_refl in Epk; discriminate).
    reflexivity.
Qed.

Lemma lookup_set s p e q : lookup (set s p e) q = if path_eqb q p then Some e else lookup s q.
Proof. unfold set. cbn [lookup]. rewrite lookup_remove. destruct (path_eqb q p); reflexivity. Qed.

Lemma keys_remove p s k : In k (keys (remove_key p s)) -> In k (keys s) /\ k <> p.
Proof.
  induction s as [|[k' e] s IH]; cbn [remove_key keys map]; [intros []|].
  destruct (path_eqb p k') eqn:E.
  - intros H. destruct (IH H) as [H1 H2]. split; [right; exact H1 | exact H2].
  - cbn [keys map fst In]. intros [<-|H].
    + split; [left; reflexivity|]. apply path_eqb_neq in E. congruence.
    + destruct (IH H) as [H1 H2]. split; [right; exact H1 | exact H2].
Qed.

Lemma nodup_remove p s : nodup_keys s -> nodup_keys (remove_key p s).
Proof.
  unfold nodup_keys. induction s as [|[k e] s IH]; cbn [remove_key keys map fst]; intros H; [constructor|].
  inversion H as [|? ? Hk Hs]; subst. destruct (path_eqb p k); [exact (IH Hs)|].
  cbn [keys map fst]. constructor; [|exact (IH Hs)].
  intros Hin. apply keys_remove in Hin. exact (Hk (proj1 Hin)).
Qed.

Lemma nodup_set s p e : nodup_keys s -> nodup_keys (set s p e).
Proof.
  intros H. unfold set, nodup_keys. cbn [keys map fst]. constructor; [|exact (nodup_remove p s H)].
  intros Hin. apply keys_remove in Hin. exact (proj2 Hin eq_refl).
Qed.

Lemma in_lookup s : nodup_keys s -> forall q e, In (q, e) s <-> lookup s q = Some e.
Proof.
  unfold nodup_keys. induction s as [|[k e'] s IH]; intros H q e; cbn [lookup In]; [split; [tauto | discriminate]|].
  cbn [keys map fst] in H. inversion H as [|? ? Hk Hs]; subst.
  destruct (path_eqb q k) eqn:E.
  - apply path_eqb_eq in E. subst k. split.
    + intros [Heq|Hin]; [inversion Heq; reflexivity|]. exfalso. apply Hk. apply (in_map fst) in Hin. exact Hin.
    + intros Heq. inversion Heq. left. reflexivity.
  - apply path_eqb_neq in E. rewrite <- (IH Hs). split; [intros [Heq|Hin]; [inversion Heq; congruence | exact Hin] | tauto].
Qed.

(** ---- prefixes -------------------------------------------------------------------------------------- *)
Definition is_prefix (q p : path) : bool := existsb (path_eqb q) (prefixes p).

Lemma is_prefix_In q p : is_prefix q p = true <-> In q (prefixes p).
Proof.
  unfold is_prefix. rewrite existsb_exists. split.
  - intros (x & Hx & E). apply path_eqb_eq in E. subst. exact Hx.
  - intros H. exists q. split; [exact H | apply path_eqb_refl].
Qed.

Lemma prefixes_spec p : forall q, In q (prefixes p) <-> exists r, r <> [] /\ p = q ++ r.
Proof.
  induction p as [|x p IH]; intros q; cbn [prefixes].
  - split; [intros [] | intros (r & Hr & E)]. destruct q; cbn in E; [subst; congruence | discriminate].
  - cbn [In]. rewrite in_map_iff. split.
    + intros [<-|(q' & <- & Hq')].
      * exists (x :: p). split; [discriminate | reflexivity].
      * apply IH in Hq'. destruct Hq' as (r & Hr & ->). exists r. split; [exact Hr | reflexivity].
    + intros (r & Hr & E). destruct q as [|y q]; [left; reflexivity|]. right.
      cbn [app] in E. inversion E; subst. exists q. split; [reflexivity|]. apply IH. exists r. split; [exact Hr | reflexivity].
Qed.

Lemma prefix_neq q p : In q (prefixes p) -> q <> p.
Proof.
  intros H. apply prefixes_spec in H. destruct H as (r & Hr & ->). intros E.
  rewrite <- (app_nil_r q) in E at 1. apply app_inv_head in E. congruence.
Qed.

(** ---- stat after the primitive updates ---------------------------------------------------------------- *)
Lemma stat_set s p e q : p <> [] -> stat (set s p e) q = if path_eqb q p then Some e else stat s q.
Proof.
  intros Hp. destruct q as [|x q]; cbn [stat].
  - destruct p; [congruence | reflexivity].
  - apply lookup_set.
Qed.

Lemma stat_mkdirs_gen l : forall s q,
  stat (fold_left (fun s q => match q with [] => s | _ => set s q D end) l s) q
  = if existsb (path_eqb q) l then Some D else stat s q.
Proof.
  induction l as [|k l IH]; intros s q; cbn [fold_left existsb]; [reflexivity|].
  rewrite IH. destruct (existsb (path_eqb q) l); [rewrite orb_true_r; reflexivity|]. rewrite orb_false_r.
  destruct k as [|x k].
  - destruct q; cbn [path_eqb stat]; reflexivity.
  - rewrite stat_set by discriminate. destruct (path_eqb q (x :: k)); reflexivity.
Qed.

Lemma stat_mkdirs s p q : stat (mkdirs s p) q = if is_prefix q p then Some D else stat s q.
Proof. apply stat_mkdirs_gen. Qed.

Lemma nodup_mkdirs s p : nodup_keys s -> nodup_keys (mkdirs s p).
Proof.
  unfold mkdirs. generalize (prefixes p). intros l. revert s.
  induction l as [|k l IH]; intros s H; cbn [fold_left]; [exact H|].
  apply IH. destruct k; [exact H | apply nodup_set; exact H].
Qed.

Lemma file_prefix_false s p : file_prefix s p = false <-> forall q, In q (prefixes p) -> is_file s q = false.
Proof.
  unfold file_prefix. split.
  - intros H q Hq. destruct (is_file s q) eqn:E; [|reflexivity].
    assert (existsb (is_file s) (prefixes p) = true) by (apply existsb_exists; exists q; auto). congruence.
  - intros H. destruct (existsb (is_file s) (prefixes p)) eqn:E; [|reflexivity].
    apply existsb_exists in E. destruct E as (q & Hq & Hf). rewrite (H q Hq) in Hf. discriminate.
Qed.

(** ---- write_file ---------------------------------------------------------------------------------------- *)
Lemma write_file_ok s p d s' : write_file s p d = Ok s' ->
  p <> [] /\ file_prefix s p = false /\ is_dir s p = false /\
  forall q, stat s' q = if path_eqb q p then Some (F d) else if is_prefix q p then Some D else stat s q.
Proof.
  unfold write_file. destruct (file_prefix s p) eqn:Ef; [discriminate|].
  destruct (is_dir s p) eqn:Ed; [discriminate|]. intros H. inversion H; subst. clear H.
  assert (Hp : p <> []) by (intros ->; cbn in Ed; discriminate).
  repeat split; try assumption. intros q. rewrite stat_set by exact Hp. rewrite stat_mkdirs. reflexivity.
Qed.

Lemma write_file_nodup s p d s' : nodup_keys s -> write_file s p d = Ok s' -> nodup_keys s'.
Proof.
  unfold write_file. destruct (file_prefix s p); [discriminate|]. destruct (is_dir s p); [discriminate|].
  intros Hn H. inversion H; subst. apply nodup_set. apply nodup_mkdirs. exact Hn.
Qed.

(** existing entries other than the target survive a successful write *)
Lemma write_file_frame s p d s' q e : write_file s p d = Ok s' -> stat s q = Some e -> q <> p -> stat s' q = Some e.
Proof.
  intros H Hq Hne. destruct (write_file_ok _ _ _ _ H) as (_ & Hf & _ & Hs). rewrite Hs.
  assert (path_eqb q p = false) as -> by (apply path_eqb_neq; exact Hne).
  destruct (is_prefix q p) eqn:E; [|exact Hq].
  apply is_prefix_In in E. rewrite file_prefix_false in Hf. specialize (Hf q E).
  unfold is_file in Hf. rewrite Hq in Hf. destruct e; [discriminate | reflexivity].
Qed.

Lemma write_file_err s p d e : write_file s p d = Err e ->
  (e = ENOTDIR /\ file_prefix s p = true) \/ (e = EISDIR /\ file_prefix s p = false /\ is_dir s p = true).
Proof.
  unfold write_file. destruct (file_prefix s p); [intros H; inversion H; left; auto|].
  destruct (is_dir s p); [intros H; inversion H; right; auto | discriminate].
Qed.

(** ---- write_all ----------------------------------------------------------------------------------------- *)
Lemma write_all_ok ws : forall s s', write_all s ws = Ok s' -> NoDup (map fst ws) ->
  (forall p d, In (p, d) ws -> stat s' p = Some (F d)) /\
  (forall q e, stat s q = Some e -> ~ In q (map fst ws) -> stat s' q = Some e).
Proof.
  induction ws as [|[p d] r IH]; intros s s' H Hnd; cbn [write_all] in H.
  - inversion H; subst. split; [intros p d [] | intros q e Hq _; exact Hq].
  - destruct (write_file s p d) as [s1|e1] eqn:Ew; [|discriminate].
    cbn [map fst] in Hnd. inversion Hnd as [|? ? Hp Hr]; subst.
    destruct (IH s1 s' H Hr) as [IH1 IH2]. split.
    + intros p' d' [Heq|Hin]; [|exact (IH1 p' d' Hin)]. inversion Heq; subst.
      apply IH2; [|exact Hp]. destruct (write_file_ok _ _ _ _ Ew) as (_ & _ & _ & Hs). rewrite Hs, path_eqb_refl. reflexivity.
    + intros q e Hq Hnin. cbn [map fst In] in Hnin. apply IH2; [|tauto].
      apply (write_file_frame _ _ _ _ _ _ Ew Hq). intros ->. apply Hnin. left. reflexivity.
Qed.

Lemma write_all_nodup ws : forall s s', nodup_keys s -> write_all s ws = Ok s' -> nodup_keys s'.
Proof.
  induction ws as [|[p d] r IH]; intros s s' Hn H; cbn [write_all] in H; [inversion H; subst; exact Hn|].
  destruct (write_file s p d) as [s1|e1] eqn:Ew; [|discriminate].
  exact (IH s1 s' (write_file_nodup _ _ _ _ Hn Ew) H).
Qed.

Lemma write_all_err ws : forall s e, write_all s ws = Err e ->
  exists pre p d post s1, ws = pre ++ (p, d) :: post /\ write_all s pre = Ok s1 /\ write_file s1 p d = Err e.
Proof.
  induction ws as [|[p d] r IH]; intros s e H; cbn [write_all] in H; [discriminate|].
  destruct (write_file s p d) as [s1|e1] eqn:Ew.
  - destruct (IH s1 e H) as (pre & p' & d' & post & s2 & -> & H1 & H2).
    exists ((p, d) :: pre), p', d', post, s2. cbn [app write_all]. rewrite Ew. auto.
  - inversion H; subst. exists [], p, d, r, s. auto.
Qed.

(** ---- listing the source --------------------------------------------------------------------------------- *)
Lemma strip_prefix_spec pre : forall p r, strip_prefix pre p = Some r <-> p = pre ++ r.
Proof.
  induction pre as [|x pre IH]; intros p r; cbn [strip_prefix app].
  - split; [intros H; inversion H; reflexivity | intros ->; reflexivity].
  - destruct p as [|y p]; [split; discriminate|].
    destruct (Nat.eqb x y) eqn:E.
    + apply Nat.eqb_eq in E. subst y. rewrite IH. split; [intros ->; reflexivity | intros H; inversion H; reflexivity].
    + apply Nat.eqb_neq in E. split; [discriminate | intros H; inversion H; congruence].
Qed.

Lemma files_under_In s src rel d :
  In (rel, d) (files_under s src) <-> rel <> [] /\ In (src ++ rel, F d) s.
Proof.
  unfold files_under. rewrite in_flat_map. split.
  - intros ([q e] & Hin & H). cbn [fst snd] in H. destruct e as [d'|]; [|destruct H].
    destruct (strip_prefix src q) as [[|x r]|] eqn:E; [destruct H | | destruct H].
    destruct H as [H|[]]. inversion H; subst. apply strip_prefix_spec in E. subst q. split; [discriminate | exact Hin].
  - intros [Hr Hin]. exists (src ++ rel, F d). split; [exact Hin|]. cbn [fst snd].
    assert (E : strip_prefix src (src ++ rel) = Some rel) by (apply strip_prefix_spec; reflexivity).
    rewrite E. destruct rel; [congruence | left; reflexivity].
Qed.

Lemma files_under_stat s src rel d : nodup_keys s ->
  (In (rel, d) (files_under s src) <-> rel <> [] /\ stat s (src ++ rel) = Some (F d)).
Proof.
  intros Hn. rewrite files_under_In, (in_lookup s Hn). split; intros [Hr H]; (split; [exact Hr|]).
  - destruct (src ++ rel) eqn:E; [apply app_eq_nil in E; tauto | exact H].
  - destruct (src ++ rel) eqn:E; [apply app_eq_nil in E; tauto | exact H].
Qed.

Lemma files_under_nodup s src : nodup_keys s -> NoDup (map fst (files_under s src)).
Proof.
  unfold nodup_keys. induction s as [|[q e] s IH]; intros H; [constructor|].
  cbn [keys map fst] in H. inversion H as [|? ? Hq Hs]; subst. specialize (IH Hs).
  unfold files_under in *. cbn [flat_map fst snd].
  destruct e as [d|]; [|exact IH].
  destruct (strip_prefix src q) as [[|x r]|] eqn:E; try exact IH.
  cbn [app map fst]. constructor; [|exact IH].
  intros Hin. apply in_map_iff in Hin. destruct Hin as ([rel d'] & Hrel & Hin). cbn [fst] in Hrel. subst rel.
  apply (files_under_In s src (x :: r) d') in Hin. destruct Hin as [_ Hin].
  apply strip_prefix_spec in E. subst q. apply Hq. apply (in_map fst) in Hin. exact Hin.
Qed.

(** ---- one source of one transfer -------------------------------------------------------------------------- *)
Lemma writes_nodup s src slash fd : nodup_keys s -> NoDup (map fst (writes s src slash fd)).
Proof.
  intros Hn. unfold writes. destruct (src_is_file s src slash).
  - destruct (stat s src) as [[d|]|]; cbn; repeat constructor; intros [].
  - rewrite map_map. cbn [fst].
    pose proof (files_under_nodup s src Hn) as H. revert H. generalize (files_under s src). intros l.
    induction l as [|[rel d] l IH]; cbn [map fst]; intros H; [constructor|].
    inversion H as [|? ? Hr Hl]; subst. constructor; [|exact (IH Hl)].
    intros Hin. apply in_map_iff in Hin. destruct Hin as ([rel' d'] & E & Hin). cbn [fst] in E.
    apply app_inv_head in E. subst rel'. apply Hr. apply (in_map fst) in Hin. exact Hin.
Qed.

(** what [writes] contains: the source file itself, or every regular file below the source directory *)
Lemma writes_file s src fd d : src_is_file s src false = true -> stat s src = Some (F d) ->
  writes s src false fd = [(fd, d)].
Proof. intros H1 H2. unfold writes. rewrite H1, H2. reflexivity. Qed.

Lemma writes_dir s src slash fd : nodup_keys s -> src_is_file s src slash = false ->
  forall p d, In (p, d) (writes s src slash fd) <-> exists rel, rel <> [] /\ p = fd ++ rel /\ stat s (src ++ rel) = Some (F d).
Proof.
  intros Hn H p d. unfold writes. rewrite H, in_map_iff. split.
  - intros ([rel d'] & E & Hin). cbn [fst snd] in E. inversion E; subst.
    apply (files_under_stat s src rel d Hn) in Hin. exists rel. tauto.
  - intros (rel & Hr & -> & Hs). exists (rel, d). split; [reflexivity|]. apply (files_under_stat s src rel d Hn). tauto.
Qed.

Definition step_writes (s : fsys) (t : transfer) (src : path) (slash : bool) : list (path * list nat) :=
  match dest_type s t with Ok dt => writes s src slash (fst (full_dest t dt src)) | Err _ => [] end.

Lemma copy_source_ok s t src slash s' : nodup_keys s -> copy_source s t src slash = Ok s' ->
  nodup_keys s' /\
  (src_is_file s src slash = true \/ is_dir s src = true) /\
  (forall p d, In (p, d) (step_writes s t src slash) -> stat s' p = Some (F d)) /\
  (forall q e, stat s q = Some e -> ~ In q (map fst (step_writes s t src slash)) -> stat s' q = Some e).
Proof.
  intros Hn H. unfold copy_source in H. unfold step_writes.
  assert (Hmain : (if negb slash && file_prefix s src then Err ENOTDIR
    else if negb (src_is_file s src slash) && negb (is_dir s src) then Err ENOENT
    else match dest_type s t with
         | Err e => Err e
         | Ok dt => let (fd, ft) := full_dest t dt src in
             if src_is_file s src slash
             then match ft with Some KDir => Err EISDIR | _ => write_all s (writes s src slash fd) end
             else match ft with Some KFile => Err ENOTDIR | _ => write_all s (writes s src slash fd) end
         end) = Ok s').
  { destruct (t_mode t); [exact H | destruct (t_is_list t); [discriminate | exact H] | exact H]. }
  clear H. destruct (negb slash && file_prefix s src); [discriminate|].
  destruct (negb (src_is_file s src slash) && negb (is_dir s src)) eqn:Ek; [discriminate|].
  destruct (dest_type s t) as [dt|e]; [|discriminate].
  destruct (full_dest t dt src) as [fd ft] eqn:Efd. cbn [fst].
  assert (Hw : write_all s (writes s src slash fd) = Ok s').
  { destruct (src_is_file s src slash); [destruct ft as [[|]|]; try discriminate; exact Hmain
                                        | destruct ft as [[|]|]; try discriminate; exact Hmain]. }
  destruct (write_all_ok _ _ _ Hw (writes_nodup s src slash fd Hn)) as [W1 W2].
  split; [exact (write_all_nodup _ _ _ Hn Hw)|]. split; [|split; assumption].
  destruct (src_is_file s src slash); [left; reflexivity|]. right.
  destruct (is_dir s src); [reflexivity | discriminate].
Qed.

(** the documented errors and their causes *)
Definition failing_write (s : fsys) (t : transfer) (src : path) (slash : bool) (cond : fsys -> path -> bool) : Prop :=
  exists dt pre p d post s1, dest_type s t = Ok dt /\
    writes s src slash (fst (full_dest t dt src)) = pre ++ (p, d) :: post /\ write_all s pre = Ok s1 /\ cond s1 p = true.

Definition err_cause (s : fsys) (t : transfer) (src : path) (slash : bool) (e : err) : Prop :=
  match e with
  | ENOENT => (* missing source (a regular file named with a trailing slash counts as missing) *)
      src_is_file s src slash = false /\ is_dir s src = false
  | EISDIR => (* file onto directory *)
      (src_is_file s src slash = true /\ t_mode t = DestIsTarget /\ t_dest_slash t = true)
      \/ failing_write s t src slash is_dir
  | ENOTDIR => (* directory (or a path below it) onto a file *)
      (t_mode t = DestIsTarget /\ t_is_list t = true)
      \/ (slash = false /\ file_prefix s src = true)
      \/ (eff_mode t = InferDest /\ t_is_list t = false /\ file_prefix s (t_dest t) = true)
      \/ (src_is_file s src slash = false /\ eff_mode t = InferDest /\ t_is_list t = false /\ is_file s (t_dest t) = true)
      \/ failing_write s t src slash file_prefix
  end.

Lemma write_all_err_cause s t src slash dt e :
  dest_type s t = Ok dt -> write_all s (writes s src slash (fst (full_dest t dt src))) = Err e ->
  err_cause s t src slash e.
Proof.
  intros Hdt H. destruct (write_all_err _ _ _ H) as (pre & p & d & post & s1 & E & H1 & H2).
  destruct (write_file_err _ _ _ _ H2) as [[-> Hc]|[-> [_ Hc]]]; cbn [err_cause].
  - right. right. right. right. exists dt, pre, p, d, post, s1. auto.
  - right. exists dt, pre, p, d, post, s1. auto.
Qed.

Lemma copy_source_err s t src slash e : copy_source s t src slash = Err e -> err_cause s t src slash e.
Proof.
  intros H. unfold copy_source in H.
  destruct (t_mode t) eqn:Em; [| destruct (t_is_list t) eqn:El; [inversion H; subst; left; auto|] |];
  (destruct (negb slash && file_prefix s src) eqn:E1;
   [inversion H; subst; apply andb_true_iff in E1; destruct E1 as [Es Ef]; apply negb_true_iff in Es;
    right; left; auto|];
   destruct (negb (src_is_file s src slash) && negb (is_dir s src)) eqn:E2;
   [inversion H; subst; apply andb_true_iff in E2; destruct E2 as [Ea Eb];
    apply negb_true_iff in Ea; apply negb_true_iff in Eb; split; assumption|];
   destruct (dest_type s t) as [dt|e'] eqn:Edt).
  (* DestDir, dest_type Ok *)
  - unfold full_dest, eff_mode in H. rewrite Em in H.
    destruct (src_is_file s src slash); apply (write_all_err_cause s t src slash dt e Edt);
      unfold full_dest, eff_mode; rewrite Em; cbn [fst]; exact H.
  - unfold dest_type, eff_mode in Edt. rewrite Em in Edt. discriminate.
  (* DestIsTarget, single source *)
  - unfold dest_type, eff_mode in Edt. rewrite Em in Edt. inversion Edt; subst dt.
    unfold full_dest, eff_mode in H. rewrite Em in H.
    destruct (src_is_file s src slash) eqn:Ef.
    + destruct (t_dest_slash t) eqn:Es.
      * inversion H; subst. left. auto.
      * apply (write_all_err_cause s t src slash None e); [unfold dest_type, eff_mode; rewrite Em; reflexivity|].
        unfold full_dest, eff_mode; rewrite Em; cbn [fst]. exact H.
    + destruct (t_dest_slash t) eqn:Es;
        (apply (write_all_err_cause s t src slash None e); [unfold dest_type, eff_mode; rewrite Em; reflexivity|];
         unfold full_dest, eff_mode; rewrite Em; cbn [fst]; exact H).
  - unfold dest_type, eff_mode in Edt. rewrite Em in Edt. discriminate.
  (* InferDest *)
  - destruct (full_dest t dt src) as [fd ft] eqn:Efd.
    assert (Hcase : (ft = None \/ (ft = Some KFile /\ eff_mode t = InferDest /\ t_is_list t = false /\ is_file s (t_dest t) = true))).
    { unfold full_dest in Efd. unfold dest_type in Edt. unfold eff_mode in *. rewrite Em in *.
      destruct (t_dest_slash t).
      - inversion Efd; auto.
      - destruct (t_is_list t) eqn:El.
        + inversion Edt; subst dt. inversion Efd; auto.
        + destruct (file_prefix s (t_dest t)); [discriminate|].
          unfold is_file. destruct (stat s (t_dest t)) as [[d|]|]; inversion Edt; subst dt; inversion Efd; subst; auto. }
    assert (Hfst : fd = fst (full_dest t dt src)) by (rewrite Efd; reflexivity).
    destruct Hcase as [->|(-> & Hc1 & Hc2 & Hc3)].
    + destruct (src_is_file s src slash); (apply (write_all_err_cause s t src slash dt e Edt); rewrite <- Hfst; exact H).
    + destruct (src_is_file s src slash) eqn:Ef.
      * apply (write_all_err_cause s t src slash dt e Edt). rewrite <- Hfst. exact H.
      * inversion H; subst. right. right. right. left. auto.
  - inversion H; subst e'. unfold dest_type in Edt.
    assert (Hem : e = ENOTDIR /\ eff_mode t = InferDest /\ t_is_list t = false /\ file_prefix s (t_dest t) = true).
    { destruct (eff_mode t); try discriminate. destruct (t_is_list t); [discriminate|].
      destruct (file_prefix s (t_dest t)); [inversion Edt; auto | destruct (stat s (t_dest t)) as [[?|]|]; discriminate]. }
    destruct Hem as (-> & Hem). right. right. left. exact Hem.
Qed.

(** ---- sequences of transfers ------------------------------------------------------------------------------- *)
Lemma run_app pre : forall post s, run (pre ++ post) s = match run pre s with Ok s1 => run post s1 | Err e => Err e end.
Proof.
  induction pre as [|[[t src] slash] pre IH]; intros post s; cbn [app run]; [reflexivity|].
  destruct (copy_source s t src slash) as [s1|e]; [apply IH | reflexivity].
Qed.

Lemma run_nodup steps : forall s s', nodup_keys s -> run steps s = Ok s' -> nodup_keys s'.
Proof.
  induction steps as [|[[t src] slash] r IH]; intros s s' Hn H; cbn [run] in H; [inversion H; subst; exact Hn|].
  destruct (copy_source s t src slash) as [s1|e] eqn:E; [|discriminate].
  exact (IH s1 s' (proj1 (copy_source_ok _ _ _ _ _ Hn E)) H).
Qed.

(** a file stays as it is through later steps that do not write to its path *)
Lemma run_keeps post : forall s2 s', nodup_keys s2 -> run post s2 = Ok s' ->
  forall p e, stat s2 p = Some e ->
  (forall post1 t src slash post2 s3, post = post1 ++ (t, src, slash) :: post2 -> run post1 s2 = Ok s3 ->
     ~ In p (map fst (step_writes s3 t src slash))) ->
  stat s' p = Some e.
Proof.
  induction post as [|[[t src] slash] r IH]; intros s2 s' Hn H p e Hp Hno; cbn [run] in H; [inversion H; subst; exact Hp|].
  destruct (copy_source s2 t src slash) as [s3|e3] eqn:E; [|discriminate].
  destruct (copy_source_ok _ _ _ _ _ Hn E) as (Hn3 & _ & _ & Hframe).
  apply (IH s3 s' Hn3 H p e).
  - apply Hframe; [exact Hp|]. exact (Hno [] t src slash r s2 eq_refl eq_refl).
  - intros post1 t' src' slash' post2 s4 Er Hr.
    apply (Hno ((t, src, slash) :: post1) t' src' slash' post2 s4); [rewrite Er; reflexivity|].
    cbn [run]. rewrite E. exact Hr.
Qed.

Theorem run_identical pre t src slash post s s' : nodup_keys s -> run (pre ++ (t, src, slash) :: post) s = Ok s' ->
  exists s1, run pre s = Ok s1 /\
    (src_is_file s1 src slash = true \/ is_dir s1 src = true) /\
    forall p d, In (p, d) (step_writes s1 t src slash) ->
      (forall post1 t' src' slash' post2 s3, post = post1 ++ (t', src', slash') :: post2 ->
         run (pre ++ (t, src, slash) :: post1) s = Ok s3 -> ~ In p (map fst (step_writes s3 t' src' slash'))) ->
      stat s' p = Some (F d).
Proof.
  intros Hn H. rewrite run_app in H. destruct (run pre s) as [s1|e] eqn:Epre; [|discriminate].
  exists s1. split; [reflexivity|]. cbn [run] in H.
  destruct (copy_source s1 t src slash) as [s2|e2] eqn:E; [|discriminate].
  pose proof (run_nodup _ _ _ Hn Epre) as Hn1.
  destruct (copy_source_ok _ _ _ _ _ Hn1 E) as (Hn2 & Hkind & Hw & _). split; [exact Hkind|].
  intros p d Hin Hno. apply (run_keeps post s2 s' Hn2 H p (F d) (Hw p d Hin)).
  intros post1 t' src' slash' post2 s3 Er Hr. apply (Hno post1 t' src' slash' post2 s3 Er).
  rewrite run_app, Epre. cbn [run]. rewrite E. exact Hr.
Qed.

(** ---- destination rules ------------------------------------------------------------------------------------- *)
Lemma dest_rules s t src dt : dest_type s t = Ok dt ->
  let fd := fst (full_dest t dt src) in
  match t_mode t with
  | DestDir => fd = t_dest t ++ basename src
  | DestIsTarget => fd = t_dest t
  | InferDest =>
      if t_dest_slash t || t_is_list t || is_dir s (t_dest t) then fd = t_dest t ++ basename src else fd = t_dest t
  end.
Proof.
  intros Hdt. unfold full_dest, dest_type, eff_mode in *. destruct (t_mode t) eqn:Em; cbn zeta.
  - reflexivity.
  - destruct (t_dest_slash t); reflexivity.
  - destruct (t_dest_slash t); cbn [orb fst]; [reflexivity|].
    destruct (t_is_list t); cbn [orb].
    + inversion Hdt; subst. reflexivity.
    + destruct (file_prefix s (t_dest t)); [discriminate|]. unfold is_dir.
      destruct (stat s (t_dest t)) as [[d|]|]; inversion Hdt; subst; reflexivity.
Qed.

(** hypotheses are satisfiable: a tree copied into an existing directory, multi-part sizes *)
Definition ex_fs : fsys := [([1], D); ([1; 2], F [7; 8; 9]); ([1; 3], D); ([1; 3; 4], F []); ([5], D)].
Example ex_copy_dir :
  nodup_keys ex_fs /\
  exists s', copy_source ex_fs {| t_is_list := false; t_dest := [5]; t_dest_slash := false; t_mode := InferDest |} [1] false = Ok s'
    /\ stat s' [5; 1; 2] = Some (F [7; 8; 9]) /\ stat s' [5; 1; 3; 4] = Some (F []).
Proof.
  split; [repeat constructor; cbn; intuition discriminate|]. eexists. split; [vm_compute; reflexivity|]. split; reflexivity.
Qed.
Example ex_err_file_onto_dir :
  copy_source ex_fs {| t_is_list := false; t_dest := [1; 3]; t_dest_slash := false; t_mode := DestIsTarget |} [1; 2] false = Err EISDIR.
Proof. vm_compute. reflexivity. Qed.

Lemma copy_source_ok_dt s t src slash s' : copy_source s t src slash = Ok s' -> exists dt, dest_type s t = Ok dt.
Proof.
  unfold copy_source. intros H.
  assert (Hmain : (if negb slash && file_prefix s src then Err ENOTDIR
    else if negb (src_is_file s src slash) && negb (is_dir s src) then Err ENOENT
    else match dest_type s t with
         | Err e => Err e
         | Ok dt => let (fd, ft) := full_dest t dt src in
             if src_is_file s src slash
             then match ft with Some KDir => Err EISDIR | _ => write_all s (writes s src slash fd) end
             else match ft with Some KFile => Err ENOTDIR | _ => write_all s (writes s src slash fd) end
         end) = Ok s').
  { destruct (t_mode t); [exact H | destruct (t_is_list t); [discriminate | exact H] | exact H]. }
  destruct (negb slash && file_prefix s src); [discriminate|].
  destruct (negb (src_is_file s src slash) && negb (is_dir s src)); [discriminate|].
  destruct (dest_type s t) as [dt|e]; [exists dt; reflexivity | discriminate].
Qed.

(** success: every file of the source is at its destination, byte for byte, and nothing else was disturbed *)
Theorem copy_identical s t src slash s' : nodup_keys s -> copy_source s t src slash = Ok s' ->
  exists dt, dest_type s t = Ok dt /\
  let fd := fst (full_dest t dt src) in
     (* the source is a regular file: it is now at fd *)
     (forall d, slash = false -> stat s src = Some (F d) -> stat s' fd = Some (F d))
     (* the source is a directory: every regular file below it is at the same relative path below fd *)
  /\ (src_is_file s src slash = false -> is_dir s src = true /\
        forall rel d, rel <> [] -> stat s (src ++ rel) = Some (F d) -> stat s' (fd ++ rel) = Some (F d))
     (* frame: every other existing file or directory is untouched *)
  /\ (forall q e, stat s q = Some e -> ~ In q (map fst (writes s src slash fd)) -> stat s' q = Some e)
  /\ nodup_keys s'.
Proof.
  intros Hn H. destruct (copy_source_ok_dt _ _ _ _ _ H) as [dt Hdt]. exists dt. split; [exact Hdt|].
  destruct (copy_source_ok _ _ _ _ _ Hn H) as (Hn' & Hkind & Hw & Hf). unfold step_writes in Hw, Hf. rewrite Hdt in Hw, Hf.
  cbn zeta. split; [|split; [|split; [exact Hf | exact Hn']]].
  - intros d -> Hs. apply Hw. unfold writes, src_is_file, is_file. rewrite Hs. cbn [negb andb]. left. reflexivity.
  - intros Hnf. split; [destruct Hkind as [Hk|Hk]; [congruence | exact Hk]|].
    intros rel d Hr Hs. apply Hw. apply (writes_dir s src slash _ Hn Hnf). exists rel. auto.
Qed.
