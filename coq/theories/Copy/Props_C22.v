(** C22 — property theorems only (hailtop/aiotools/fs/copier.py on the local file system).

    Bytes: [chunks size part buf] is the list of (offset, length) transfers the code performs for a file of [size]
    bytes ([_copy_file] when size <= part, otherwise n_parts parts each moved in BUFFER_SIZE pieces at explicit
    offsets); [apply_chunks z data order] is the destination after those transfers happened in the order [order]
    (holes of the sparse destination read as [z]).
    Trees: a file system is a finite map path -> F bytes | D; [copy_source s t src slash] is what copying source
    [src] (written with a trailing slash iff [slash]) of transfer [t] does to [s]; [run] performs steps in sequence. *)
From HailV Require Import Common.Prelude Copy.Model Copy.LemmasBytes Copy.LemmasTree.

(** The parts, read in order, concatenate to the data — all data, part sizes and buffer sizes. *)
Theorem C22_parts_concat : forall (A : Type) (data : list A) (part buf : nat), 0 < part -> 0 < buf ->
  concat (map (fun c => slice data (fst c) (snd c)) (chunks (length data) part buf)) = data.
Proof. exact @parts_concat. Qed.
Print Assumptions C22_parts_concat.

(** Writing the chunks at their offsets reproduces the data for EVERY order (and repetition: retried parts) in which
    the concurrent part copies may perform them. *)
Theorem C22_parts_any_order : forall (A : Type) (z : A) (data : list A) (part buf : nat) (order : list (nat * nat)),
  0 < part -> 0 < buf -> (forall c, In c order <-> In c (chunks (length data) part buf)) ->
  apply_chunks z data order = data.
Proof. exact @parts_any_order. Qed.
Print Assumptions C22_parts_any_order.

(** Destination rules: copy into a directory, copy to an exact target, or infer from a trailing slash / a list of
    sources / an existing destination directory. *)
Theorem C22_dest_rules : forall (s : fsys) (t : transfer) (src : path) (dt : option kind), dest_type s t = Ok dt ->
  let fd := fst (full_dest t dt src) in
  match t_mode t with
  | DestDir => fd = t_dest t ++ basename src
  | DestIsTarget => fd = t_dest t
  | InferDest =>
      if t_dest_slash t || t_is_list t || is_dir s (t_dest t) then fd = t_dest t ++ basename src else fd = t_dest t
  end.
Proof. exact dest_rules. Qed.
Print Assumptions C22_dest_rules.

(** A copy that succeeds leaves every file of the source byte-identical at its destination and disturbs nothing else. *)
Theorem C22_copy_identical : forall (s : fsys) (t : transfer) (src : path) (slash : bool) (s' : fsys),
  nodup_keys s -> copy_source s t src slash = Ok s' ->
  exists dt, dest_type s t = Ok dt /\
  let fd := fst (full_dest t dt src) in
     (forall d, slash = false -> stat s src = Some (F d) -> stat s' fd = Some (F d))
  /\ (src_is_file s src slash = false -> is_dir s src = true /\
        forall rel d, rel <> [] -> stat s (src ++ rel) = Some (F d) -> stat s' (fd ++ rel) = Some (F d))
  /\ (forall q e, stat s q = Some e -> ~ In q (map fst (writes s src slash fd)) -> stat s' q = Some e)
  /\ nodup_keys s'.
Proof. exact copy_identical. Qed.
Print Assumptions C22_copy_identical.

(** A copy that fails raises one of the documented errors, for the documented reason. *)
Theorem C22_error_documented : forall (s : fsys) (t : transfer) (src : path) (slash : bool) (e : err),
  copy_source s t src slash = Err e -> err_cause s t src slash e.
Proof. exact copy_source_err. Qed.
Print Assumptions C22_error_documented.

(** Any sequence of transfers: what a step wrote is still there, byte for byte, at the end, unless a later step
    writes to the very same path. *)
Theorem C22_transfers_identical : forall pre t src slash post (s s' : fsys),
  nodup_keys s -> run (pre ++ (t, src, slash) :: post) s = Ok s' ->
  exists s1, run pre s = Ok s1 /\
    (src_is_file s1 src slash = true \/ is_dir s1 src = true) /\
    forall p d, In (p, d) (step_writes s1 t src slash) ->
      (forall post1 t' src' slash' post2 s3, post = post1 ++ (t', src', slash') :: post2 ->
         run (pre ++ (t, src, slash) :: post1) s = Ok s3 -> ~ In p (map fst (step_writes s3 t' src' slash'))) ->
      stat s' p = Some (F d).
Proof. exact run_identical. Qed.
Print Assumptions C22_transfers_identical.
