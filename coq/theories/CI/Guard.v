(** C30 — the re-entrancy guard of WatchedBranch._update (ci/ci/github.py).  Executable definitions only.

    The merge-gating model (CI/Model.v) treats _update_github / _update_batch / _heal(+try_to_merge) as atomic events.
    That is justified only if at most one coroutine is ever inside the body of `_update`; the code ensures it with the
    flag `WatchedBranch.updating`.  This file models that guard itself.

    * [stmt] is the control skeleton of `_update`, `notify_github_changed`, `notify_batch_changed`, `update`: assignments
      of boolean constants to the four flags, `await self.<sub-operation>(...)`, if / while / try-finally / return.  The
      skeletons are TRANSLATED from the source on every run (harness/translate/c30_guard.py -> HailG.C30.Guard) and
      proved equal to the hand-written [update_body] / [prefix] below (CI/GuardTie.v).
    * [seg_run] is a small-step interpreter with a continuation stack (Python semantics of return / exception / finally).
      It runs ONE ATOMIC SEGMENT: asyncio is cooperative, a coroutine is pre-empted only where it awaits something that
      suspends; `await self._update(...)` itself (a coroutine call) does not suspend.  Every `SAwait` is treated as a
      suspension point (a sub-operation that completes without suspending is the special case in which the scheduler
      resumes the same task at once, so nothing is lost).
    * [sstep] is the scheduler: any number of notification tasks, spawned at any time, interleaved in any order; a
      sub-operation may suspend any number of times, set any of the three `*_changed` flags to True at any of its
      suspensions (it never clears them and never touches `updating`: checked on the source by the translator), and
      ends normally or by raising.  The value of the one condition that is not about the flags
      (`(deploy_batch is None or deploy_state is not None) and not frozen and mergeable`) is chosen by the environment. *)
From HailV Require Import Common.Prelude.

Inductive flag := FUpdating | FGithub | FBatch | FState.
Record flags := mkF { f_upd : bool; f_gh : bool; f_b : bool; f_s : bool }.

Definition getf (fl : flags) (f : flag) : bool :=
  match f with FUpdating => f_upd fl | FGithub => f_gh fl | FBatch => f_b fl | FState => f_s fl end.
Definition setf (fl : flags) (f : flag) (v : bool) : flags :=
  match f with
  | FUpdating => mkF v (f_gh fl) (f_b fl) (f_s fl)
  | FGithub => mkF (f_upd fl) v (f_b fl) (f_s fl)
  | FBatch => mkF (f_upd fl) (f_gh fl) v (f_s fl)
  | FState => mkF (f_upd fl) (f_gh fl) (f_b fl) v
  end.
Definition flag_eqb (a b : flag) : bool :=
  match a, b with FUpdating, FUpdating | FGithub, FGithub | FBatch, FBatch | FState, FState => true | _, _ => false end.

Inductive call := CGithub | CBatch | CHeal | CMerge.      (* _update_github | _update_batch | _heal | try_to_merge *)

Inductive cond := CFlag (f : flag) | COr (a b : cond) | COpaque.

Inductive stmt :=
| SSet (f : flag) (v : bool)            (* self.<flag> = True / False *)
| SAwait (c : call)                     (* await self.<sub-operation>(...) *)
| SIf (c : cond) (th : list stmt)       (* if c: ...   (no else in the skeleton) *)
| SWhile (c : cond) (body : list stmt)
| STry (body fin : list stmt)           (* try: ... finally: ... *)
| SReturn
| SSkip.                                (* log.info(...) *)

(** ---- the hand-written skeleton (must equal the translation of the source: CI/GuardTie.v) ---- *)

Definition if_github : stmt := SIf (CFlag FGithub) [SSet FGithub false; SAwait CGithub].
Definition if_batch : stmt := SIf (CFlag FBatch) [SSet FBatch false; SAwait CBatch].
Definition if_merge : stmt := SIf COpaque [SAwait CMerge].
Definition if_state : stmt := SIf (CFlag FState) [SSet FState false; SAwait CHeal; if_merge].
Definition loop_cond : cond := COr (COr (CFlag FGithub) (CFlag FBatch)) (CFlag FState).
Definition loop_body : list stmt := [if_github; if_batch; if_state].
Definition fin_block : list stmt := [SSkip; SSet FUpdating false].

Definition update_body : list stmt :=
  [ SIf (CFlag FUpdating) [SSkip; SReturn];
    STry [SSkip; SSet FUpdating true; SWhile loop_cond loop_body] fin_block ].

Inductive kind := NGithub | NBatch | NAll.   (* notify_github_changed | notify_batch_changed | update *)

(** what the notification does before `await self._update(...)` *)
Definition prefix (n : kind) : list stmt :=
  match n with
  | NGithub => [SSet FGithub true]
  | NBatch => [SSet FBatch true]
  | NAll => [SSet FGithub true; SSet FBatch true; SSet FState true]
  end.

Definition program (n : kind) : list stmt := prefix n ++ update_body.

(** ---- interpreter ---- *)

Inductive mode := MNormal | MReturn | MRaise.
Inductive frame :=
| KSeq (l : list stmt)                 (* rest of the current block *)
| KLoop (c : cond) (b : list stmt)     (* re-test the loop when the body is finished *)
| KFin (f : list stmt)                 (* finally block to run however the body is left *)
| KAfter (m : mode).                   (* finally block finished: continue as before it *)
Definition kont := list frame.

(** log of flag writes: [LSet] by the skeleton (or the constructor), [LBody] by a sub-operation or a caller *)
Inductive lev := LSet (f : flag) (v : bool) | LBody (f : flag).

Fixpoint eval (op : bool) (fl : flags) (c : cond) : bool :=
  match c with CFlag f => getf fl f | COr a b => eval op fl a || eval op fl b | COpaque => op end.
Fixpoint nops (c : cond) : nat :=
  match c with CFlag _ => 0 | COr a b => nops a + nops b | COpaque => 1 end.

Inductive res :=
| RGo (m : mode) (k : kont) (fl : flags) (ev : list lev) (n : nat)
| RSusp (c : call) (k : kont)
| RDone (raised : bool).

Definition step1 (op : bool) (m : mode) (k : kont) (fl : flags) : res :=
  match m with
  | MNormal =>
    match k with
    | [] => RDone false
    | KSeq [] :: k' => RGo MNormal k' fl [] 0
    | KSeq (s :: r) :: k' =>
      match s with
      | SSkip => RGo MNormal (KSeq r :: k') fl [] 0
      | SSet f v => RGo MNormal (KSeq r :: k') (setf fl f v) [LSet f v] 0
      | SAwait c => RSusp c (KSeq r :: k')
      | SIf c th => if eval op fl c then RGo MNormal (KSeq th :: KSeq r :: k') fl [] (nops c)
                    else RGo MNormal (KSeq r :: k') fl [] (nops c)
      | SWhile c b => RGo MNormal (KLoop c b :: KSeq r :: k') fl [] 0
      | STry b f => RGo MNormal (KSeq b :: KFin f :: KSeq r :: k') fl [] 0
      | SReturn => RGo MReturn k' fl [] 0
      end
    | KLoop c b :: k' => if eval op fl c then RGo MNormal (KSeq b :: KLoop c b :: k') fl [] (nops c)
                         else RGo MNormal k' fl [] (nops c)
    | KFin f :: k' => RGo MNormal (KSeq f :: KAfter MNormal :: k') fl [] 0
    | KAfter m' :: k' => RGo m' k' fl [] 0
    end
  | _ =>
    match k with
    | [] => RDone (match m with MRaise => true | _ => false end)
    | KFin f :: k' => RGo MNormal (KSeq f :: KAfter m :: k') fl [] 0
    | _ :: k' => RGo m k' fl [] 0
    end
  end.

Inductive outcome := OSusp (c : call) (k : kont) | ODone (raised : bool) | OFuel.

(** result of one atomic segment: outcome, flags, flag writes (oldest first), number of evaluations of the opaque condition *)
Record seg := mkSeg { g_out : outcome; g_fl : flags; g_log : list lev; g_ops : nat }.

Fixpoint seg_run (fuel : nat) (op : bool) (m : mode) (k : kont) (fl : flags) (lg : list lev) (n : nat) : seg :=
  match fuel with
  | O => mkSeg OFuel fl lg n
  | S fuel' =>
    match step1 op m k fl with
    | RGo m' k' fl' ev n' => seg_run fuel' op m' k' fl' (lg ++ ev) (n + n')
    | RSusp c k' => mkSeg (OSusp c k') fl lg n
    | RDone r => mkSeg (ODone r) fl lg n
    end
  end.

Definition FUEL : nat := 100.

(** the three `*_changed` flags a sub-operation (or the caller of a notification) sets to True *)
Definition add_sets (fl : flags) (sg sb ss : bool) : flags :=
  mkF (f_upd fl) (f_gh fl || sg) (f_b fl || sb) (f_s fl || ss).
Definition sets_log (sg sb ss : bool) : list lev :=
  (if sg then [LBody FGithub] else []) ++ (if sb then [LBody FBatch] else []) ++ (if ss then [LBody FState] else []).

Definition start (n : kind) (fl : flags) (op : bool) : seg := seg_run FUEL op MNormal [KSeq (program n)] fl [] 0.
Definition resume (k : kont) (fl : flags) (raise op : bool) : seg :=
  seg_run FUEL op (if raise then MRaise else MNormal) k fl [] 0.

(** ---- the task system ---- *)

Inductive tstate := TFresh (n : kind) | TCall (c : call) (k : kont) | TDone.

Record sys := mkSys { s_fl : flags; s_tasks : list tstate; s_dropped : bool; s_log : list lev }.

(** WatchedBranch.__init__: updating False, the three changed flags True; nobody is serving them yet ([s_dropped]) *)
Definition sys0 : sys :=
  mkSys (mkF false true true true) [] true [LSet FGithub true; LSet FBatch true; LSet FState true].

Inductive sev :=
| Spawn (n : kind)                                   (* a webhook / batch callback / the periodic loop creates a notification task *)
| Start (i : nat) (sg sb ss : bool) (op : bool)      (* task i runs from its beginning to its first suspension (the caller may have set flags just before) *)
| BodyStep (i : nat) (sg sb ss : bool)               (* the sub-operation task i is in resumes, sets flags, suspends again *)
| BodyDone (i : nat) (sg sb ss : bool) (raise op : bool).   (* ... resumes, sets flags, and returns / raises; the skeleton runs to the next suspension *)

Fixpoint set_nth {A} (i : nat) (x : A) (l : list A) : list A :=
  match l with
  | [] => []
  | y :: r => match i with O => x :: r | S i' => y :: set_nth i' x r end
  end.

Definition task_after (o : outcome) : tstate := match o with OSusp c k => TCall c k | _ => TDone end.

(** ghost: true when set flags may be left with nobody to serve them: initially, and after an exception escaped from `_update` *)
Definition dropped_after (o : outcome) (entered : bool) (d : bool) : bool :=
  match o with
  | OSusp _ _ => false
  | ODone true => true
  | ODone false => if entered then false else d
  | OFuel => true
  end.

Definition finish (s : sys) (i : nat) (entered : bool) (pre : list lev) (g : seg) : sys :=
  mkSys (g_fl g) (set_nth i (task_after (g_out g)) (s_tasks s)) (dropped_after (g_out g) entered (s_dropped s))
        (s_log s ++ pre ++ g_log g).

Definition sstep (s : sys) (e : sev) : sys :=
  match e with
  | Spawn n => mkSys (s_fl s) (s_tasks s ++ [TFresh n]) (s_dropped s) (s_log s)
  | Start i sg sb ss op =>
    match nth_error (s_tasks s) i with
    | Some (TFresh n) => finish s i (negb (f_upd (s_fl s))) (sets_log sg sb ss) (start n (add_sets (s_fl s) sg sb ss) op)
    | _ => s
    end
  | BodyStep i sg sb ss =>
    match nth_error (s_tasks s) i with
    | Some (TCall _ _) => mkSys (add_sets (s_fl s) sg sb ss) (s_tasks s) (s_dropped s) (s_log s ++ sets_log sg sb ss)
    | _ => s
    end
  | BodyDone i sg sb ss raise op =>
    match nth_error (s_tasks s) i with
    | Some (TCall _ k) => finish s i true (sets_log sg sb ss) (resume k (add_sets (s_fl s) sg sb ss) raise op)
    | _ => s
    end
  end.

Definition srun (es : list sev) : sys := fold_left sstep es sys0.

(** ---- observations (for the theorems and for the comparison with the real `_update`) ---- *)

Definition in_call (t : tstate) : bool := match t with TCall _ _ => true | _ => false end.
Definition is_fresh (t : tstate) : bool := match t with TFresh _ => true | _ => false end.
Definition n_in_body (s : sys) : nat := length (filter in_call (s_tasks s)).
Definition quiescent (s : sys) : bool := negb (existsb in_call (s_tasks s)) && negb (existsb is_fresh (s_tasks s)).
Definition changed_clear (fl : flags) : bool := negb (f_gh fl) && negb (f_b fl) && negb (f_s fl).

(** the value of flag [f] after the writes of [l], starting from [v] *)
Fixpoint replay (f : flag) (l : list lev) (v : bool) : bool :=
  match l with
  | [] => v
  | LSet g w :: r => replay f r (if flag_eqb f g then w else v)
  | LBody g :: r => replay f r (if flag_eqb f g then true else v)
  end.
Definition sets_true (f : flag) (e : lev) : Prop := e = LSet f true \/ e = LBody f.

Inductive tview := VFresh | VCall (c : call) | VDone.
Definition view_task (t : tstate) : tview := match t with TFresh _ => VFresh | TCall c _ => VCall c | TDone => VDone end.
Definition view (s : sys) : (bool * bool * bool * bool) * list tview * nat :=
  ((f_upd (s_fl s), f_gh (s_fl s), f_b (s_fl s), f_s (s_fl s)), map view_task (s_tasks s), n_in_body s).

Fixpoint strace_from (s : sys) (es : list sev) : list ((bool * bool * bool * bool) * list tview * nat) :=
  match es with
  | [] => []
  | e :: r => let s' := sstep s e in view s' :: strace_from s' r
  end.
Definition strace (es : list sev) := strace_from sys0 es.

(** the continuation a task has while it is suspended in each sub-operation of [update_body] *)
Definition k_tail : kont := [KLoop loop_cond loop_body; KSeq []; KFin fin_block; KSeq []].
Definition kont_of (c : call) : kont :=
  match c with
  | CGithub => KSeq [] :: KSeq [if_batch; if_state] :: k_tail
  | CBatch => KSeq [] :: KSeq [if_state] :: k_tail
  | CHeal => KSeq [if_merge] :: KSeq [] :: k_tail
  | CMerge => KSeq [] :: KSeq [] :: KSeq [] :: k_tail
  end.
