(** C30 — auxiliary lemmas: lists, assoc lists, batch-table transformations, priority order. *)
From HailV Require Import Common.Prelude CI.Model.

(** ---------------------------------------------------------------- generic *)

Lemma NoDup_map_filter {A B} (f : A -> B) (p : A -> bool) (l : list A) :
  NoDup (map f l) -> NoDup (map f (filter p l)).
Proof.
  induction l as [|a l IH]; cbn [map filter]; intros H; [constructor|].
  inversion H as [|? ? Hn Hd]; subst. destruct (p a); cbn [map]; [constructor|]; auto.
  intros Hin. apply Hn. apply in_map_iff in Hin. destruct Hin as [x [Hx Hin]]. apply filter_In in Hin.
  apply in_map_iff. exists x. tauto.
Qed.

Lemma NoDup_map_eq {A B} (f : A -> B) (l : list A) (x y : A) :
  NoDup (map f l) -> In x l -> In y l -> f x = f y -> x = y.
Proof.
  induction l as [|a l IH]; cbn [map]; intros Hn Hx Hy Hf; [contradiction|].
  inversion Hn as [|? ? Hna Hnl]; subst.
  destruct Hx as [<-|Hx], Hy as [<-|Hy]; auto.
  - exfalso. apply Hna. rewrite Hf. apply in_map. exact Hy.
  - exfalso. apply Hna. rewrite <- Hf. apply in_map. exact Hx.
Qed.

(** ---------------------------------------------------------------- status lists *)

Lemma get_st_in k l v : get_st k l = Some v -> exists e, In e l /\ s_st e = v /\ s_ctx e = k.
Proof.
  induction l as [|e l IH]; cbn [get_st]; [discriminate|].
  destruct (s_ctx e =? k) eqn:E; intros H.
  - injection H as <-. exists e. apply Nat.eqb_eq in E. cbn; auto.
  - destruct (IH H) as [e' [Hin Hv]]. exists e'. cbn; auto.
Qed.

Lemma get_set_st k v f l : get_st k (set_st k v f l) = Some v.
Proof.
  induction l as [|e l IH]; cbn [set_st get_st s_ctx s_st]; [rewrite Nat.eqb_refl; reflexivity|].
  destruct (s_ctx e =? k) eqn:E; cbn [get_st s_ctx s_st]; [rewrite Nat.eqb_refl; reflexivity|].
  rewrite E. exact IH.
Qed.

Lemma set_st_Forall (P : sentry -> Prop) k v f l : P (mkS k v f) -> Forall P l -> Forall P (set_st k v f l).
Proof.
  intros Hn H. induction H as [|e l He Hl IH]; cbn [set_st]; [constructor; auto|].
  destruct (s_ctx e =? k); constructor; auto.
Qed.

Lemma all_success_Forall l : all_success l = true -> Forall (fun e => s_st e = SSuccess) l.
Proof.
  unfold all_success. rewrite forallb_forall. intros H. apply Forall_forall. intros e He.
  specialize (H e He). unfold is_success in H. destruct (s_st e); cbn in H; congruence.
Qed.

(** ---------------------------------------------------------------- batch table *)

Definition ids_ok (bs : list tbatch) : Prop := map tb_id bs = rev (seq 1 (length bs)).

Lemma ids_ok_nil : ids_ok []. Proof. reflexivity. Qed.

Lemma ids_ok_cons bs pr ss ts st : ids_ok bs -> ids_ok (mkTB (S (length bs)) pr ss ts st :: bs).
Proof.
  unfold ids_ok. intros H. cbn [map tb_id length]. rewrite seq_S, rev_app_distr. cbn [rev app Nat.add]. rewrite H. reflexivity.
Qed.

Lemma ids_ok_le bs tb : ids_ok bs -> In tb bs -> 1 <= tb_id tb <= length bs.
Proof.
  unfold ids_ok. intros H Hin. apply (in_map tb_id) in Hin. rewrite H in Hin. apply in_rev in Hin. apply in_seq in Hin. lia.
Qed.

Lemma ids_ok_nodup bs : ids_ok bs -> NoDup (map tb_id bs).
Proof.
  unfold ids_ok. intros ->. apply NoDup_rev. apply seq_NoDup.
Qed.

Lemma lookup_in bs tb : NoDup (map tb_id bs) -> In tb bs -> lookup_tb (tb_id tb) bs = Some tb.
Proof.
  unfold lookup_tb. induction bs as [|a bs IH]; cbn [map find In]; intros Hn Hin; [contradiction|].
  inversion Hn as [|? ? Hna Hnl]; subst. destruct Hin as [->|Hin].
  - rewrite Nat.eqb_refl. reflexivity.
  - destruct (tb_id a =? tb_id tb) eqn:E.
    + exfalso. apply Nat.eqb_eq in E. apply Hna. rewrite E. apply in_map. exact Hin.
    + auto.
Qed.

(** a step of one table entry: unchanged, or it was running and only its state changed *)
Definition tb_step (a b : tbatch) : Prop :=
  a = b \/ (tb_state a = BRunning /\ tb_id b = tb_id a /\ tb_pr b = tb_pr a /\ tb_ssha b = tb_ssha a /\ tb_tsha b = tb_tsha a).

Lemma tb_step_refl a : tb_step a a. Proof. left; reflexivity. Qed.

Lemma Forall2_refl_step bs : Forall2 tb_step bs bs.
Proof. induction bs; constructor; auto using tb_step_refl. Qed.

Lemma steps_ids bs bs' : Forall2 tb_step bs bs' -> ids_ok bs -> ids_ok bs'.
Proof.
  unfold ids_ok. intros H. assert (map tb_id bs' = map tb_id bs /\ length bs' = length bs) as [E1 E2].
  { induction H as [|a b l l' Hab Hl [IH1 IH2]]; [split; reflexivity|]. cbn [map length]. rewrite IH1, IH2.
    destruct Hab as [->|(_ & Hi & _)]; [auto|]. rewrite Hi. auto. }
  rewrite E1, E2. auto.
Qed.

Definition cur_pred (src : nat) (tb : tbatch) : bool := (tb_ssha tb =? src) && negb (is_cancelled (tb_state tb)).

Lemma current_batch_unfold src bs : current_batch src bs = find (cur_pred src) bs.
Proof. reflexivity. Qed.

(** a successful current batch stays the current batch under entry steps *)
Lemma steps_current src bs bs' tb :
  Forall2 tb_step bs bs' -> current_batch src bs = Some tb -> tb_state tb = BSuccess -> current_batch src bs' = Some tb.
Proof.
  rewrite !current_batch_unfold. intros H. induction H as [|a b l l' Hab Hl IH]; cbn [find]; [discriminate|].
  intros Hf Hs. destruct (cur_pred src a) eqn:Ea.
  - injection Hf as ->. destruct Hab as [<-|(Hr & _)]; [rewrite Ea; reflexivity| congruence].
  - assert (cur_pred src b = false) as ->; [|auto].
    destruct Hab as [<-|(Hr & _ & _ & Hss & _)]; [exact Ea|].
    unfold cur_pred in *. rewrite Hss. rewrite Hr in Ea. cbn in Ea. rewrite andb_true_r in Ea. rewrite Ea. reflexivity.
Qed.

Lemma complete_first_steps n ok bs : Forall2 tb_step bs (complete_first n ok bs).
Proof.
  induction bs as [|a bs IH]; cbn [complete_first]; [constructor|].
  destruct ((tb_pr a =? n) && is_running (tb_state a)) eqn:E.
  - constructor; [|apply Forall2_refl_step]. right. apply andb_true_iff in E. destruct E as [_ E].
    destruct (tb_state a); cbn in E; try discriminate. cbn; auto.
  - constructor; [apply tb_step_refl | exact IH].
Qed.

Lemma cancel_orphans_steps cs bs : Forall2 tb_step bs (cancel_orphans cs bs).
Proof.
  unfold cancel_orphans. induction bs as [|a bs IH]; cbn [map]; constructor; auto.
  destruct (is_running (tb_state a) && negb (is_referenced cs (tb_id a))) eqn:E; [|apply tb_step_refl].
  right. apply andb_true_iff in E. destruct E as [E _]. destruct (tb_state a); cbn in E; try discriminate. cbn; auto.
Qed.

(** ---------------------------------------------------------------- priority order *)

Lemma insert_by_in a l x : In x (insert_by a l) <-> x = a \/ In x l.
Proof.
  induction l as [|b l IH]; cbn [insert_by In]; [intuition congruence|].
  destruct (before a b); cbn [In]; [intuition congruence|]. rewrite IH. intuition congruence.
Qed.

Lemma prio_order_in l x : In x (prio_order l) <-> In x l.
Proof.
  unfold prio_order. induction l as [|a l IH]; cbn [fold_right In]; [tauto|].
  rewrite insert_by_in, IH. intuition congruence.
Qed.

(** ---------------------------------------------------------------- upd_cpr / upd_gpr *)

Lemma upd_cpr_Forall (P : cpr -> Prop) n c' l : P c' -> Forall P l -> Forall P (upd_cpr n (fun _ => c') l).
Proof.
  intros Hc H. unfold upd_cpr. induction H as [|a l Ha Hl IH]; cbn [map]; constructor; auto.
  destruct (c_num a =? n); auto.
Qed.

Lemma upd_cpr_in n c' l x : In x (upd_cpr n (fun _ => c') l) -> (x = c' /\ exists y, In y l /\ c_num y = n) \/ (In x l /\ c_num x <> n).
Proof.
  unfold upd_cpr. intros H. apply in_map_iff in H. destruct H as [y [Hy Hin]].
  destruct (c_num y =? n) eqn:E.
  - left. apply Nat.eqb_eq in E. split; [auto|]. exists y; auto.
  - right. apply Nat.eqb_neq in E. subst. auto.
Qed.

Lemma upd_cpr_nums n c' l : c_num c' = n -> map c_num (upd_cpr n (fun _ => c') l) = map c_num l.
Proof.
  intros Hc. unfold upd_cpr. rewrite map_map. apply map_ext_in. intros a _. destruct (c_num a =? n) eqn:E; [|reflexivity].
  apply Nat.eqb_eq in E. congruence.
Qed.

Lemma upd_cpr_srcs n c c' l :
  NoDup (map c_num l) -> In c l -> c_num c = n -> c_src c' = c_src c -> map c_src (upd_cpr n (fun _ => c') l) = map c_src l.
Proof.
  intros Hn Hin Hc Hs. unfold upd_cpr. rewrite map_map. apply map_ext_in. intros a Ha.
  destruct (c_num a =? n) eqn:E; [|reflexivity]. apply Nat.eqb_eq in E.
  assert (a = c) as -> by (apply (NoDup_map_eq c_num l); auto; congruence). exact Hs.
Qed.

Lemma upd_gpr_nums n f l : (forall g, g_num (f g) = g_num g) -> map g_num (upd_gpr n f l) = map g_num l.
Proof.
  intros Hf. unfold upd_gpr. rewrite map_map. apply map_ext. intros a. destruct (g_num a =? n); auto.
Qed.

Lemma upd_gpr_heads n f l : (forall g, g_head (f g) = g_head g) -> map g_head (upd_gpr n f l) = map g_head l.
Proof.
  intros Hf. unfold upd_gpr. rewrite map_map. apply map_ext. intros a. destruct (g_num a =? n); auto.
Qed.

Lemma upd_gpr_length n f l : length (upd_gpr n f l) = length l.
Proof. unfold upd_gpr. apply map_length. Qed.

Lemma post_status_nums sha v l : map g_num (post_status sha v l) = map g_num l.
Proof. unfold post_status. rewrite map_map. apply map_ext. intros a. destruct (g_head a =? sha); reflexivity. Qed.

Lemma post_status_heads sha v l : map g_head (post_status sha v l) = map g_head l.
Proof. unfold post_status. rewrite map_map. apply map_ext. intros a. destruct (g_head a =? sha); reflexivity. Qed.

Lemma post_status_length sha v l : length (post_status sha v l) = length l.
Proof. unfold post_status. apply map_length. Qed.
