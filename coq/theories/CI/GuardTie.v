(** C30 — the skeletons translated from ci/ci/github.py on this run (HailG.C30.GuardGen, written by
    harness/translate/c30_guard.py) ARE the hand-written ones the guard theorems are about.  A semantic edit of
    WatchedBranch._update / notify_github_changed / notify_batch_changed / update / the flag initialisation breaks this file. *)
From HailV Require Import Common.Prelude CI.Guard.
From HailG Require C30.GuardGen.

Lemma generated_is_hand :
  C30.GuardGen.update_body = update_body /\
  C30.GuardGen.prefix_notify_github_changed = prefix NGithub /\
  C30.GuardGen.prefix_notify_batch_changed = prefix NBatch /\
  C30.GuardGen.prefix_update = prefix NAll /\
  C30.GuardGen.init_flags = s_fl sys0.
Proof. repeat split; reflexivity. Qed.
