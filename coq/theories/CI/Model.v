(** C30 — CI merge gating (ci/ci/github.py: PR, WatchedBranch).  Executable definitions only.

    The state has three parts: what GitHub knows (pull requests with head commit, review decision, labels, commit statuses
    of the head; the target branch's commit), what the batch service knows (test batches, newest first) and what the CI
    process believes (WatchedBranch.sha and one record per tracked PR).  Commits are natural numbers handed out by a
    counter, so every push / merge commit is a commit never seen before.

    Ghost fields (not present in the code, used only to STATE the property): [c_rv_for] — the head commit for which the
    review decision was fetched; [s_for] — the commit a status entry was fetched / posted for.

    The model is of the code WITH fixes/C30.diff applied (update_from_gh_json forgets the review decision and the statuses
    of the previous head). *)
From HailV Require Import Common.Prelude.

Inductive decision := DApproved | DChanges | DRequired | DNone.      (* GitHub reviewDecision *)
Inductive review := RApproved | RChanges | RPending.                  (* PR.review_state *)
Inductive status := SSuccess | SPending | SFailure.                   (* GithubStatus *)
Inductive bstate := BRunning | BSuccess | BFailure | BCancelled.      (* batch state *)
Inductive build := BuildSuccess | BuildFailure.                       (* PR.build_state ('error' needs a failing checkout: not modelled) *)

Definition map_decision (d : decision) : review :=
  match d with DApproved => RApproved | DChanges => RChanges | DRequired => RPending | DNone => RPending end.

Definition status_eqb (a b : status) : bool :=
  match a, b with SSuccess, SSuccess | SPending, SPending | SFailure, SFailure => true | _, _ => false end.
Definition is_success (a : status) : bool := status_eqb a SSuccess.

Record labels := mkLabels { l_dnm : bool; l_hp : bool; l_dnt : bool }.   (* WIP / stacked PR; prio:high; do-not-test *)

(** CI context is 0 (GITHUB_STATUS_CONTEXT); external required checks are 1, 2, ... *)
Definition ci_ctx : nat := 0.

Record sentry := mkS { s_ctx : nat; s_st : status; s_for : nat }.

Record bref := mkB { b_id : nat; b_tsha : nat; b_ssha : nat }.          (* PR.batch: id + attributes target_sha / source_sha *)
Record tbatch := mkTB { tb_id : nat; tb_pr : nat; tb_ssha : nat; tb_tsha : nat; tb_state : bstate }.

Record gpr := mkG { g_num : nat; g_head : nat; g_decision : decision; g_labels : labels;
                    g_statuses : list (nat * status); g_open : bool }.

Record cpr := mkC { c_num : nat; c_src : nat; c_review : option review; c_rv_for : nat; c_labels : labels;
                    c_sts : list sentry; c_batch : option bref; c_build : option build }.

(** What a merge used: recorded at the moment GitHub accepts the merge. *)
Record mrec := mkM { m_pr : nat; m_src : nat; m_head : nat; m_review : option review; m_rv_for : nat; m_labels : labels;
                     m_sts : list sentry; m_batch : option bref; m_truth : option tbatch; m_build : option build;
                     m_target : option nat }.

Record state := mkSt { next_sha : nat; g_target : nat; gprs : list gpr; batches : list tbatch;
                       wb_sha : option nat; cprs : list cpr; merges : list mrec }.

Definition init : state := mkSt 1 0 [] [] None [] [].

Inductive event :=
| Open
| Push (n : nat)
| Review (n : nat) (d : decision)
| Label (n : nat) (l : labels)
| Status (n ctx : nat) (s : status)
| TargetMove
| BatchComplete (n : nat) (ok : bool)
| Fetch (k : option nat)
| UpdateBatch
| HealMerge (do_merge : bool).

(** ------------------------------------------------------------------------------------------------ helpers *)

Definition upd_gpr (n : nat) (f : gpr -> gpr) (l : list gpr) : list gpr :=
  map (fun g => if g_num g =? n then f g else g) l.

Definition upd_cpr (n : nat) (f : cpr -> cpr) (l : list cpr) : list cpr :=
  map (fun c => if c_num c =? n then f c else c) l.

Fixpoint set_assoc (k : nat) (v : status) (l : list (nat * status)) : list (nat * status) :=
  match l with
  | [] => [(k, v)]
  | (k', v') :: r => if k' =? k then (k, v) :: r else (k', v') :: set_assoc k v r
  end.

Fixpoint get_st (k : nat) (l : list sentry) : option status :=
  match l with
  | [] => None
  | e :: r => if s_ctx e =? k then Some (s_st e) else get_st k r
  end.

Fixpoint set_st (k : nat) (v : status) (f : nat) (l : list sentry) : list sentry :=
  match l with
  | [] => [mkS k v f]
  | e :: r => if s_ctx e =? k then mkS k v f :: r else e :: set_st k v f r
  end.

Definition lookup_tb (id : nat) (bs : list tbatch) : option tbatch := find (fun tb => tb_id tb =? id) bs.

Definition opt_status_eqb (a : option status) (b : status) : bool :=
  match a with Some x => status_eqb x b | None => false end.

(** PR.github_status_from_build_state *)
Definition intended (c : cpr) : status :=
  match c_build c with
  | Some BuildFailure => SFailure
  | Some BuildSuccess => match c_batch c with Some _ => SSuccess | None => SPending end
  | None => SPending
  end.

(** ------------------------------------------------------------------------------------------------ GitHub / batch events *)

Definition do_open (s : state) : state :=
  let n := S (length (gprs s)) in
  mkSt (S (next_sha s)) (g_target s) (gprs s ++ [mkG n (next_sha s) DNone (mkLabels false false false) [] true])
       (batches s) (wb_sha s) (cprs s) (merges s).

Definition do_push (n : nat) (s : state) : state :=
  if existsb (fun g => (g_num g =? n) && g_open g) (gprs s) then
    mkSt (S (next_sha s)) (g_target s)
         (upd_gpr n (fun g => mkG (g_num g) (next_sha s) (g_decision g) (g_labels g) [] (g_open g)) (gprs s))
         (batches s) (wb_sha s) (cprs s) (merges s)
  else s.

Definition set_gprs (s : state) (l : list gpr) : state :=
  mkSt (next_sha s) (g_target s) l (batches s) (wb_sha s) (cprs s) (merges s).

Definition do_review (n : nat) (d : decision) (s : state) : state :=
  set_gprs s (upd_gpr n (fun g => mkG (g_num g) (g_head g) d (g_labels g) (g_statuses g) (g_open g)) (gprs s)).

Definition do_label (n : nat) (l : labels) (s : state) : state :=
  set_gprs s (upd_gpr n (fun g => mkG (g_num g) (g_head g) (g_decision g) l (g_statuses g) (g_open g)) (gprs s)).

Definition do_status (n ctx : nat) (v : status) (s : state) : state :=
  if ctx =? ci_ctx then s else
  set_gprs s (upd_gpr n (fun g => mkG (g_num g) (g_head g) (g_decision g) (g_labels g) (set_assoc ctx v (g_statuses g)) (g_open g)) (gprs s)).

Definition do_target_move (s : state) : state :=
  mkSt (S (next_sha s)) (next_sha s) (gprs s) (batches s) (wb_sha s) (cprs s) (merges s).

Definition is_running (b : bstate) : bool := match b with BRunning => true | _ => false end.

(** the newest running batch of PR n completes *)
Fixpoint complete_first (n : nat) (ok : bool) (bs : list tbatch) : list tbatch :=
  match bs with
  | [] => []
  | tb :: r => if (tb_pr tb =? n) && is_running (tb_state tb)
               then mkTB (tb_id tb) (tb_pr tb) (tb_ssha tb) (tb_tsha tb) (if ok then BSuccess else BFailure) :: r
               else tb :: complete_first n ok r
  end.

Definition do_batch_complete (n : nat) (ok : bool) (s : state) : state :=
  mkSt (next_sha s) (g_target s) (gprs s) (complete_first n ok (batches s)) (wb_sha s) (cprs s) (merges s).

(** ------------------------------------------------------------------------------------------------ WatchedBranch._update_github *)

(** PR.update_from_gh_json (with the fix) / PR.from_gh_json *)
Definition from_gh (g : gpr) (old : option cpr) : cpr :=
  match old with
  | Some c =>
      if c_src c =? g_head g
      then mkC (c_num c) (c_src c) (c_review c) (c_rv_for c) (g_labels g) (c_sts c) (c_batch c) (c_build c)
      else mkC (c_num c) (g_head g) None (g_head g) (g_labels g) [] None None
  | None => mkC (g_num g) (g_head g) None (g_head g) (g_labels g) [] None None
  end.

(** PR._update_github: review decision and the required statuses of GitHub's current head *)
Definition refresh (g : gpr) (c : cpr) : cpr :=
  mkC (c_num c) (c_src c) (Some (map_decision (g_decision g))) (g_head g) (c_labels c)
      (map (fun kv => mkS (fst kv) (snd kv) (g_head g)) (g_statuses g)) (c_batch c) (c_build c).

Definition fetch_one (old : list cpr) (g : gpr) : cpr := from_gh g (find (fun c => c_num c =? g_num g) old).

Fixpoint refresh_first (k : nat) (gs : list gpr) (cs : list cpr) : list cpr :=
  match k, gs, cs with
  | S k', g :: gs', c :: cs' => refresh g c :: refresh_first k' gs' cs'
  | _, _, _ => cs
  end.

Definition do_fetch (k : option nat) (s : state) : state :=
  let opens := filter g_open (gprs s) in
  let listed := map (fetch_one (cprs s)) opens in
  let n := match k with Some k' => k' | None => length listed end in
  mkSt (next_sha s) (g_target s) (gprs s) (batches s) (Some (g_target s)) (refresh_first n opens listed) (merges s).

(** ------------------------------------------------------------------------------------------------ PR._update_batch *)

Definition is_cancelled (b : bstate) : bool := match b with BCancelled => true | _ => false end.

Definition current_batch (src : nat) (bs : list tbatch) : option tbatch :=
  find (fun tb => (tb_ssha tb =? src) && negb (is_cancelled (tb_state tb))) bs.

Definition update_batch_pr (bs : list tbatch) (c : cpr) : cpr :=
  match current_batch (c_src c) bs with
  | None => mkC (c_num c) (c_src c) (c_review c) (c_rv_for c) (c_labels c) (c_sts c) None None
  | Some tb =>
      let b := Some (mkB (tb_id tb) (tb_tsha tb) (tb_ssha tb)) in
      match tb_state tb with
      | BSuccess => mkC (c_num c) (c_src c) (c_review c) (c_rv_for c) (c_labels c) (c_sts c) b (Some BuildSuccess)
      | BFailure => mkC (c_num c) (c_src c) (c_review c) (c_rv_for c) (c_labels c) (c_sts c) b (Some BuildFailure)
      | _ => mkC (c_num c) (c_src c) (c_review c) (c_rv_for c) (c_labels c) (c_sts c) b (c_build c)
      end
  end.

Definition do_update_batch (s : state) : state :=
  mkSt (next_sha s) (g_target s) (gprs s) (batches s) (wb_sha s) (map (update_batch_pr (batches s)) (cprs s)) (merges s).

(** ------------------------------------------------------------------------------------------------ priorities *)

Definition all_success (l : list sentry) : bool := forallb (fun e => is_success (s_st e)) l.
Definition any_failure (l : list sentry) : bool := existsb (fun e => status_eqb (s_st e) SFailure) l.

(** PR.merge_priority without the tie-breaker; larger is better *)
Definition prio_key (c : cpr) : nat :=
  (if l_hp (c_labels c) then 6 else 0) + (if l_dnm (c_labels c) then 0 else 3)
  + (if all_success (c_sts c) then 2 else if any_failure (c_sts c) then 0 else 1).

(** [before a b]: a comes before b in prs_in_merge_priority_order (oldest first among equals) *)
Definition before (a b : cpr) : bool :=
  (prio_key b <? prio_key a) || ((prio_key a =? prio_key b) && (c_num a <=? c_num b)).

Fixpoint insert_by (a : cpr) (l : list cpr) : list cpr :=
  match l with
  | [] => [a]
  | b :: r => if before a b then a :: b :: r else b :: insert_by a r
  end.

Definition prio_order (l : list cpr) : list cpr := fold_right insert_by [] l.

Definition candidate_ok (c : cpr) : bool :=
  match c_review c with Some RApproved => negb (any_failure (c_sts c)) | _ => false end.

Definition merge_candidate (l : list cpr) : option nat :=
  match find candidate_ok (prio_order l) with Some c => Some (c_num c) | None => None end.

(** ------------------------------------------------------------------------------------------------ WatchedBranch._heal *)

Definition max_concurrent : nat := 3.

Record hst := mkH { h_cprs : list cpr; h_batches : list tbatch; h_gprs : list gpr; h_running : nat }.

(** post_github_status: GitHub attaches the status to commit [sha]; it shows in the rollup of a PR whose head is [sha] *)
Definition post_status (sha : nat) (v : status) (gs : list gpr) : list gpr :=
  map (fun g => if g_head g =? sha
                then mkG (g_num g) (g_head g) (g_decision g) (g_labels g) (set_assoc ci_ctx v (g_statuses g)) (g_open g)
                else g) gs.

Definition sync_ci (c : cpr) : cpr :=
  if opt_status_eqb (get_st ci_ctx (c_sts c)) (intended c) then c
  else mkC (c_num c) (c_src c) (c_review c) (c_rv_for c) (c_labels c) (set_st ci_ctx (intended c) (c_src c) (c_sts c))
           (c_batch c) (c_build c).

Definition needs_build (t : nat) (on_deck : bool) (c : cpr) : bool :=
  match c_batch c with
  | None => true
  | Some b => on_deck && negb (b_tsha b =? t)
  end.

(** PR._heal for the PR numbered n (target sha known to be t) *)
Definition heal_one (t : nat) (cand : option nat) (h : hst) (n : nat) : hst :=
  match find (fun c => c_num c =? n) (h_cprs h) with
  | None => h
  | Some c =>
      let on_deck := match cand with Some m => m =? n | None => false end in
      let c1 := sync_ci c in
      let g1 := if opt_status_eqb (get_st ci_ctx (c_sts c)) (intended c) then h_gprs h
                else post_status (c_src c) (intended c) (h_gprs h) in
      if l_dnt (c_labels c1) then mkH (upd_cpr n (fun _ => c1) (h_cprs h)) (h_batches h) g1 (h_running h)
      else if needs_build t on_deck c1 && (on_deck || (h_running h <? max_concurrent)) then
        let id := S (length (h_batches h)) in
        let c2 := mkC (c_num c1) (c_src c1) (c_review c1) (c_rv_for c1) (c_labels c1) (c_sts c1)
                      (Some (mkB id t (c_src c1))) None in
        mkH (upd_cpr n (fun _ => c2) (h_cprs h)) (mkTB id n (c_src c1) t BRunning :: h_batches h) g1 (S (h_running h))
      else mkH (upd_cpr n (fun _ => c1) (h_cprs h)) (h_batches h) g1 (h_running h)
  end.

Definition is_referenced (cs : list cpr) (id : nat) : bool :=
  existsb (fun c => match c_batch c with Some b => b_id b =? id | None => false end) cs.

(** cancel orphan builds *)
Definition cancel_orphans (cs : list cpr) (bs : list tbatch) : list tbatch :=
  map (fun tb => if is_running (tb_state tb) && negb (is_referenced cs (tb_id tb))
                 then mkTB (tb_id tb) (tb_pr tb) (tb_ssha tb) (tb_tsha tb) BCancelled else tb) bs.

Definition count_running (cs : list cpr) : nat :=
  length (filter (fun c => match c_batch c, c_build c with Some _, None => true | _, _ => false end) cs).

Definition do_heal (s : state) : state :=
  let h0 := mkH (cprs s) (batches s) (gprs s) (count_running (cprs s)) in
  let h1 := match wb_sha s with
            | None => h0
            | Some t => fold_left (heal_one t (merge_candidate (cprs s))) (map c_num (prio_order (cprs s))) h0
            end in
  mkSt (next_sha s) (g_target s) (h_gprs h1) (cancel_orphans (h_cprs h1) (h_batches h1)) (wb_sha s) (h_cprs h1) (merges s).

(** ------------------------------------------------------------------------------------------------ try_to_merge *)

Definition up_to_date (w : option nat) (c : cpr) : bool :=
  match c_batch c, w with
  | Some b, Some t => t =? b_tsha b
  | _, _ => false
  end.

Inductive verdict := VAbort | VNo | VYes.

(** PR.is_mergeable; VAbort = the `assert self.build_state == 'success'` fails *)
Definition is_mergeable (w : option nat) (c : cpr) : verdict :=
  if opt_status_eqb (get_st ci_ctx (c_sts c)) SSuccess && negb (match c_build c with Some BuildSuccess => true | _ => false end)
  then VAbort
  else if (match c_review c with Some RApproved => true | _ => false end)
          && negb (is_nil (c_sts c)) && all_success (c_sts c) && up_to_date w c && negb (l_dnm (c_labels c))
       then VYes else VNo.

(** GitHub accepts `PUT pulls/n/merge {sha}` iff the PR is open and its head is sha *)
Definition github_accepts (gs : list gpr) (c : cpr) : bool :=
  match find (fun g => g_num g =? c_num c) gs with
  | Some g => g_open g && (g_head g =? c_src c)
  | None => false
  end.

Definition github_head (gs : list gpr) (n : nat) : nat :=
  match find (fun g => g_num g =? n) gs with Some g => g_head g | None => 0 end.

Definition record_merge (s : state) (c : cpr) : mrec :=
  mkM (c_num c) (c_src c) (github_head (gprs s) (c_num c)) (c_review c) (c_rv_for c) (c_labels c) (c_sts c) (c_batch c)
      (match c_batch c with Some b => lookup_tb (b_id b) (batches s) | None => None end) (c_build c) (wb_sha s).

Definition do_merge_pr (s : state) (c : cpr) : state :=
  mkSt (S (next_sha s)) (next_sha s)
       (upd_gpr (c_num c) (fun g => mkG (g_num g) (g_head g) (g_decision g) (g_labels g) (g_statuses g) false) (gprs s))
       (batches s) None (cprs s) (merges s ++ [record_merge s c]).

Fixpoint try_merge (s : state) (order : list cpr) : state :=
  match order with
  | [] => s
  | c :: r =>
      match is_mergeable (wb_sha s) c with
      | VAbort => s
      | VNo => try_merge s r
      | VYes => if github_accepts (gprs s) c then do_merge_pr s c else try_merge s r
      end
  end.

Definition do_heal_merge (dm : bool) (s : state) : state :=
  let s1 := do_heal s in
  if dm then try_merge s1 (prio_order (cprs s1)) else s1.

Definition step (s : state) (e : event) : state :=
  match e with
  | Open => do_open s
  | Push n => do_push n s
  | Review n d => do_review n d s
  | Label n l => do_label n l s
  | Status n ctx v => do_status n ctx v s
  | TargetMove => do_target_move s
  | BatchComplete n ok => do_batch_complete n ok s
  | Fetch k => do_fetch k s
  | UpdateBatch => do_update_batch s
  | HealMerge dm => do_heal_merge dm s
  end.

Definition run (evs : list event) : state := fold_left step evs init.

(** ------------------------------------------------------------------------------------------------ the code BEFORE fixes/C30.diff
    update_from_gh_json kept review_state and last_known_github_status across a head change.  Only used to show that
    the property fails without the fix ([C30_unfixed_refuted]). *)

Definition from_gh_unfixed (g : gpr) (old : option cpr) : cpr :=
  match old with
  | Some c =>
      if c_src c =? g_head g
      then mkC (c_num c) (c_src c) (c_review c) (c_rv_for c) (g_labels g) (c_sts c) (c_batch c) (c_build c)
      else mkC (c_num c) (g_head g) (c_review c) (c_rv_for c) (g_labels g) (c_sts c) None None
  | None => mkC (g_num g) (g_head g) None (g_head g) (g_labels g) [] None None
  end.

Definition do_fetch_unfixed (k : option nat) (s : state) : state :=
  let opens := filter g_open (gprs s) in
  let listed := map (fun g => from_gh_unfixed g (find (fun c => c_num c =? g_num g) (cprs s))) opens in
  let n := match k with Some k' => k' | None => length listed end in
  mkSt (next_sha s) (g_target s) (gprs s) (batches s) (Some (g_target s)) (refresh_first n opens listed) (merges s).

Definition step_unfixed (s : state) (e : event) : state :=
  match e with Fetch k => do_fetch_unfixed k s | _ => step s e end.

Definition run_unfixed (evs : list event) : state := fold_left step_unfixed evs init.

(** ------------------------------------------------------------------------------------------------ the property *)

Definition fresh_sts (src : nat) (l : list sentry) : Prop := Forall (fun e => s_st e = SSuccess /\ s_for e = src) l.

(** A merge is safe: approved — and that decision was fetched for the merged head; no do-not-merge label; at least one
    status, all success, each obtained for the merged head; the test batch was built from the merged head against the
    target commit CI holds as current, and it really completed successfully; GitHub's head is the merged commit. *)
Definition merge_ok (m : mrec) : Prop :=
  m_review m = Some RApproved /\ m_rv_for m = m_src m /\ l_dnm (m_labels m) = false /\
  m_sts m <> [] /\ fresh_sts (m_src m) (m_sts m) /\
  (exists b tb, m_batch m = Some b /\ m_truth m = Some tb /\ m_target m = Some (b_tsha b) /\ b_ssha b = m_src m /\
                tb_id tb = b_id b /\ tb_tsha tb = b_tsha b /\ tb_ssha tb = m_src m /\ tb_state tb = BSuccess) /\
  m_head m = m_src m.

(** ------------------------------------------------------------------------------------------------ observation (for the tie) *)

Definition obs_cpr (c : cpr) :=
  (c_num c, c_src c, c_review c, (l_dnm (c_labels c), l_hp (c_labels c), l_dnt (c_labels c)),
   map (fun e => (s_ctx e, s_st e)) (c_sts c),
   match c_batch c with Some b => Some (b_tsha b, b_ssha b) | None => None end, c_build c, intended c).

Definition obs (s : state) :=
  (wb_sha s, map obs_cpr (cprs s), g_target s,
   map (fun g => (g_num g, g_head g, g_open g, g_statuses g)) (gprs s),
   map (fun tb => (tb_id tb, tb_pr tb, tb_ssha tb, tb_tsha tb, tb_state tb)) (batches s),
   length (merges s)).

Fixpoint trace_from (s : state) (evs : list event) :=
  match evs with
  | [] => []
  | e :: r => let s' := step s e in obs s' :: trace_from s' r
  end.

Definition obs_merge (m : mrec) :=
  (m_pr m, m_src m, m_head m, m_review m, m_rv_for m, map (fun e => (s_ctx e, s_st e, s_for e)) (m_sts m),
   match m_batch m with Some b => Some (b_tsha b, b_ssha b) | None => None end,
   match m_truth m with Some tb => Some (tb_state tb) | None => None end, m_target m).
