(** C30 — Heal, TryMerge, and the theorems over all histories. *)
From HailV Require Import Common.Prelude CI.Model CI.Lemmas1 CI.Lemmas2.

Definition has_ci (c : cpr) : Prop := get_st ci_ctx (c_sts c) <> None.

Definition hinv (nx : nat) (h : hst) : Prop :=
  ids_ok (h_batches h) /\ Forall (cpr_ok (h_batches h)) (h_cprs h) /\ NoDup (map c_num (h_cprs h)) /\
  NoDup (map c_src (h_cprs h)) /\ gprs_ok nx (h_gprs h).

Lemma sync_ci_num c : c_num (sync_ci c) = c_num c.
Proof. unfold sync_ci. destruct (opt_status_eqb _ _); reflexivity. Qed.
Lemma sync_ci_src c : c_src (sync_ci c) = c_src c.
Proof. unfold sync_ci. destruct (opt_status_eqb _ _); reflexivity. Qed.
Lemma sync_ci_build c : c_build (sync_ci c) = c_build c.
Proof. unfold sync_ci. destruct (opt_status_eqb _ _); reflexivity. Qed.
Lemma sync_ci_batch c : c_batch (sync_ci c) = c_batch c.
Proof. unfold sync_ci. destruct (opt_status_eqb _ _); reflexivity. Qed.

Lemma sync_ci_ok bs c : cpr_ok bs c -> cpr_ok bs (sync_ci c).
Proof.
  intros (H1 & H2 & H3). unfold sync_ci. destruct (opt_status_eqb _ _); [repeat split; auto|].
  repeat split; cbn [c_review c_rv_for c_src c_sts c_build c_batch]; auto. apply set_st_Forall; auto.
Qed.

Lemma sync_ci_has_ci c : has_ci (sync_ci c).
Proof.
  unfold has_ci, sync_ci. destruct (opt_status_eqb (get_st ci_ctx (c_sts c)) (intended c)) eqn:E.
  - unfold opt_status_eqb in E. destruct (get_st ci_ctx (c_sts c)); [discriminate | discriminate].
  - cbn [c_sts]. rewrite get_set_st. discriminate.
Qed.

Lemma heal_one_cases t cand h n :
  (find (fun c => c_num c =? n) (h_cprs h) = None /\ heal_one t cand h n = h) \/
  exists c c' bs' gs' rn', find (fun c => c_num c =? n) (h_cprs h) = Some c /\
    heal_one t cand h n = mkH (upd_cpr n (fun _ => c') (h_cprs h)) bs' gs' rn' /\
    c_num c' = c_num c /\ c_src c' = c_src c /\ c_review c' = c_review c /\ c_rv_for c' = c_rv_for c /\
    c_sts c' = c_sts (sync_ci c) /\
    ((bs' = h_batches h /\ c_batch c' = c_batch c /\ c_build c' = c_build c) \/
     (exists pr ts, bs' = mkTB (S (length (h_batches h))) pr (c_src c) ts BRunning :: h_batches h /\ c_build c' = None)) /\
    (gs' = h_gprs h \/ exists sha v, gs' = post_status sha v (h_gprs h)).
Proof.
  unfold heal_one. destruct (find _ (h_cprs h)) as [c|] eqn:Ef; [right | left; split; reflexivity].
  set (g1 := if opt_status_eqb (get_st ci_ctx (c_sts c)) (intended c) then h_gprs h else post_status (c_src c) (intended c) (h_gprs h)).
  assert (Hg : g1 = h_gprs h \/ exists sha v, g1 = post_status sha v (h_gprs h)).
  { subst g1. destruct (opt_status_eqb _ _); [left; reflexivity | right; eauto]. }
  destruct (l_dnt (c_labels (sync_ci c))).
  - exists c, (sync_ci c), (h_batches h), g1, (h_running h). repeat split; auto using sync_ci_num, sync_ci_src.
    + unfold sync_ci; destruct (opt_status_eqb _ _); reflexivity.
    + unfold sync_ci; destruct (opt_status_eqb _ _); reflexivity.
    + left. repeat split; auto using sync_ci_batch, sync_ci_build.
  - destruct (needs_build t _ (sync_ci c) && _).
    + eexists c, _, _, g1, _. split; [reflexivity|]. split; [reflexivity|]. cbn [c_num c_src c_review c_rv_for c_sts c_build c_batch].
      repeat split; auto using sync_ci_num, sync_ci_src.
      * unfold sync_ci; destruct (opt_status_eqb _ _); reflexivity.
      * unfold sync_ci; destruct (opt_status_eqb _ _); reflexivity.
      * right. rewrite sync_ci_src. eauto.
    + exists c, (sync_ci c), (h_batches h), g1, (h_running h). repeat split; auto using sync_ci_num, sync_ci_src.
      * unfold sync_ci; destruct (opt_status_eqb _ _); reflexivity.
      * unfold sync_ci; destruct (opt_status_eqb _ _); reflexivity.
      * left. repeat split; auto using sync_ci_batch, sync_ci_build.
Qed.

Lemma heal_one_inv nx t cand h n : hinv nx h -> hinv nx (heal_one t cand h n).
Proof.
  intros (Hids & Hc & Hn & Hs & Hg).
  destruct (heal_one_cases t cand h n) as [(_ & ->)|(c & c' & bs' & gs' & rn' & Ef & -> & En & Es & Er & Erf & Est & Hb & Hgs)];
    [unfold hinv; tauto|].
  apply find_some in Ef. destruct Ef as [Hin Hnum]. apply Nat.eqb_eq in Hnum.
  assert (Hcok : cpr_ok (h_batches h) c) by (rewrite Forall_forall in Hc; auto).
  pose proof (sync_ci_ok _ _ Hcok) as (S1 & S2 & S3).
  unfold hinv. cbn [h_cprs h_batches h_gprs].
  assert (Hg' : gprs_ok nx gs').
  { destruct Hgs as [->|(sha & v & ->)]; auto. eapply gprs_ok_same; [apply post_status_nums | apply post_status_heads | exact Hg]. }
  assert (Hn' : NoDup (map c_num (upd_cpr n (fun _ => c') (h_cprs h)))) by (rewrite upd_cpr_nums; [auto | congruence]).
  assert (Hs' : NoDup (map c_src (upd_cpr n (fun _ => c') (h_cprs h)))) by (erewrite upd_cpr_srcs; eauto).
  destruct Hb as [(-> & Eb & Ebd)|(pr & ts & -> & Ebd)].
  - refine (conj _ (conj _ (conj _ (conj _ _)))); auto. apply upd_cpr_Forall; auto.
    destruct Hcok as (C1 & C2 & C3). repeat split.
    + rewrite Er, Erf, Es. auto.
    + rewrite Est, Es. rewrite sync_ci_src in S2. exact S2.
    + rewrite Ebd, Es, Eb. exact C3.
  - refine (conj _ (conj _ (conj _ (conj _ _)))); auto using ids_ok_cons.
    apply Forall_forall. intros x Hx. apply upd_cpr_in in Hx. destruct Hx as [(-> & _)|(Hxin & Hxn)].
    + destruct Hcok as (C1 & C2 & C3). repeat split.
      * rewrite Er, Erf, Es. auto.
      * rewrite Est, Es. rewrite sync_ci_src in S2. exact S2.
      * rewrite Ebd. discriminate.
    + apply cpr_ok_cons; [|rewrite Forall_forall in Hc; auto].
      intros Heq. apply Hxn. rewrite <- Hnum. f_equal. apply (NoDup_map_eq c_src (h_cprs h)); auto.
Qed.

Lemma heal_fold_inv nx t cand order h : hinv nx h -> hinv nx (fold_left (heal_one t cand) order h).
Proof. revert h. induction order as [|n r IH]; intros h H; cbn [fold_left]; auto using heal_one_inv. Qed.

Lemma heal_one_has_ci t cand h n (r : list nat) :
  (forall c, In c (h_cprs h) -> In (c_num c) (n :: r) \/ has_ci c) ->
  (forall c, In c (h_cprs (heal_one t cand h n)) -> In (c_num c) r \/ has_ci c).
Proof.
  intros H.
  destruct (heal_one_cases t cand h n) as [(Ef & E)|(c & c' & bs' & gs' & rn' & Ef & E & En & Es & Er & Erf & Est & Hb & Hgs)].
  - rewrite E. intros x Hx. destruct (H x Hx) as [[Hn|Hr]|Hci]; auto.
    exfalso. pose proof (find_none _ _ Ef x Hx) as Hnone. cbn in Hnone. rewrite <- Hn, Nat.eqb_refl in Hnone. discriminate.
  - rewrite E. cbn [h_cprs]. intros x Hx. apply upd_cpr_in in Hx. destruct Hx as [(-> & _)|(Hxin & Hxn)].
    + right. unfold has_ci. rewrite Est. apply sync_ci_has_ci.
    + destruct (H x Hxin) as [[Hn|Hr]|Hci]; auto. congruence.
Qed.

Lemma heal_fold_has_ci t cand order h :
  (forall c, In c (h_cprs h) -> In (c_num c) order \/ has_ci c) ->
  (forall c, In c (h_cprs (fold_left (heal_one t cand) order h)) -> has_ci c).
Proof.
  revert h. induction order as [|n r IH]; intros h H; cbn [fold_left].
  - intros c Hc. destruct (H c Hc) as [[]|]; auto.
  - apply IH. apply heal_one_has_ci. exact H.
Qed.

(** ---------------------------------------------------------------- WatchedBranch._heal as a whole *)

Lemma inv_heal s : inv s -> inv (do_heal s) /\ (wb_sha (do_heal s) <> None -> Forall has_ci (cprs (do_heal s))).
Proof.
  intros I. pose proof I as I0. destruct I as [inv_ids0 inv_cprs0 inv_nums0 inv_srcs0 inv_gprs0 inv_tgt0 inv_wb0 inv_mt0 inv_gt0 inv_nodup0 inv_merges0]. unfold do_heal.
  set (h0 := mkH (cprs s) (batches s) (gprs s) (count_running (cprs s))).
  assert (H0 : hinv (next_sha s) h0) by (unfold hinv; cbn [h_cprs h_batches h_gprs]; auto).
  set (h1 := match wb_sha s with None => h0 | Some t => fold_left (heal_one t (merge_candidate (cprs s))) (map c_num (prio_order (cprs s))) h0 end).
  assert (H1 : hinv (next_sha s) h1) by (subst h1; destruct (wb_sha s); auto using heal_fold_inv).
  destruct H1 as (Hids & Hc & Hn & Hs & Hg).
  split.
  - constructor; cbn [next_sha g_target gprs batches wb_sha cprs merges]; auto.
    + eapply steps_ids; [apply cancel_orphans_steps | exact Hids].
    + eapply Forall_impl; [|exact Hc]. intros c. apply cpr_ok_steps. apply cancel_orphans_steps.
  - cbn [wb_sha cprs]. intros Hw. subst h1. destruct (wb_sha s) as [t|]; [|congruence].
    apply Forall_forall. apply heal_fold_has_ci. cbn [h_cprs]. intros c Hc0. left.
    apply in_map. apply prio_order_in. exact Hc0.
Qed.

(** ---------------------------------------------------------------- try_to_merge *)

Lemma try_merge_cases s order :
  try_merge s order = s \/
  exists c, In c order /\ is_mergeable (wb_sha s) c = VYes /\ github_accepts (gprs s) c = true /\ try_merge s order = do_merge_pr s c.
Proof.
  induction order as [|c r IH]; cbn [try_merge]; [left; reflexivity|].
  destruct (is_mergeable (wb_sha s) c) eqn:E.
  - left; reflexivity.
  - destruct IH as [->|(c0 & Hin & H)]; [left; reflexivity | right; exists c0; cbn [In]; tauto].
  - destruct (github_accepts (gprs s) c) eqn:Eg.
    + right. exists c. cbn [In]. auto.
    + destruct IH as [->|(c0 & Hin & H)]; [left; reflexivity | right; exists c0; cbn [In]; tauto].
Qed.

Lemma mergeable_yes w c :
  is_mergeable w c = VYes ->
  (opt_status_eqb (get_st ci_ctx (c_sts c)) SSuccess = true -> c_build c = Some BuildSuccess) /\
  c_review c = Some RApproved /\ c_sts c <> [] /\ all_success (c_sts c) = true /\
  (exists b t, c_batch c = Some b /\ w = Some t /\ t = b_tsha b) /\ l_dnm (c_labels c) = false.
Proof.
  unfold is_mergeable. destruct (opt_status_eqb _ SSuccess && _) eqn:Ea; [discriminate|].
  destruct (_ && _ && _ && _ && _) eqn:Eb; [|discriminate]. intros _.
  repeat (apply andb_true_iff in Eb; destruct Eb as [Eb ?]).
  split; [|split; [|split; [|split; [|split]]]].
  - intros Hs. rewrite Hs in Ea. cbn [andb] in Ea. destruct (c_build c) as [[]|]; cbn in Ea; congruence.
  - destruct (c_review c) as [[]|]; congruence.
  - destruct (c_sts c); cbn in *; congruence.
  - assumption.
  - unfold up_to_date in *. destruct (c_batch c) as [b|]; [|discriminate]. destruct w as [t|]; [|discriminate].
    exists b, t. repeat split. apply Nat.eqb_eq. assumption.
  - destruct (l_dnm (c_labels c)); cbn in *; congruence.
Qed.

Lemma inv_merge s c :
  inv s -> In c (cprs s) -> has_ci c -> is_mergeable (wb_sha s) c = VYes -> github_accepts (gprs s) c = true ->
  inv (do_merge_pr s c).
Proof.
  intros I Hin Hci Hm Hg. pose proof I as I0. destruct I as [inv_ids0 inv_cprs0 inv_nums0 inv_srcs0 inv_gprs0 inv_tgt0 inv_wb0 inv_mt0 inv_gt0 inv_nodup0 inv_merges0].
  destruct (mergeable_yes _ _ Hm) as (Hassert & Hrev & Hne & Hall & (b & t & Hb & Hw & Ht) & Hdnm).
  destruct (inv_wb0 t Hw) as [Htlt Htnew].
  assert (Hok : cpr_ok (batches s) c) by (rewrite Forall_forall in inv_cprs0; auto).
  destruct Hok as (C1 & C2 & C3).
  pose proof (all_success_Forall _ Hall) as Hsucc.
  (* the CI status is present, hence success, hence the assert guarantees build_state = success *)
  assert (Hbuild : c_build c = Some BuildSuccess).
  { apply Hassert. unfold has_ci in Hci. destruct (get_st ci_ctx (c_sts c)) as [v|] eqn:Eg; [|congruence].
    destruct (get_st_in _ _ _ Eg) as (e & He & Hv & _). rewrite Forall_forall in Hsucc. specialize (Hsucc e He).
    cbn [opt_status_eqb]. rewrite <- Hv, Hsucc. reflexivity. }
  destruct (C3 Hbuild) as (tb & Hcur & Htb & Hbt).
  rewrite Hb in Hbt. injection Hbt as ->.
  pose proof Hcur as Hcur'. rewrite current_batch_unfold in Hcur'. apply find_some in Hcur'. destruct Hcur' as [Htbin Hpred].
  unfold cur_pred in Hpred. apply andb_true_iff in Hpred. destruct Hpred as [Hss _]. apply Nat.eqb_eq in Hss.
  unfold do_merge_pr. constructor; cbn [next_sha g_target gprs batches wb_sha cprs merges]; auto.
  - destruct inv_gprs0 as (G1 & G2 & G3). eapply gprs_ok_mono; [apply Nat.le_succ_diag_r|].
    eapply gprs_ok_same; [apply upd_gpr_nums | apply upd_gpr_heads | repeat split; eauto]; reflexivity.
  - discriminate.
  - apply Forall_app. split; [eapply tgt_lt_mono; [|eauto]; lia|]. constructor; [|constructor].
    unfold tgt_lt, record_merge. cbn [m_target]. rewrite Hw. lia.
  - rewrite map_app. cbn [map record_merge m_target]. rewrite in_app_iff. cbn [In]. intros [Hin'|[Heq|[]]].
    + apply in_map_iff in Hin'. destruct Hin' as [m [Hm' Hmin]]. rewrite Forall_forall in inv_mt0.
      specialize (inv_mt0 m Hmin). unfold tgt_lt in inv_mt0. rewrite Hm' in inv_mt0. lia.
    + rewrite Hw in Heq. injection Heq as Heq. lia.
  - rewrite map_app. cbn [map record_merge m_target]. apply NoDup_snoc; auto. rewrite Hw. exact Htnew.
  - apply Forall_app. split; auto. constructor; [|constructor].
    unfold merge_ok, record_merge. cbn [m_review m_rv_for m_src m_labels m_sts m_batch m_truth m_target m_head].
    repeat split; auto.
    + apply C1. congruence.
    + apply Forall_forall. intros e He. rewrite Forall_forall in Hsucc, C2. auto.
    + exists (mkB (tb_id tb) (tb_tsha tb) (tb_ssha tb)), tb. rewrite Hb. cbn [b_id b_tsha b_ssha] in *.
      repeat split; auto.
      * apply lookup_in; auto using ids_ok_nodup.
      * rewrite Hw, Ht. reflexivity.
    + unfold github_accepts in Hg. unfold github_head. destruct (find _ (gprs s)) as [g|]; [|discriminate].
      apply andb_true_iff in Hg. destruct Hg as [_ Hg]. apply Nat.eqb_eq in Hg. exact Hg.
Qed.

Lemma inv_heal_merge dm s : inv s -> inv (do_heal_merge dm s).
Proof.
  intros I. unfold do_heal_merge. destruct (inv_heal s I) as [I1 Hci]. destruct dm; [|exact I1].
  destruct (try_merge_cases (do_heal s) (prio_order (cprs (do_heal s)))) as [->|(c & Hin & Hm & Hg & ->)]; [exact I1|].
  apply (proj1 (prio_order_in _ _)) in Hin.
  destruct (mergeable_yes _ _ Hm) as (_ & _ & _ & _ & (b & t & _ & Hw & _) & _).
  assert (Hne : wb_sha (do_heal s) <> None) by congruence.
  specialize (Hci Hne). rewrite Forall_forall in Hci.
  apply inv_merge; [exact I1 | exact Hin | apply Hci; exact Hin | exact Hm | exact Hg].
Qed.

(** ---------------------------------------------------------------- all histories *)

Lemma inv_step s e : inv s -> inv (step s e).
Proof.
  intros I. destruct e; cbn [step];
    auto using inv_open, inv_push, inv_review, inv_label, inv_status, inv_target_move, inv_batch_complete, inv_fetch,
               inv_update_batch, inv_heal_merge.
Qed.

Lemma inv_fold evs s : inv s -> inv (fold_left step evs s).
Proof. revert s. induction evs as [|e r IH]; intros s I; cbn [fold_left]; auto using inv_step. Qed.

Lemma inv_run evs : inv (run evs).
Proof. apply inv_fold. exact inv_init. Qed.

Lemma merge_safe evs : Forall merge_ok (merges (run evs)).
Proof. apply (inv_merges _ (inv_run evs)). Qed.

Lemma one_merge_per_target evs : NoDup (map m_target (merges (run evs))).
Proof. apply (inv_nodup _ (inv_run evs)). Qed.

Lemma merge_has_target evs m : In m (merges (run evs)) -> exists t, m_target m = Some t.
Proof.
  intros Hin. pose proof (merge_safe evs) as H. rewrite Forall_forall in H. destruct (H m Hin) as (_ & _ & _ & _ & _ & (b & tb & _ & _ & Ht & _) & _).
  eauto.
Qed.

(** distinct merges were made against distinct target commits *)
Lemma merges_distinct_targets evs i j mi mj :
  nth_error (merges (run evs)) i = Some mi -> nth_error (merges (run evs)) j = Some mj -> i <> j -> m_target mi <> m_target mj.
Proof.
  intros Hi Hj Hne Heq. pose proof (one_merge_per_target evs) as Hn.
  assert (Hi' : nth_error (map m_target (merges (run evs))) i = Some (m_target mi)) by (rewrite nth_error_map, Hi; reflexivity).
  assert (Hj' : nth_error (map m_target (merges (run evs))) j = Some (m_target mj)) by (rewrite nth_error_map, Hj; reflexivity).
  rewrite Heq in Hi'. rewrite NoDup_nth_error in Hn. apply Hne. apply Hn; [|congruence].
  apply nth_error_Some. congruence.
Qed.

(** ---------------------------------------------------------------- the theorems are not vacuous: a history with a merge *)

Definition demo : list event :=
  [Open; Review 1 DApproved; Status 1 1 SSuccess; Fetch None; UpdateBatch; HealMerge true; BatchComplete 1 true; UpdateBatch; HealMerge true].

Example demo_merges : map obs_merge (merges (run demo)) =
  [(1, 1, 1, Some RApproved, 1, [(1, SSuccess, 1); (0, SSuccess, 1)], Some (0, 1), Some BSuccess, Some 0)].
Proof. vm_compute. reflexivity. Qed.

(** ... and two merges really need two target commits *)
Definition demo2 : list event :=
  [Open; Open; Review 1 DApproved; Review 2 DApproved; Fetch None; UpdateBatch; HealMerge true; BatchComplete 1 true; BatchComplete 2 true;
   UpdateBatch; HealMerge true; HealMerge true; Fetch None; UpdateBatch; HealMerge true; BatchComplete 2 true; UpdateBatch; HealMerge true].

Example demo2_merges : map (fun m => (m_pr m, m_target m)) (merges (run demo2)) = [(1, Some 0); (2, Some 3)].
Proof. vm_compute. reflexivity. Qed.

(** ---------------------------------------------------------------- statements in the form used by Props_C30 *)

Lemma merge_safe_in evs m : In m (merges (run evs)) -> merge_ok m.
Proof. intros Hin. pose proof (merge_safe evs) as H. rewrite Forall_forall in H. auto. Qed.

(** Without fixes/C30.diff the property fails: PR 1 is approved at head 1, a new head 2 is pushed and GitHub withdraws the
    approval, the refresh fails before reaching the PR, the test batch of head 2 succeeds -> CI merges head 2 on the
    strength of the review decision fetched for head 1. *)
Definition unfixed_witness : list event :=
  [Open; Review 1 DApproved; Fetch None; Push 1; Review 1 DRequired; Fetch (Some 0); HealMerge true; BatchComplete 1 true;
   UpdateBatch; HealMerge true].

Lemma unfixed_refuted : exists m, In m (merges (run_unfixed unfixed_witness)) /\ m_src m = 2 /\ m_rv_for m = 1 /\ ~ merge_ok m.
Proof.
  eexists. split; [vm_compute; left; reflexivity|]. split; [reflexivity|]. split; [reflexivity|].
  intros (_ & H & _). vm_compute in H. discriminate.
Qed.

(** the same history is harmless with the fix *)
Example fixed_witness_no_merge : merges (run unfixed_witness) = [].
Proof. vm_compute. reflexivity. Qed.
