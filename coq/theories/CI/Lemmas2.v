(** C30 — the invariant and its preservation by every event. *)
From HailV Require Import Common.Prelude CI.Model CI.Lemmas1.

(** What CI believes about one PR is consistent: the review decision and every status were obtained for the head CI
    has on record; 'build succeeded' means the newest non-cancelled batch for that head really succeeded and is the
    batch CI refers to. *)
Definition cpr_ok (bs : list tbatch) (c : cpr) : Prop :=
  (c_review c <> None -> c_rv_for c = c_src c) /\
  Forall (fun e => s_for e = c_src c) (c_sts c) /\
  (c_build c = Some BuildSuccess ->
     exists tb, current_batch (c_src c) bs = Some tb /\ tb_state tb = BSuccess /\
                c_batch c = Some (mkB (tb_id tb) (tb_tsha tb) (tb_ssha tb))).

Definition gprs_ok (nx : nat) (gs : list gpr) : Prop :=
  map g_num gs = seq 1 (length (map g_num gs)) /\ NoDup (map g_head gs) /\ Forall (fun h => h < nx) (map g_head gs).

Definition tgt_lt (nx : nat) (m : mrec) : Prop := match m_target m with Some t => t < nx | None => True end.

Record inv (s : state) : Prop := mkInv {
  inv_ids : ids_ok (batches s);
  inv_cprs : Forall (cpr_ok (batches s)) (cprs s);
  inv_nums : NoDup (map c_num (cprs s));
  inv_srcs : NoDup (map c_src (cprs s));
  inv_gprs : gprs_ok (next_sha s) (gprs s);
  inv_tgt : g_target s < next_sha s;
  inv_wb : forall t, wb_sha s = Some t -> t < next_sha s /\ ~ In (Some t) (map m_target (merges s));
  inv_mt : Forall (tgt_lt (next_sha s)) (merges s);
  inv_gt : ~ In (Some (g_target s)) (map m_target (merges s));
  inv_nodup : NoDup (map m_target (merges s));
  inv_merges : Forall merge_ok (merges s) }.

Lemma inv_init : inv init.
Proof.
  constructor; cbn; try constructor; auto using ids_ok_nil; try lia; try discriminate; try (repeat constructor).
Qed.

(** ---------------------------------------------------------------- monotonicity helpers *)

Lemma gprs_ok_mono nx nx' gs : nx <= nx' -> gprs_ok nx gs -> gprs_ok nx' gs.
Proof.
  intros Hle (H1 & H2 & H3). repeat split; auto. eapply Forall_impl; [|exact H3]. cbn; intros; lia.
Qed.

Lemma gprs_ok_same nx gs gs' : map g_num gs' = map g_num gs -> map g_head gs' = map g_head gs -> gprs_ok nx gs -> gprs_ok nx gs'.
Proof. unfold gprs_ok. intros -> ->. auto. Qed.

Lemma tgt_lt_mono nx nx' ms : nx <= nx' -> Forall (tgt_lt nx) ms -> Forall (tgt_lt nx') ms.
Proof.
  intros Hle H. eapply Forall_impl; [|exact H]. intros m. unfold tgt_lt. destruct (m_target m); auto. lia.
Qed.

Lemma cpr_ok_steps bs bs' c : Forall2 tb_step bs bs' -> cpr_ok bs c -> cpr_ok bs' c.
Proof.
  intros Hs (H1 & H2 & H3). repeat split; auto. intros Hb. destruct (H3 Hb) as (tb & Hc & Hst & Hbt).
  exists tb. repeat split; auto. eapply steps_current; eauto.
Qed.

Lemma cpr_ok_cons bs c id pr ss ts st : c_src c <> ss -> cpr_ok bs c -> cpr_ok (mkTB id pr ss ts st :: bs) c.
Proof.
  intros Hne (H1 & H2 & H3). repeat split; auto. intros Hb. destruct (H3 Hb) as (tb & Hc & Hst & Hbt).
  exists tb. repeat split; auto. rewrite current_batch_unfold in *. cbn [find]. unfold cur_pred at 1. cbn [tb_ssha].
  destruct (ss =? c_src c) eqn:E; [apply Nat.eqb_eq in E; congruence|]. cbn [andb]. exact Hc.
Qed.

(** bumping the commit counter / changing GitHub's PR table only *)
Lemma inv_gprs_next s gs nx :
  inv s -> next_sha s <= nx -> gprs_ok nx gs ->
  inv (mkSt nx (g_target s) gs (batches s) (wb_sha s) (cprs s) (merges s)).
Proof.
  intros I Hle Hg. destruct I. constructor; cbn [next_sha g_target gprs batches wb_sha cprs merges]; auto; try lia.
  - intros t Ht. destruct (inv_wb0 t Ht). split; auto; lia.
  - eapply tgt_lt_mono; eauto.
Qed.

Lemma NoDup_snoc {A} (l : list A) x : NoDup l -> ~ In x l -> NoDup (l ++ [x]).
Proof.
  induction l as [|a l IH]; cbn [app]; intros Hn Hx; [repeat constructor; auto|].
  inversion Hn as [|? ? Ha Hl]; subst. constructor.
  - rewrite in_app_iff. cbn [In]. intros [H|[H|[]]]; [auto|]. subst. apply Hx. left; reflexivity.
  - apply IH; auto. intros H. apply Hx. right; exact H.
Qed.

(** ---------------------------------------------------------------- GitHub-side events *)

Lemma inv_open s : inv s -> inv (do_open s).
Proof.
  intros I. unfold do_open. apply inv_gprs_next; auto. destruct (inv_gprs s I) as (H1 & H2 & H3).
  unfold gprs_ok. rewrite !map_app. cbn [map g_num g_head]. rewrite !app_length, !map_length in *. cbn [length].
  repeat split.
  - rewrite Nat.add_1_r. rewrite seq_S. rewrite <- H1. reflexivity.
  - apply NoDup_snoc; auto. intros Hin. rewrite Forall_forall in H3. specialize (H3 _ Hin). lia.
  - apply Forall_app. split; [eapply Forall_impl; [|exact H3]; cbn; intros; lia | repeat constructor].
Qed.

Lemma upd_gpr_notin n f l : ~ In n (map g_num l) -> upd_gpr n f l = l.
Proof.
  unfold upd_gpr. induction l as [|a l IH]; cbn [map In]; intros H; [reflexivity|].
  destruct (g_num a =? n) eqn:E; [apply Nat.eqb_eq in E; exfalso; apply H; auto|]. f_equal. apply IH. tauto.
Qed.

Lemma push_heads n nx l :
  NoDup (map g_num l) -> NoDup (map g_head l) -> Forall (fun h => h < nx) (map g_head l) ->
  NoDup (map g_head (upd_gpr n (fun g => mkG (g_num g) nx (g_decision g) (g_labels g) [] (g_open g)) l)) /\
  Forall (fun h => h < S nx) (map g_head (upd_gpr n (fun g => mkG (g_num g) nx (g_decision g) (g_labels g) [] (g_open g)) l)).
Proof.
  induction l as [|a l IH]; cbn [map]; intros Hn Hh Hl; [split; constructor|].
  inversion Hn as [|? ? Hna Hnl]; subst. inversion Hh as [|? ? Hha Hhl]; subst. inversion Hl as [|? ? Hla Hll]; subst.
  destruct (IH Hnl Hhl Hll) as [IH1 IH2]. unfold upd_gpr in *. cbn [map].
  destruct (g_num a =? n) eqn:E.
  - apply Nat.eqb_eq in E. subst n. fold (upd_gpr (g_num a) (fun g => mkG (g_num g) nx (g_decision g) (g_labels g) [] (g_open g)) l).
    rewrite (upd_gpr_notin _ _ l Hna). cbn [g_head]. split.
    + constructor; auto. intros Hin. rewrite Forall_forall in Hll. specialize (Hll _ Hin). lia.
    + constructor; [lia|]. eapply Forall_impl; [|exact Hll]. cbn; intros; lia.
  - split.
    + constructor; auto. intros Hin. apply in_map_iff in Hin. destruct Hin as [y [Hy Hin]]. apply in_map_iff in Hin.
      destruct Hin as [z [Hz Hin]]. subst y. destruct (g_num z =? n).
      * cbn [g_head] in Hy. lia.
      * apply Hha. rewrite <- Hy. apply in_map. exact Hin.
    + constructor; [lia | exact IH2].
Qed.

Lemma seq_nodup_nums gs : map g_num gs = seq 1 (length (map g_num gs)) -> NoDup (map g_num gs).
Proof. intros ->. apply seq_NoDup. Qed.

Lemma inv_push n s : inv s -> inv (do_push n s).
Proof.
  intros I. unfold do_push. destruct (existsb _ _); [|exact I]. apply inv_gprs_next; auto.
  destruct (inv_gprs s I) as (H1 & H2 & H3).
  destruct (push_heads n (next_sha s) (gprs s) (seq_nodup_nums _ H1) H2 H3) as [P1 P2].
  unfold gprs_ok. rewrite upd_gpr_nums by reflexivity. repeat split; auto.
Qed.

Lemma inv_set_gprs s gs : inv s -> map g_num gs = map g_num (gprs s) -> map g_head gs = map g_head (gprs s) -> inv (set_gprs s gs).
Proof.
  intros I E1 E2. unfold set_gprs. apply inv_gprs_next; auto. eapply gprs_ok_same; eauto. apply (inv_gprs s I).
Qed.

Lemma inv_review n d s : inv s -> inv (do_review n d s).
Proof. intros I. apply inv_set_gprs; auto; [apply upd_gpr_nums | apply upd_gpr_heads]; reflexivity. Qed.

Lemma inv_label n l s : inv s -> inv (do_label n l s).
Proof. intros I. apply inv_set_gprs; auto; [apply upd_gpr_nums | apply upd_gpr_heads]; reflexivity. Qed.

Lemma inv_status n ctx v s : inv s -> inv (do_status n ctx v s).
Proof.
  intros I. unfold do_status. destruct (ctx =? ci_ctx); [exact I|].
  apply inv_set_gprs; auto; [apply upd_gpr_nums | apply upd_gpr_heads]; reflexivity.
Qed.

Lemma inv_target_move s : inv s -> inv (do_target_move s).
Proof.
  intros I. destruct I. unfold do_target_move. constructor; cbn [next_sha g_target gprs batches wb_sha cprs merges]; auto.
  - eapply gprs_ok_mono; [|eauto]. lia.
  - intros t Ht. destruct (inv_wb0 t Ht). split; auto; lia.
  - eapply tgt_lt_mono; [|eauto]. lia.
  - intros Hin. apply in_map_iff in Hin. destruct Hin as [m [Hm Hin]]. rewrite Forall_forall in inv_mt0.
    specialize (inv_mt0 m Hin). unfold tgt_lt in inv_mt0. rewrite Hm in inv_mt0. lia.
Qed.

Lemma inv_batches s bs' : inv s -> Forall2 tb_step (batches s) bs' ->
  inv (mkSt (next_sha s) (g_target s) (gprs s) bs' (wb_sha s) (cprs s) (merges s)).
Proof.
  intros I Hs. destruct I. constructor; cbn [next_sha g_target gprs batches wb_sha cprs merges]; auto.
  - eapply steps_ids; eauto.
  - eapply Forall_impl; [|exact inv_cprs0]. intros c. apply cpr_ok_steps; auto.
Qed.

Lemma inv_batch_complete n ok s : inv s -> inv (do_batch_complete n ok s).
Proof. intros I. apply inv_batches; auto. apply complete_first_steps. Qed.

(** ---------------------------------------------------------------- Fetch *)

Lemma fetch_one_num old g : c_num (fetch_one old g) = g_num g.
Proof.
  unfold fetch_one, from_gh. destruct (find _ old) as [c|] eqn:E; [|reflexivity].
  apply find_some in E. destruct E as [_ E]. apply Nat.eqb_eq in E.
  destruct (c_src c =? g_head g); cbn [c_num]; auto.
Qed.

Lemma fetch_one_src old g : c_src (fetch_one old g) = g_head g.
Proof.
  unfold fetch_one, from_gh. destruct (find _ old) as [c|] eqn:E; [|reflexivity].
  destruct (c_src c =? g_head g) eqn:E2; cbn [c_src]; auto. apply Nat.eqb_eq in E2. exact E2.
Qed.

Lemma fetch_one_ok bs old g : Forall (cpr_ok bs) old -> cpr_ok bs (fetch_one old g).
Proof.
  intros Hold. unfold fetch_one, from_gh. destruct (find _ old) as [c|] eqn:E.
  - apply find_some in E. destruct E as [Hin _]. rewrite Forall_forall in Hold. specialize (Hold c Hin).
    destruct (c_src c =? g_head g).
    + destruct Hold as (H1 & H2 & H3). repeat split; cbn [c_review c_rv_for c_src c_sts c_build c_batch]; auto.
    + repeat split; cbn [c_review c_rv_for c_src c_sts c_build c_batch]; auto; discriminate.
  - repeat split; cbn [c_review c_rv_for c_src c_sts c_build c_batch]; auto; discriminate.
Qed.

Lemma refresh_ok bs g c : c_src c = g_head g -> cpr_ok bs c -> cpr_ok bs (refresh g c).
Proof.
  intros Hs (H1 & H2 & H3). unfold refresh. repeat split; cbn [c_review c_rv_for c_src c_sts c_build c_batch]; auto.
  apply Forall_forall. intros e He. apply in_map_iff in He. destruct He as [kv [<- _]]. cbn [s_for]. auto.
Qed.

Lemma map_fetch_props bs old gs :
  Forall (cpr_ok bs) old ->
  Forall (cpr_ok bs) (map (fetch_one old) gs) /\
  map c_num (map (fetch_one old) gs) = map g_num gs /\
  map c_src (map (fetch_one old) gs) = map g_head gs.
Proof.
  intros Hold. repeat split.
  - apply Forall_forall. intros c Hc. apply in_map_iff in Hc. destruct Hc as [g [<- _]]. apply fetch_one_ok; auto.
  - rewrite map_map. apply map_ext. intros; apply fetch_one_num.
  - rewrite map_map. apply map_ext. intros; apply fetch_one_src.
Qed.

Lemma refresh_first_props bs old k gs :
  Forall (cpr_ok bs) old ->
  Forall (cpr_ok bs) (refresh_first k gs (map (fetch_one old) gs)) /\
  map c_num (refresh_first k gs (map (fetch_one old) gs)) = map g_num gs /\
  map c_src (refresh_first k gs (map (fetch_one old) gs)) = map g_head gs.
Proof.
  intros Hold. revert gs. induction k as [|k IH]; intros gs.
  - cbn [refresh_first]. apply map_fetch_props; auto.
  - destruct gs as [|g gs]; cbn [map refresh_first]; [repeat split; constructor|].
    destruct (IH gs) as (I1 & I2 & I3). repeat split.
    + constructor; auto. apply refresh_ok; [apply fetch_one_src | apply fetch_one_ok; auto].
    + cbn [map refresh c_num]. rewrite fetch_one_num. f_equal. exact I2.
    + cbn [map refresh c_src]. rewrite fetch_one_src. f_equal. exact I3.
Qed.

Lemma inv_fetch k s : inv s -> inv (do_fetch k s).
Proof.
  intros I. pose proof I as I0. destruct I. unfold do_fetch.
  set (opens := filter g_open (gprs s)).
  set (n := match k with Some k' => k' | None => length (map (fetch_one (cprs s)) opens) end).
  destruct (refresh_first_props (batches s) (cprs s) n opens inv_cprs0) as (P1 & P2 & P3).
  destruct inv_gprs0 as (G1 & G2 & G3).
  constructor; cbn [next_sha g_target gprs batches wb_sha cprs merges]; auto.
  - rewrite P2. apply NoDup_map_filter. apply seq_nodup_nums. exact G1.
  - rewrite P3. apply NoDup_map_filter. exact G2.
  - repeat split; auto.
  - intros t Ht. injection Ht as <-. split; auto.
Qed.

(** ---------------------------------------------------------------- UpdateBatch *)

Lemma update_batch_pr_ok bs c : ids_ok bs -> cpr_ok bs c -> cpr_ok bs (update_batch_pr bs c).
Proof.
  intros Hids (H1 & H2 & H3). unfold update_batch_pr. destruct (current_batch (c_src c) bs) as [tb|] eqn:E.
  - destruct (tb_state tb) eqn:Est; repeat split; cbn [c_review c_rv_for c_src c_sts c_build c_batch]; auto; try discriminate.
    + intros Hb. destruct (H3 Hb) as (tb' & Hc & Hst & _). injection Hc as <-. congruence.
    + intros _. exists tb. auto.
    + intros Hb. destruct (H3 Hb) as (tb' & Hc & Hst & _). injection Hc as <-. congruence.
  - repeat split; cbn [c_review c_rv_for c_src c_sts c_build c_batch]; auto; discriminate.
Qed.

Lemma update_batch_pr_num bs c : c_num (update_batch_pr bs c) = c_num c.
Proof. unfold update_batch_pr. destruct (current_batch _ _) as [tb|]; [destruct (tb_state tb)|]; reflexivity. Qed.

Lemma update_batch_pr_src bs c : c_src (update_batch_pr bs c) = c_src c.
Proof. unfold update_batch_pr. destruct (current_batch _ _) as [tb|]; [destruct (tb_state tb)|]; reflexivity. Qed.

Lemma inv_update_batch s : inv s -> inv (do_update_batch s).
Proof.
  intros I. destruct I. unfold do_update_batch. constructor; cbn [next_sha g_target gprs batches wb_sha cprs merges]; auto.
  - apply Forall_forall. intros c Hc. apply in_map_iff in Hc. destruct Hc as [c0 [<- Hin]].
    apply update_batch_pr_ok; auto. rewrite Forall_forall in inv_cprs0. auto.
  - rewrite map_map. erewrite map_ext; [exact inv_nums0|]. intros; apply update_batch_pr_num.
  - rewrite map_map. erewrite map_ext; [exact inv_srcs0|]. intros; apply update_batch_pr_src.
Qed.
