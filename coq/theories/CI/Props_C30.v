(** C30 — property theorems only (about the model of ci/ci/github.py WITH fixes/C30.diff; tied to the real PR /
    WatchedBranch objects by the step-by-step correspondence of harness/props/C30.py). *)
From HailV Require Import Common.Prelude CI.Model CI.Lemmas1 CI.Lemmas2 CI.Lemmas3.

(** For EVERY history of pushes, reviews, label changes, status reports, batch completions, target-branch moves and CI
    actions (refreshes that may fail half-way, batch updates, heal+merge passes), every merge CI performs satisfies
    [merge_ok]: approved — by a review decision fetched for the merged head —, no do-not-merge label, a non-empty set of
    statuses, all success, all obtained for the merged head, a test batch built from the merged head against the target
    commit CI holds as current that really completed successfully, and GitHub's head is the merged commit. *)
Theorem C30_merge_safe : forall (evs : list event) (m : mrec), In m (merges (run evs)) ->
  m_review m = Some RApproved /\ m_rv_for m = m_src m /\ l_dnm (m_labels m) = false /\
  m_sts m <> [] /\ Forall (fun e => s_st e = SSuccess /\ s_for e = m_src m) (m_sts m) /\
  (exists b tb, m_batch m = Some b /\ m_truth m = Some tb /\ m_target m = Some (b_tsha b) /\ b_ssha b = m_src m /\
                tb_id tb = b_id b /\ tb_tsha tb = b_tsha b /\ tb_ssha tb = m_src m /\ tb_state tb = BSuccess) /\
  m_head m = m_src m.
Proof. exact merge_safe_in. Qed.
Print Assumptions C30_merge_safe.

(** At most one merge per target-branch commit: the target commits the merges were made against are pairwise distinct
    (and each merge has one, by the previous theorem). *)
Theorem C30_one_merge_per_target_update : forall (evs : list event), NoDup (map m_target (merges (run evs))).
Proof. exact one_merge_per_target. Qed.
Print Assumptions C30_one_merge_per_target_update.

Theorem C30_distinct_merges_distinct_targets : forall (evs : list event) i j mi mj,
  nth_error (merges (run evs)) i = Some mi -> nth_error (merges (run evs)) j = Some mj -> i <> j -> m_target mi <> m_target mj.
Proof. exact merges_distinct_targets. Qed.
Print Assumptions C30_distinct_merges_distinct_targets.

(** Without the fix the property is false (witness history evaluated by vm_compute; replayed on the real objects by the oracle). *)
Theorem C30_unfixed_refuted :
  exists m, In m (merges (run_unfixed unfixed_witness)) /\ m_src m = 2 /\ m_rv_for m = 1 /\ ~ merge_ok m.
Proof. exact unfixed_refuted. Qed.
Print Assumptions C30_unfixed_refuted.
