(** C30 — property theorems only (about the model of ci/ci/github.py WITH fixes/C30.diff; tied to the real PR /
    WatchedBranch objects by the step-by-step correspondence of harness/props/C30.py). *)
From HailV Require Import Common.Prelude CI.Model CI.Lemmas1 CI.Lemmas2 CI.Lemmas3.
From HailV Require Import CI.Guard.
From HailV Require CI.GuardLemmas CI.GuardTie.
From HailG Require C30.GuardGen.

(** For EVERY history of pushes, reviews, label changes, status reports, batch completions, target-branch moves and CI
    actions (refreshes that may fail half-way, batch updates, heal+merge passes), every merge CI performs satisfies
    [merge_ok]: approved — by a review decision fetched for the merged head —, no do-not-merge label, a non-empty set of
    statuses, all success, all obtained for the merged head, a test batch built from the merged head against the target
    commit CI holds as current that really completed successfully, and GitHub's head is the merged commit. *)
Theorem C30_merge_safe : forall (evs : list event) (m : mrec), In m (merges (run evs)) ->
  m_review m = Some RApproved /\ m_rv_for m = m_src m /\ l_dnm (m_labels m) = false /\
  m_sts m <> [] /\ Forall (fun e => s_st e = SSuccess /\ s_for e = m_src m) (m_sts m) /\
  (exists b tb, m_batch m = Some b /\ m_truth m = Some tb /\ m_target m = Some (b_tsha b) /\ b_ssha b = m_src m /\
                tb_id tb = b_id b /\ tb_tsha tb = b_tsha b /\ tb_ssha tb = m_src m /\ tb_state tb = BSuccess) /\
  m_head m = m_src m.
Proof. exact merge_safe_in. Qed.
Print Assumptions C30_merge_safe.

(** At most one merge per target-branch commit: the target commits the merges were made against are pairwise distinct
    (and each merge has one, by the previous theorem). *)
Theorem C30_one_merge_per_target_update : forall (evs : list event), NoDup (map m_target (merges (run evs))).
Proof. exact one_merge_per_target. Qed.
Print Assumptions C30_one_merge_per_target_update.

Theorem C30_distinct_merges_distinct_targets : forall (evs : list event) i j mi mj,
  nth_error (merges (run evs)) i = Some mi -> nth_error (merges (run evs)) j = Some mj -> i <> j -> m_target mi <> m_target mj.
Proof. exact merges_distinct_targets. Qed.
Print Assumptions C30_distinct_merges_distinct_targets.

(** Without the fix the property is false (witness history evaluated by vm_compute; replayed on the real objects by the oracle). *)
Theorem C30_unfixed_refuted :
  exists m, In m (merges (run_unfixed unfixed_witness)) /\ m_src m = 2 /\ m_rv_for m = 1 /\ ~ merge_ok m.
Proof. exact unfixed_refuted. Qed.
Print Assumptions C30_unfixed_refuted.

(** ------------------------------------------------------------------------------------------------------------------
    The re-entrancy guard of WatchedBranch._update (CI/Guard.v).  The theorems above treat _update_github, _update_batch and
    _heal(+try_to_merge) as atomic events; that is sound only if at most one coroutine is inside the body of `_update` at a
    time.  This used to be an assumption; it is now a theorem about the control skeleton TRANSLATED from the source. *)

(** The skeletons of `_update`, `notify_github_changed`, `notify_batch_changed`, `update` and the initial flag values, as
    translated from ci/ci/github.py on this run, are the ones the theorems below are about. *)
Theorem C30_guard_skeleton_is_source :
  C30.GuardGen.update_body = update_body /\
  C30.GuardGen.prefix_notify_github_changed = prefix NGithub /\
  C30.GuardGen.prefix_notify_batch_changed = prefix NBatch /\
  C30.GuardGen.prefix_update = prefix NAll /\
  C30.GuardGen.init_flags = s_fl sys0.
Proof. exact GuardTie.generated_is_hand. Qed.
Print Assumptions C30_guard_skeleton_is_source.

(** MUTUAL EXCLUSION.  For EVERY schedule - any number of notification tasks created at any time, interleaved in any order at
    the await points, sub-operations that suspend any number of times, set any `*_changed` flag, return or raise - at most one
    task is inside the body of `_update`, and `updating` is True exactly when one is. *)
Theorem C30_guard_mutual_exclusion : forall (es : list sev),
  n_in_body (srun es) <= 1 /\ n_in_body (srun es) = (if f_upd (s_fl (srun es)) then 1 else 0).
Proof. intros es. split; [apply GuardLemmas.guard_mutex | apply GuardLemmas.guard_flag_exact]. Qed.
Print Assumptions C30_guard_mutual_exclusion.

(** NO LOST WAKE-UP, state form.  Unless an exception has escaped from `_update` since a task last entered it (or nothing ever
    ran), a `*_changed` flag that is set has a server: a task inside the update loop (which re-tests the flags before leaving,
    see the next theorems) or a notification task that has not started. *)
Theorem C30_guard_set_flag_has_server : forall (es : list sev),
  s_dropped (srun es) = false -> changed_clear (s_fl (srun es)) = false ->
  existsb in_call (s_tasks (srun es)) = true \/ existsb is_fresh (s_tasks (srun es)) = true.
Proof. exact GuardLemmas.guard_set_flag_has_server. Qed.
Print Assumptions C30_guard_set_flag_has_server.

(** NO LOST WAKE-UP, history form.  When nothing is running or waiting to start (and no exception escaped), every flag is False
    and every write of True to a `*_changed` flag - by a notification, including one that arrived while an update was running
    and returned at once, by a sub-operation, by the constructor - is followed in the log by the loop clearing that flag, which
    it does only to call the corresponding sub-operation in the same atomic segment. *)
Theorem C30_guard_no_lost_wakeup : forall (es : list sev),
  s_dropped (srun es) = false -> quiescent (srun es) = true ->
  changed_clear (s_fl (srun es)) = true /\
  forall f l1 e l2, f <> FUpdating -> s_log (srun es) = l1 ++ e :: l2 -> sets_true f e -> In (LSet f false) l2.
Proof. exact GuardLemmas.guard_no_lost_wakeup. Qed.
Print Assumptions C30_guard_no_lost_wakeup.

(** ... and [s_dropped] is raised only by an exception escaping from `_update`: in a schedule without one, it is False as soon
    as any task has run. *)
Theorem C30_guard_dropped_only_by_exception : forall (es : list sev),
  forallb (fun e => negb (GuardLemmas.is_raise e)) es = true ->
  existsb GuardLemmas.started (s_tasks (srun es)) = true -> s_dropped (srun es) = false.
Proof. exact GuardLemmas.dropped_only_by_exception. Qed.
Print Assumptions C30_guard_dropped_only_by_exception.

(** PROGRESS ("eventually").  From any reachable state, the task inside `_update` - once its sub-operations return normally and
    set no further flag - leaves `_update` within seven segments, whatever the opaque condition evaluates to, with every flag
    consumed and `updating` False. *)
Theorem C30_guard_progress : forall (es : list sev) i c k o1 o2 o3 o4 o5 o6 o7,
  nth_error (s_tasks (srun es)) i = Some (TCall c k) ->
  s_fl (srun (es ++ GuardLemmas.quiet i [o1; o2; o3; o4; o5; o6; o7])) = mkF false false false false /\
  nth_error (s_tasks (srun (es ++ GuardLemmas.quiet i [o1; o2; o3; o4; o5; o6; o7]))) i = Some TDone.
Proof. exact GuardLemmas.guard_progress. Qed.
Print Assumptions C30_guard_progress.

(** The hypotheses are satisfiable (three overlapping notifications, one of which returns at once), and the interpreter tells
    the guard from its mis-placement inside the try block (early return through `finally` releases a flag it never took). *)
Theorem C30_guard_example :
  s_dropped (srun GuardLemmas.example_schedule) = false /\ quiescent (srun GuardLemmas.example_schedule) = true /\
  map view_task (s_tasks (srun GuardLemmas.example_schedule)) = [VDone; VDone; VDone] /\
  length (s_log (srun GuardLemmas.example_schedule)) = 16.
Proof. exact GuardLemmas.example_ok. Qed.
Print Assumptions C30_guard_example.

Theorem C30_guard_misplaced_check_releases_flag :
  let g := seg_run FUEL false MNormal [KSeq (prefix NBatch ++ GuardLemmas.update_body_check_inside_try)] (mkF true false false false) [] 0 in
  g_out g = ODone false /\ f_upd (g_fl g) = false /\
  f_upd (g_fl (start NBatch (mkF true false false false) false)) = true.
Proof. exact GuardLemmas.misplaced_check_releases_flag. Qed.
Print Assumptions C30_guard_misplaced_check_releases_flag.
