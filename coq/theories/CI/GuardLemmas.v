(** C30 — proofs about the re-entrancy guard of WatchedBranch._update (model: CI/Guard.v).

    Finite part (closed by case analysis + computation): what ONE atomic segment of the skeleton does from each of the
    finitely many suspension points, for every value of the four flags ([start_facts], [resume_facts]).
    Unbounded part (induction over the schedule): any number of notification tasks, any interleaving, sub-operations
    that suspend any number of times, set flags, raise ([inv_srun]). *)
From HailV Require Import Common.Prelude CI.Guard.

(** ------------------------------------------------------------------------------------------------ one segment *)

Lemma resume_facts : forall c fl raise op,
  g_ops (resume (kont_of c) fl raise op) <= 1 /\
  (forall f, replay f (g_log (resume (kont_of c) fl raise op)) (getf fl f) = getf (g_fl (resume (kont_of c) fl raise op)) f) /\
  match g_out (resume (kont_of c) fl raise op) with
  | OSusp c' k' => k' = kont_of c' /\ f_upd (g_fl (resume (kont_of c) fl raise op)) = f_upd fl
  | ODone r => r = raise /\ f_upd (g_fl (resume (kont_of c) fl raise op)) = false /\
               (r = false -> changed_clear (g_fl (resume (kont_of c) fl raise op)) = true)
  | OFuel => False
  end.
Proof.
  intros c [u g b s] raise op.
  destruct c, u, g, b, s, raise, op;
    (split; [vm_compute; lia | split; [intros []; vm_compute; reflexivity | vm_compute; intuition (try reflexivity; try discriminate)]]).
Qed.

Lemma start_facts : forall n fl op,
  g_ops (start n fl op) <= 1 /\
  (forall f, replay f (g_log (start n fl op)) (getf fl f) = getf (g_fl (start n fl op)) f) /\
  match g_out (start n fl op) with
  | OSusp c' k' => k' = kont_of c' /\ f_upd fl = false /\ f_upd (g_fl (start n fl op)) = true
  | ODone r => r = false /\ f_upd (g_fl (start n fl op)) = f_upd fl /\
               (f_upd fl = false -> changed_clear (g_fl (start n fl op)) = true)
  | OFuel => False
  end.
Proof.
  intros n [u g b s] op.
  destruct n, u, g, b, s, op;
    (split; [vm_compute; lia | split; [intros []; vm_compute; reflexivity | vm_compute; intuition (try reflexivity; try discriminate)]]).
Qed.

Lemma sets_replay : forall f fl sg sb ss, replay f (sets_log sg sb ss) (getf fl f) = getf (add_sets fl sg sb ss) f.
Proof. intros f [u g b s] sg sb ss. destruct f, u, g, b, s, sg, sb, ss; reflexivity. Qed.

Lemma replay_app : forall f a b v, replay f (a ++ b) v = replay f b (replay f a v).
Proof.
  intros f a. induction a as [|e a IH]; intros b v; [reflexivity|].
  destruct e; cbn [app replay]; apply IH.
Qed.

(** ------------------------------------------------------------------------------------------------ lists of tasks *)

Definition cnt (l : list tstate) : nat := length (filter in_call l).
Definition b2n (b : bool) : nat := if b then 1 else 0.

Lemma cnt_app : forall a b, cnt (a ++ b) = cnt a + cnt b.
Proof. intros a b. unfold cnt. rewrite filter_app, app_length. reflexivity. Qed.

Lemma cnt_set_nth : forall l i old t, nth_error l i = Some old -> cnt (set_nth i t l) + b2n (in_call old) = cnt l + b2n (in_call t).
Proof.
  induction l as [|y r IH]; intros i old t H.
  - destruct i; discriminate.
  - destruct i as [|i]; cbn [nth_error] in H.
    + injection H as ->. cbn [set_nth]. unfold cnt. cbn [filter]. destruct (in_call old), (in_call t); cbn [length b2n]; lia.
    + cbn [set_nth]. specialize (IH i old t H). unfold cnt in *. cbn [filter]. destruct (in_call y); cbn [length]; lia.
Qed.

Lemma cnt_nth_pos : forall l i t, nth_error l i = Some t -> in_call t = true -> cnt l >= 1.
Proof.
  induction l as [|y r IH]; intros i t H Ht.
  - destruct i; discriminate.
  - destruct i as [|i]; cbn [nth_error] in H.
    + injection H as ->. unfold cnt. cbn [filter]. rewrite Ht. cbn [length]. lia.
    + specialize (IH i t H Ht). unfold cnt in *. cbn [filter]. destruct (in_call y); cbn [length]; lia.
Qed.

Definition wf_task (t : tstate) : Prop := match t with TCall c k => k = kont_of c | _ => True end.

Lemma Forall_set_nth : forall (l : list tstate) i t, Forall wf_task l -> wf_task t -> Forall wf_task (set_nth i t l).
Proof.
  induction l as [|y r IH]; intros i t Hl Ht; [destruct i; constructor|].
  inversion Hl as [|? ? Hy Hr]; subst. destruct i; cbn [set_nth]; constructor; auto.
Qed.

Lemma Forall_nth : forall (l : list tstate) i t, Forall wf_task l -> nth_error l i = Some t -> wf_task t.
Proof. intros l i t Hl H. rewrite Forall_forall in Hl. apply Hl. eapply nth_error_In; eauto. Qed.

Lemma cnt_zero_no_call : forall l, cnt l = 0 -> existsb in_call l = false.
Proof.
  induction l as [|y r IH]; intros H; [reflexivity|].
  unfold cnt in *. cbn [filter existsb] in *. destruct (in_call y); cbn [length] in H; [lia|]. cbn [orb]. auto.
Qed.

Lemma no_call_cnt_zero : forall l, existsb in_call l = false -> cnt l = 0.
Proof.
  induction l as [|y r IH]; intros H; [reflexivity|].
  unfold cnt in *. cbn [filter existsb] in *. destruct (in_call y); cbn [orb] in H; [discriminate|]. auto.
Qed.

(** ------------------------------------------------------------------------------------------------ the invariant *)

Record inv (s : sys) : Prop := {
  inv_wf : Forall wf_task (s_tasks s);
  inv_cnt : cnt (s_tasks s) = b2n (f_upd (s_fl s));
  inv_srv : s_dropped s = false -> cnt (s_tasks s) = 0 -> existsb is_fresh (s_tasks s) = false -> changed_clear (s_fl s) = true;
  inv_log : forall f, replay f (s_log s) false = getf (s_fl s) f
}.

Lemma inv_init : inv sys0.
Proof. constructor; cbn; try reflexivity; try discriminate; [constructor | intros []; reflexivity]. Qed.

Lemma srun_snoc : forall es e, srun (es ++ [e]) = sstep (srun es) e.
Proof. intros. unfold srun. rewrite fold_left_app. reflexivity. Qed.

Lemma add_sets_upd : forall fl sg sb ss, f_upd (add_sets fl sg sb ss) = f_upd fl.
Proof. reflexivity. Qed.

Lemma inv_step : forall s e, inv s -> inv (sstep s e).
Proof.
  intros s e [Hwf Hcnt Hsrv Hlog].
  destruct e as [n | i sg sb ss op | i sg sb ss | i sg sb ss raise op]; cbn [sstep].
  - (* Spawn *)
    constructor; cbn [s_tasks s_fl s_dropped s_log]; auto.
    + apply Forall_app. split; [assumption | constructor; [exact I | constructor]].
    + rewrite cnt_app. unfold cnt at 2. cbn. lia.
    + intros _ _ Hf. rewrite existsb_app in Hf. cbn in Hf. rewrite orb_true_r in Hf. discriminate.
  - (* Start *)
    destruct (nth_error (s_tasks s) i) as [[n | c k |]|] eqn:Hi; try (constructor; assumption).
    set (fl1 := add_sets (s_fl s) sg sb ss).
    destruct (start_facts n fl1 op) as (_ & Hrep & Hout).
    pose proof (cnt_set_nth (s_tasks s) i (TFresh n) (task_after (g_out (start n fl1 op))) Hi) as Hc. cbn [in_call b2n] in Hc.
    unfold finish. constructor; cbn [s_tasks s_fl s_dropped s_log].
    + apply Forall_set_nth; [assumption|]. destruct (g_out (start n fl1 op)); cbn [task_after wf_task]; [apply Hout | exact I | exact I].
    + destruct (g_out (start n fl1 op)) as [c' k' | r |]; cbn [task_after in_call b2n] in *; [| | contradiction].
      * destruct Hout as (_ & Hu & Hu'). rewrite Hu'. unfold fl1 in Hu. rewrite add_sets_upd in Hu. rewrite Hu in Hcnt. cbn [b2n] in *. lia.
      * destruct Hout as (_ & Hu & _). rewrite Hu. unfold fl1. rewrite add_sets_upd. lia.
    + destruct (g_out (start n fl1 op)) as [c' k' | r |]; cbn [task_after in_call b2n dropped_after] in *; [| | contradiction].
      * intros _ H0 _. lia.
      * destruct Hout as (-> & Hu & Hclr). unfold fl1 in Hu, Hclr. rewrite add_sets_upd in Hu, Hclr.
        destruct (f_upd (s_fl s)) eqn:Eu; cbn [negb].
        -- intros _ H0 _. rewrite Hcnt in Hc. cbn [b2n] in Hc. lia.
        -- intros _ _ _. apply Hclr. reflexivity.
    + intros f. rewrite !replay_app, Hlog. fold fl1 in Hrep. rewrite sets_replay. fold fl1. apply Hrep.
  - (* BodyStep *)
    destruct (nth_error (s_tasks s) i) as [[n | c k |]|] eqn:Hi; try (constructor; assumption).
    pose proof (cnt_nth_pos _ _ _ Hi eq_refl) as Hpos.
    constructor; cbn [s_tasks s_fl s_dropped s_log]; auto.
    + intros _ H0 _. lia.
    + intros f. rewrite replay_app, Hlog. apply sets_replay.
  - (* BodyDone *)
    destruct (nth_error (s_tasks s) i) as [[n | c k |]|] eqn:Hi; try (constructor; assumption).
    pose proof (cnt_nth_pos _ _ _ Hi eq_refl) as Hpos.
    pose proof (Forall_nth _ _ _ Hwf Hi) as Hk. cbn [wf_task] in Hk. subst k.
    assert (Hu : f_upd (s_fl s) = true) by (destruct (f_upd (s_fl s)); [reflexivity | cbn [b2n] in Hcnt; lia]).
    rewrite Hu in Hcnt. cbn [b2n] in Hcnt.
    set (fl1 := add_sets (s_fl s) sg sb ss).
    destruct (resume_facts c fl1 raise op) as (_ & Hrep & Hout).
    pose proof (cnt_set_nth (s_tasks s) i (TCall c (kont_of c)) (task_after (g_out (resume (kont_of c) fl1 raise op))) Hi) as Hc.
    cbn [in_call b2n] in Hc.
    unfold finish. constructor; cbn [s_tasks s_fl s_dropped s_log].
    + apply Forall_set_nth; [assumption|]. destruct (g_out (resume (kont_of c) fl1 raise op)); cbn [task_after wf_task]; [apply Hout | exact I | exact I].
    + destruct (g_out (resume (kont_of c) fl1 raise op)) as [c' k' | r |]; cbn [task_after in_call b2n] in *; [| | contradiction].
      * destruct Hout as (_ & Hu'). rewrite Hu'. unfold fl1. rewrite add_sets_upd, Hu. cbn [b2n]. lia.
      * destruct Hout as (_ & Hu' & _). rewrite Hu'. cbn [b2n]. lia.
    + destruct (g_out (resume (kont_of c) fl1 raise op)) as [c' k' | r |]; cbn [task_after in_call b2n dropped_after] in *; [| | contradiction].
      * intros _ H0 _. lia.
      * destruct Hout as (-> & _ & Hclr). destruct raise; [discriminate|]. intros _ _ _. apply Hclr. reflexivity.
    + intros f. rewrite !replay_app, Hlog. rewrite sets_replay. fold fl1. apply Hrep.
Qed.

Lemma inv_srun : forall es, inv (srun es).
Proof.
  intros es. induction es as [|e es IH] using rev_ind; [exact inv_init|].
  rewrite srun_snoc. apply inv_step. exact IH.
Qed.

(** ------------------------------------------------------------------------------------------------ theorems *)

Lemma n_in_body_cnt : forall s, n_in_body s = cnt (s_tasks s).
Proof. reflexivity. Qed.

(** MUTUAL EXCLUSION: whatever the schedule, at most one task is inside the body of `_update` (suspended in one of its
    sub-operations), and `updating` is True exactly when there is one. *)
Lemma guard_mutex : forall es, n_in_body (srun es) <= 1.
Proof. intros es. rewrite n_in_body_cnt, (inv_cnt _ (inv_srun es)). destruct (f_upd _); cbn; lia. Qed.

Lemma guard_flag_exact : forall es, n_in_body (srun es) = if f_upd (s_fl (srun es)) then 1 else 0.
Proof. intros es. rewrite n_in_body_cnt. exact (inv_cnt _ (inv_srun es)). Qed.

(** every task suspended in the body sits at one of the four awaits of the skeleton *)
Lemma guard_tasks_wf : forall es t, In t (s_tasks (srun es)) -> wf_task t.
Proof. intros es t H. pose proof (inv_wf _ (inv_srun es)) as Hwf. rewrite Forall_forall in Hwf. auto. Qed.

(** NO LOST WAKE-UP (state form): unless an exception escaped from `_update` since the last time a task entered it (or no task
    ever ran), a `*_changed` flag that is set always has a server: a task inside the update loop - which re-tests the flags
    before it leaves - or a notification task that has not started yet. *)
Lemma guard_set_flag_has_server : forall es,
  s_dropped (srun es) = false -> changed_clear (s_fl (srun es)) = false ->
  existsb in_call (s_tasks (srun es)) = true \/ existsb is_fresh (s_tasks (srun es)) = true.
Proof.
  intros es Hd Hc. pose proof (inv_srv _ (inv_srun es) Hd) as H.
  destruct (existsb in_call (s_tasks (srun es))) eqn:E1; [left; reflexivity|].
  destruct (existsb is_fresh (s_tasks (srun es))) eqn:E2; [right; reflexivity|].
  rewrite (H (no_call_cnt_zero _ E1) eq_refl) in Hc. discriminate.
Qed.

Lemma replay_true_false_clear : forall f l, replay f l true = false -> In (LSet f false) l.
Proof.
  intros f l. induction l as [|e l IH]; cbn [replay]; [discriminate|].
  destruct e as [g w | g].
  - destruct (flag_eqb f g) eqn:E.
    + destruct w; intros H; [right; auto|]. left. destruct f, g; try discriminate; reflexivity.
    + intros H. right. auto.
  - destruct (flag_eqb f g); intros H; right; auto.
Qed.

Lemma flag_eqb_refl : forall f, flag_eqb f f = true.
Proof. destruct f; reflexivity. Qed.

(** NO LOST WAKE-UP (history form): when a flag is False, every earlier write of True to it - by a notification, by a
    sub-operation, by the constructor - is followed in the log by the `_update` loop clearing it (the loop clears a flag
    only to call the corresponding sub-operation in the same atomic segment). *)
Lemma guard_sets_consumed : forall es f l1 e l2,
  s_log (srun es) = l1 ++ e :: l2 -> sets_true f e -> getf (s_fl (srun es)) f = false -> In (LSet f false) l2.
Proof.
  intros es f l1 e l2 Hl He Hf. pose proof (inv_log _ (inv_srun es) f) as H.
  rewrite Hl, replay_app, Hf in H. apply replay_true_false_clear.
  destruct He as [-> | ->]; cbn [replay] in H; rewrite flag_eqb_refl in H; exact H.
Qed.

Lemma quiescent_split : forall s, quiescent s = true -> existsb in_call (s_tasks s) = false /\ existsb is_fresh (s_tasks s) = false.
Proof. intros s H. unfold quiescent in H. apply andb_true_iff in H. destruct H as [H1 H2]. apply negb_true_iff in H1, H2. auto. Qed.

Lemma changed_clear_get : forall fl f, changed_clear fl = true -> f <> FUpdating -> getf fl f = false.
Proof. intros [u g b s] f H Hf. unfold changed_clear in H. cbn in H. destruct f, g, b, s; cbn in *; try discriminate; try reflexivity; congruence. Qed.

Lemma guard_no_lost_wakeup : forall es,
  s_dropped (srun es) = false -> quiescent (srun es) = true ->
  changed_clear (s_fl (srun es)) = true /\
  forall f l1 e l2, f <> FUpdating -> s_log (srun es) = l1 ++ e :: l2 -> sets_true f e -> In (LSet f false) l2.
Proof.
  intros es Hd Hq. destruct (quiescent_split _ Hq) as [H1 H2].
  assert (Hc : changed_clear (s_fl (srun es)) = true).
  { destruct (changed_clear (s_fl (srun es))) eqn:E; [reflexivity|].
    destruct (guard_set_flag_has_server es Hd E) as [H | H]; congruence. }
  split; [exact Hc|]. intros f l1 e l2 Hf Hl He. eapply guard_sets_consumed; eauto. apply changed_clear_get; assumption.
Qed.

(** [s_dropped] is raised only by an exception escaping from `_update` *)
Definition is_raise (e : sev) : bool := match e with BodyDone _ _ _ _ true _ => true | _ => false end.
Definition started (t : tstate) : bool := negb (is_fresh t).

Lemma existsb_set_nth_started : forall l i old t, nth_error l i = Some old -> started t = true -> existsb started (set_nth i t l) = true.
Proof.
  induction l as [|y r IH]; intros i old t H Ht; [destruct i; discriminate|].
  destruct i as [|i]; cbn [nth_error set_nth existsb] in *.
  - rewrite Ht. reflexivity.
  - rewrite (IH i old t H Ht). apply orb_true_r.
Qed.

Lemma existsb_nth_started : forall l i t, nth_error l i = Some t -> started t = true -> existsb started l = true.
Proof.
  induction l as [|y r IH]; intros i t H Ht; [destruct i; discriminate|].
  destruct i as [|i]; cbn [nth_error existsb] in *.
  - injection H as ->. rewrite Ht. reflexivity.
  - rewrite (IH i t H Ht). apply orb_true_r.
Qed.

Lemma existsb_started_set_nth_mono : forall l i t, existsb started l = true -> started t = true -> existsb started (set_nth i t l) = true.
Proof.
  induction l as [|y r IH]; intros i t H Ht; [discriminate|].
  destruct i as [|i]; cbn [set_nth existsb] in *.
  - rewrite Ht. reflexivity.
  - apply orb_true_iff in H. destruct H as [H | H]; [rewrite H; reflexivity|]. rewrite (IH i t H Ht). apply orb_true_r.
Qed.

Lemma task_after_started : forall o, started (task_after o) = true.
Proof. destruct o; reflexivity. Qed.

Lemma dropped_only_by_exception : forall es,
  forallb (fun e => negb (is_raise e)) es = true ->
  existsb started (s_tasks (srun es)) = true -> s_dropped (srun es) = false.
Proof.
  intros es. induction es as [|e es IH] using rev_ind; [cbn; discriminate|].
  rewrite forallb_app. cbn [forallb]. rewrite andb_true_r. intros Hnr. apply andb_true_iff in Hnr. destruct Hnr as [Hnr He].
  specialize (IH Hnr). rewrite srun_snoc. pose proof (inv_srun es) as [Hwf Hcnt _ _].
  destruct e as [n | i sg sb ss op | i sg sb ss | i sg sb ss raise op]; cbn [sstep].
  - cbn [s_tasks s_dropped]. rewrite existsb_app. cbn. rewrite orb_false_r. exact IH.
  - destruct (nth_error (s_tasks (srun es)) i) as [[n | c k |]|] eqn:Hi; try exact IH.
    unfold finish. cbn [s_tasks s_dropped]. intros _.
    set (fl1 := add_sets (s_fl (srun es)) sg sb ss).
    destruct (start_facts n fl1 op) as (_ & _ & Hout).
    destruct (g_out (start n fl1 op)) as [c' k' | r |]; cbn [dropped_after]; [reflexivity | | contradiction].
    destruct Hout as (-> & _ & _). destruct (f_upd (s_fl (srun es))) eqn:Eu; cbn [negb]; [|reflexivity].
    (* early return: some task is in the body, hence started *)
    apply IH. cbn [b2n] in Hcnt.
    clear - Hcnt. induction (s_tasks (srun es)) as [|y r IHr]; [cbn in Hcnt; lia|].
    unfold cnt in *. cbn [filter existsb] in *. destruct y; cbn [in_call started is_fresh negb orb] in *; auto.
  - destruct (nth_error (s_tasks (srun es)) i) as [[n | c k |]|] eqn:Hi; exact IH.
  - destruct (nth_error (s_tasks (srun es)) i) as [[n | c k |]|] eqn:Hi; try exact IH.
    unfold finish. cbn [s_tasks s_dropped]. intros _.
    pose proof (Forall_nth _ _ _ Hwf Hi) as Hk. cbn [wf_task] in Hk. subst k.
    set (fl1 := add_sets (s_fl (srun es)) sg sb ss).
    destruct (resume_facts c fl1 raise op) as (_ & _ & Hout).
    destruct (g_out (resume (kont_of c) fl1 raise op)) as [c' k' | r |]; cbn [dropped_after]; [reflexivity | | contradiction].
    destruct Hout as (-> & _ & _). destruct raise; [cbn in He; discriminate | reflexivity].
Qed.

(** PROGRESS: the loop ends.  Let the task that is inside `_update` run while its sub-operations return normally and set no
    further flag (notifications may have set any flags before): after at most seven segments it has left `_update`, every
    `*_changed` flag has been consumed and `updating` is False - whatever the opaque condition evaluates to each time. *)
Fixpoint drain (ops : list bool) (c : call) (fl : flags) : option flags :=
  match ops with
  | [] => None
  | op :: r =>
    match g_out (resume (kont_of c) fl false op) with
    | ODone _ => Some (g_fl (resume (kont_of c) fl false op))
    | OSusp c' _ => drain r c' (g_fl (resume (kont_of c) fl false op))
    | OFuel => None
    end
  end.

Lemma drain_ends : forall c fl o1 o2 o3 o4 o5 o6 o7,
  f_upd fl = true -> drain [o1; o2; o3; o4; o5; o6; o7] c fl = Some (mkF false false false false).
Proof.
  intros c [u g b s] o1 o2 o3 o4 o5 o6 o7 Hu. cbn in Hu. subst u.
  destruct c, g, b, s, o1, o2, o3, o4, o5, o6, o7; vm_compute; reflexivity.
Qed.

Definition quiet (i : nat) (ops : list bool) : list sev := map (fun op => BodyDone i false false false false op) ops.

Lemma add_sets_none : forall fl, add_sets fl false false false = fl.
Proof. intros [u g b s]. unfold add_sets. cbn. rewrite !orb_false_r. reflexivity. Qed.

Lemma nth_set_nth : forall (l : list tstate) i old t, nth_error l i = Some old -> nth_error (set_nth i t l) i = Some t.
Proof.
  induction l as [|y r IH]; intros i old t H; [destruct i; discriminate|].
  destruct i as [|i]; cbn [nth_error set_nth] in *; [reflexivity | eauto].
Qed.

Lemma quiet_done_stutter : forall ops s i, nth_error (s_tasks s) i = Some TDone -> fold_left sstep (quiet i ops) s = s.
Proof.
  induction ops as [|op r IH]; intros s i H; [reflexivity|].
  cbn [quiet map fold_left sstep]. rewrite H. apply IH. exact H.
Qed.

Lemma drain_sys : forall ops s i c fl',
  nth_error (s_tasks s) i = Some (TCall c (kont_of c)) -> drain ops c (s_fl s) = Some fl' ->
  s_fl (fold_left sstep (quiet i ops) s) = fl' /\ nth_error (s_tasks (fold_left sstep (quiet i ops) s)) i = Some TDone.
Proof.
  induction ops as [|op r IH]; intros s i c fl' Hi Hd; [discriminate|].
  cbn [drain] in Hd. cbn [quiet map fold_left]. fold (quiet i r).
  cbn [sstep]. rewrite Hi, add_sets_none.
  destruct (resume_facts c (s_fl s) false op) as (_ & _ & Hout).
  set (g := resume (kont_of c) (s_fl s) false op) in *.
  destruct (g_out g) as [c' k' | rs |] eqn:Eo; [| | discriminate].
  - destruct Hout as (-> & _).
    apply (IH (finish s i true (sets_log false false false) g) i c' fl').
    + unfold finish. cbn [s_tasks]. rewrite Eo. cbn [task_after]. eapply nth_set_nth; eauto.
    + unfold finish. cbn [s_fl]. exact Hd.
  - injection Hd as <-.
    assert (Hdone : nth_error (s_tasks (finish s i true (sets_log false false false) g)) i = Some TDone).
    { unfold finish. cbn [s_tasks]. rewrite Eo. cbn [task_after]. eapply nth_set_nth; eauto. }
    rewrite (quiet_done_stutter r _ i Hdone). split; [reflexivity | exact Hdone].
Qed.

Lemma guard_progress : forall es i c k o1 o2 o3 o4 o5 o6 o7,
  nth_error (s_tasks (srun es)) i = Some (TCall c k) ->
  s_fl (srun (es ++ quiet i [o1; o2; o3; o4; o5; o6; o7])) = mkF false false false false /\
  nth_error (s_tasks (srun (es ++ quiet i [o1; o2; o3; o4; o5; o6; o7]))) i = Some TDone.
Proof.
  intros es i c k o1 o2 o3 o4 o5 o6 o7 Hi.
  pose proof (inv_srun es) as [Hwf Hcnt _ _].
  pose proof (Forall_nth _ _ _ Hwf Hi) as Hk. cbn [wf_task] in Hk. subst k.
  pose proof (cnt_nth_pos _ _ _ Hi eq_refl) as Hpos.
  assert (Hu : f_upd (s_fl (srun es)) = true) by (destruct (f_upd (s_fl (srun es))); [reflexivity | cbn [b2n] in Hcnt; lia]).
  unfold srun. rewrite fold_left_app. fold (srun es).
  apply (drain_sys _ _ _ c); [exact Hi | apply drain_ends; exact Hu].
Qed.

(** ------------------------------------------------------------------------------------------------ sanity of the model *)

(** the hypotheses of the theorems are satisfiable: three overlapping notifications, one early return, flags consumed *)
Definition example_schedule : list sev :=
  [Spawn NAll; Start 0 false false false true; Spawn NGithub; Start 1 false false false true; Spawn NBatch;
   BodyDone 0 false false true false true; Start 2 false false false true; BodyDone 0 false false false false true;
   BodyDone 0 false false false false true; BodyDone 0 false false false false true; BodyDone 0 false false false false true;
   BodyDone 0 false false false false true; BodyDone 0 false false false false true].

Lemma example_ok :
  s_dropped (srun example_schedule) = false /\ quiescent (srun example_schedule) = true /\
  map view_task (s_tasks (srun example_schedule)) = [VDone; VDone; VDone] /\
  length (s_log (srun example_schedule)) = 16.
Proof. vm_compute. repeat split. Qed.

(** the interpreter distinguishes the guard from its plausible mis-placement: with the `if self.updating: return` test INSIDE
    the try block, a notification that finds an update in progress returns early through the finally block and releases a flag it
    never took (so the next notification would enter the body while the first update is still suspended in it) *)
Definition update_body_check_inside_try : list stmt :=
  [ STry [SIf (CFlag FUpdating) [SSkip; SReturn]; SSkip; SSet FUpdating true; SWhile loop_cond loop_body] fin_block ].

Lemma misplaced_check_releases_flag :
  let g := seg_run FUEL false MNormal [KSeq (prefix NBatch ++ update_body_check_inside_try)] (mkF true false false false) [] 0 in
  g_out g = ODone false /\ f_upd (g_fl g) = false /\
  f_upd (g_fl (start NBatch (mkF true false false false) false)) = true.
Proof. vm_compute. repeat split. Qed.
