(** C14 — property theorems only.  They are about the route table GENERATED from the current front_end.py. *)
From Coq Require Import List Bool String ZArith.
From HailV Require Import Routes.Model Routes.Lemmas Routes.ListModel Routes.ListLemmas.
From HailG Require C14.Gen C14.Lists.
Import ListNotations.

(** The literal property: whenever the code lets a request through, the path-derived policy lets it through —
    for every registered route, caller kind, ownership and billing-project membership.
    It is REFUTED on the current tree: GET /metrics (registered in run()) is served to unauthenticated callers and is
    not among the property's exceptions (known finding "GET /metrics|unauthenticated"). *)
Theorem C14_policy_refuted :
  ~ (forall r c x, In r C14.Gen.routes -> allows r c x = true -> policy r c x = true).
Proof. exact policy_refuted. Qed.
Print Assumptions C14_policy_refuted.

(** What holds: the same statement for every route other than GET /metrics
    (table of C14.Gen.n_routes routes x 16 callers x 4 contexts, closed by vm_compute, lifted by forallb_forall). *)
Theorem C14_policy_partial : forall r c x,
  In r C14.Gen.routes -> is_metrics r = false -> allows r c x = true -> policy r c x = true.
Proof. exact policy_partial. Qed.
Print Assumptions C14_policy_partial.

(** Every caller the policy refuses gets an error and the state is unchanged, whatever the handler's effect is. *)
Theorem C14_denied_changes_nothing : forall (S : Type) (eff : route -> S -> S) r c x (s : S),
  In r C14.Gen.routes -> is_metrics r = false -> policy r c x = false -> handle eff r c x s = (false, s).
Proof. exact denied_changes_nothing. Qed.
Print Assumptions C14_denied_changes_nothing.

(** Only the whitelisted public routes are reachable without an authenticated, active user. *)
Theorem C14_unauthenticated_only_public : forall r c x,
  In r C14.Gen.routes -> is_metrics r = false -> authenticated c && active c = false -> allows r c x = true ->
  is_public r = true.
Proof. exact unauthenticated_only_public. Qed.
Print Assumptions C14_unauthenticated_only_public.

(** ---- list endpoints: the scope is one conjunct of a WHERE clause assembled as text (Routes/ListModel.v) ----
    The builders C14.Lists.* are GENERATED from query_v1.py / query_v2.py / front_end.py.  [holds env w]: the emitted text [w]
    read with SQL precedence (OR < AND < NOT) under the truth assignment [env] of its atoms.  Atom numbers are fixed by the
    translator: 0 `jobs.batch_id = %s`, 1 `batch_updates.committed`, 2 `jobs.job_group_id = %s`, 3 `(jobs.batch_id,
    jobs.job_group_id) IN (self-and-ancestors rows of the URL's batch and group)`, 10 `billing_project_users.user = %s`,
    11 `billing_project_users.billing_project = batches.billing_project`, 20 `job_groups.batch_id = %s`,
    21 `job_group_self_and_ancestors.ancestor_id = %s`, 22 `job_group_self_and_ancestors.level = 1`. *)

(** The general fact: a joined clause whose conjuncts each read as one operand is true only if every conjunct is. *)
Theorem C14_where_scoped : forall env cs, Forall (fun c => tightb c = true) cs ->
  holds env (join_and cs) = true -> forall c, In c cs -> tval env c = true.
Proof. exact where_scoped. Qed.
Print Assumptions C14_where_scoped.

(** GET .../batches/{batch_id}/jobs and .../job-groups/{id}/jobs, query language v1: for EVERY list of search terms
    (branch of the term chain, number of states of a state keyword, negation), every paging / recursion flag, and every
    text [ds] with the same top-level operands and keywords as the emitted term conditions (atoms and bracket contents
    arbitrary), a row satisfies the WHERE clause only if it is a committed job of the URL's batch in the URL's job group. *)
Theorem C14_list_jobs_v1_scoped : forall recursive has_last ts cs ds env,
  v1_conjs C14.Lists.jobs_v1_cond C14.Lists.jobs_v1_neg ts = Some cs ->
  Forall2 (fun c d => same_shape c d = true) cs ds ->
  holds env (join_and (C14.Lists.jobs_v1_init recursive has_last ++ ds)) = true -> jobs_scope env recursive = true.
Proof. exact jobs_v1_scoped. Qed.
Print Assumptions C14_list_jobs_v1_scoped.

(** the same, query language v2 (and the UI batch page): for ANY list of conditions produced by the Query classes *)
Theorem C14_list_jobs_v2_scoped : forall recursive has_last conds env,
  holds env (v2_where (C14.Lists.jobs_v2_init recursive has_last) C14.Lists.jobs_v2_wrap conds) = true ->
  jobs_scope env recursive = true.
Proof. exact jobs_v2_scoped. Qed.
Print Assumptions C14_list_jobs_v2_scoped.

(** GET /api/v1alpha/batches: only rows joined with a billing_project_users row of the caller for the batch's project *)
Theorem C14_list_batches_v1_scoped : forall has_last ts cs ds env,
  v1_conjs C14.Lists.batches_v1_cond C14.Lists.batches_v1_neg ts = Some cs ->
  Forall2 (fun c d => same_shape c d = true) cs ds ->
  holds env (join_and (C14.Lists.batches_v1_init has_last ++ ds)) = true -> env 10%Z && env 11%Z = true.
Proof. exact batches_v1_scoped. Qed.
Print Assumptions C14_list_batches_v1_scoped.

(** GET /api/v2alpha/batches and the UI batches page: only rows whose billing_project_users row is the caller's (that this row
    belongs to the batch's project is the INNER JOIN condition of the statement, checked by execution only) *)
Theorem C14_list_batches_v2_scoped : forall has_last conds env,
  holds env (v2_where (C14.Lists.batches_v2_init has_last) C14.Lists.batches_v2_wrap conds) = true -> env 10%Z = true.
Proof. exact batches_v2_scoped. Qed.
Print Assumptions C14_list_batches_v2_scoped.

Theorem C14_list_job_groups_scoped : forall has_last env,
  holds env (join_and (C14.Lists.groups_v1_init has_last)) = true -> env 20%Z && env 21%Z && env 22%Z = true.
Proof. exact groups_v1_scoped. Qed.
Print Assumptions C14_list_job_groups_scoped.

Theorem C14_list_completed_batches_scoped : forall has_last env,
  holds env (join_and (C14.Lists.completed_init has_last)) = true -> env 10%Z && env 11%Z = true.
Proof. exact completed_scoped. Qed.
Print Assumptions C14_list_completed_batches_scoped.

Theorem C14_list_billing_jobs_scoped : forall has_last env,
  holds env (join_and (C14.Lists.billing_jobs_init has_last)) = true -> env 0%Z = true.
Proof. exact billing_jobs_scoped. Qed.
Print Assumptions C14_list_billing_jobs_scoped.

(** the bracket hypothesis is necessary: an unbracketed two-state OR-join after the scope conjunct is satisfied by rows
    outside the scope *)
Theorem C14_unbracketed_or_leaks : exists env,
  holds env (join_and [[IGroup [IAtom 0%Z; IAnd; IAtom 1%Z]]; or_join [IGroup [IAtom 104%Z]] 2]) = true /\ env 0%Z = false.
Proof. exact unbracketed_or_leaks. Qed.
Print Assumptions C14_unbracketed_or_leaks.

(** ---- billing read paths (GET /billing, /billing_limits, /api/v1alpha/billing_projects[/{billing_project}]) ----
    The builders are generated from _query_billing (front_end.py) and query_billing_projects_with/without_cost (utils.py);
    their flags are the presence of the optional parameters.  Whenever the handler passes a user — it does for every caller that is
    neither a developer nor (REST) the auth service: checked on the real handlers by the run — the clause holds only for rows of that
    user / projects whose member list contains that user, WHATEVER the other optional filters (end date, billing project) are. *)
Theorem C14_billing_scoped : forall has_end env,
  holds env (join_and (C14.Lists.billing_init has_end true)) = true -> env 30%Z = true.
Proof. exact billing_scoped. Qed.
Print Assumptions C14_billing_scoped.

Theorem C14_billing_projects_with_cost_scoped : forall has_bp env,
  holds env (join_and (C14.Lists.bp_with_cost_init true has_bp)) = true ->
  env 31%Z = true /\ (has_bp = true -> env 32%Z = true).
Proof. exact bp_with_cost_scoped. Qed.
Print Assumptions C14_billing_projects_with_cost_scoped.

Theorem C14_billing_projects_without_cost_scoped : forall has_bp env,
  holds env (join_and (C14.Lists.bp_without_cost_init true has_bp)) = true ->
  env 31%Z = true /\ (has_bp = true -> env 32%Z = true).
Proof. exact bp_without_cost_scoped. Qed.
Print Assumptions C14_billing_projects_without_cost_scoped.

Theorem C14_billing_project_of_url_scoped : forall has_user env,
  holds env (join_and (C14.Lists.bp_with_cost_init has_user true)) = true -> env 32%Z = true.
Proof. exact bp_with_cost_project_scoped. Qed.
Print Assumptions C14_billing_project_of_url_scoped.

(** a user conjunct that is appended only when no end date is given does not restrict the rows *)
Theorem C14_user_filter_in_elif_leaks : exists env,
  holds env (join_and ([[IAtom 121%Z]; [IAtom 122%Z]] ++ (if true then [[IAtom 123%Z]] else [[IAtom 30%Z]]))) = true /\ env 30%Z = false.
Proof. exact user_filter_in_elif_leaks. Qed.
Print Assumptions C14_user_filter_in_elif_leaks.
