(** C14 — property theorems only.  They are about the route table GENERATED from the current front_end.py. *)
From Coq Require Import List Bool String.
From HailV Require Import Routes.Model Routes.Lemmas.
From HailG Require C14.Gen.

(** The literal property: whenever the code lets a request through, the path-derived policy lets it through —
    for every registered route, caller kind, ownership and billing-project membership.
    It is REFUTED on the current tree: GET /metrics (registered in run()) is served to unauthenticated callers and is
    not among the property's exceptions (known finding "GET /metrics|unauthenticated"). *)
Theorem C14_policy_refuted :
  ~ (forall r c x, In r C14.Gen.routes -> allows r c x = true -> policy r c x = true).
Proof. exact policy_refuted. Qed.
Print Assumptions C14_policy_refuted.

(** What holds: the same statement for every route other than GET /metrics
    (table of C14.Gen.n_routes routes x 16 callers x 4 contexts, closed by vm_compute, lifted by forallb_forall). *)
Theorem C14_policy_partial : forall r c x,
  In r C14.Gen.routes -> is_metrics r = false -> allows r c x = true -> policy r c x = true.
Proof. exact policy_partial. Qed.
Print Assumptions C14_policy_partial.

(** Every caller the policy refuses gets an error and the state is unchanged, whatever the handler's effect is. *)
Theorem C14_denied_changes_nothing : forall (S : Type) (eff : route -> S -> S) r c x (s : S),
  In r C14.Gen.routes -> is_metrics r = false -> policy r c x = false -> handle eff r c x s = (false, s).
Proof. exact denied_changes_nothing. Qed.
Print Assumptions C14_denied_changes_nothing.

(** Only the whitelisted public routes are reachable without an authenticated, active user. *)
Theorem C14_unauthenticated_only_public : forall r c x,
  In r C14.Gen.routes -> is_metrics r = false -> authenticated c && active c = false -> allows r c x = true ->
  is_public r = true.
Proof. exact unauthenticated_only_public. Qed.
Print Assumptions C14_unauthenticated_only_public.
