(** C14, list endpoints — executable definitions only.

    The job / job-group / batch listing endpoints put their access scope (the batch of the URL, the caller's billing
    projects) into the SAME WHERE clause as the user's search terms; the clause is assembled as TEXT:
    [' AND '.join(where_conditions)].  What the database evaluates is that text read with SQL operator precedence
    (OR < AND < NOT < everything else).  The model keeps exactly what matters for that reading:

      item list = the text of a condition with its BRACKETS resolved and nothing else: atoms (maximal operator-free chunks,
      opaque), bracket groups, and the keywords AND / OR / NOT of each bracket level, in textual order.

    [run] evaluates an item list left to right with SQL precedence; text concatenation with ' AND ' is list concatenation
    with [IAnd] ([join_and]); ' OR '.join is [or_join].  The builders are generated from the Python source into
    HailG.C14.Lists by harness/translate/c14_lists.py. *)
From Coq Require Import List Bool ZArith.
Import ListNotations.

Inductive item : Type :=
| IAtom (a : Z)
| IGroup (l : list item)
| IAnd | IOr | INot.

(** Left-to-right evaluation of one bracket level.  [o]: value of the OR-operands finished so far; [a]: value of the
    AND-run being read; [n]: a prefix NOT is pending for the next operand.  At the end the value is [o || a].
    OR closes the current AND-run (AND binds tighter); NOT applies to the next operand only (NOT binds tighter than AND).
    [prim] is the value of one operand; for a bracket group it is the same evaluation of the content (nested fixpoint;
    ListLemmas.prim_group: prim env (IGroup g) = run env g false true false). *)
Fixpoint prim (env : Z -> bool) (i : item) {struct i} : bool :=
  match i with
  | IAtom x => env x
  | IGroup g =>
      (fix go (l : list item) (o a n : bool) {struct l} : bool :=
         match l with
         | [] => o || a
         | IAnd :: r => go r o a n
         | IOr :: r => go r (o || a) true false
         | INot :: r => go r o a (negb n)
         | j :: r => go r o (a && xorb n (prim env j)) false
         end) g false true false
  | _ => true
  end.

Fixpoint run (env : Z -> bool) (l : list item) (o a n : bool) {struct l} : bool :=
  match l with
  | [] => o || a
  | IAnd :: r => run env r o a n
  | IOr :: r => run env r (o || a) true false
  | INot :: r => run env r o a (negb n)
  | j :: r => run env r o (a && xorb n (prim env j)) false      (* an atom or a bracket group: one operand *)
  end.

Definition holds (env : Z -> bool) (l : list item) : bool := run env l false true false.

(** [' AND '.join(cs)] *)
Fixpoint join_and (cs : list (list item)) : list item :=
  match cs with
  | [] => []
  | [c] => c
  | c :: r => c ++ IAnd :: join_and r
  end.

(** [' OR '.join([c for _ in range n])] *)
Fixpoint or_join (c : list item) (n : nat) : list item :=
  match n with
  | O => []
  | S O => c
  | S m => c ++ IOr :: or_join c m
  end.

(** A conjunct that reads as ONE operand whatever stands around it: an atom, a bracket group, or NOT in front of one. *)
Fixpoint tightb (c : list item) : bool :=
  match c with
  | [IAtom _] => true
  | [IGroup _] => true
  | INot :: r => tightb r
  | _ => false
  end.

(** its value *)
Fixpoint tval (env : Z -> bool) (c : list item) : bool :=
  match c with
  | IAtom x :: _ => env x
  | IGroup g :: _ => holds env g
  | INot :: r => negb (tval env r)
  | _ => true
  end.

(** Same sequence of operands and keywords at the top bracket level; the atoms and the CONTENT of the bracket groups are
    arbitrary: every occurrence of an atom may stand for a different comparison (the `%s` of two textually equal atoms are
    bound to different arguments), and nothing is assumed about what a builder puts inside its brackets. *)
Fixpoint same_shape (c d : list item) {struct c} : bool :=
  match c, d with
  | [], [] => true
  | IAtom _ :: r, IAtom _ :: s => same_shape r s
  | IGroup _ :: r, IGroup _ :: s => same_shape r s
  | IAnd :: r, IAnd :: s => same_shape r s
  | IOr :: r, IOr :: s => same_shape r s
  | INot :: r, INot :: s => same_shape r s
  | _, _ => false
  end.

(** ---- the builders' control flow (the text pieces come from HailG.C14.Lists) ---- *)

(** version-1 builders: one search term = (branch of the if/elif chain, number of values of a state keyword, negated) *)
Definition term : Type := (nat * nat * bool)%type.

Definition v1_conj (cond : nat -> nat -> option (list item)) (neg : list item -> list item) (t : term) : option (list item) :=
  let '(k, nvals, negate) := t in
  match cond k nvals with
  | None => None                                     (* QueryError: no statement is issued *)
  | Some c => Some (if negate then neg c else c)
  end.

Fixpoint v1_conjs cond neg (ts : list term) : option (list (list item)) :=
  match ts with
  | [] => Some []
  | t :: r => match v1_conj cond neg t, v1_conjs cond neg r with
              | Some c, Some cs => Some (c :: cs)
              | _, _ => None
              end
  end.

Definition v1_where (init : list (list item)) cond neg (ts : list term) : option (list item) :=
  match v1_conjs cond neg ts with
  | None => None
  | Some cs => Some (join_and (init ++ cs))
  end.

(** version-2 builders: the conditions come from the Query classes of query.py; each is wrapped *)
Definition v2_where (init : list (list item)) (wrap : list item -> list item) (conds : list (list item)) : list item :=
  join_and (init ++ map wrap conds).
