(** C14 — batch front-end access control: executable definitions only.

    A route is what the translator (harness/translate/c14_routes.py) reads off batch/batch/front_end/front_end.py:
    verb, path segments, handler name, the guards contributed by its decorator stack (outermost first) and the guard
    established inside the handler body (the owner filter that dominates every database effect, or [GTrue]).
    [allows] is the access decision the code makes; [policy] is the property's statement, derived from verb and path only. *)
From Coq Require Import List Bool String.
Import ListNotations.
Open Scope string_scope.

Inductive verb := GET | POST | PATCH | DELETE | PUT | HEAD | STATIC.

Definition verb_eqb (a b : verb) : bool :=
  match a, b with
  | GET, GET | POST, POST | PATCH, PATCH | DELETE, DELETE | PUT, PUT | HEAD, HEAD | STATIC, STATIC => true
  | _, _ => false
  end.

(** Who is calling.  [authenticated]: the session id / bearer token resolves to a user at the auth service;
    [active]: that user's state is not 'inactive'; [developer]: is_developer = 1; [is_auth]: username = 'auth'. *)
Record caller := mkCaller { authenticated : bool; active : bool; developer : bool; is_auth : bool }.

(** Relation between the caller and the batch named in the path: [owner]: batches.user = caller;
    [member]: caller is in billing_project_users of the batch's billing project. *)
Record ctx := mkCtx { owner : bool; member : bool }.

Inductive guard :=
| GTrue | GFalse
| GAuthActive        (* gear.auth authenticated_users_only: userdata present and state <> 'inactive' *)
| GDev               (* userdata['is_developer'] == 1 *)
| GIsAuthUser        (* userdata['username'] == 'auth' *)
| GMember            (* _user_can_access: row of batches x billing_project_users for (batch_id, caller) *)
| GOwner             (* SELECT ... WHERE user = caller ... ; if not record: raise HTTPNotFound *)
| GAnd (a b : guard) | GOr (a b : guard).

Fixpoint eval_guard (g : guard) (c : caller) (x : ctx) : bool :=
  match g with
  | GTrue => true | GFalse => false
  | GAuthActive => authenticated c && active c
  | GDev => developer c
  | GIsAuthUser => is_auth c
  | GMember => member x
  | GOwner => owner x
  | GAnd a b => eval_guard a c x && eval_guard b c x
  | GOr a b => eval_guard a c x || eval_guard b c x
  end.

(** Semantics given to the gear.auth decorators (validated against the real decorators on every run, correspondence
    "decorator-semantics") *)
Definition g_authenticated_users_only : guard := GAuthActive.
Definition g_authenticated_developers_only : guard := GAnd GAuthActive GDev.

Record route := mkRoute {
  r_verb : verb;
  r_path : list string;
  r_name : string;
  r_guards : list guard;     (* decorator stack, outermost first; transparent decorators contribute GTrue *)
  r_body : guard             (* guard that dominates every effect inside the handler body *)
}.

Definition allows (r : route) (c : caller) (x : ctx) : bool :=
  forallb (fun g => eval_guard g c x) (r_guards r) && eval_guard (r_body r) c x.

(** ------------------------------------------------------------------------------------------------------------
    The property, from verb and path alone. *)

Definition has_seg (s : string) (p : list string) : bool := existsb (String.eqb s) p.

Definition last_seg (p : list string) : string := last p "".

Fixpoint path_eqb (p q : list string) : bool :=
  match p, q with
  | [], [] => true
  | a :: p', b :: q' => String.eqb a b && path_eqb p' q'
  | _, _ => false
  end.

(** health, version / cloud information, documentation, legal pages, static assets *)
Definition public_paths : list (verb * list string) :=
  [ (GET, ["healthcheck"]);
    (GET, ["api"; "v1alpha"; "version"]);
    (GET, ["api"; "v1alpha"; "cloud"]);
    (GET, ["swagger"]);
    (GET, ["openapi.yaml"]);
    (GET, ["tos"]);
    (GET, ["privacy"]);
    (GET, ["batch"; "static"; "js"; "{filename}"]);
    (STATIC, ["common_static"]) ].

Definition is_public (r : route) : bool :=
  existsb (fun vp => verb_eqb (fst vp) (r_verb r) && path_eqb (snd vp) (r_path r)) public_paths.

Inductive rclass := BatchMember | BatchOwner | BillingAdmin | AnyUser.

Definition classify (r : route) : rclass :=
  if has_seg "{batch_id}" (r_path r) then
    match r_verb r with
    | GET | HEAD => BatchMember                                          (* read *)
    | DELETE => BatchMember                                              (* delete *)
    | _ => if String.eqb (last_seg (r_path r)) "cancel" || String.eqb (last_seg (r_path r)) "delete"
           then BatchMember                                              (* cancel / delete *)
           else BatchOwner                                               (* add jobs, groups, updates; commit; close *)
    end
  else if (has_seg "billing_projects" (r_path r) || has_seg "billing_limits" (r_path r))
          && negb (verb_eqb (r_verb r) GET) && negb (verb_eqb (r_verb r) HEAD)
       then BillingAdmin
       else AnyUser.

Definition policy (r : route) (c : caller) (x : ctx) : bool :=
  if is_public r then true
  else authenticated c && active c &&
       match classify r with
       | BatchMember => member x
       | BatchOwner => owner x
       | BillingAdmin => developer c || is_auth c
       | AnyUser => true
       end.

(** Finite domains *)
Definition bools : list bool := [false; true].
Definition all_callers : list caller :=
  flat_map (fun a => flat_map (fun b => flat_map (fun d => map (fun e => mkCaller a b d e) bools) bools) bools) bools.
Definition all_ctxs : list ctx := flat_map (fun o => map (fun m => mkCtx o m) bools) bools.
Definition all_cx : list (caller * ctx) := flat_map (fun c => map (fun x => (c, x)) all_ctxs) all_callers.

Definition route_ok (r : route) : bool :=
  forallb (fun cx => implb (allows r (fst cx) (snd cx)) (policy r (fst cx) (snd cx))) all_cx.

(** Handling a request: the effect of the handler happens only behind the access decision. *)
Definition handle {S : Type} (eff : route -> S -> S) (r : route) (c : caller) (x : ctx) (s : S) : bool * S :=
  if allows r c x then (true, eff r s) else (false, s).

(** The one route of the unchanged tree that the literal property does not cover (see findings/C14.json) *)
Definition is_metrics (r : route) : bool := verb_eqb (r_verb r) GET && path_eqb (r_path r) ["metrics"].
