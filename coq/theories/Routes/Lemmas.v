(** C14 — proofs.  The route table [HailG.C14.Gen.routes] is regenerated from front_end.py on every run; the domain
    (routes x 16 callers x 4 contexts) is finite, so the per-route check is closed by [vm_compute] and lifted to the
    universally quantified statements with [forallb_forall]. *)
From Coq Require Import List Bool String.
From HailV Require Import Routes.Model.
From HailG Require C14.Gen.
Import ListNotations.
Open Scope string_scope.

(** the enumeration of callers and contexts is complete *)
Lemma all_cx_complete : forall c x, In (c, x) all_cx.
Proof.
  intros [[] [] [] []] [[] []]; vm_compute; repeat (first [left; reflexivity | right]).
Qed.

Lemma route_ok_sound : forall r, route_ok r = true -> forall c x, allows r c x = true -> policy r c x = true.
Proof.
  intros r H c x Ha. unfold route_ok in H. rewrite forallb_forall in H.
  specialize (H (c, x) (all_cx_complete c x)). cbn [fst snd] in H. rewrite Ha in H. exact H.
Qed.

(** generated guards of the decorators defined in front_end.py = hand model *)
Lemma gen_billing_project_users_only : forall c x,
  eval_guard C14.Gen.g_billing_project_users_only c x = authenticated c && active c && member x.
Proof. reflexivity. Qed.

Lemma gen_developers_or_auth_only : forall c x,
  eval_guard C14.Gen.g_authenticated_developers_or_auth_only c x = authenticated c && active c && (developer c || is_auth c).
Proof. reflexivity. Qed.

Lemma table_size : List.length C14.Gen.routes = C14.Gen.n_routes.
Proof. reflexivity. Qed.

(** every generated route except GET /metrics satisfies the policy for all 64 (caller, context) combinations *)
Lemma routes_ok : forallb (fun r => is_metrics r || route_ok r) C14.Gen.routes = true.
Proof. vm_compute. reflexivity. Qed.

Lemma policy_partial : forall r c x,
  In r C14.Gen.routes -> is_metrics r = false -> allows r c x = true -> policy r c x = true.
Proof.
  intros r c x Hin Hm Ha. pose proof routes_ok as H. rewrite forallb_forall in H.
  specialize (H r Hin). rewrite Hm in H. cbn [orb] in H. exact (route_ok_sound r H c x Ha).
Qed.

Lemma denied_changes_nothing : forall (S : Type) (eff : route -> S -> S) r c x (s : S),
  In r C14.Gen.routes -> is_metrics r = false -> policy r c x = false -> handle eff r c x s = (false, s).
Proof.
  intros S eff r c x s Hin Hm Hp. unfold handle. destruct (allows r c x) eqn:Ha; [| reflexivity].
  rewrite (policy_partial r c x Hin Hm Ha) in Hp. discriminate.
Qed.

Lemma unauthenticated_only_public : forall r c x,
  In r C14.Gen.routes -> is_metrics r = false -> authenticated c && active c = false -> allows r c x = true ->
  is_public r = true.
Proof.
  intros r c x Hin Hm Hc Ha. pose proof (policy_partial r c x Hin Hm Ha) as Hp. unfold policy in Hp.
  destruct (is_public r); [reflexivity |]. rewrite Hc in Hp. discriminate.
Qed.

(** the literal property is refuted on the current tree by the metrics endpoint *)
Lemma policy_witness : exists r c x, In r C14.Gen.routes /\ allows r c x = true /\ policy r c x = false.
Proof.
  destruct (find is_metrics C14.Gen.routes) as [r|] eqn:E; [| vm_compute in E; discriminate].
  pose proof (find_some _ _ E) as [Hin _].
  exists r, (mkCaller false false false false), (mkCtx false false). split; [exact Hin |].
  vm_compute in E. injection E as <-. split; reflexivity.
Qed.

Lemma policy_refuted : ~ (forall r c x, In r C14.Gen.routes -> allows r c x = true -> policy r c x = true).
Proof.
  intros H. destruct policy_witness as (r & c & x & Hin & Ha & Hp). rewrite (H r c x Hin Ha) in Hp. discriminate.
Qed.

(** hypotheses are satisfiable: an owner is allowed on a non-metrics route, a non-owner is refused on it *)
Lemma example_allowed : exists r c x, In r C14.Gen.routes /\ is_metrics r = false /\ classify r = BatchOwner /\ allows r c x = true.
Proof.
  destruct (find (fun r => match classify r with BatchOwner => true | _ => false end) C14.Gen.routes) as [r|] eqn:E;
    [| vm_compute in E; discriminate].
  pose proof (find_some _ _ E) as [Hin _].
  exists r, (mkCaller true true false false), (mkCtx true false). split; [exact Hin |].
  vm_compute in E. injection E as <-. repeat split; reflexivity.
Qed.
