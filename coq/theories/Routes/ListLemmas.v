(** C14, list endpoints — proofs.

    Main result ([where_scoped]): if every conjunct of [' AND '.join(conjuncts)] reads as ONE operand ([tightb]: an atom, a
    bracket group, or NOT in front of one), then the joined text, read with SQL precedence, is true only if EVERY conjunct is
    true — in particular the scope conjunct.  The builders generated from the Python source (HailG.C14.Lists) satisfy the
    hypothesis for every search term ([*_cond_tight], by case analysis on the branches of the generated if/elif chain), and
    so does any text with the same brackets and keywords but other atoms ([same_shape]).
    [unbracketed_or_leaks] shows the hypothesis is needed: an OR-join that is not bracketed escapes the scope. *)
From Coq Require Import List Bool ZArith Lia.
From HailV Require Import Routes.ListModel.
From HailG Require C14.Lists.
Import ListNotations.

Section Run.
Variable env : Z -> bool.

Lemma prim_group_aux : forall g o a n,
  (fix go (l : list item) (o a n : bool) {struct l} : bool :=
     match l with
     | [] => o || a
     | IAnd :: r => go r o a n
     | IOr :: r => go r (o || a) true false
     | INot :: r => go r o a (negb n)
     | j :: r => go r o (a && xorb n (prim env j)) false
     end) g o a n = run env g o a n.
Proof.
  induction g as [|j g IH]; intros o a n; [reflexivity|].
  destruct j; cbn [run]; apply IH.
Qed.

Lemma prim_group : forall g, prim env (IGroup g) = holds env g.
Proof. intros g. unfold holds. rewrite <- prim_group_aux. reflexivity. Qed.

Definition tight (c : list item) (v : bool) : Prop :=
  forall r o a n, run env (c ++ r) o a n = run env r o (a && xorb n v) false.

Lemma tightb_tight : forall c, tightb c = true -> tight c (tval env c).
Proof.
  induction c as [|i c IH]; intros H; [discriminate H|].
  destruct i as [x|g| | |].
  - destruct c; [|discriminate H]. intros r o a n. reflexivity.
  - destruct c; [|discriminate H]. intros r o a n. cbn [app run tval]. rewrite prim_group. reflexivity.
  - discriminate H.
  - discriminate H.
  - cbn [tightb] in H. specialize (IH H). intros r o a n. cbn [app run tval].
    rewrite IH. f_equal. f_equal. destruct n, (tval env c); reflexivity.
Qed.

Lemma run_join_and : forall cs, Forall (fun c => tightb c = true) cs ->
  forall o a, run env (join_and cs) o a false = o || (a && forallb (tval env) cs).
Proof.
  induction cs as [|c cs IH]; intros HF o a.
  - cbn. rewrite andb_true_r. reflexivity.
  - inversion HF as [|c' cs' Hc Hcs]; subst.
    pose proof (tightb_tight c Hc) as Ht.
    destruct cs as [|d cs].
    + cbn [join_and forallb]. rewrite <- (app_nil_r c) at 1. rewrite Ht. cbn [run xorb].
      destruct (tval env c), a, o; reflexivity.
    + change (join_and (c :: d :: cs)) with (c ++ IAnd :: join_and (d :: cs)).
      rewrite Ht. cbn [run xorb]. rewrite (IH Hcs). cbn [forallb].
      destruct (tval env c), a, o; reflexivity.
Qed.

Lemma holds_join_and : forall cs, Forall (fun c => tightb c = true) cs ->
  holds env (join_and cs) = forallb (tval env) cs.
Proof. intros cs H. unfold holds. rewrite (run_join_and cs H). reflexivity. Qed.

(** every conjunct of a true WHERE clause is true *)
Theorem where_scoped : forall cs, Forall (fun c => tightb c = true) cs ->
  holds env (join_and cs) = true -> forall c, In c cs -> tval env c = true.
Proof.
  intros cs HF H c Hin. rewrite (holds_join_and cs HF) in H. rewrite forallb_forall in H. exact (H c Hin).
Qed.
End Run.

(** ---- shape ---- *)

Lemma same_shape_tightb : forall c d, same_shape c d = true -> tightb c = true -> tightb d = true.
Proof.
  induction c as [|i c IH]; intros d Hs Ht; [discriminate Ht|].
  destruct i as [x|g| | |]; destruct d as [|j d]; try discriminate Hs; destruct j as [y|h| | |]; try discriminate Hs.
  - destruct c; [|discriminate Ht]. destruct d; [reflexivity|discriminate Hs].
  - destruct c; [|discriminate Ht]. destruct d; [reflexivity|discriminate Hs].
  - discriminate Ht.
  - discriminate Ht.
  - cbn [tightb same_shape] in *. exact (IH d Hs Ht).
Qed.

Lemma Forall2_shape_tight : forall cs ds,
  Forall2 (fun c d => same_shape c d = true) cs ds ->
  Forall (fun c => tightb c = true) cs -> Forall (fun d => tightb d = true) ds.
Proof.
  induction 1 as [|c d cs ds Hcd _ IH]; intros HF; [constructor|].
  inversion HF; subst. constructor; [eapply same_shape_tightb; eassumption | auto].
Qed.

(** ---- version-1 builders ---- *)

Section V1.
Variable cond : nat -> nat -> option (list item).
Variable neg : list item -> list item.
Hypothesis cond_tight : forall k n c, cond k n = Some c -> tightb c = true.
Hypothesis neg_tight : forall c, tightb (neg c) = true.

Lemma v1_conjs_tight : forall ts cs, v1_conjs cond neg ts = Some cs -> Forall (fun c => tightb c = true) cs.
Proof.
  induction ts as [|t ts IH]; intros cs H; cbn [v1_conjs] in H.
  - inversion H. constructor.
  - destruct (v1_conj cond neg t) as [c|] eqn:Ec; [|discriminate H].
    destruct (v1_conjs cond neg ts) as [cs'|] eqn:Ecs; [|discriminate H].
    inversion H; subst. constructor; [|apply IH; reflexivity].
    unfold v1_conj in Ec. destruct t as [[k n] ng]. destruct (cond k n) as [c0|] eqn:E0; [|discriminate Ec].
    inversion Ec; subst. destruct ng; [apply neg_tight | eapply cond_tight; eassumption].
Qed.

(** For every list of search terms: if the builder emits a statement, then for every text with the same brackets and
    keywords as the emitted term conditions (arbitrary atoms), the WHERE clause holds only if every initial (scope)
    conjunct holds. *)
Theorem v1_scoped : forall init, Forall (fun c => tightb c = true) init ->
  forall ts cs ds env, v1_conjs cond neg ts = Some cs ->
  Forall2 (fun c d => same_shape c d = true) cs ds ->
  holds env (join_and (init ++ ds)) = true -> forall c, In c init -> tval env c = true.
Proof.
  intros init Hi ts cs ds env Hcs Hsh H c Hin.
  apply (where_scoped env (init ++ ds)); [|exact H|apply in_or_app; left; exact Hin].
  apply Forall_app. split; [exact Hi|].
  eapply Forall2_shape_tight; [exact Hsh|]. eapply v1_conjs_tight; exact Hcs.
Qed.
End V1.

Lemma same_shape_refl : forall c, same_shape c c = true.
Proof.
  induction c as [|i c IH]; [reflexivity|]. destruct i; cbn [same_shape]; exact IH.
Qed.

Lemma Forall2_shape_refl : forall cs, Forall2 (fun c d => same_shape c d = true) cs cs.
Proof. induction cs; constructor; [apply same_shape_refl|assumption]. Qed.

(** ---- version-2 builders: ANY conditions, as long as each is wrapped in brackets ---- *)

Theorem v2_scoped : forall init wrap, Forall (fun c => tightb c = true) init ->
  (forall c, tightb (wrap c) = true) ->
  forall conds env, holds env (v2_where init wrap conds) = true -> forall c, In c init -> tval env c = true.
Proof.
  intros init wrap Hi Hw conds env H c Hin. unfold v2_where in H.
  apply (where_scoped env (init ++ map wrap conds)); [|exact H|apply in_or_app; left; exact Hin].
  apply Forall_app. split; [exact Hi|]. apply Forall_forall. intros d Hd. apply in_map_iff in Hd.
  destruct Hd as [x [Hx _]]. subst. apply Hw.
Qed.

(** ---- the generated builders satisfy the hypotheses ---- *)

Ltac branches H :=
  repeat match type of H with
         | context [match ?k with O => _ | S _ => _ end] => destruct k
         end;
  cbn in H; try discriminate H; inversion H; subst; reflexivity.

Lemma jobs_v1_cond_tight : forall k n c, C14.Lists.jobs_v1_cond k n = Some c -> tightb c = true.
Proof. intros k n c H. unfold C14.Lists.jobs_v1_cond in H. branches H. Qed.

Lemma jobs_v1_neg_tight : forall c, tightb (C14.Lists.jobs_v1_neg c) = true.
Proof. intros c. reflexivity. Qed.

Lemma jobs_v1_init_tight : forall r l, Forall (fun c => tightb c = true) (C14.Lists.jobs_v1_init r l).
Proof. intros [] []; repeat constructor. Qed.

Lemma batches_v1_cond_tight : forall k n c, C14.Lists.batches_v1_cond k n = Some c -> tightb c = true.
Proof. intros k n c H. unfold C14.Lists.batches_v1_cond in H. branches H. Qed.

Lemma batches_v1_neg_tight : forall c, tightb (C14.Lists.batches_v1_neg c) = true.
Proof. intros c. reflexivity. Qed.

Lemma batches_v1_init_tight : forall l, Forall (fun c => tightb c = true) (C14.Lists.batches_v1_init l).
Proof. intros []; repeat constructor. Qed.

Lemma groups_v1_init_tight : forall l, Forall (fun c => tightb c = true) (C14.Lists.groups_v1_init l).
Proof. intros []; repeat constructor. Qed.

Lemma jobs_v2_wrap_tight : forall c, tightb (C14.Lists.jobs_v2_wrap c) = true.
Proof. intros c. reflexivity. Qed.

Lemma jobs_v2_init_tight : forall r l, Forall (fun c => tightb c = true) (C14.Lists.jobs_v2_init r l).
Proof. intros [] []; repeat constructor. Qed.

Lemma batches_v2_wrap_tight : forall c, tightb (C14.Lists.batches_v2_wrap c) = true.
Proof. intros c. reflexivity. Qed.

Lemma batches_v2_init_tight : forall l, Forall (fun c => tightb c = true) (C14.Lists.batches_v2_init l).
Proof. intros []; repeat constructor. Qed.

Lemma completed_init_tight : forall l, Forall (fun c => tightb c = true) (C14.Lists.completed_init l).
Proof. intros []; repeat constructor. Qed.

Lemma billing_jobs_init_tight : forall l, Forall (fun c => tightb c = true) (C14.Lists.billing_jobs_init l).
Proof. intros []; repeat constructor. Qed.

(** ---- the scope conjuncts (fixed atom numbers of the translator: 0 jobs.batch_id = %s, 1 batch_updates.committed,
         2 jobs.job_group_id = %s, 3 (batch, group) IN self_and_ancestors of the URL's group, 10 billing_project_users.user = %s,
         11 billing_project_users.billing_project = batches.billing_project, 20 job_groups.batch_id = %s,
         21 ancestor_id = %s, 22 level = 1) ---- *)

Definition jobs_scope (env : Z -> bool) (recursive : bool) : bool :=
  env 0%Z && env 1%Z && (if recursive then env 3%Z else env 2%Z).

Lemma jobs_init_scope : forall init env r l,
  (init = C14.Lists.jobs_v1_init r l \/ init = C14.Lists.jobs_v2_init r l \/ False) ->
  (forall c, In c init -> tval env c = true) -> jobs_scope env r = true.
Proof.
  intros init env r l Hi H. unfold jobs_scope.
  assert (H0 : tval env [IGroup [IAtom 0%Z; IAnd; IAtom 1%Z]] = true).
  { apply H. destruct Hi as [->|[->|[]]]; destruct r, l; cbn; auto. }
  assert (H1 : tval env [IGroup [IAtom (if r then 3%Z else 2%Z)]] = true).
  { apply H. destruct Hi as [->|[->|[]]]; destruct r, l; cbn; auto. }
  unfold tval, holds in H0, H1. cbn [run prim xorb] in H0, H1.
  destruct r; destruct (env 0%Z), (env 1%Z), (env 2%Z), (env 3%Z); cbn in *; congruence.
Qed.

Theorem jobs_v1_scoped : forall r l ts cs ds env,
  v1_conjs C14.Lists.jobs_v1_cond C14.Lists.jobs_v1_neg ts = Some cs ->
  Forall2 (fun c d => same_shape c d = true) cs ds ->
  holds env (join_and (C14.Lists.jobs_v1_init r l ++ ds)) = true -> jobs_scope env r = true.
Proof.
  intros r l ts cs ds env Hcs Hsh H.
  apply (jobs_init_scope (C14.Lists.jobs_v1_init r l) env r l); [auto|].
  exact (v1_scoped _ _ jobs_v1_cond_tight jobs_v1_neg_tight _ (jobs_v1_init_tight r l) ts cs ds env Hcs Hsh H).
Qed.

Theorem jobs_v2_scoped : forall r l conds env,
  holds env (v2_where (C14.Lists.jobs_v2_init r l) C14.Lists.jobs_v2_wrap conds) = true -> jobs_scope env r = true.
Proof.
  intros r l conds env H.
  apply (jobs_init_scope (C14.Lists.jobs_v2_init r l) env r l); [auto|].
  exact (v2_scoped _ _ (jobs_v2_init_tight r l) jobs_v2_wrap_tight conds env H).
Qed.

Theorem batches_v1_scoped : forall l ts cs ds env,
  v1_conjs C14.Lists.batches_v1_cond C14.Lists.batches_v1_neg ts = Some cs ->
  Forall2 (fun c d => same_shape c d = true) cs ds ->
  holds env (join_and (C14.Lists.batches_v1_init l ++ ds)) = true -> env 10%Z && env 11%Z = true.
Proof.
  intros l ts cs ds env Hcs Hsh H.
  pose proof (v1_scoped _ _ batches_v1_cond_tight batches_v1_neg_tight _ (batches_v1_init_tight l) ts cs ds env Hcs Hsh H) as Hall.
  assert (H0 : tval env [IGroup [IAtom 10%Z; IAnd; IAtom 11%Z]] = true) by (apply Hall; destruct l; cbn; auto).
  cbn in H0. destruct (env 10%Z), (env 11%Z); cbn in *; congruence.
Qed.

Theorem batches_v2_scoped : forall l conds env,
  holds env (v2_where (C14.Lists.batches_v2_init l) C14.Lists.batches_v2_wrap conds) = true -> env 10%Z = true.
Proof.
  intros l conds env H.
  pose proof (v2_scoped _ _ (batches_v2_init_tight l) batches_v2_wrap_tight conds env H) as Hall.
  assert (H0 : tval env [IGroup [IAtom 10%Z]] = true) by (apply Hall; destruct l; cbn; auto).
  cbn in H0. destruct (env 10%Z); cbn in *; congruence.
Qed.

Theorem groups_v1_scoped : forall l env,
  holds env (join_and (C14.Lists.groups_v1_init l)) = true -> env 20%Z && env 21%Z && env 22%Z = true.
Proof.
  intros l env H.
  pose proof (where_scoped env _ (groups_v1_init_tight l) H) as Hall.
  assert (H0 : tval env [IGroup [IAtom 20%Z]] = true) by (apply Hall; destruct l; cbn; auto).
  assert (H1 : tval env [IGroup [IAtom 21%Z; IAnd; IAtom 22%Z]] = true) by (apply Hall; destruct l; cbn; auto).
  cbn in H0, H1. destruct (env 20%Z), (env 21%Z), (env 22%Z); cbn in *; congruence.
Qed.

Theorem completed_scoped : forall l env,
  holds env (join_and (C14.Lists.completed_init l)) = true -> env 10%Z && env 11%Z = true.
Proof.
  intros l env H.
  pose proof (where_scoped env _ (completed_init_tight l) H) as Hall.
  assert (H0 : tval env [IAtom 10%Z] = true) by (apply Hall; destruct l; cbn; auto).
  assert (H1 : tval env [IAtom 11%Z] = true) by (apply Hall; destruct l; cbn; auto).
  cbn in H0, H1. rewrite H0, H1. reflexivity.
Qed.

Theorem billing_jobs_scoped : forall l env,
  holds env (join_and (C14.Lists.billing_jobs_init l)) = true -> env 0%Z = true.
Proof.
  intros l env H.
  pose proof (where_scoped env _ (billing_jobs_init_tight l) H) as Hall.
  assert (H0 : tval env [IGroup [IAtom 0%Z]] = true) by (apply Hall; destruct l; cbn; auto).
  cbn in H0. destruct (env 0%Z); cbn in *; congruence.
Qed.

(** ---- billing read paths: the caller restriction is an OPTIONAL conjunct (appended when the handler passes a user) next to
         other optional conjuncts (end date, billing project).  Atoms: 30 `user` = %s, 31 JSON_CONTAINS(users, JSON_QUOTE(%s)),
         32 billing_projects.name_cs = %s ---- *)

Lemma billing_init_tight : forall e u, Forall (fun c => tightb c = true) (C14.Lists.billing_init e u).
Proof. intros [] []; repeat constructor. Qed.

Lemma bp_with_cost_init_tight : forall u b, Forall (fun c => tightb c = true) (C14.Lists.bp_with_cost_init u b).
Proof. intros [] []; repeat constructor. Qed.

Lemma bp_without_cost_init_tight : forall u b, Forall (fun c => tightb c = true) (C14.Lists.bp_without_cost_init u b).
Proof. intros [] []; repeat constructor. Qed.

(** whenever the handler passes a user (every non-developer caller), whatever the start / end parameters are,
    only rows of that user satisfy the clause *)
Theorem billing_scoped : forall has_end env,
  holds env (join_and (C14.Lists.billing_init has_end true)) = true -> env 30%Z = true.
Proof.
  intros e env H.
  pose proof (where_scoped env _ (billing_init_tight e true) H) as Hall.
  assert (H0 : tval env [IAtom 30%Z] = true) by (apply Hall; destruct e; cbn; auto 10).
  exact H0.
Qed.

Theorem bp_with_cost_scoped : forall has_bp env,
  holds env (join_and (C14.Lists.bp_with_cost_init true has_bp)) = true ->
  env 31%Z = true /\ (has_bp = true -> env 32%Z = true).
Proof.
  intros b env H.
  pose proof (where_scoped env _ (bp_with_cost_init_tight true b) H) as Hall.
  split.
  - assert (H0 : tval env [IAtom 31%Z] = true) by (apply Hall; destruct b; cbn; auto 10). exact H0.
  - intros ->. assert (H0 : tval env [IAtom 32%Z] = true) by (apply Hall; cbn; auto 10). exact H0.
Qed.

Theorem bp_without_cost_scoped : forall has_bp env,
  holds env (join_and (C14.Lists.bp_without_cost_init true has_bp)) = true ->
  env 31%Z = true /\ (has_bp = true -> env 32%Z = true).
Proof.
  intros b env H.
  pose proof (where_scoped env _ (bp_without_cost_init_tight true b) H) as Hall.
  split.
  - assert (H0 : tval env [IAtom 31%Z] = true) by (apply Hall; destruct b; cbn; auto 10). exact H0.
  - intros ->. assert (H0 : tval env [IAtom 32%Z] = true) by (apply Hall; cbn; auto 10). exact H0.
Qed.

(** the single-project read: the project of the URL is a conjunct whoever calls *)
Theorem bp_with_cost_project_scoped : forall has_user env,
  holds env (join_and (C14.Lists.bp_with_cost_init has_user true)) = true -> env 32%Z = true.
Proof.
  intros u env H.
  pose proof (where_scoped env _ (bp_with_cost_init_tight u true) H) as Hall.
  assert (H0 : tval env [IAtom 32%Z] = true) by (apply Hall; destruct u; cbn; auto 10). exact H0.
Qed.

(** not vacuous: a clause with all optional filters holds under some assignment *)
Example billing_holds : exists env, holds env (join_and (C14.Lists.billing_init true true)) = true.
Proof. exists (fun _ => true). vm_compute. reflexivity. Qed.

(** the restriction must not depend on the other optional filters: a chain in which the user conjunct is only appended when
    no end date is given admits rows of other users *)
Lemma user_filter_in_elif_leaks : exists env,
  holds env (join_and ([[IAtom 121%Z]; [IAtom 122%Z]] ++ (if true then [[IAtom 123%Z]] else [[IAtom 30%Z]]))) = true /\ env 30%Z = false.
Proof. exists (fun a => negb (Z.eqb a 30%Z)). split; reflexivity. Qed.

(** ---- the hypothesis is needed, and the theorems are not vacuous ---- *)

(** an unbracketed two-state OR-join after the scope: true although the scope atom 0 is false *)
Lemma unbracketed_or_leaks : exists env,
  holds env (join_and [[IGroup [IAtom 0%Z; IAnd; IAtom 1%Z]]; or_join [IGroup [IAtom 104%Z]] 2]) = true /\ env 0%Z = false.
Proof. exists (fun a => Z.eqb a 104%Z). split; reflexivity. Qed.

(** bracketed, the same term is scoped; and a clause that holds exists *)
Example jobs_v1_bad_term_holds : exists cs env,
  v1_conjs C14.Lists.jobs_v1_cond C14.Lists.jobs_v1_neg [(3, 2, false); (0, 0, true)]%nat = Some cs /\
  holds env (join_and (C14.Lists.jobs_v1_init false true ++ cs)) = true.
Proof. eexists. exists (fun a => negb (Z.eqb a 101%Z)). split; [reflexivity|]. vm_compute. reflexivity. Qed.

Example v2_holds : exists env,
  holds env (v2_where (C14.Lists.jobs_v2_init true false) C14.Lists.jobs_v2_wrap [[IAtom 7%Z; IOr; INot; IAtom 8%Z]]) = true.
Proof. exists (fun _ => true). vm_compute. reflexivity. Qed.
