(** Facts about the shared Hail type/value model: name equality, decimal numerals, nested induction over types. *)
From HailV Require Import Common.Prelude HailValues.Model.
From Coq Require Import DecimalN DecimalFacts.
Open Scope N_scope.

Lemma name_eqb_spec (a b : name) : name_eqb a b = true <-> a = b.
Proof.
  revert b; induction a as [|x a IH]; intros [|y b]; cbn [name_eqb]; split; intro H; try congruence; try discriminate.
  - apply andb_true_iff in H as [H1 H2]. apply N.eqb_eq in H1. apply IH in H2. congruence.
  - inversion H; subst. rewrite N.eqb_refl. cbn. apply IH; reflexivity.
Qed.

Lemma name_eqb_refl (a : name) : name_eqb a a = true.
Proof. apply name_eqb_spec; reflexivity. Qed.

Lemma name_eqb_neq (a b : name) : a <> b -> name_eqb a b = false.
Proof. intro H. destruct (name_eqb a b) eqn:E; [apply name_eqb_spec in E; contradiction | reflexivity]. Qed.

Lemma names_nodup_spec (l : list name) : names_nodup l = true -> NoDup l.
Proof.
  induction l as [|x l IH]; cbn [names_nodup]; intro H; [constructor|].
  apply andb_true_iff in H as [H1 H2]. constructor; [|apply IH; exact H2].
  intro Hin. apply negb_true_iff in H1.
  assert (existsb (name_eqb x) l = true) as E.
  { apply existsb_exists. exists x. split; [exact Hin | apply name_eqb_refl]. }
  congruence.
Qed.

(** ** nested induction principle for [ty] *)
Section TyInd.
  Variable P : ty -> Prop.
  Hypothesis Hint32 : P TInt32.
  Hypothesis Hint64 : P TInt64.
  Hypothesis Hf32 : P TFloat32.
  Hypothesis Hf64 : P TFloat64.
  Hypothesis Hbool : P TBool.
  Hypothesis Hstr : P TStr.
  Hypothesis Hcall : P TCall.
  Hypothesis Hlocus : forall rg, P (TLocus rg).
  Hypothesis Hinterval : forall p, P p -> P (TInterval p).
  Hypothesis Harray : forall e, P e -> P (TArray e).
  Hypothesis Hset : forall e, P e -> P (TSet e).
  Hypothesis Hdict : forall k v, P k -> P v -> P (TDict k v).
  Hypothesis Hstruct : forall fs, Forall (fun f => P (snd f)) fs -> P (TStruct fs).
  Hypothesis Htuple : forall ts, Forall P ts -> P (TTuple ts).
  Hypothesis Hnd : forall e n, P e -> P (TNDArray e n).

  Fixpoint ty_nested_ind (t : ty) : P t :=
    match t with
    | TInt32 => Hint32 | TInt64 => Hint64 | TFloat32 => Hf32 | TFloat64 => Hf64
    | TBool => Hbool | TStr => Hstr | TCall => Hcall
    | TLocus rg => Hlocus rg
    | TInterval p => Hinterval p (ty_nested_ind p)
    | TArray e => Harray e (ty_nested_ind e)
    | TSet e => Hset e (ty_nested_ind e)
    | TDict k v => Hdict k v (ty_nested_ind k) (ty_nested_ind v)
    | TStruct fs =>
        Hstruct fs ((fix go (l : list (name * ty)) : Forall (fun f => P (snd f)) l :=
                       match l with
                       | [] => Forall_nil _
                       | f :: r => Forall_cons f (ty_nested_ind (snd f)) (go r)
                       end) fs)
    | TTuple ts =>
        Htuple ts ((fix go (l : list ty) : Forall P l :=
                      match l with
                      | [] => Forall_nil _
                      | x :: r => Forall_cons x (ty_nested_ind x) (go r)
                      end) ts)
    | TNDArray e n => Hnd e n (ty_nested_ind e)
    end.
End TyInd.

(** ** decimal numerals *)
Definition is_digit (c : N) : bool := (48 <=? c) && (c <=? 57).

Lemma chars_uint_uint_chars (u : Decimal.uint) : chars_uint (uint_chars u) = Some u.
Proof. induction u; cbn [uint_chars chars_uint]; try rewrite IHu; reflexivity. Qed.

Lemma uint_chars_digits (u : Decimal.uint) : forallb is_digit (uint_chars u) = true.
Proof. induction u; cbn [uint_chars forallb]; try rewrite IHu; reflexivity. Qed.

Lemma to_uint_not_nil (n : N) : N.to_uint n <> Decimal.Nil.
Proof.
  destruct n as [|p]; [discriminate|]. cbn [N.to_uint].
  intro H. pose proof (DecimalPos.Unsigned.to_uint_nonnil p) as Hn. contradiction.
Qed.

Lemma dec_of_N_nonempty (n : N) : dec_of_N n <> [].
Proof.
  unfold dec_of_N. pose proof (to_uint_not_nil n) as H. destruct (N.to_uint n); cbn [uint_chars]; congruence.
Qed.

Lemma dec_of_N_digits (n : N) : forallb is_digit (dec_of_N n) = true.
Proof. apply uint_chars_digits. Qed.

(** [int(str(n)) = n] *)
Lemma N_of_dec_of_N (n : N) : N_of_dec (dec_of_N n) = Some n.
Proof.
  unfold N_of_dec. pose proof (dec_of_N_nonempty n) as Hne.
  destruct (dec_of_N n) as [|c r] eqn:E; [congruence|].
  rewrite <- E. unfold dec_of_N. rewrite chars_uint_uint_chars. f_equal. apply DecimalN.Unsigned.of_to.
Qed.
