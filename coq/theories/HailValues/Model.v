(** Shared model of Hail types and of the Python values the front end exchanges with the engine
    (hail/python/hail/expr/types.py).  Executable definitions only.

    Strings (field names, reference-genome names, str values) are lists of Unicode code points ([list N]).
    Floats are modelled by class: a finite float is identified by its IEEE bit pattern (so no arithmetic on floats is
    ever modelled), NaN and the two infinities are single values (Python prints every NaN as 'nan').
    A set / dict value is the sequence of its elements / items in Python iteration order. *)
From HailV Require Import Common.Prelude.
From Coq Require Import String Ascii DecimalN.
Open Scope N_scope.

Definition name := list N.

Fixpoint codes (s : string) : name :=
  match s with EmptyString => [] | String a r => N_of_ascii a :: codes r end.

Fixpoint name_eqb (a b : name) : bool :=
  match a, b with
  | [], [] => true
  | x :: a', y :: b' => N.eqb x y && name_eqb a' b'
  | _, _ => false
  end.

(** ** Types *)
Inductive ty : Type :=
| TInt32 | TInt64 | TFloat32 | TFloat64 | TBool | TStr | TCall
| TLocus (rg : name)
| TInterval (point : ty)
| TArray (elt : ty)
| TSet (elt : ty)
| TDict (key val : ty)
| TStruct (fields : list (name * ty))
| TTuple (elts : list ty)
| TNDArray (elt : ty) (ndim : nat).

(** element types the front end can move in and out of numpy arrays ([_numeric_types] of types.py) *)
Definition is_numeric (t : ty) : bool :=
  match t with TInt32 | TInt64 | TFloat32 | TFloat64 | TBool => true | _ => false end.

Fixpoint names_nodup (l : list name) : bool :=
  match l with
  | [] => true
  | x :: r => negb (existsb (name_eqb x) r) && names_nodup r
  end.

(** well-formed types: struct field names are distinct (they are the keys of a Python dict), n-d arrays hold numeric
    elements (the only ones types.py converts). *)
Fixpoint wf_ty (t : ty) : bool :=
  match t with
  | TInterval p => wf_ty p
  | TArray e | TSet e => wf_ty e
  | TDict k v => wf_ty k && wf_ty v
  | TStruct fs => names_nodup (map fst fs) && forallb (fun f => wf_ty (snd f)) fs
  | TTuple ts => forallb wf_ty ts
  | TNDArray e _ => is_numeric e
  | _ => true
  end.

(** ** Values *)
Inductive fl : Type := FFin (bits : Z) | FNaN | FPInf | FNInf.

Inductive value : Type :=
| VNA                                         (* missing (Python None) *)
| VInt (z : Z)
| VFloat (f : fl)
| VBool (b : bool)
| VStr (s : name)
| VCall (phased : bool) (alleles : list N)     (* hail.genetics.Call *)
| VLocus (contig : name) (pos : Z)             (* hail.genetics.Locus; the reference genome is the type's *)
| VInterval (s e : value) (is ie : bool)       (* hail.utils.Interval *)
| VArray (l : list value)
| VSet (l : list value)                        (* iteration order *)
| VDict (l : list (value * value))             (* iteration order *)
| VStruct (l : list value)                     (* field values in the order of the type's fields *)
| VTuple (l : list value)
| VNDArray (shape : list Z) (data : list value). (* logical row-major (C order) element sequence *)

Definition is_na (v : value) : bool := match v with VNA => true | _ => false end.

(** [hail.genetics.Call.__init__]: an unphased diploid call stores its alleles in ascending order. *)
Definition mk_call (phased : bool) (alleles : list N) : value :=
  match alleles with
  | [a0; a1] => if negb phased && (a1 <? a0) then VCall phased [a1; a0] else VCall phased [a0; a1]
  | _ => VCall phased alleles
  end.

Definition call_normal (phased : bool) (alleles : list N) : bool :=
  match alleles with
  | [] | [_] => true
  | [a0; a1] => phased || (a0 <=? a1)
  | _ => false
  end.

Definition zprod (l : list Z) : Z := fold_right Z.mul 1%Z l.

(** Which values are "Python values of the type" — the domain of the round-trip properties that is common to the JSON
    and the binary form (each form adds its own range constraints). Missing is a value of every type. *)
Section WellTyped.
  (* per-form constraints on scalars *)
  Variable int_ok : ty -> Z -> bool.
  Variable float_ok : ty -> fl -> bool.
  Variable str_ok : name -> bool.
  Variable call_ok : bool -> list N -> bool.
  Variable len_ok : nat -> bool.          (* container lengths *)
  Variable dim_ok : Z -> bool.            (* n-d array dimensions *)

  Fixpoint wt (t : ty) (v : value) {struct t} : bool :=
    match v with
    | VNA => true
    | _ =>
      match t, v with
      | TInt32, VInt z => int_ok TInt32 z
      | TInt64, VInt z => int_ok TInt64 z
      | TFloat32, VFloat f => float_ok TFloat32 f
      | TFloat64, VFloat f => float_ok TFloat64 f
      | TBool, VBool _ => true
      | TStr, VStr s => str_ok s
      | TCall, VCall p al => call_normal p al && call_ok p al
      | TLocus _, VLocus c pos => str_ok c && int_ok TInt32 pos
      | TInterval p, VInterval s e _ _ => wt p s && wt p e
      | TArray e, VArray l => len_ok (List.length l) && forallb (wt e) l
      | TSet e, VSet l => len_ok (List.length l) && forallb (wt e) l
      | TDict k w, VDict l => len_ok (List.length l) && forallb (fun kv => wt k (fst kv) && wt w (snd kv)) l
      | TStruct fs, VStruct vs =>
          (fix go (fs : list (name * ty)) (vs : list value) : bool :=
             match fs, vs with
             | [], [] => true
             | f :: fs', x :: vs' => wt (snd f) x && go fs' vs'
             | _, _ => false
             end) fs vs
      | TTuple ts, VTuple vs =>
          (fix go (ts : list ty) (vs : list value) : bool :=
             match ts, vs with
             | [], [] => true
             | t' :: ts', x :: vs' => wt t' x && go ts' vs'
             | _, _ => false
             end) ts vs
      | TNDArray e nd, VNDArray shape data =>
          Nat.eqb (List.length shape) nd && forallb (fun d => (0 <=? d)%Z && dim_ok d) shape
          && Z.eqb (Z.of_nat (List.length data)) (zprod shape)
          && forallb (fun x => negb (is_na x) && wt e x) data
      | _, _ => false
      end
    end.
End WellTyped.

(** ** Decimal numerals ([str(int)] / [int(str)] on naturals), via the standard library's [Decimal.uint]. *)
Fixpoint uint_chars (u : Decimal.uint) : name :=
  match u with
  | Decimal.Nil => []
  | Decimal.D0 r => 48 :: uint_chars r | Decimal.D1 r => 49 :: uint_chars r
  | Decimal.D2 r => 50 :: uint_chars r | Decimal.D3 r => 51 :: uint_chars r
  | Decimal.D4 r => 52 :: uint_chars r | Decimal.D5 r => 53 :: uint_chars r
  | Decimal.D6 r => 54 :: uint_chars r | Decimal.D7 r => 55 :: uint_chars r
  | Decimal.D8 r => 56 :: uint_chars r | Decimal.D9 r => 57 :: uint_chars r
  end.

Fixpoint chars_uint (s : name) : option Decimal.uint :=
  match s with
  | [] => Some Decimal.Nil
  | c :: r =>
    match chars_uint r with
    | None => None
    | Some u =>
      if c =? 48 then Some (Decimal.D0 u) else if c =? 49 then Some (Decimal.D1 u)
      else if c =? 50 then Some (Decimal.D2 u) else if c =? 51 then Some (Decimal.D3 u)
      else if c =? 52 then Some (Decimal.D4 u) else if c =? 53 then Some (Decimal.D5 u)
      else if c =? 54 then Some (Decimal.D6 u) else if c =? 55 then Some (Decimal.D7 u)
      else if c =? 56 then Some (Decimal.D8 u) else if c =? 57 then Some (Decimal.D9 u)
      else None
    end
  end.

(** Python [str(n)] for a natural number *)
Definition dec_of_N (n : N) : name := uint_chars (N.to_uint n).

(** Python [int(s)] restricted to non-empty strings of ASCII digits (anything else: [None], i.e. ValueError or a
    value the model does not need) *)
Definition N_of_dec (s : name) : option N :=
  match s with
  | [] => None
  | _ => match chars_uint s with Some u => Some (N.of_uint u) | None => None end
  end.
