(** Regular expressions as parsed by CPython's own [re._parser] (the subset used by the validators of
    C28 and the size grammar of C25), with a relational semantics of Python's matching.

    Strings are [list N] (Unicode code points), so every theorem covers all of Unicode.

    [M r pre w post] : the regex [r] can match exactly the word [w] when [w] is preceded by [pre] and
    followed by [post] in the subject string (the context only matters to the zero-width anchors).
    Acceptance ([pattern.match(s) is not None], [pattern.fullmatch(s) is not None]) only asks whether SOME
    match exists, so the backtracking order of the real engine is irrelevant for the constructs below
    (no back-references, no look-around, no possessive/atomic groups).                                   *)
From HailV Require Import Common.Prelude.
Open Scope N_scope.

Inductive re : Type :=
| REps                                     (* empty pattern *)
| RSet (neg : bool) (rs : list (N * N))    (* one code point (not) in a union of inclusive ranges: LITERAL / IN / RANGE / NEGATE *)
| RSeq (a b : re)
| RAlt (a b : re)                          (* BRANCH *)
| RStar (a : re)                           (* MAX_REPEAT 0..MAXREPEAT *)
| RPlus (a : re)                           (* MAX_REPEAT 1..MAXREPEAT *)
| ROpt (a : re)                            (* MAX_REPEAT 0..1 *)
| RGroup (n : N) (a : re)                  (* SUBPATTERN n (capturing); same acceptance as its body *)
| RBol                                     (* AT_BEGINNING        ^   (no MULTILINE) *)
| REol                                     (* AT_END              $   (no MULTILINE): at the end or before a final "\n" *)
| REos.                                    (* AT_END_STRING       \Z  : only at the very end *)

Definition in_ranges (c : N) (rs : list (N * N)) : bool :=
  existsb (fun r => (fst r <=? c) && (c <=? snd r)) rs.

Definition set_mem (neg : bool) (rs : list (N * N)) (c : N) : bool := xorb neg (in_ranges c rs).

Inductive M : re -> list N -> list N -> list N -> Prop :=
| MEps pre post : M REps pre [] post
| MSet neg rs c pre post : set_mem neg rs c = true -> M (RSet neg rs) pre [c] post
| MSeq a b pre w1 w2 post :
    M a pre w1 (w2 ++ post) -> M b (pre ++ w1) w2 post -> M (RSeq a b) pre (w1 ++ w2) post
| MAltL a b pre w post : M a pre w post -> M (RAlt a b) pre w post
| MAltR a b pre w post : M b pre w post -> M (RAlt a b) pre w post
| MStar0 a pre post : M (RStar a) pre [] post
| MStarS a pre w1 w2 post :
    M a pre w1 (w2 ++ post) -> M (RStar a) (pre ++ w1) w2 post -> M (RStar a) pre (w1 ++ w2) post
| MPlus a pre w1 w2 post :
    M a pre w1 (w2 ++ post) -> M (RStar a) (pre ++ w1) w2 post -> M (RPlus a) pre (w1 ++ w2) post
| MOpt0 a pre post : M (ROpt a) pre [] post
| MOptS a pre w post : M a pre w post -> M (ROpt a) pre w post
| MGroup n a pre w post : M a pre w post -> M (RGroup n a) pre w post
| MBol post : M RBol [] [] post
| MEolEnd pre : M REol pre [] []
| MEolNl pre : M REol pre [] [10]
| MEos pre : M REos pre [] [].

(** The two entry points used by the code: [p.match(s)] (anchored at 0, any end) and [p.fullmatch(s)]. *)
Inductive mode : Type := MatchPrefix | FullMatch.

Definition py_accepts (m : mode) (r : re) (s : list N) : Prop :=
  match m with
  | MatchPrefix => exists w post, s = w ++ post /\ M r [] w post
  | FullMatch => M r [] s []
  end.

(** No anchors anywhere: the match relation does not depend on the context. *)
Fixpoint anchor_free (r : re) : bool :=
  match r with
  | REps | RSet _ _ => true
  | RSeq a b | RAlt a b => anchor_free a && anchor_free b
  | RStar a | RPlus a | ROpt a | RGroup _ a => anchor_free a
  | RBol | REol | REos => false
  end.

(** ---- small string library (Python str methods on code-point lists) ---- *)

Fixpoint prefixb (p s : list N) : bool :=
  match p, s with
  | [], _ => true
  | a :: p', b :: s' => (a =? b) && prefixb p' s'
  | _ :: _, [] => false
  end.

Definition str_startswith (s p : list N) : bool := prefixb p s.
Definition str_endswith (s p : list N) : bool := prefixb (rev p) (rev s).

Fixpoint str_contains (p s : list N) : bool :=           (* [p in s] *)
  prefixb p s || match s with [] => false | _ :: s' => str_contains p s' end.

(** [c.isascii()] for a one-character string. *)
Definition py_isascii (c : N) : bool := c <? 128.
