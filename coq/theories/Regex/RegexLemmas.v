(** Inversion/characterisation lemmas for the match relation of Regex.v. *)
From HailV Require Import Common.Prelude Regex.Regex.
Open Scope N_scope.

Lemma M_eps_iff pre w post : M REps pre w post <-> w = [].
Proof. split; [inversion 1; reflexivity | intros ->; constructor]. Qed.

Lemma M_set_iff neg rs pre w post :
  M (RSet neg rs) pre w post <-> exists c, w = [c] /\ set_mem neg rs c = true.
Proof.
  split.
  - inversion 1; subst; eauto.
  - intros (c & -> & H); constructor; exact H.
Qed.

Lemma M_seq_iff a b pre w post :
  M (RSeq a b) pre w post <->
  exists w1 w2, w = w1 ++ w2 /\ M a pre w1 (w2 ++ post) /\ M b (pre ++ w1) w2 post.
Proof.
  split.
  - inversion 1; subst; eauto 6.
  - intros (w1 & w2 & -> & H1 & H2); constructor; assumption.
Qed.

Lemma M_alt_iff a b pre w post : M (RAlt a b) pre w post <-> M a pre w post \/ M b pre w post.
Proof.
  split.
  - inversion 1; subst; auto.
  - intros [H | H]; [apply MAltL | apply MAltR]; exact H.
Qed.

Lemma M_opt_iff a pre w post : M (ROpt a) pre w post <-> w = [] \/ M a pre w post.
Proof.
  split.
  - inversion 1; subst; auto.
  - intros [-> | H]; [apply MOpt0 | apply MOptS; exact H].
Qed.

Lemma M_group_iff n a pre w post : M (RGroup n a) pre w post <-> M a pre w post.
Proof. split; [inversion 1; subst; assumption | apply MGroup]. Qed.

Lemma M_bol_iff pre w post : M RBol pre w post <-> pre = [] /\ w = [].
Proof. split; [inversion 1; auto | intros [-> ->]; constructor]. Qed.

Lemma M_eol_iff pre w post : M REol pre w post <-> w = [] /\ (post = [] \/ post = [10]).
Proof.
  split.
  - inversion 1; auto.
  - intros [-> [-> | ->]]; constructor.
Qed.

Lemma M_eos_iff pre w post : M REos pre w post <-> w = [] /\ post = [].
Proof. split; [inversion 1; auto | intros [-> ->]; constructor]. Qed.

(** Star / plus of a body whose matches are described by a context-independent predicate [P]. *)
Section Star.
  Variable a : re.
  Variable P : list N -> Prop.
  Hypothesis HP : forall pre w post, M a pre w post <-> P w.

  Lemma M_star_concat pre w post :
    M (RStar a) pre w post <-> exists ws, w = concat ws /\ Forall P ws.
  Proof.
    split.
    - intros H. remember (RStar a) as r eqn:Er.
      induction H as [| | | | | a' pre post | a' pre w1 w2 post H1 _ H2 IH2 | | | | | | | |]; try discriminate.
      + exists []; split; [reflexivity | constructor].
      + injection Er as ->. destruct (IH2 eq_refl) as (ws & -> & Hws).
        exists (w1 :: ws); split; [reflexivity|]. constructor; [apply (HP pre w1 (concat ws ++ post)); exact H1 | exact Hws].
    - intros (ws & -> & Hws). revert pre post.
      induction Hws as [| w1 ws Hw1 _ IH]; intros pre post; cbn [concat].
      + apply MStar0.
      + apply MStarS; [apply HP; exact Hw1 | apply IH].
  Qed.

  Lemma M_plus_concat pre w post :
    M (RPlus a) pre w post <-> exists w1 ws, w = w1 ++ concat ws /\ P w1 /\ Forall P ws.
  Proof.
    split.
    - inversion 1 as [| | | | | | | a' pre' w1 w2 post' H1 H2 | | | | | | |]; subst.
      apply M_star_concat in H2. destruct H2 as (ws & -> & Hws).
      exists w1, ws; repeat split; [apply (HP pre w1 (concat ws ++ post)); exact H1 | exact Hws].
    - intros (w1 & ws & -> & H1 & Hws). apply MPlus; [apply HP; exact H1|].
      apply M_star_concat; eauto.
  Qed.
End Star.

(** Context independence of anchor-free patterns. *)
Lemma M_anchor_free r pre w post :
  M r pre w post -> anchor_free r = true -> forall pre' post', M r pre' w post'.
Proof.
  induction 1; cbn [anchor_free]; intros Haf pre' post'; try discriminate;
    try (apply andb_true_iff in Haf; destruct Haf as [Ha Hb]).
  - constructor.
  - constructor; assumption.
  - constructor; [apply IHM1 | apply IHM2]; assumption.
  - apply MAltL; apply IHM; assumption.
  - apply MAltR; apply IHM; assumption.
  - apply MStar0.
  - apply MStarS; [apply IHM1 | apply IHM2]; assumption.
  - apply MPlus; [apply IHM1 | apply IHM2]; assumption.
  - apply MOpt0.
  - apply MOptS; apply IHM; assumption.
  - apply MGroup; apply IHM; assumption.
Qed.

(** ---- string library facts ---- *)

Lemma prefixb_iff p s : prefixb p s = true <-> exists t, s = p ++ t.
Proof.
  revert s; induction p as [|a p IH]; intros s; cbn [prefixb].
  - split; [intros _; exists s; reflexivity | reflexivity].
  - destruct s as [|b s].
    + split; [discriminate | intros (t & H); discriminate].
    + rewrite andb_true_iff, N.eqb_eq, IH. split.
      * intros (-> & t & ->); exists t; reflexivity.
      * intros (t & H); injection H as -> ->; eauto.
Qed.

Lemma str_endswith_iff s p : str_endswith s p = true <-> exists t, s = t ++ p.
Proof.
  unfold str_endswith; rewrite prefixb_iff; split.
  - intros (t & H). exists (rev t). rewrite <- (rev_involutive s), H, rev_app_distr, rev_involutive; reflexivity.
  - intros (t & ->). exists (rev t). apply rev_app_distr.
Qed.

Lemma str_contains_iff p s : str_contains p s = true <-> exists u v, s = u ++ p ++ v.
Proof.
  induction s as [|c s IH]; cbn [str_contains]; rewrite orb_true_iff, prefixb_iff.
  - split.
    + intros [(t & H) | H]; [exists [], t; exact H | discriminate].
    + intros (u & v & H). left. destruct u; [eauto | discriminate].
  - rewrite IH; split.
    + intros [(t & H) | (u & v & ->)]; [exists [], t; exact H | exists (c :: u), v; reflexivity].
    + intros (u & v & H). destruct u as [|d u].
      * left; eauto.
      * right. injection H as -> ->. eauto.
Qed.
