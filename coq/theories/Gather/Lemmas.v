(** C20: invariants of the bounded-gather model, proved for every number of permits, every number of
    partial functions and every schedule. *)
From HailV Require Import Common.Prelude Gather.Model.
Open Scope Z_scope.

Definition is_canc (t : tstat) : bool := match t with TCr | TCw => true | _ => false end.
Definition nwait (l : list tstat) : Z := count is_TW l.
Definition nlive (l : list tstat) : Z := count is_live l.
Definition ncanc (l : list tstat) : Z := count is_canc l.

(** * Counting *)
Lemma count_nonneg f l : 0 <= count f l.
Proof. induction l as [|t r IH]; cbn [count]; [lia|]. destruct (f t); lia. Qed.

Lemma nlive_split l : nlive l = nrunning l + nwait l.
Proof.
  unfold nlive, nrunning, nwait. induction l as [|t r IH]; cbn [count]; [reflexivity|].
  rewrite IH. destruct t; cbn [is_live is_TR is_TW]; lia.
Qed.

Lemma count_set_nth f i x t l :
  nth_error l i = Some t ->
  count f (set_nth i x l) = count f l - (if f t then 1 else 0) + (if f x then 1 else 0).
Proof.
  revert i. induction l as [|y r IH]; intros i H; destruct i as [|i]; cbn [nth_error] in H; try discriminate.
  - inversion H; subst. cbn [set_nth count]. lia.
  - cbn [set_nth count]. rewrite (IH i H). lia.
Qed.

Lemma start_first_some l l' :
  start_first l = Some l' ->
  nwait l' = nwait l - 1 /\ nrunning l' = nrunning l + 1 /\ ncanc l' = ncanc l /\ map res_of l' = map res_of l /\
  length l' = length l.
Proof.
  unfold nwait, nrunning, ncanc. revert l'. induction l as [|t r IH]; intros l' H; cbn [start_first] in H; [discriminate|].
  destruct t; try (inversion H; subst; cbn [count is_TW is_TR is_canc map res_of length]; repeat split; lia);
    (destruct (start_first r) as [r'|]; [|discriminate]; inversion H; subst;
     destruct (IH r' eq_refl) as [H1 [H2 [H3 [H4 H5]]]];
     cbn [count is_TW is_TR is_canc map res_of length]; rewrite H1, H2, H3, H4, H5; repeat split; lia).
Qed.

Lemma start_first_none l : start_first l = None -> nwait l = 0.
Proof.
  unfold nwait. induction l as [|t r IH]; intros H; cbn [start_first] in H; [reflexivity|].
  destruct t; try discriminate; (destruct (start_first r); [discriminate|]; cbn [count is_TW]; rewrite IH; auto).
Qed.

Lemma cancel_all_counts l :
  nrunning (cancel_all l) = 0 /\ nwait (cancel_all l) = 0 /\ ncanc (cancel_all l) = ncanc l + nlive l.
Proof.
  unfold nrunning, nwait, ncanc, nlive, cancel_all. induction l as [|t r IH]; cbn [map count]; [lia|].
  destruct IH as [H1 [H2 H3]]. rewrite H1, H2, H3.
  destruct t; cbn [cancel_task is_TR is_TW is_canc is_live]; lia.
Qed.

Lemma all_done_iff l : all_done l = true <-> nlive l = 0.
Proof.
  unfold all_done, nlive. induction l as [|t r IH]; cbn [existsb count negb]; [tauto|].
  pose proof (count_nonneg is_live r). destruct (is_live t); cbn [orb negb].
  - split; [discriminate|lia].
  - rewrite IH. lia.
Qed.

Lemma exists_TW_iff l : existsb is_TW l = true <-> 0 < nwait l.
Proof.
  unfold nwait. induction l as [|t r IH]; cbn [existsb count]; [split; [discriminate|lia]|].
  pose proof (count_nonneg is_TW r). destruct (is_TW t); cbn [orb].
  - split; [lia|reflexivity].
  - rewrite IH. lia.
Qed.

Lemma nth_TR_running l i : nth_error l i = Some TR -> 0 < nrunning l.
Proof.
  unfold nrunning. revert i. induction l as [|t r IH]; intros i H; destruct i; cbn [nth_error] in H; try discriminate.
  - inversion H; subst. cbn [count is_TR]. pose proof (count_nonneg is_TR r). lia.
  - cbn [count]. specialize (IH i H). destruct (is_TR t); lia.
Qed.

Lemma start_counts p n :
  nrunning (start p n) = Z.of_nat (Nat.min p n) /\ nwait (start p n) = Z.of_nat (n - p) /\ ncanc (start p n) = 0.
Proof.
  unfold nrunning, nwait, ncanc. revert p. induction n as [|n IH]; intros p; cbn [start count].
  - rewrite Nat.min_0_r. cbn. lia.
  - destruct p as [|p]; cbn [count is_TR is_TW is_canc].
    + destruct (IH 0%nat) as [A1 [A2 A3]]. rewrite A1, A2, A3. cbn [Nat.min]. rewrite Nat.sub_0_r in *. lia.
    + destruct (IH p) as [B1 [B2 B3]]. rewrite B1, B2, B3. cbn [Nat.min Nat.sub]. lia.
Qed.

(** * The invariant *)
Section Inv.
  Variable cf : config.
  Hypothesis Hperm : 1 <= permits cf.

  Definition out_ok (s : state) (o : outcome) : Prop :=
    match o with
    | OErr e => md cf <> MRet /\ first_err s = Some e
    | OCancelled => cancel_req s = true
    | OVals rs => (md cf <> MRet -> first_err s = None) /\ rs = map res_of (ts s) /\ nlive (ts s) = 0 /\ ncanc (ts s) = 0
    end.

  Definition Inv (s : state) : Prop :=
    0 <= value s /\ value s + nrunning (ts s) = permits cf /\ (0 < nwait (ts s) -> value s = 0) /\
    (0 < ncanc (ts s) -> cancel_req s = true \/ md cf = MCancel) /\
    match caller s with
    | CIn => ncanc (ts s) = 0 /\ 0 < nlive (ts s) /\ (md cf <> MRet -> first_err s = None) /\ cancel_req s = false
    | CReacq o => md cf = MRaise /\ value s = 0 /\ first_err s <> None /\ out_ok s o /\ (forall rs, o <> OVals rs)
    | COut o nrun => 0 <= nrun /\ nrun + 1 <= permits cf /\ out_ok s o /\
                     ((md cf = MRaise /\ first_err s <> None) \/ (nrun = 0 /\ nlive (ts s) = 0))
    end.

  Lemma init_inv n : Inv (init cf n).
  Proof.
    unfold Inv, init. cbn [ts value caller first_err cancel_req].
    destruct (start_counts (Z.to_nat (permits cf)) n) as [H1 [H2 H3]].
    pose proof (nlive_split (start (Z.to_nat (permits cf)) n)) as H4.
    rewrite H1, H2 in *. rewrite H3.
    split; [lia|]. split; [lia|]. split; [lia|]. split; [lia|].
    destruct n as [|n].
    - cbn [start map] in *. unfold out_ok. cbn [ts first_err]. unfold nlive. cbn [count].
      split; [lia|]. split; [lia|]. split; [auto|]. right. auto.
    - split; [reflexivity|]. split; [lia|]. auto.
  Qed.

  Lemma release_cases m :
    (exists l, start_first (ts m) = Some l /\ release m = with_ts m l) \/
    (start_first (ts m) = None /\
     release m = {| ts := ts m; value := value m + 1;
                    caller := match caller m with CReacq o => COut o (nrunning (ts m)) | c => c end;
                    first_err := first_err m; cancel_req := cancel_req m |}).
  Proof.
    unfold release. destruct (start_first (ts m)) as [l|]; [left; exists l; auto|right].
    split; [reflexivity|]. destruct (caller m); reflexivity.
  Qed.

  (** [Acc d s]: the accounting part of the invariant when [d] permits are in transit (d = 1: a body has just
      finished and its permit has not been passed on yet; d = 0: it has), before gather looks at its children. *)
  Definition Acc (d : Z) (m : state) : Prop :=
    0 <= value m /\ value m + nrunning (ts m) = permits cf - d /\ (0 < nwait (ts m) -> value m = 0) /\
    (0 < ncanc (ts m) -> cancel_req m = true \/ md cf = MCancel) /\
    match caller m with
    | CIn => ncanc (ts m) = 0 /\ cancel_req m = false
    | CReacq o => md cf = MRaise /\ value m = 0 /\ first_err m <> None /\ out_ok m o /\ (forall rs, o <> OVals rs)
    | COut o nrun => 0 <= nrun /\ nrun + 1 <= permits cf /\ out_ok m o /\ (forall rs, o <> OVals rs) /\
                     md cf = MRaise /\ first_err m <> None
    end.

  Lemma out_ok_ext s s' o :
    (forall rs, o <> OVals rs) -> first_err s' = first_err s -> cancel_req s' = cancel_req s -> out_ok s o -> out_ok s' o.
  Proof.
    intros Hn H1 H2 H. destruct o as [rs|e|]; cbn [out_ok] in *; [exfalso; apply (Hn rs); reflexivity| |]; congruence.
  Qed.

  Lemma release_acc m : Acc 1 m -> Acc 0 (release m).
  Proof.
    intros (M1 & M2 & M3 & M4 & M5).
    destruct (release_cases m) as [[l [Hl ->]]|[Hn ->]]; unfold Acc; cbn [with_ts ts value caller first_err cancel_req].
    - destruct (start_first_some _ _ Hl) as (W & R & C & _).
      pose proof (count_nonneg is_TW l) as Wn. fold (nwait l) in Wn. rewrite W, R, C in *.
      assert (V0 : value m = 0) by (apply M3; lia).
      split; [lia|]. split; [lia|]. split; [lia|]. split; [exact M4|].
      destruct (caller m) as [|o|o k]; [tauto| |].
      + destruct M5 as (A & B & C' & D & E). repeat split; auto; try (apply (out_ok_ext m); auto).
      + destruct M5 as (A & B & C' & D & E & F). repeat split; auto; try (apply (out_ok_ext m); auto).
    - pose proof (start_first_none _ Hn) as W. rewrite W in *.
      split; [lia|]. split; [lia|]. split; [lia|]. split; [exact M4|].
      destruct (caller m) as [|o|o k]; [tauto| |].
      + destruct M5 as (A & B & C' & D & E).
        pose proof (count_nonneg is_TR (ts m)) as Rn. fold (nrunning (ts m)) in Rn.
        split; [lia|]. split; [lia|]. split; [apply (out_ok_ext m); auto|]. auto.
      + destruct M5 as (A & B & C' & D & E & F). repeat split; auto; try (apply (out_ok_ext m); auto).
  Qed.

  Lemma release_ghost m : first_err (release m) = first_err m /\ cancel_req (release m) = cancel_req m /\
                          (caller (release m) = CIn <-> caller m = CIn).
  Proof.
    destruct (release_cases m) as [[l [Hl ->]]|[Hn ->]]; cbn [with_ts first_err cancel_req caller]; [tauto|].
    split; [reflexivity|]. split; [reflexivity|]. destruct (caller m); split; intros H; congruence.
  Qed.

  (** a body that is running finishes: the state just before its permit is passed on *)
  Lemma finish_acc s i x fe :
    Inv s -> nth_error (ts s) i = Some TR -> is_live x = false -> is_canc x = false ->
    (fe = first_err s \/ exists e, fe = note_err s e) ->
    Acc 1 {| ts := set_nth i x (ts s); value := value s; caller := caller s; first_err := fe; cancel_req := cancel_req s |}.
  Proof.
    intros (I1 & I2 & I3 & I4 & I5) Hi Hx1 Hx2 Hfe. unfold Acc. cbn [ts value caller first_err cancel_req].
    assert (XR : is_TR x = false) by (destruct x; cbn in *; congruence).
    assert (XW : is_TW x = false) by (destruct x; cbn in *; congruence).
    unfold nrunning, nwait, ncanc in *.
    rewrite (count_set_nth is_TR i x TR _ Hi), (count_set_nth is_TW i x TR _ Hi), (count_set_nth is_canc i x TR _ Hi).
    rewrite XR, XW, Hx2. cbn [is_TR is_TW is_canc].
    pose proof (nth_TR_running _ _ Hi) as Rpos. unfold nrunning in Rpos.
    pose proof (nlive_split (ts s)) as LS. unfold nlive, nrunning, nwait in LS.
    pose proof (count_nonneg is_TW (ts s)) as Wn.
    assert (FE : first_err s <> None -> fe <> None).
    { intros Hne. destruct Hfe as [->|[e ->]]; [exact Hne|]. unfold note_err. destruct (first_err s); congruence. }
    assert (FE2 : forall e, first_err s = Some e -> fe = Some e).
    { intros e He. destruct Hfe as [->|[e' ->]]; [exact He|]. unfold note_err. rewrite He. reflexivity. }
    split; [lia|]. split; [lia|]. split; [intros; apply I3; lia|]. split; [intros; apply I4; lia|].
    destruct (caller s) as [|o|o k].
    - destruct I5 as (A & B & C & D). split; [lia|exact D].
    - destruct I5 as (A & B & C & D & E). repeat split; auto.
      destruct o as [rs|e|]; cbn [out_ok first_err cancel_req ts] in *; [exfalso; apply (E rs); reflexivity| |exact D].
      destruct D as [D1 D2]. split; [exact D1|apply FE2; exact D2].
    - destruct I5 as (A & B & C & D).
      assert (L : md cf = MRaise /\ first_err s <> None).
      { destruct D as [D|[_ D]]; [exact D|]. unfold nlive in D. lia. }
      assert (NV : forall rs, o <> OVals rs).
      { intros rs ->. cbn [out_ok] in C. destruct C as (_ & _ & C). unfold nlive in C. lia. }
      repeat split; auto; try tauto.
      destruct o as [rs|e|]; cbn [out_ok first_err cancel_req ts] in *; [exfalso; apply (NV rs); reflexivity| |exact C].
      destruct C as [C1 C2]. split; [exact C1|apply FE2; exact C2].
  Qed.

  (** from the accounting after the hand-over back to the invariant, when gather has nothing to do *)
  Lemma acc_inv_not_in s : Acc 0 s -> caller s <> CIn -> Inv s.
  Proof.
    intros (A1 & A2 & A3 & A4 & A5) Hc. unfold Inv.
    split; [lia|]. split; [lia|]. split; [exact A3|]. split; [exact A4|].
    destruct (caller s) as [|o|o k]; [congruence|exact A5|].
    destruct A5 as (B1 & B2 & B3 & B4 & B5 & B6). repeat split; auto.
  Qed.

  Lemma finish_gather_inv s :
    Acc 0 s -> (caller s = CIn -> md cf <> MRet -> first_err s = None) -> Inv (finish_gather s).
  Proof.
    intros HA Hfe. unfold finish_gather. destruct (caller s) eqn:Hc; try (apply acc_inv_not_in; [exact HA|congruence]).
    destruct HA as (A1 & A2 & A3 & A4 & A5). rewrite Hc in A5. destruct A5 as [A5 A6].
    destruct (all_done (ts s)) eqn:Hd.
    - apply all_done_iff in Hd. unfold Inv, with_caller. cbn [ts value caller first_err cancel_req].
      split; [lia|]. split; [lia|]. split; [exact A3|]. split; [exact A4|].
      split; [lia|]. split; [lia|]. split; [|right; auto].
      unfold out_ok. cbn [first_err ts]. auto.
    - unfold Inv. rewrite Hc. split; [lia|]. split; [lia|]. split; [exact A3|]. split; [exact A4|].
      split; [exact A5|]. split; [|split; [auto|exact A6]].
      pose proof (count_nonneg is_live (ts s)) as Ln. fold (nlive (ts s)) in Ln.
      destruct (Z.eq_dec (nlive (ts s)) 0) as [E|E]; [|lia].
      apply all_done_iff in E. congruence.
  Qed.

  Lemma kill_all_inv s o :
    Acc 0 s -> caller s = CIn -> (forall rs, o <> OVals rs) ->
    forall req, (req = true \/ md cf = MCancel) ->
    out_ok {| ts := ts s; value := value s; caller := caller s; first_err := first_err s; cancel_req := req |} o ->
    Inv (kill_all s o req).
  Proof.
    intros (A1 & A2 & A3 & A4 & A5) Hc Hno req Hreq Hok.
    unfold Inv, kill_all. cbn [ts value caller first_err cancel_req].
    destruct (cancel_all_counts (ts s)) as (K1 & K2 & K3).
    pose proof (nlive_split (cancel_all (ts s))) as LS.
    pose proof (count_nonneg is_TR (ts s)) as Rn. fold (nrunning (ts s)) in Rn.
    rewrite K1, K2 in *.
    split; [lia|]. split; [lia|]. split; [lia|]. split; [intros _; exact Hreq|].
    split; [lia|]. split; [lia|]. split; [|right; lia].
    destruct o as [rs|e|]; cbn [out_ok first_err cancel_req ts] in *; [exfalso; apply (Hno rs); reflexivity|exact Hok|exact Hok].
  Qed.

  Theorem step_inv s a : Inv s -> Inv (step cf s a).
  Proof.
    intros HI. unfold step. destruct a as [i v|i e|].
    - (* a body returns *)
      destruct (nth_error (ts s) i) as [t|] eqn:Hi; [|exact HI]. destruct t; try exact HI.
      pose proof (finish_acc s i (TOk v) (first_err s) HI Hi eq_refl eq_refl (or_introl eq_refl)) as HM.
      unfold with_ts at 1.
      set (m := {| ts := set_nth i (TOk v) (ts s); value := value s; caller := caller s;
                   first_err := first_err s; cancel_req := cancel_req s |}) in *.
      apply finish_gather_inv; [apply release_acc; exact HM|].
      destruct (release_ghost m) as (G1 & G2 & G3). intros Hc Hm. rewrite G1. apply G3 in Hc.
      assert (Hcs : caller s = CIn) by exact Hc.
      destruct HI as (_ & _ & _ & _ & I5). rewrite Hcs in I5. destruct I5 as (_ & _ & I5 & _).
      change (first_err s = None). apply I5. exact Hm.
    - (* a body raises *)
      destruct (nth_error (ts s) i) as [t|] eqn:Hi; [|exact HI]. destruct t; try exact HI.
      pose proof (finish_acc s i (TErr e) (note_err s e) HI Hi eq_refl eq_refl (or_intror (ex_intro _ e eq_refl))) as HM.
      set (m := {| ts := set_nth i (TErr e) (ts s); value := value s; caller := caller s;
                   first_err := note_err s e; cancel_req := cancel_req s |}) in *.
      pose proof (release_acc m HM) as HA.
      destruct (release_ghost m) as (G1 & G2 & G3).
      cbv zeta.
      destruct (caller (release m)) eqn:Hc; try (apply acc_inv_not_in; [exact HA|congruence]).
      assert (Hcs : caller s = CIn) by (apply G3; reflexivity).
      assert (Hfe : md cf <> MRet -> first_err (release m) = Some e).
      { intros Hm. rewrite G1.
        destruct HI as (_ & _ & _ & _ & I5). rewrite Hcs in I5. destruct I5 as (_ & _ & I5 & _).
        change (note_err s e = Some e). unfold note_err. rewrite (I5 Hm). reflexivity. }
      destruct (md cf) eqn:Hmd.
      + apply finish_gather_inv; [exact HA|]. intros _ Hm. congruence.
      + destruct HA as (A1 & A2 & A3 & A4 & A5). rewrite Hc in A5. destruct A5 as [A5 A6].
        assert (Hfe' : first_err (release m) = Some e) by (apply Hfe; congruence).
        destruct ((0 <? value (release m)) && negb (existsb is_TW (ts (release m)))) eqn:Hcond;
          unfold Inv, with_caller; cbn [ts value caller first_err cancel_req];
          (split; [lia|]); (split; [lia|]); (split; [exact A3|]); (split; [exact A4|]).
        * apply andb_true_iff in Hcond. destruct Hcond as [C1 C2].
          pose proof (count_nonneg is_TR (ts (release m))) as Rn. fold (nrunning (ts (release m))) in Rn.
          split; [lia|]. split; [lia|]. split; [|left; split; [exact Hmd|congruence]].
          cbn [out_ok first_err]. split; [congruence|exact Hfe'].
        * split; [exact Hmd|]. split.
          { apply andb_false_iff in Hcond. destruct Hcond as [C|C].
            - lia.
            - apply negb_false_iff in C. apply exists_TW_iff in C. apply A3. exact C. }
          split; [congruence|]. split; [|intros rs; discriminate].
          cbn [out_ok first_err]. split; [congruence|exact Hfe'].
      + apply kill_all_inv; [exact HA|exact Hc|intros rs; discriminate|right; exact Hmd|].
        cbn [out_ok first_err]. split; [congruence|apply Hfe; congruence].
    - (* the caller is cancelled *)
      destruct (caller s) as [|o|o k] eqn:Hc; [| |exact HI].
      + destruct HI as (I1 & I2 & I3 & I4 & I5). rewrite Hc in I5. destruct I5 as (B1 & B2 & B3 & B4).
        apply kill_all_inv; [|exact Hc|intros rs; discriminate|left; reflexivity|reflexivity].
        unfold Acc. rewrite Hc. split; [lia|]. split; [lia|]. split; [exact I3|]. split; [exact I4|]. auto.
      + destruct HI as (I1 & I2 & I3 & I4 & I5). rewrite Hc in I5. destruct I5 as (B1 & B2 & B3 & B4 & B5).
        unfold Inv. cbn [ts value caller first_err cancel_req].
        split; [lia|]. split; [lia|]. split; [exact I3|]. split; [intros _; left; reflexivity|].
        split; [exact B1|]. split; [exact B2|]. split; [exact B3|]. split; [reflexivity|intros rs; discriminate].
  Qed.

  Lemma run_inv n acts : Inv (run cf n acts).
  Proof.
    unfold run. generalize (init_inv n). generalize (init cf n).
    induction acts as [|a acts IH]; intros s Hs; cbn [fold_left]; [exact Hs|].
    apply IH. apply step_inv. exact Hs.
  Qed.
End Inv.

(** * Results and ghosts are what the schedule scripted *)
Definition scripted (a : action) (j : nat) (y : tstat) : Prop :=
  match a with
  | Ok i v => i = j /\ y = TOk v
  | Err i e => i = j /\ y = TErr e
  | CancelCaller => False
  end.

Lemma nth_set_nth i x l j y :
  nth_error (set_nth i x l) j = Some y -> (i = j /\ y = x) \/ nth_error l j = Some y.
Proof.
  revert i j. induction l as [|t r IH]; intros i j H; [destruct i; cbn in H; destruct j; discriminate|].
  destruct i as [|i], j as [|j]; cbn [set_nth nth_error] in *; auto.
  - inversion H; auto.
  - destruct (IH i j H) as [[-> ->]|H']; auto.
Qed.

Lemma nth_start_first l l' j y :
  start_first l = Some l' -> nth_error l' j = Some y -> y <> TR -> nth_error l j = Some y.
Proof.
  revert l' j. induction l as [|t r IH]; intros l' j H Hj Hy; cbn [start_first] in H; [discriminate|].
  destruct t; try (inversion H; subst; destruct j; cbn [nth_error] in *; [inversion Hj; subst; congruence|exact Hj]);
    (destruct (start_first r) as [r'|] eqn:E; [|discriminate]; inversion H; subst;
     destruct j; cbn [nth_error] in *; [exact Hj|apply (IH r' j eq_refl Hj Hy)]).
Qed.

Lemma nth_cancel_all l j y :
  nth_error (cancel_all l) j = Some y -> res_of y <> RC -> nth_error l j = Some y.
Proof.
  unfold cancel_all. intros H Hy. rewrite nth_error_map in H.
  destruct (nth_error l j) as [t|]; cbn [option_map] in H; [|discriminate].
  inversion H; subst. destruct t; cbn [cancel_task res_of] in *; congruence.
Qed.

Lemma ts_release m j y : nth_error (ts (release m)) j = Some y -> y <> TR -> nth_error (ts m) j = Some y.
Proof.
  unfold release. destruct (start_first (ts m)) as [l|] eqn:E.
  - cbn [with_ts ts]. intros H Hy. apply (nth_start_first _ _ _ _ E H Hy).
  - destruct (caller m); cbn [ts]; auto.
Qed.

Lemma ts_finish_gather s : ts (finish_gather s) = ts s.
Proof. unfold finish_gather. destruct (caller s); [|reflexivity|reflexivity]. destruct (all_done (ts s)); reflexivity. Qed.

Lemma step_ts cf s a j y :
  nth_error (ts (step cf s a)) j = Some y -> res_of y <> RC -> nth_error (ts s) j = Some y \/ scripted a j y.
Proof.
  intros H Hy. assert (HR : y <> TR) by (intros ->; apply Hy; reflexivity).
  unfold step in H. destruct a as [i v|i e|]; cbn [scripted].
  - destruct (nth_error (ts s) i) as [t|] eqn:Hi; [|auto]. destruct t; auto.
    rewrite ts_finish_gather in H. apply ts_release in H; [|exact HR]. cbn [with_ts ts] in H.
    apply nth_set_nth in H. tauto.
  - destruct (nth_error (ts s) i) as [t|] eqn:Hi; [|auto]. destruct t; auto.
    cbv zeta in H.
    match type of H with context [release ?m] => set (m0 := m) in * end.
    assert (HX : nth_error (ts (release m0)) j = Some y).
    { destruct (caller (release m0)); [|exact H|exact H].
      destruct (md cf).
      - rewrite ts_finish_gather in H. exact H.
      - destruct ((0 <? value (release m0)) && negb (existsb is_TW (ts (release m0)))); exact H.
      - unfold kill_all in H. cbn [ts] in H. apply nth_cancel_all in H; assumption. }
    apply ts_release in HX; [|exact HR]. unfold m0 in HX. cbn [ts] in HX.
    apply nth_set_nth in HX. tauto.
  - destruct (caller s); [|left; exact H|left; exact H].
    unfold kill_all in H. cbn [ts] in H. left. apply nth_cancel_all in H; assumption.
Qed.

Lemma run_snoc cf n acts a : run cf n (acts ++ [a]) = step cf (run cf n acts) a.
Proof. unfold run. rewrite fold_left_app. reflexivity. Qed.

Lemma init_no_results cf n j y : nth_error (ts (init cf n)) j = Some y -> res_of y = RC.
Proof.
  unfold init. cbn [ts]. generalize (Z.to_nat (permits cf)). revert j.
  induction n as [|n IH]; intros j p H; cbn [start] in H; [destruct j; discriminate|].
  destruct p; (destruct j; cbn [nth_error] in H; [inversion H; reflexivity|apply (IH _ _ H)]).
Qed.

Lemma results_scripted cf n acts j y :
  nth_error (ts (run cf n acts)) j = Some y -> res_of y <> RC -> exists a, In a acts /\ scripted a j y.
Proof.
  induction acts as [|a acts IH] using rev_ind; intros H Hy.
  - exfalso. apply Hy. apply (init_no_results cf n j y H).
  - rewrite run_snoc in H. apply step_ts in H; [|exact Hy]. destruct H as [H|H].
    + destruct (IH H Hy) as [a' [Ha' Hs]]. exists a'. split; [apply in_app_iff; auto|exact Hs].
    + exists a. split; [apply in_app_iff; right; left; reflexivity|exact H].
Qed.

Lemma step_first_err cf s a :
  first_err (step cf s a) = first_err s \/
  (first_err s = None /\ exists i e, a = Err i e /\ nth_error (ts s) i = Some TR /\ first_err (step cf s a) = Some e).
Proof.
  unfold step. destruct a as [i v|i e|].
  - destruct (nth_error (ts s) i) as [t|]; [|auto]. destruct t; auto. left.
    unfold finish_gather. set (m := with_ts s (set_nth i (TOk v) (ts s))).
    assert (E : first_err (release m) = first_err s).
    { unfold release. destruct (start_first (ts m)); [reflexivity|]. destruct (caller m); reflexivity. }
    destruct (caller (release m)); [|exact E|exact E]. destruct (all_done (ts (release m))); exact E.
  - destruct (nth_error (ts s) i) as [t|] eqn:Hi; [|auto]. destruct t; auto.
    cbv zeta. match goal with |- context [release ?m0] => set (m := m0) end.
    assert (E : first_err (release m) = note_err s e).
    { unfold release. destruct (start_first (ts m)); [reflexivity|]. destruct (caller m); reflexivity. }
    assert (E2 : first_err (match caller (release m) with
                            | CIn => match md cf with
                                     | MRet => finish_gather (release m)
                                     | MRaise => if (0 <? value (release m)) && negb (existsb is_TW (ts (release m)))
                                                 then with_caller (release m) (COut (OErr e) (nrunning (ts (release m))))
                                                 else with_caller (release m) (CReacq (OErr e))
                                     | MCancel => kill_all (release m) (OErr e) (cancel_req (release m))
                                     end
                            | _ => release m end) = note_err s e).
    { destruct (caller (release m)) eqn:Hc; [|exact E|exact E]. destruct (md cf).
      - unfold finish_gather. rewrite Hc. destruct (all_done (ts (release m))); exact E.
      - destruct ((0 <? value (release m)) && negb (existsb is_TW (ts (release m)))); exact E.
      - exact E. }
    rewrite E2. unfold note_err. destruct (first_err s) as [e0|] eqn:F; [left; reflexivity|].
    right. split; [reflexivity|]. exists i, e. auto.
  - left. destruct (caller s); reflexivity.
Qed.

Lemma first_err_origin cf n acts e :
  first_err (run cf n acts) = Some e ->
  exists acts1 i acts2, acts = acts1 ++ Err i e :: acts2 /\ first_err (run cf n acts1) = None /\
                        nth_error (ts (run cf n acts1)) i = Some TR.
Proof.
  induction acts as [|a acts IH] using rev_ind; intros H.
  - unfold run, init in H. cbn in H. discriminate.
  - rewrite run_snoc in H. destruct (step_first_err cf (run cf n acts) a) as [E|[E [i [e' [Ha [Hi E2]]]]]].
    + rewrite E in H. destruct (IH H) as [a1 [i [a2 [H1 [H2 H3]]]]].
      exists a1, i, (a2 ++ [a]). split; [rewrite H1, <- app_assoc; reflexivity|auto].
    + rewrite E2 in H. inversion H; subst. exists acts, i, []. auto.
Qed.

Lemma step_cancel_req cf s a : cancel_req (step cf s a) = true -> cancel_req s = true \/ a = CancelCaller.
Proof.
  unfold step. destruct a as [i v|i e|]; [| |auto].
  - destruct (nth_error (ts s) i) as [t|]; [|auto]. destruct t; auto.
    set (m := with_ts s (set_nth i (TOk v) (ts s))).
    assert (E : cancel_req (release m) = cancel_req s).
    { unfold release. destruct (start_first (ts m)); [reflexivity|]. destruct (caller m); reflexivity. }
    unfold finish_gather. destruct (caller (release m)); [|rewrite E; auto|rewrite E; auto].
    destruct (all_done (ts (release m))); cbn [with_caller cancel_req]; rewrite E; auto.
  - destruct (nth_error (ts s) i) as [t|]; [|auto]. destruct t; auto.
    cbv zeta. match goal with |- context [release ?m0] => set (m := m0) end.
    assert (E : cancel_req (release m) = cancel_req s).
    { unfold release. destruct (start_first (ts m)); [reflexivity|]. destruct (caller m); reflexivity. }
    destruct (caller (release m)) eqn:Hc; [|rewrite E; auto|rewrite E; auto]. destruct (md cf).
    + unfold finish_gather. rewrite Hc. destruct (all_done (ts (release m))); cbn [with_caller cancel_req]; rewrite E; auto.
    + destruct ((0 <? value (release m)) && negb (existsb is_TW (ts (release m)))); cbn [with_caller cancel_req]; rewrite E; auto.
    + cbn [kill_all cancel_req]. rewrite E. auto.
Qed.

Lemma cancel_req_origin cf n acts : cancel_req (run cf n acts) = true -> In CancelCaller acts.
Proof.
  induction acts as [|a acts IH] using rev_ind; intros H.
  - unfold run, init in H. cbn in H. discriminate.
  - rewrite run_snoc in H. apply step_cancel_req in H. apply in_app_iff.
    destruct H as [H|H]; [left; apply IH; exact H|right; left; exact H].
Qed.

(** once the helper has returned it has returned: nothing changes its outcome *)
Lemma release_out_stable m o k : caller m = COut o k -> caller (release m) = COut o k.
Proof.
  intros Hc. unfold release. destruct (start_first (ts m)); [exact Hc|]. rewrite Hc. reflexivity.
Qed.

Lemma step_out_stable cf s a o k : caller s = COut o k -> caller (step cf s a) = COut o k.
Proof.
  intros Hc. unfold step. destruct a as [i v|i e|].
  - destruct (nth_error (ts s) i) as [t|]; [|exact Hc]. destruct t; try exact Hc.
    unfold finish_gather. rewrite (release_out_stable _ o k); [apply release_out_stable|]; exact Hc.
  - destruct (nth_error (ts s) i) as [t|]; [|exact Hc]. destruct t; try exact Hc.
    cbv zeta. rewrite (release_out_stable _ o k); [apply release_out_stable|]; exact Hc.
  - rewrite Hc. exact Hc.
Qed.

(** * The hypotheses are satisfiable, the interesting outcomes are reachable *)
Definition demo (m : mode) : config := {| permits := 2; md := m |}.

Example demo_cancel :
  run (demo MCancel) 4 [Err 0 7] =
  {| ts := [TErr 7; TCr; TCr; TCw]; value := 2; caller := COut (OErr 7) 0; first_err := Some 7; cancel_req := false |}.
Proof. vm_compute. reflexivity. Qed.

Example demo_raise :
  run (demo MRaise) 4 [Err 0 7; CancelCaller; Ok 1 11; Ok 2 12] =
  {| ts := [TErr 7; TOk 11; TOk 12; TR]; value := 1; caller := COut OCancelled 1; first_err := Some 7; cancel_req := true |}.
Proof. vm_compute. reflexivity. Qed.

Example demo_ret :
  run (demo MRet) 3 [Err 1 7; Ok 0 10; Ok 2 12] =
  {| ts := [TOk 10; TErr 7; TOk 12]; value := 2; caller := COut (OVals [RV 10; RE 7; RV 12]) 0; first_err := Some 7; cancel_req := false |}.
Proof. vm_compute. reflexivity. Qed.

(** * A body that raised leaves its mark in the ghost *)
Lemma step_first_err_effective cf s i e :
  nth_error (ts s) i = Some TR -> first_err (step cf s (Err i e)) = note_err s e.
Proof.
  intros Hi. unfold step. rewrite Hi. cbv zeta.
  match goal with |- context [release ?m0] => set (m := m0) end.
  assert (E : first_err (release m) = note_err s e).
  { unfold release. destruct (start_first (ts m)); [reflexivity|]. destruct (caller m); reflexivity. }
  destruct (caller (release m)) eqn:Hc; [|exact E|exact E]. destruct (md cf).
  - unfold finish_gather. rewrite Hc. destruct (all_done (ts (release m))); exact E.
  - destruct ((0 <? value (release m)) && negb (existsb is_TW (ts (release m)))); exact E.
  - exact E.
Qed.

Definition err_inv (s : state) : Prop :=
  forall j e, nth_error (ts s) j = Some (TErr e) -> first_err s <> None.

Lemma step_err_inv cf s a : err_inv s -> err_inv (step cf s a).
Proof.
  intros H j e Hj.
  assert (Keep : first_err s <> None -> first_err (step cf s a) <> None).
  { intros Hne. destruct (step_first_err cf s a) as [E|[E _]]; congruence. }
  destruct a as [i v|i e'|].
  - apply step_ts in Hj; [|discriminate]. destruct Hj as [Hold|[_ Hs]]; [apply Keep; apply (H j e Hold)|discriminate].
  - destruct (nth_error (ts s) i) as [t|] eqn:Hi.
    + destruct t; try (unfold step in *; rewrite Hi in *; apply (H j e Hj)).
      rewrite step_first_err_effective by exact Hi. unfold note_err. destruct (first_err s); discriminate.
    + unfold step in *. rewrite Hi in *. apply (H j e Hj).
  - apply step_ts in Hj; [|discriminate]. destruct Hj as [Hold|Hs]; [apply Keep; apply (H j e Hold)|contradiction].
Qed.

Lemma run_err_inv cf n acts : err_inv (run cf n acts).
Proof.
  induction acts as [|a acts IH] using rev_ind.
  - intros j e Hj. apply init_no_results in Hj. discriminate.
  - rewrite run_snoc. apply step_err_inv. exact IH.
Qed.

(** every task that is neither live nor cancelled nor failed has returned a value *)
Lemma done_is_ok l j y :
  nlive l = 0 -> ncanc l = 0 -> nth_error l j = Some y -> (exists v, y = TOk v) \/ (exists e, y = TErr e).
Proof.
  unfold nlive, ncanc. revert j. induction l as [|t r IH]; intros j HL HC Hj; [destruct j; discriminate|].
  cbn [count] in HL, HC. pose proof (count_nonneg is_live r). pose proof (count_nonneg is_canc r).
  destruct j as [|j]; cbn [nth_error] in Hj.
  - inversion Hj; subst. destruct y; cbn [is_live is_canc] in *; try lia; eauto.
  - apply (IH j); [destruct (is_live t); lia | destruct (is_canc t); lia | exact Hj].
Qed.
