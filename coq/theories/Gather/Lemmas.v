(** C20: invariants of the bounded-gather model, proved for every number of permits, every number of
    partial functions and every schedule. *)
From HailV Require Import Common.Prelude Gather.Model.
Open Scope Z_scope.

Definition is_canc (t : tstat) : bool := match t with TCr | TCw => true | _ => false end.
Definition nwait (l : list tstat) : Z := count is_TW l.
Definition nlive (l : list tstat) : Z := count is_live l.
Definition ncanc (l : list tstat) : Z := count is_canc l.

(** * Counting *)
Lemma count_nonneg f l : 0 <= count f l.
Proof. induction l as [|t r IH]; cbn [count]; [lia|]. destruct (f t); lia. Qed.

Lemma nlive_split l : nlive l = nrunning l + nwait l.
Proof.
  unfold nlive, nrunning, nwait. induction l as [|t r IH]; cbn [count]; [reflexivity|].
  rewrite IH. destruct t; cbn [is_live is_TR is_TW]; lia.
Qed.

Lemma count_set_nth f i x t l :
  nth_error l i = Some t ->
  count f (set_nth i x l) = count f l - (if f t then 1 else 0) + (if f x then 1 else 0).
Proof.
  revert i. induction l as [|y r IH]; intros i H; destruct i as [|i]; cbn [nth_error] in H; try discriminate.
  - inversion H; subst. cbn [set_nth count]. lia.
  - cbn [set_nth count]. rewrite (IH i H). lia.
Qed.

Lemma start_first_some l l' :
  start_first l = Some l' ->
  nwait l' = nwait l - 1 /\ nrunning l' = nrunning l + 1 /\ ncanc l' = ncanc l /\ map res_of l' = map res_of l /\
  length l' = length l.
Proof.
  unfold nwait, nrunning, ncanc. revert l'. induction l as [|t r IH]; intros l' H; cbn [start_first] in H; [discriminate|].
  destruct t; try (inversion H; subst; cbn [count is_TW is_TR is_canc map res_of length]; repeat split; lia);
    (destruct (start_first r) as [r'|]; [|discriminate]; inversion H; subst;
     destruct (IH r' eq_refl) as [H1 [H2 [H3 [H4 H5]]]];
     cbn [count is_TW is_TR is_canc map res_of length]; rewrite H1, H2, H3, H4, H5; repeat split; lia).
Qed.

Lemma start_first_none l : start_first l = None -> nwait l = 0.
Proof.
  unfold nwait. induction l as [|t r IH]; intros H; cbn [start_first] in H; [reflexivity|].
  destruct t; try discriminate; (destruct (start_first r); [discriminate|]; cbn [count is_TW]; rewrite IH; auto).
Qed.

Lemma cancel_all_counts l :
  nrunning (cancel_all l) = 0 /\ nwait (cancel_all l) = 0 /\ ncanc (cancel_all l) = ncanc l + nlive l.
Proof.
  unfold nrunning, nwait, ncanc, nlive, cancel_all. induction l as [|t r IH]; cbn [map count]; [lia|].
  destruct IH as [H1 [H2 H3]]. rewrite H1, H2, H3.
  destruct t; cbn [cancel_task is_TR is_TW is_canc is_live]; lia.
Qed.

Lemma all_done_iff l : all_done l = true <-> nlive l = 0.
Proof.
  unfold all_done, nlive. induction l as [|t r IH]; cbn [existsb count negb]; [tauto|].
  pose proof (count_nonneg is_live r). destruct (is_live t); cbn [orb negb].
  - split; [discriminate|lia].
  - rewrite IH. lia.
Qed.

Lemma exists_TW_iff l : existsb is_TW l = true <-> 0 < nwait l.
Proof.
  unfold nwait. induction l as [|t r IH]; cbn [existsb count]; [split; [discriminate|lia]|].
  pose proof (count_nonneg is_TW r). destruct (is_TW t); cbn [orb].
  - split; [lia|reflexivity].
  - rewrite IH. lia.
Qed.

Lemma nth_TR_running l i : nth_error l i = Some TR -> 0 < nrunning l.
Proof.
  unfold nrunning. revert i. induction l as [|t r IH]; intros i H; destruct i; cbn [nth_error] in H; try discriminate.
  - inversion H; subst. cbn [count is_TR]. pose proof (count_nonneg is_TR r). lia.
  - cbn [count]. specialize (IH i H). destruct (is_TR t); lia.
Qed.

Lemma start_counts p n :
  nrunning (start p n) = Z.of_nat (Nat.min p n) /\ nwait (start p n) = Z.of_nat (n - p) /\ ncanc (start p n) = 0.
Proof.
  unfold nrunning, nwait, ncanc. revert p. induction n as [|n IH]; intros p; cbn [start count].
  - rewrite Nat.min_0_r. cbn. lia.
  - destruct p as [|p]; cbn [count is_TR is_TW is_canc].
    + destruct (IH 0%nat) as [A1 [A2 A3]]. rewrite A1, A2, A3. cbn [Nat.min]. rewrite Nat.sub_0_r in *. lia.
    + destruct (IH p) as [B1 [B2 B3]]. rewrite B1, B2, B3. cbn [Nat.min Nat.sub]. lia.
Qed.
