(** C20 — property theorems only.  They quantify over ALL numbers of permits (>= 1), ALL numbers [n] of partial
    functions and ALL schedules [acts] (body i returns / body i raises / the caller is cancelled) of the model
    HailV.Gather.Model of the bounded gather helpers after fixes/C20.diff, which the check ties to
    hail/python/hailtop/utils/utils.py by a differential run.  [s] below is the state after the schedule.
    The C20_online_* theorems at the end are about HailV.Gather.OnlineModel, a faithful model of
    OnlineBoundedGather2 AS IT IS (with the WithoutSemaphore of the fix): its exit-waits statement is refuted. *)
From HailV Require Import Common.Prelude Gather.Model Gather.Lemmas Gather.OnlineModel Gather.OnlineLemmas.
Open Scope Z_scope.

(** Bound.  The semaphore never goes negative and permits are conserved: free permits + running bodies =
    permits, so never more than [permits] bodies run; and at the instant the helper returns, when its caller
    holds a permit again, at most [permits - 1] bodies run. *)
Theorem C20_bound : forall cf n acts, 1 <= permits cf ->
  let s := run cf n acts in
  0 <= value s /\ value s + nrunning (ts s) = permits cf /\ nrunning (ts s) <= permits cf /\
  (forall o k, caller s = COut o k -> 0 <= k /\ k + 1 <= permits cf).
Proof.
  intros cf n acts Hp s. destruct (run_inv cf Hp n acts) as (I1 & I2 & I3 & I4 & I5). fold s in I1, I2, I3, I4, I5.
  split; [exact I1|]. split; [exact I2|]. split; [lia|].
  intros o k Hc. rewrite Hc in I5. tauto.
Qed.
Print Assumptions C20_bound.

(** ... and no permit idles while a task waits for one. *)
Theorem C20_no_idle_permit : forall cf n acts, 1 <= permits cf ->
  let s := run cf n acts in 0 < nwait (ts s) -> value s = 0.
Proof. intros cf n acts Hp s. destruct (run_inv cf Hp n acts) as (_ & _ & I3 & _). exact I3. Qed.
Print Assumptions C20_no_idle_permit.

(** Order.  When the helper returns a list, every task has finished, the list is the list of the tasks'
    results in submission order, and entry j is what body j was scripted to do (RC never occurs). *)
Theorem C20_order : forall cf n acts rs k, 1 <= permits cf ->
  let s := run cf n acts in
  caller s = COut (OVals rs) k ->
  rs = map res_of (ts s) /\ length rs = length (ts s) /\ nlive (ts s) = 0 /\
  (forall j r, nth_error rs j = Some r ->
     (exists v, r = RV v /\ In (Ok j v) acts) \/ (exists e, r = RE e /\ In (Err j e) acts)).
Proof.
  intros cf n acts rs k Hp s Hc. destruct (run_inv cf Hp n acts) as (_ & _ & _ & _ & I5). fold s in I5.
  rewrite Hc in I5. destruct I5 as (_ & _ & (_ & Hrs & HL & HC) & _).
  split; [exact Hrs|]. split; [rewrite Hrs; apply map_length|]. split; [exact HL|].
  intros j r Hj. rewrite Hrs, nth_error_map in Hj.
  destruct (nth_error (ts s) j) as [y|] eqn:Hy; cbn [option_map] in Hj; [|discriminate]. inversion Hj; subst r.
  destruct (done_is_ok _ _ _ HL HC Hy) as [[v ->]|[e ->]].
  - left. exists v. split; [reflexivity|].
    destruct (results_scripted cf n acts j (TOk v) Hy) as [a [Ha Hs]]; [discriminate|].
    destruct a; cbn [scripted] in Hs; try contradiction; destruct Hs as [-> Hs]; inversion Hs; subst; exact Ha.
  - right. exists e. split; [reflexivity|].
    destruct (results_scripted cf n acts j (TErr e) Hy) as [a [Ha Hs]]; [discriminate|].
    destruct a; cbn [scripted] in Hs; try contradiction; destruct Hs as [-> Hs]; inversion Hs; subst; exact Ha.
Qed.
Print Assumptions C20_order.

(** Error contract, return_exceptions=True: the helper never raises an exception of a body - it returns the
    list (exceptions in place, by C20_order) or, if its caller was cancelled, raises CancelledError. *)
Theorem C20_error_contract_return : forall cf n acts o k, 1 <= permits cf -> md cf = MRet ->
  caller (run cf n acts) = COut o k ->
  (exists rs, o = OVals rs) \/ (o = OCancelled /\ In CancelCaller acts).
Proof.
  intros cf n acts o k Hp Hm Hc. destruct (run_inv cf Hp n acts) as (_ & _ & _ & _ & I5).
  rewrite Hc in I5. destruct I5 as (_ & _ & Hok & _).
  destruct o as [rs|e|]; cbn [out_ok] in Hok.
  - left. exists rs. reflexivity.
  - exfalso. tauto.
  - right. split; [reflexivity|]. apply (cancel_req_origin cf n). exact Hok.
Qed.
Print Assumptions C20_error_contract_return.

(** Error contract, raising modes: an exception raised by the helper is the FIRST exception raised by a body:
    the schedule splits into a prefix in which no body had raised, the action "running body i raises e", and a
    rest.  It returns a list only if no body raised (every entry is a value). *)
Theorem C20_error_contract_raise : forall cf n acts k, 1 <= permits cf -> md cf <> MRet ->
  (forall e, caller (run cf n acts) = COut (OErr e) k ->
     exists acts1 i acts2, acts = acts1 ++ Err i e :: acts2 /\ first_err (run cf n acts1) = None /\
                           nth_error (ts (run cf n acts1)) i = Some TR) /\
  (forall rs, caller (run cf n acts) = COut (OVals rs) k ->
     forall j r, nth_error rs j = Some r -> exists v, r = RV v /\ In (Ok j v) acts) /\
  (caller (run cf n acts) = COut OCancelled k -> In CancelCaller acts).
Proof.
  intros cf n acts k Hp Hm. pose proof (run_inv cf Hp n acts) as (_ & _ & _ & _ & I5).
  split; [|split].
  - intros e Hc. rewrite Hc in I5. destruct I5 as (_ & _ & (_ & Hfe) & _).
    apply first_err_origin. exact Hfe.
  - intros rs Hc j r Hj.
    destruct (C20_order cf n acts rs k Hp Hc) as (Hrs & _ & _ & Hsc).
    destruct (Hsc j r Hj) as [H|[e [-> _]]]; [exact H|exfalso].
    rewrite Hc in I5. destruct I5 as (_ & _ & (Hfe & _) & _).
    rewrite Hrs, nth_error_map in Hj.
    destruct (nth_error (ts (run cf n acts)) j) as [y|] eqn:Hy; cbn [option_map] in Hj; [|discriminate].
    destruct y; cbn [res_of] in Hj; try discriminate. inversion Hj; subst.
    apply (run_err_inv cf n acts j e Hy). apply Hfe. exact Hm.
  - intros Hc. rewrite Hc in I5. destruct I5 as (_ & _ & Hok & _). apply (cancel_req_origin cf n). exact Hok.
Qed.
Print Assumptions C20_error_contract_raise.

(** cancel_on_error=True: when the helper raises the first exception every other task has been cancelled and
    has finished - nothing runs, nothing waits. *)
Theorem C20_cancels_rest : forall cf n acts e k, 1 <= permits cf -> md cf = MCancel ->
  caller (run cf n acts) = COut (OErr e) k -> k = 0 /\ nlive (ts (run cf n acts)) = 0.
Proof.
  intros cf n acts e k Hp Hm Hc. destruct (run_inv cf Hp n acts) as (_ & _ & _ & _ & I5).
  rewrite Hc in I5. destruct I5 as (_ & _ & _ & [[H _]|H]); [congruence|exact H].
Qed.
Print Assumptions C20_cancels_rest.

(** None left running.  Whenever the helper has returned or raised, no task of it is running or waiting -
    at that instant (k) and afterwards - with the single documented exception: default mode after a body
    raised ("the remaining partial functions continue to run with bounded parallelism"). *)
Theorem C20_none_left_running : forall cf n acts o k, 1 <= permits cf ->
  let s := run cf n acts in
  caller s = COut o k ->
  (md cf = MRaise /\ first_err s <> None) \/ (k = 0 /\ nlive (ts s) = 0).
Proof.
  intros cf n acts o k Hp s Hc. destruct (run_inv cf Hp n acts) as (_ & _ & _ & _ & I5). fold s in I5.
  rewrite Hc in I5. tauto.
Qed.
Print Assumptions C20_none_left_running.

(** Tasks are cancelled only by cancel_on_error or because the caller was cancelled: in default mode the
    siblings of a failed body are left alone. *)
Theorem C20_cancelled_only_on_request : forall cf n acts, 1 <= permits cf ->
  0 < ncanc (ts (run cf n acts)) -> md cf = MCancel \/ In CancelCaller acts.
Proof.
  intros cf n acts Hp H. destruct (run_inv cf Hp n acts) as (_ & _ & _ & I4 & _).
  destruct (I4 H) as [Hr|Hm]; [right; apply (cancel_req_origin cf n); exact Hr|left; exact Hm].
Qed.
Print Assumptions C20_cancelled_only_on_request.

(** The helper returns once: no later action changes its outcome. *)
Theorem C20_returns_once : forall cf n acts more o k,
  caller (run cf n acts) = COut o k -> caller (run cf n (acts ++ more)) = COut o k.
Proof.
  intros cf n acts more o k H. unfold run in *. rewrite fold_left_app.
  revert H. generalize (fold_left (step cf) acts (init cf n)).
  induction more as [|a more IH]; intros s H; cbn [fold_left]; [exact H|].
  apply IH. apply step_out_stable. exact H.
Qed.
Print Assumptions C20_returns_once.

(** * OnlineBoundedGather2 (faithful model of the class as it is) *)

(** Bound: permits are conserved, the semaphore never goes negative, and when __aexit__ returns or raises
    (the caller holds its permit again) at most [permits - 1] bodies run. *)
Theorem C20_online_bound : forall cf n acts, 1 <= opermits cf ->
  let s := orun cf n acts in
  0 <= ovalue s /\ ovalue s + nrunning (ots s) = opermits cf /\ nrunning (ots s) <= opermits cf /\
  (0 < nwait (ots s) -> ovalue s = 0) /\
  (forall o k a, ocaller s = KOut o k a -> 0 <= k /\ k + 1 <= opermits cf).
Proof.
  intros cf n acts Hp s. destruct (orun_inv cf Hp n acts) as (I1 & I2 & I3 & _ & _ & I6). fold s in I1, I2, I3, I6.
  split; [exact I1|]. split; [exact I2|]. split; [lia|]. split; [exact I3|].
  intros o k a Hc. rewrite Hc in I6. tauto.
Qed.
Print Assumptions C20_online_bound.

(** "If a background task fails, all running background tasks are cancelled and the pool is shut down": once an
    exception is stored no task is running or waiting. *)
Theorem C20_online_failure_cancels_all : forall cf n acts, 1 <= opermits cf ->
  oexc (orun cf n acts) <> None -> nlive (ots (orun cf n acts)) = 0 /\ oshut (orun cf n acts) = true.
Proof.
  intros cf n acts Hp H. destruct (orun_inv cf Hp n acts) as (_ & _ & _ & I4 & I5 & _).
  apply I5 in H. split; [apply I4; exact H|exact H].
Qed.
Print Assumptions C20_online_failure_cancels_all.

(** Error contract: the exit raises the FIRST exception - the one of the with-body if it raised, else the one
    of the first background task that raised -, returns normally only if none was raised (then every task has
    finished), and raises CancelledError only if the caller was cancelled. *)
Theorem C20_online_error_contract : forall cf n acts k a, 1 <= opermits cf ->
  let s := orun cf n acts in
  (forall e, ocaller s = KOut (OErr e) k a ->
     (body_raises cf = true /\ e = 1) \/
     exists acts1 i acts2, acts = acts1 ++ OErr_ i e :: acts2 /\ oexc (orun cf n acts1) = None /\
                           nth_error (ots (orun cf n acts1)) i = Some TR) /\
  (forall rs, ocaller s = KOut (OVals rs) k a -> oexc s = None /\ rs = map ores (ots s) /\ nlive (ots s) = 0) /\
  (ocaller s = KOut OCancelled k a -> In OCancelCaller acts).
Proof.
  intros cf n acts k a Hp s. pose proof (orun_inv cf Hp n acts) as (_ & _ & _ & _ & I5 & I6). fold s in I5, I6.
  split; [|split].
  - intros e Hc. rewrite Hc in I6. destruct I6 as (_ & _ & _ & (He & _)). apply (oexc_origin cf n acts e He).
  - intros rs Hc. rewrite Hc in I6. destruct I6 as (_ & _ & _ & (_ & _ & HL & Hrs & Hs)).
    split; [|auto]. destruct (oexc s) eqn:E; [|reflexivity]. exfalso.
    assert (oshut s = true) by (apply I5; congruence). congruence.
  - intros Hc. apply (ocancel_origin cf n). fold s. rewrite Hc. reflexivity.
Qed.
Print Assumptions C20_online_error_contract.

(** Exit waits for all background tasks - PARTIAL: proved when the with-body did not raise and the caller was
    not cancelled (normal exit, or exit because a background task raised): at the instant __aexit__ returns or
    raises no background task is unfinished, and none is afterwards. *)
Theorem C20_online_exit_waits_partial : forall cf n acts o k a, 1 <= opermits cf ->
  let s := orun cf n acts in
  ocaller s = KOut o k a -> body_raises cf = false -> o <> OCancelled ->
  a = 0 /\ nlive (ots s) = 0.
Proof.
  intros cf n acts o k a Hp s Hc Hb Ho. pose proof (orun_inv cf Hp n acts) as (_ & _ & _ & I4 & I5 & I6).
  fold s in I4, I5, I6. rewrite Hc in I6. destruct I6 as (_ & _ & _ & D).
  destruct o as [rs|e|]; cbn [out_clause] in D; [tauto| |congruence].
  destruct D as [He Ha]. split; [apply Ha; exact Hb|]. apply I4. apply I5. congruence.
Qed.
Print Assumptions C20_online_exit_waits_partial.

(** ... and REFUTED in the two remaining cases.  (1) The with-body raises after submitting one task:
    __aexit__ re-raises while that (cancelled) task is still unfinished. *)
Theorem C20_online_exit_waits_refuted_body_raises : exists cf n o k a,
  1 <= opermits cf /\ ocaller (orun cf n []) = KOut o k a /\ 0 < a.
Proof.
  exists w_body, 1%nat, (OErr 1), 0, 1. split; [cbn; lia|]. split; [exact online_body_raise_witness|lia].
Qed.
Print Assumptions C20_online_exit_waits_refuted_body_raises.

(** (2) The caller is cancelled while __aexit__ waits: CancelledError propagates, the pool is not shut down, the
    background task keeps running after the context manager has exited. *)
Theorem C20_online_exit_waits_refuted_caller_cancelled : exists cf n acts k a,
  1 <= opermits cf /\ ocaller (orun cf n acts) = KOut OCancelled k a /\ 0 < a /\
  0 < nlive (ots (orun cf n acts)) /\ oshut (orun cf n acts) = false.
Proof.
  exists w_cancel, 1%nat, [OCancelCaller], 1, 1. rewrite online_cancel_witness.
  cbn [ocaller ots oshut opermits w_cancel]. unfold nlive. cbn [count is_live]. repeat split; lia.
Qed.
Print Assumptions C20_online_exit_waits_refuted_caller_cancelled.
