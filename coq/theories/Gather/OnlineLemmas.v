(** C20: invariants of the OnlineBoundedGather2 model, proved for every number of permits, every number of
    background tasks and every schedule. *)
From HailV Require Import Common.Prelude Gather.Model Gather.Lemmas Gather.OnlineModel.
Open Scope Z_scope.

Lemma count_repeat f t n : count f (repeat t n) = if f t then Z.of_nat n else 0.
Proof.
  induction n as [|n IH]; cbn [repeat count]; [destruct (f t); reflexivity|].
  rewrite IH. destruct (f t); lia.
Qed.

Lemma nth_TW_waiting l i : nth_error l i = Some TW -> 0 < nwait l.
Proof.
  unfold nwait. revert i. induction l as [|t r IH]; intros i H; destruct i; cbn [nth_error] in H; try discriminate.
  - inversion H; subst. cbn [count is_TW]. pose proof (count_nonneg is_TW r). lia.
  - cbn [count]. specialize (IH i H). destruct (is_TW t); lia.
Qed.

Section OInv.
  Variable cf : oconfig.
  Hypothesis Hperm : 1 <= opermits cf.

  Definition out_clause (s : ostate) (o : outcome) (k a : Z) : Prop :=
    match o with
    | OVals rs => k = 0 /\ a = 0 /\ nlive (ots s) = 0 /\ rs = map ores (ots s) /\ oshut s = false
    | OErr e => oexc s = Some e /\ (body_raises cf = false -> a = 0)
    | OCancelled => True
    end.

  Definition OInv (s : ostate) : Prop :=
    0 <= ovalue s /\ ovalue s + nrunning (ots s) = opermits cf /\ (0 < nwait (ots s) -> ovalue s = 0) /\
    (oshut s = true -> nlive (ots s) = 0) /\ (oexc s <> None <-> oshut s = true) /\
    match ocaller s with
    | KWait => oshut s = false /\ 0 < nlive (ots s)
    | KReacq o => o = OCancelled /\ ovalue s = 0 /\ oshut s = false
    | KOut o k a => 0 <= k /\ k + 1 <= opermits cf /\ 0 <= a /\ out_clause s o k a
    end.

  (** accounting with [d] permits in transit, in a pool that is not shut down and whose exit has not yet
      looked at the done event *)
  Definition OAcc (d : Z) (m : ostate) : Prop :=
    0 <= ovalue m /\ ovalue m + nrunning (ots m) = opermits cf - d /\ (0 < nwait (ots m) -> ovalue m = 0) /\
    oshut m = false /\ oexc m = None /\
    match ocaller m with
    | KWait => True
    | KReacq o => o = OCancelled /\ ovalue m = 0
    | KOut o k a => 0 <= k /\ k + 1 <= opermits cf /\ 0 <= a /\ o = OCancelled
    end.

  Lemma oinit_inv n : OInv (oinit cf n).
  Proof.
    unfold OInv, oinit. destruct (body_raises cf) eqn:B; cbn [ots ovalue ocaller oexc oshut].
    - unfold nrunning, nwait, nlive. rewrite !count_repeat. cbn [is_TR is_TW is_live].
      split; [lia|]. split; [lia|]. split; [lia|]. split; [reflexivity|]. split; [split; [reflexivity|discriminate]|].
      split; [lia|]. split; [lia|]. split; [lia|]. cbn [out_clause oexc]. split; [reflexivity|]. rewrite B. discriminate.
    - destruct (start_counts (Z.to_nat (opermits cf)) n) as [H1 [H2 H3]].
      pose proof (nlive_split (start (Z.to_nat (opermits cf)) n)) as H4.
      rewrite H1, H2 in *.
      split; [lia|]. split; [lia|]. split; [lia|]. split; [discriminate|].
      split; [split; [intros H; exfalso; apply H; reflexivity|discriminate]|].
      destruct n as [|n].
      + split; [lia|]. split; [lia|]. split; [lia|]. cbn [out_clause ots oshut start map]. unfold nlive. cbn [count]. auto.
      + split; [reflexivity|lia].
  Qed.

  Lemma orelease_acc extra m : 0 <= extra -> OAcc 1 m -> OAcc 0 (orelease extra m).
  Proof.
    intros He (M1 & M2 & M3 & M4 & M5 & M6). unfold orelease, OAcc.
    destruct (start_first (ots m)) as [l|] eqn:Hl; cbn [o_with ots ovalue ocaller oexc oshut].
    - destruct (start_first_some _ _ Hl) as (W & R & _).
      pose proof (count_nonneg is_TW l) as Wn. fold (nwait l) in Wn. rewrite W, R in *.
      assert (V0 : ovalue m = 0) by (apply M3; lia).
      split; [lia|]. split; [lia|]. split; [lia|]. split; [exact M4|]. split; [exact M5|]. exact M6.
    - pose proof (start_first_none _ Hl) as W.
      pose proof (count_nonneg is_TR (ots m)) as Rn. fold (nrunning (ots m)) in Rn.
      pose proof (count_nonneg is_live (ots m)) as Ln.
      destruct (ocaller m) as [|o|o k a]; cbn [o_with ots ovalue ocaller oexc oshut]; rewrite W in *.
      + split; [lia|]. split; [lia|]. split; [lia|]. auto.
      + destruct M6 as [-> V0]. split; [lia|]. split; [lia|]. split; [lia|]. split; [exact M4|]. split; [exact M5|].
        unfold nlive_. split; [lia|]. split; [lia|]. split; [lia|reflexivity].
      + split; [lia|]. split; [lia|]. split; [lia|]. auto.
  Qed.

  Lemma orelease_ghost extra m :
    oexc (orelease extra m) = oexc m /\ oshut (orelease extra m) = oshut m /\
    (ocaller (orelease extra m) = KWait <-> ocaller m = KWait).
  Proof.
    unfold orelease. destruct (start_first (ots m)); cbn [o_with oexc oshut ocaller]; [tauto|].
    destruct (ocaller m); cbn [o_with oexc oshut ocaller]; repeat split; intros; congruence.
  Qed.

  (** an effective action on a running body: the pool cannot have been shut down *)
  Lemma ofinish_acc s i x :
    OInv s -> nth_error (ots s) i = Some TR -> is_live x = false ->
    OAcc 1 (o_with s (set_nth i x (ots s)) (ovalue s) (ocaller s)).
  Proof.
    intros (I1 & I2 & I3 & I4 & I5 & I6) Hi Hx. unfold OAcc. cbn [o_with ots ovalue ocaller oexc oshut].
    assert (XR : is_TR x = false) by (destruct x; cbn in *; congruence).
    assert (XW : is_TW x = false) by (destruct x; cbn in *; congruence).
    pose proof (nth_TR_running _ _ Hi) as Rpos.
    pose proof (nlive_split (ots s)) as LS. pose proof (count_nonneg is_TW (ots s)) as Wn. fold (nwait (ots s)) in Wn.
    assert (NS : oshut s = false).
    { destruct (oshut s) eqn:E; [|reflexivity]. specialize (I4 eq_refl). lia. }
    assert (NE : oexc s = None).
    { destruct (oexc s) eqn:E; [|reflexivity]. exfalso. assert (oshut s = true) by (apply I5; congruence). congruence. }
    unfold nrunning, nwait in *.
    rewrite (count_set_nth is_TR i x TR _ Hi), (count_set_nth is_TW i x TR _ Hi). rewrite XR, XW. cbn [is_TR is_TW].
    split; [lia|]. split; [lia|]. split; [intros; apply I3; lia|]. split; [exact NS|]. split; [exact NE|].
    destruct (ocaller s) as [|o|o k a]; [exact I|tauto|].
    destruct I6 as (A & B & C & D). split; [exact A|]. split; [exact B|]. split; [exact C|].
    destruct o as [rs|e|]; cbn [out_clause] in D; [|destruct D; congruence|reflexivity].
    destruct D as (_ & _ & D & _). unfold nlive in *. lia.
  Qed.

  Lemma oacc_inv_not_wait s : OAcc 0 s -> ocaller s <> KWait -> OInv s.
  Proof.
    intros (A1 & A2 & A3 & A4 & A5 & A6) Hc. unfold OInv.
    split; [lia|]. split; [lia|]. split; [exact A3|]. split; [congruence|].
    split; [rewrite A4, A5; split; [intros H; exfalso; apply H; reflexivity|discriminate]|].
    destruct (ocaller s) as [|o|o k a]; [congruence|tauto|].
    destruct A6 as (B1 & B2 & B3 & ->). cbn [out_clause]. auto.
  Qed.

  Lemma odone_inv s : OAcc 0 s -> OInv (odone s).
  Proof.
    intros HA. unfold odone. destruct (ocaller s) eqn:Hc; try (apply oacc_inv_not_wait; [exact HA|congruence]).
    destruct HA as (A1 & A2 & A3 & A4 & A5 & A6). rewrite A4. cbn [negb]. rewrite andb_true_r.
    assert (GH : oexc s <> None <-> oshut s = true).
    { rewrite A4, A5. split; [intros H; exfalso; apply H; reflexivity|discriminate]. }
    destruct (all_done (ots s)) eqn:Hd.
    - apply all_done_iff in Hd. unfold OInv. cbn [o_with ots ovalue ocaller oexc oshut].
      split; [lia|]. split; [lia|]. split; [exact A3|]. split; [congruence|]. split; [exact GH|].
      split; [lia|]. split; [lia|]. split; [lia|]. cbn [out_clause ots oshut]. auto.
    - unfold OInv. rewrite Hc. split; [lia|]. split; [lia|]. split; [exact A3|]. split; [congruence|]. split; [exact GH|].
      split; [exact A4|].
      pose proof (count_nonneg is_live (ots s)) as Ln. fold (nlive (ots s)) in Ln.
      destruct (Z.eq_dec (nlive (ots s)) 0) as [E|E]; [|lia]. apply all_done_iff in E. congruence.
  Qed.

  Lemma oshutdown_inv s e : OAcc 0 s -> OInv (oshutdown s e).
  Proof.
    intros (A1 & A2 & A3 & A4 & A5 & A6). unfold OInv, oshutdown. cbn [ots ovalue ocaller oexc oshut].
    destruct (cancel_all_counts (ots s)) as (K1 & K2 & _).
    pose proof (nlive_split (cancel_all (ots s))) as LS.
    pose proof (count_nonneg is_TR (ots s)) as Rn. fold (nrunning (ots s)) in Rn.
    rewrite K1, K2 in *.
    split; [lia|]. split; [lia|]. split; [lia|]. split; [intros _; lia|]. split; [split; [reflexivity|discriminate]|].
    destruct (ocaller s) as [|o|o k a].
    - split; [lia|]. split; [lia|]. split; [lia|]. cbn [out_clause oexc]. auto.
    - destruct A6 as [-> _]. split; [lia|]. split; [lia|]. split; [lia|]. exact I.
    - destruct A6 as (B1 & B2 & B3 & ->). split; [lia|]. split; [lia|]. split; [lia|]. exact I.
  Qed.

  Theorem ostep_inv s a : OInv s -> OInv (ostep cf s a).
  Proof.
    intros HI. unfold ostep. destruct a as [i v|i e|i|].
    - destruct (nth_error (ots s) i) as [t|] eqn:Hi; [|exact HI]. destruct t; try exact HI.
      apply odone_inv. apply orelease_acc; [lia|]. apply ofinish_acc; auto.
    - destruct (nth_error (ots s) i) as [t|] eqn:Hi; [|exact HI]. destruct t; try exact HI.
      cbv zeta.
      pose proof (ofinish_acc s i (TErr e) HI Hi eq_refl) as HM.
      match goal with |- context [orelease ?x ?m0] => set (ex := x); set (m := m0) in * end.
      assert (HA : OAcc 0 (orelease ex m)) by (apply orelease_acc; [unfold ex; destruct (oexc s); lia|exact HM]).
      destruct (oexc (orelease ex m)); [apply odone_inv|apply oshutdown_inv]; exact HA.
    - destruct (nth_error (ots s) i) as [t|] eqn:Hi; [|exact HI]. destruct t; try exact HI.
      + (* a waiting task is cancelled: no permit moves *)
        apply odone_inv.
        destruct HI as (I1 & I2 & I3 & I4 & I5 & I6). unfold OAcc. cbn [o_with ots ovalue ocaller oexc oshut].
        pose proof (nth_TW_waiting _ _ Hi) as Wpos.
        pose proof (nlive_split (ots s)) as LS. pose proof (count_nonneg is_TR (ots s)) as Rn. fold (nrunning (ots s)) in Rn.
        assert (NS : oshut s = false).
        { destruct (oshut s) eqn:E; [|reflexivity]. specialize (I4 eq_refl). lia. }
        assert (NE : oexc s = None).
        { destruct (oexc s) eqn:E; [|reflexivity]. exfalso. assert (oshut s = true) by (apply I5; congruence). congruence. }
        unfold nrunning, nwait in *.
        rewrite (count_set_nth is_TR i TCw TW _ Hi), (count_set_nth is_TW i TCw TW _ Hi). cbn [is_TR is_TW].
        split; [lia|]. split; [lia|]. split; [intros; apply I3; lia|]. split; [exact NS|]. split; [exact NE|].
        destruct (ocaller s) as [|o|o k a]; [exact I|tauto|].
        destruct I6 as (A & B & C & D). split; [exact A|]. split; [exact B|]. split; [exact C|].
        destruct o as [rs|e|]; cbn [out_clause] in D; [|destruct D; congruence|reflexivity].
        destruct D as (_ & _ & D & _). unfold nlive in *. lia.
      + apply odone_inv. apply orelease_acc; [lia|]. apply ofinish_acc; auto.
    - destruct (ocaller s) as [|o|o k a] eqn:Hc; [|exact HI|exact HI].
      destruct HI as (I1 & I2 & I3 & I4 & I5 & I6). rewrite Hc in I6. destruct I6 as [NS Lpos].
      pose proof (count_nonneg is_TR (ots s)) as Rn. fold (nrunning (ots s)) in Rn.
      pose proof (count_nonneg is_live (ots s)) as Ln.
      destruct ((0 <? ovalue s) && negb (existsb is_TW (ots s))) eqn:Hcond;
        unfold OInv; cbn [o_with ots ovalue ocaller oexc oshut];
        (split; [lia|]); (split; [lia|]); (split; [exact I3|]); (split; [exact I4|]); (split; [exact I5|]).
      + apply andb_true_iff in Hcond. destruct Hcond as [C1 C2]. unfold nlive_.
        split; [lia|]. split; [lia|]. split; [lia|]. exact I.
      + split; [reflexivity|]. split; [|exact NS].
        apply andb_false_iff in Hcond. destruct Hcond as [C|C]; [lia|].
        apply negb_false_iff in C. apply exists_TW_iff in C. apply I3. exact C.
  Qed.

  Lemma orun_inv n acts : OInv (orun cf n acts).
  Proof.
    unfold orun. generalize (oinit_inv n). generalize (oinit cf n).
    induction acts as [|a acts IH]; intros s Hs; cbn [fold_left]; [exact Hs|].
    apply IH. apply ostep_inv. exact Hs.
  Qed.
End OInv.

(** * Where the stored exception and a CancelledError come from *)
Lemma orun_snoc cf n acts a : orun cf n (acts ++ [a]) = ostep cf (orun cf n acts) a.
Proof. unfold orun. rewrite fold_left_app. reflexivity. Qed.

Lemma odone_exc s : oexc (odone s) = oexc s.
Proof. unfold odone. destruct (ocaller s); try reflexivity. destruct (all_done (ots s) && negb (oshut s)); reflexivity. Qed.

Lemma orelease_exc x m : oexc (orelease x m) = oexc m.
Proof. unfold orelease. destruct (start_first (ots m)); [reflexivity|]. destruct (ocaller m); reflexivity. Qed.

Lemma ostep_exc cf s a :
  oexc (ostep cf s a) = oexc s \/
  (oexc s = None /\ exists i e, a = OErr_ i e /\ nth_error (ots s) i = Some TR /\ oexc (ostep cf s a) = Some e).
Proof.
  unfold ostep. destruct a as [i v|i e|i|].
  - destruct (nth_error (ots s) i) as [t|]; [|auto]. destruct t; auto. left. rewrite odone_exc, orelease_exc. reflexivity.
  - destruct (nth_error (ots s) i) as [t|] eqn:Hi; [|auto]. destruct t; auto. cbv zeta.
    match goal with |- context [orelease ?x ?m0] => set (ex := x); set (m := m0) end.
    assert (E : oexc (orelease ex m) = oexc s) by (rewrite orelease_exc; reflexivity).
    destruct (oexc (orelease ex m)) eqn:F.
    + left. rewrite odone_exc. congruence.
    + right. split; [congruence|]. exists i, e. auto.
  - destruct (nth_error (ots s) i) as [t|]; [|auto]. destruct t; auto; left; rewrite odone_exc; [reflexivity|].
    rewrite orelease_exc. reflexivity.
  - left. destruct (ocaller s); try reflexivity.
    destruct ((0 <? ovalue s) && negb (existsb is_TW (ots s))); reflexivity.
Qed.

Lemma oexc_origin cf n acts e :
  oexc (orun cf n acts) = Some e ->
  (body_raises cf = true /\ e = 1) \/
  exists acts1 i acts2, acts = acts1 ++ OErr_ i e :: acts2 /\ oexc (orun cf n acts1) = None /\
                        nth_error (ots (orun cf n acts1)) i = Some TR.
Proof.
  induction acts as [|a acts IH] using rev_ind; intros H.
  - unfold orun, oinit in H. cbn [fold_left] in H. destruct (body_raises cf); cbn [oexc] in H; [|discriminate].
    left. inversion H. auto.
  - rewrite orun_snoc in H. destruct (ostep_exc cf (orun cf n acts) a) as [E|[E [i [e' [Ha [Hi E2]]]]]].
    + rewrite E in H. destruct (IH H) as [L|[a1 [i [a2 [H1 [H2 H3]]]]]]; [left; exact L|right].
      exists a1, i, (a2 ++ [a]). split; [rewrite H1, <- app_assoc; reflexivity|auto].
    + rewrite E2 in H. inversion H; subst. right. exists acts, i, []. auto.
Qed.

Definition is_cc (c : kstat) : bool :=
  match c with KOut OCancelled _ _ | KReacq OCancelled => true | _ => false end.

Lemma orelease_cc x m : is_cc (ocaller (orelease x m)) = is_cc (ocaller m).
Proof.
  unfold orelease. destruct (start_first (ots m)); [reflexivity|].
  destruct (ocaller m) as [|o|o k a]; cbn [o_with ocaller is_cc]; try reflexivity; try (destruct o; reflexivity).
Qed.

Lemma odone_cc s : is_cc (ocaller (odone s)) = is_cc (ocaller s).
Proof.
  unfold odone. destruct (ocaller s) eqn:Hc; rewrite ?Hc; try reflexivity.
  destruct (all_done (ots s) && negb (oshut s)); cbn [o_with ocaller is_cc]; rewrite ?Hc; reflexivity.
Qed.

Lemma oshutdown_cc s e : is_cc (ocaller (oshutdown s e)) = is_cc (ocaller s).
Proof. unfold oshutdown. cbn [ocaller]. destruct (ocaller s) as [|o|o k a]; try reflexivity; try (destruct o; reflexivity). Qed.

Lemma ostep_cc cf s a : is_cc (ocaller (ostep cf s a)) = true -> is_cc (ocaller s) = true \/ a = OCancelCaller.
Proof.
  unfold ostep. destruct a as [i v|i e|i|]; [| | |auto].
  - destruct (nth_error (ots s) i) as [t|]; [|auto]. destruct t; auto.
    rewrite odone_cc, orelease_cc. auto.
  - destruct (nth_error (ots s) i) as [t|]; [|auto]. destruct t; auto. cbv zeta.
    match goal with |- context [orelease ?x ?m0] => set (ex := x); set (m := m0) end.
    destruct (oexc (orelease ex m)); [rewrite odone_cc|rewrite oshutdown_cc]; rewrite orelease_cc; auto.
  - destruct (nth_error (ots s) i) as [t|]; [|auto]. destruct t; auto; rewrite odone_cc; [auto|].
    rewrite orelease_cc. auto.
Qed.

Lemma ocancel_origin cf n acts : is_cc (ocaller (orun cf n acts)) = true -> In OCancelCaller acts.
Proof.
  induction acts as [|a acts IH] using rev_ind; intros H.
  - exfalso. unfold orun, oinit in H. cbn [fold_left] in H.
    destruct (body_raises cf); cbn [ocaller is_cc] in H; [discriminate|]. destruct n; discriminate.
  - rewrite orun_snoc in H. apply ostep_cc in H. apply in_app_iff.
    destruct H as [H|H]; [left; apply IH; exact H|right; left; exact H].
Qed.

(** * Witnesses: the exit does not always wait for the background tasks *)
Definition w_body : oconfig := {| opermits := 1; body_raises := true |}.
Definition w_cancel : oconfig := {| opermits := 2; body_raises := false |}.

Lemma online_body_raise_witness : ocaller (orun w_body 1 []) = KOut (OErr 1) 0 1.
Proof. vm_compute. reflexivity. Qed.

Lemma online_cancel_witness :
  orun w_cancel 1 [OCancelCaller] =
  {| ots := [TR]; ovalue := 1; ocaller := KOut OCancelled 1 1; oexc := None; oshut := false |}.
Proof. vm_compute. reflexivity. Qed.

Example online_demo :
  orun w_cancel 4 [OCancelTask 3; OErr_ 0 7] =
  {| ots := [TErr 7; TCr; TCr; TCw]; ovalue := 2; ocaller := KOut (OErr 7) 0 0; oexc := Some 7; oshut := true |}.
Proof. vm_compute. reflexivity. Qed.
