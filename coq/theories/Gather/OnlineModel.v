(** Faithful model of hail/python/hailtop/utils/utils.py :: OnlineBoundedGather2 AS IT IS (with the
    WithoutSemaphore of fixes/C20.diff), for the usage

        async with sema:                                   # the caller holds one permit
            async with OnlineBoundedGather2(sema) as pool:
                tasks = [pool.call(pf) for pf in pfs]      # n background tasks
                [raise ErrB]                               # optionally the with-body raises
            # __aexit__ waits for the background tasks

    under harness schedules.  Executable definitions only.  Task states, counting and FIFO hand-over are
    those of HailV.Gather.Model.

    Facts of the class built into the step function: a background task that raises stores the first
    exception and runs _shutdown, which cancels every pending task (the waiter that was just handed the
    failing task's permit has entered its body by then), sets _pending = None and sets the done event
    WITHOUT waiting for the cancelled tasks; a cancelled background task counts as complete; __aexit__ waits
    for the done event inside WithoutSemaphore; if the with-body raised, __aexit__ shuts the pool down and
    re-raises at once; if the caller is cancelled while __aexit__ waits, CancelledError propagates (after the
    permit has been taken back) and the pool is NOT shut down. *)
From HailV Require Import Common.Prelude Gather.Model.
Open Scope Z_scope.

Inductive oaction : Type :=
| OOk (i : nat) (v : Z)       (* body i returns v *)
| OErr_ (i : nat) (e : Z)     (* body i raises e *)
| OCancelTask (i : nat)       (* the task returned by pool.call for body i is cancelled *)
| OCancelCaller.              (* the caller's task is cancelled *)

Inductive kstat : Type :=
| KWait                                         (* in __aexit__, waiting for the done event; permit lent out *)
| KReacq (o : outcome)                          (* the wait is over with outcome o; waiting to get the permit back *)
| KOut (o : outcome) (nrun : Z) (nalive : Z).   (* __aexit__ returned/raised o; at that instant nrun bodies were
                                                   running and nalive tasks were unfinished *)

Record oconfig : Type := { opermits : Z; body_raises : bool }.

Record ostate : Type := {
  ots : list tstat;
  ovalue : Z;                  (* Semaphore._value *)
  ocaller : kstat;
  oexc : option Z;             (* self._exception (error class; the with-body raises class 1) *)
  oshut : bool                 (* self._pending is None *)
}.

Definition nlive_ (l : list tstat) : Z := count is_live l.

(* results as the harness reads them: the value of a body that returned, None otherwise *)
Definition ores (t : tstat) : res := match t with TOk v => RV v | _ => RC end.

Definition o_with (s : ostate) (l : list tstat) (v : Z) (c : kstat) : ostate :=
  {| ots := l; ovalue := v; ocaller := c; oexc := oexc s; oshut := oshut s |}.

(* Semaphore.release() by a finishing background task: first waiting task, else the re-acquiring caller (who
   then leaves at once and releases), else +1.  [extra] = 1 when the releasing task itself is not finished yet
   at that instant (it still has to run _shutdown), 0 when it finishes without suspending again. *)
Definition orelease (extra : Z) (s : ostate) : ostate :=
  match start_first (ots s) with
  | Some l => o_with s l (ovalue s) (ocaller s)
  | None =>
      match ocaller s with
      | KReacq o => o_with s (ots s) (ovalue s + 1) (KOut o (nrunning (ots s)) (nlive_ (ots s) + extra))
      | c => o_with s (ots s) (ovalue s + 1) c
      end
  end.

(* a background task is complete: if it was the last pending one the done event is set and __aexit__ returns *)
Definition odone (s : ostate) : ostate :=
  match ocaller s with
  | KWait => if all_done (ots s) && negb (oshut s)
             then o_with s (ots s) (ovalue s) (KOut (OVals (map ores (ots s))) 0 0)
             else s
  | _ => s
  end.

(* _shutdown from a failing background task: every pending task is cancelled and processes its cancellation
   before the caller runs again *)
Definition oshutdown (s : ostate) (e : Z) : ostate :=
  {| ots := cancel_all (ots s); ovalue := ovalue s + nrunning (ots s);
     ocaller := match ocaller s with
                | KWait => KOut (OErr e) 0 0
                | KReacq o => KOut o 0 0          (* the cancelled tasks give their permits back: the re-acquiring caller
                                                     gets one and leaves after all of them have finished *)
                | c => c
                end;
     oexc := Some e; oshut := true |}.

Definition ostep (cf : oconfig) (s : ostate) (a : oaction) : ostate :=
  match a with
  | OOk i v =>
      match nth_error (ots s) i with
      | Some TR => odone (orelease 0 (o_with s (set_nth i (TOk v) (ots s)) (ovalue s) (ocaller s)))
      | _ => s
      end
  | OErr_ i e =>
      match nth_error (ots s) i with
      | Some TR =>
          let s1 := orelease (match oexc s with None => 1 | Some _ => 0 end)
                            (o_with s (set_nth i (TErr e) (ots s)) (ovalue s) (ocaller s)) in
          match oexc s1 with
          | None => oshutdown s1 e
          | Some _ => odone s1            (* "discarding exception" *)
          end
      | _ => s
      end
  | OCancelTask i =>
      match nth_error (ots s) i with
      | Some TR => odone (orelease 0 (o_with s (set_nth i TCr (ots s)) (ovalue s) (ocaller s)))
      | Some TW => odone (o_with s (set_nth i TCw (ots s)) (ovalue s) (ocaller s))
      | _ => s
      end
  | OCancelCaller =>
      match ocaller s with
      | KWait =>
          if (0 <? ovalue s) && negb (existsb is_TW (ots s))
          then o_with s (ots s) (ovalue s) (KOut OCancelled (nrunning (ots s)) (nlive_ (ots s)))
          else o_with s (ots s) (ovalue s) (KReacq OCancelled)
      | _ => s
      end
  end.

Definition oinit (cf : oconfig) (n : nat) : ostate :=
  if body_raises cf then
    (* __aexit__(ErrB): _shutdown cancels the n tasks before any of them ran, then re-raises at once *)
    {| ots := repeat TCw n; ovalue := opermits cf; ocaller := KOut (OErr 1) 0 (Z.of_nat n);
       oexc := Some 1; oshut := true |}
  else
    let l := start (Z.to_nat (opermits cf)) n in
    {| ots := l; ovalue := opermits cf - nrunning l;
       ocaller := match n with O => KOut (OVals []) 0 0 | _ => KWait end;
       oexc := None; oshut := false |}.

Definition orun (cf : oconfig) (n : nat) (acts : list oaction) : ostate := fold_left (ostep cf) acts (oinit cf n).

Fixpoint oobserve (cf : oconfig) (s : ostate) (acts : list oaction) : list ostate :=
  s :: match acts with [] => [] | a :: r => oobserve cf (ostep cf s a) r end.
