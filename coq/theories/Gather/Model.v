(** Model of the bounded gather helpers of hail/python/hailtop/utils/utils.py
    (bounded_gather, bounded_gather2, bounded_gather2_raise_exceptions, bounded_gather2_return_exceptions,
    WithoutSemaphore) AFTER fixes/C20.diff, under harness schedules.  Executable definitions only.

    Protocol: a semaphore with [permits] permits; the caller holds one permit and calls the helper with [n]
    partial functions; the helper creates one task per partial function (each runs its body under the
    semaphore), lends the caller's permit out (WithoutSemaphore) while it waits in asyncio.gather, and takes
    it back before it returns or raises.  bounded_gather takes the permit itself and is the same protocol.

    A step is one harness action followed by running the event loop until nothing is ready.
    asyncio facts built into the step function: Semaphore wakes waiters FIFO (the tasks queue in submission
    order, a re-acquiring caller queues behind them); gather(return_exceptions=False) raises the first
    exception at once and leaves the other children running; cancelling the awaiting caller cancels every
    child and gather raises CancelledError only after all children have finished; a cancelled task that
    waits for the semaphore never runs its body. *)
From HailV Require Import Common.Prelude.
Open Scope Z_scope.

Inductive mode : Type :=
| MRet        (* return_exceptions=True *)
| MRaise      (* defaults: raise the first exception, siblings keep running *)
| MCancel.    (* cancel_on_error=True *)

Inductive tstat : Type :=
| TW                 (* task waits for a permit; body not entered *)
| TR                 (* body running (holds a permit) *)
| TOk (v : Z)        (* body returned v *)
| TErr (e : Z)       (* body raised error class e *)
| TCr                (* body was running and was cancelled *)
| TCw.               (* task was cancelled while waiting for a permit: the body never ran *)

Inductive res : Type := RV (v : Z) | RE (e : Z) | RC.
Inductive outcome : Type :=
| OVals (rs : list res)     (* the helper returned this list *)
| OErr (e : Z)              (* the helper raised error class e *)
| OCancelled.               (* the helper raised CancelledError *)

Inductive cstat : Type :=
| CIn                            (* caller waits in asyncio.gather; its permit is lent out *)
| CReacq (o : outcome)           (* gather is over with outcome o; caller waits to get its permit back *)
| COut (o : outcome) (nrun : Z). (* helper returned/raised o; nrun bodies were running at that instant *)

Inductive action : Type :=
| Ok (i : nat) (v : Z)       (* body i returns v *)
| Err (i : nat) (e : Z)      (* body i raises e *)
| CancelCaller.              (* the caller's task is cancelled *)

Record config : Type := { permits : Z; md : mode }.

Record state : Type := {
  ts : list tstat;
  value : Z;                 (* Semaphore._value *)
  caller : cstat;
  first_err : option Z;      (* ghost: error class of the first body that raised *)
  cancel_req : bool          (* ghost: the caller was cancelled before the helper returned *)
}.

Definition is_TW (t : tstat) : bool := match t with TW => true | _ => false end.
Definition is_TR (t : tstat) : bool := match t with TR => true | _ => false end.
Definition is_live (t : tstat) : bool := match t with TW | TR => true | _ => false end.

Fixpoint count (f : tstat -> bool) (l : list tstat) : Z :=
  match l with [] => 0 | t :: r => (if f t then 1 else 0) + count f r end.

Definition nrunning (l : list tstat) : Z := count is_TR l.
Definition all_done (l : list tstat) : bool := negb (existsb is_live l).

Fixpoint set_nth (i : nat) (x : tstat) (l : list tstat) : list tstat :=
  match l, i with
  | [], _ => []
  | _ :: r, O => x :: r
  | t :: r, S i' => t :: set_nth i' x r
  end.

(* the first waiting task (FIFO) gets the permit and enters its body *)
Fixpoint start_first (l : list tstat) : option (list tstat) :=
  match l with
  | [] => None
  | TW :: r => Some (TR :: r)
  | t :: r => match start_first r with Some r' => Some (t :: r') | None => None end
  end.

Definition cancel_task (t : tstat) : tstat := match t with TR => TCr | TW => TCw | x => x end.
Definition cancel_all (l : list tstat) : list tstat := map cancel_task l.

Definition res_of (t : tstat) : res :=
  match t with TOk v => RV v | TErr e => RE e | _ => RC end.

Definition with_ts (s : state) (l : list tstat) : state :=
  {| ts := l; value := value s; caller := caller s; first_err := first_err s; cancel_req := cancel_req s |}.
Definition with_caller (s : state) (c : cstat) : state :=
  {| ts := ts s; value := value s; caller := c; first_err := first_err s; cancel_req := cancel_req s |}.

(* Semaphore.release(): wake the first waiter - a waiting task, else the re-acquiring caller (which then
   returns at once and releases again), else the value goes up *)
Definition release (s : state) : state :=
  match start_first (ts s) with
  | Some l => with_ts s l
  | None =>
      match caller s with
      | CReacq o => {| ts := ts s; value := value s + 1; caller := COut o (nrunning (ts s));
                       first_err := first_err s; cancel_req := cancel_req s |}
      | _ => {| ts := ts s; value := value s + 1; caller := caller s;
                first_err := first_err s; cancel_req := cancel_req s |}
      end
  end.

(* gather returns when every child has finished; the caller takes its permit back (free: nothing runs) *)
Definition finish_gather (s : state) : state :=
  match caller s with
  | CIn => if all_done (ts s) then with_caller s (COut (OVals (map res_of (ts s))) 0) else s
  | _ => s
  end.

(* cancel every child and wait for all of them: running bodies give their permits back *)
Definition kill_all (s : state) (o : outcome) (req : bool) : state :=
  {| ts := cancel_all (ts s); value := value s + nrunning (ts s); caller := COut o 0;
     first_err := first_err s; cancel_req := req |}.

Definition note_err (s : state) (e : Z) : option Z :=
  match first_err s with None => Some e | x => x end.

Definition step (cf : config) (s : state) (a : action) : state :=
  match a with
  | Ok i v =>
      match nth_error (ts s) i with
      | Some TR => finish_gather (release (with_ts s (set_nth i (TOk v) (ts s))))
      | _ => s
      end
  | Err i e =>
      match nth_error (ts s) i with
      | Some TR =>
          let s1 := release {| ts := set_nth i (TErr e) (ts s); value := value s; caller := caller s;
                               first_err := note_err s e; cancel_req := cancel_req s |} in
          match caller s1 with
          | CIn =>
              match md cf with
              | MRet => finish_gather s1
              | MRaise =>
                  (* WithoutSemaphore.__aexit__ re-acquires: at once iff the semaphore is not locked() *)
                  if (0 <? value s1) && negb (existsb is_TW (ts s1))
                  then with_caller s1 (COut (OErr e) (nrunning (ts s1)))
                  else with_caller s1 (CReacq (OErr e))
              | MCancel => kill_all s1 (OErr e) (cancel_req s1)
              end
          | _ => s1
          end
      | _ => s
      end
  | CancelCaller =>
      match caller s with
      | CIn => kill_all s OCancelled true
      | CReacq _ => {| ts := ts s; value := value s; caller := CReacq OCancelled;
                       first_err := first_err s; cancel_req := true |}
      | COut _ _ => s
      end
  end.

(* the call: the first [p] tasks get a permit, the others queue *)
Fixpoint start (p n : nat) : list tstat :=
  match n with
  | O => []
  | S n' => match p with O => TW :: start O n' | S p' => TR :: start p' n' end
  end.

Definition init (cf : config) (n : nat) : state :=
  let l := start (Z.to_nat (permits cf)) n in
  {| ts := l; value := permits cf - nrunning l;
     caller := match n with O => COut (OVals []) 0 | _ => CIn end;
     first_err := None; cancel_req := false |}.

Definition run (cf : config) (n : nat) (acts : list action) : state := fold_left (step cf) acts (init cf n).

(** what the correspondence compares after the call and after every action *)
Fixpoint observe (cf : config) (s : state) (acts : list action) : list state :=
  s :: match acts with [] => [] | a :: r => observe cf (step cf s a) r end.
