(** Shared header: arithmetic automation set-up used by every stdlib-style file. *)
From Coq Require Export ZArith List Bool Lia ZifyBool ZifyNat ZifyN.
Export ListNotations.
Ltac Zify.zify_post_hook ::= Z.to_euclidean_division_equations.

Fixpoint zsum {A} (f : A -> Z) (l : list A) : Z :=
  match l with [] => 0%Z | x :: r => (f x + zsum f r)%Z end.

Lemma zsum_app {A} (f : A -> Z) l1 l2 : zsum f (l1 ++ l2) = (zsum f l1 + zsum f l2)%Z.
Proof. induction l1 as [|x l1 IH]; cbn [zsum app]; [reflexivity | rewrite IH; lia]. Qed.

Definition is_nil {A} (l : list A) : bool := match l with [] => true | _ => false end.
