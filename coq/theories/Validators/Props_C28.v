(** C28 — property theorems only.  [C28.Gen] is regenerated from auth/auth/auth_utils.py on every run:
    [secret_regex]/[secret_mode] from the pattern string and entry point of validate_credentials_secret_name_input,
    [is_valid_username] from the statements of is_valid_username.  Strings are lists of arbitrary code points. *)
From HailV Require Import Common.Prelude Regex.Regex Validators.Model Validators.Lemmas.
From HailG Require C28.Gen.
Open Scope N_scope.

(** A credentials secret name is accepted (the regex call yields a match, so nothing is raised) exactly when it is
    a lowercase RFC-1123 style name: [a-z0-9]+ labels joined by single dots or hyphens.  All strings. *)
Theorem C28_secret_iff : forall s : list N,
  py_accepts C28.Gen.secret_mode C28.Gen.secret_regex s <-> L_rfc1123 s.
Proof. intros s. rewrite generated_secret_iff_recog. apply recog_rfc1123_iff. Qed.
Print Assumptions C28_secret_iff.

(** A username is accepted exactly when it is [a-z0-9]+ labels joined by single hyphens — whatever str.isdigit and
    str.islower answer outside ASCII (the code guards them with isascii). All strings. *)
Theorem C28_username_iff : forall py_isdigit py_islower : N -> bool,
  (forall c, c < 128 -> py_isdigit c = ascii_isdigit c) ->
  (forall c, c < 128 -> py_islower c = ascii_islower c) ->
  forall s : list N, C28.Gen.is_valid_username py_isdigit py_islower s = true <-> L_user s.
Proof. intros d l Hd Hl s. rewrite (generated_username_eq_recog d l Hd Hl). apply recog_user_iff. Qed.
Print Assumptions C28_username_iff.

(** Nothing else is accepted: every character of an accepted string is in [a-z0-9] or is a separator, and the string
    is non-empty — in particular no newline, control character or non-ASCII code point anywhere. *)
Theorem C28_accepted_alphabet : forall s : list N,
  (py_accepts C28.Gen.secret_mode C28.Gen.secret_regex s ->
     s <> [] /\ Forall (fun c => lower_alnum c = true \/ is_dot_or_hyphen c = true) s) /\
  (forall py_isdigit py_islower : N -> bool,
     (forall c, c < 128 -> py_isdigit c = ascii_isdigit c) ->
     (forall c, c < 128 -> py_islower c = ascii_islower c) ->
     C28.Gen.is_valid_username py_isdigit py_islower s = true ->
     s <> [] /\ Forall (fun c => lower_alnum c = true \/ is_hyphen c = true) s).
Proof.
  intros s. split.
  - intros H. apply C28_secret_iff in H. split; [eapply joined_nonempty | apply joined_chars]; exact H.
  - intros d l Hd Hl H. apply (C28_username_iff d l Hd Hl) in H. split; [eapply joined_nonempty | apply joined_chars]; exact H.
Qed.
Print Assumptions C28_accepted_alphabet.

(** The executable recognisers used by the differential run decide the two languages. *)
Theorem C28_recognisers_decide : forall s : list N,
  (recog_user s = true <-> L_user s) /\ (recog_rfc1123 s = true <-> L_rfc1123 s).
Proof. intros s. split; [apply recog_user_iff | apply recog_rfc1123_iff]. Qed.
Print Assumptions C28_recognisers_decide.

(** The explicit clause of the statement: a string containing a control character (code point below 32, or DEL) or any
    non-ASCII code point ANYWHERE — in particular one ending in a newline — is accepted by neither validator. *)
Theorem C28_no_control_or_non_ascii : forall (s1 s2 : list N) (c : N), (c < 32 \/ 127 <= c) ->
  ~ py_accepts C28.Gen.secret_mode C28.Gen.secret_regex (s1 ++ c :: s2) /\
  (forall py_isdigit py_islower : N -> bool,
     (forall c, c < 128 -> py_isdigit c = ascii_isdigit c) ->
     (forall c, c < 128 -> py_islower c = ascii_islower c) ->
     C28.Gen.is_valid_username py_isdigit py_islower (s1 ++ c :: s2) = false).
Proof.
  intros s1 s2 c Hc.
  assert (Hbad : lower_alnum c = false /\ is_dot_or_hyphen c = false /\ is_hyphen c = false).
  { unfold lower_alnum, ascii_islower, ascii_isdigit, is_dot_or_hyphen, is_hyphen. repeat split; lia. }
  destruct Hbad as [B1 [B2 B3]].
  split.
  - intros H. apply (proj1 (C28_accepted_alphabet _)) in H. destruct H as [_ F].
    rewrite Forall_forall in F. specialize (F c (in_elt c s1 s2)). destruct F as [F|F]; congruence.
  - intros d l Hd Hl. destruct (C28.Gen.is_valid_username d l (s1 ++ c :: s2)) eqn:E; [|reflexivity]. exfalso.
    apply (proj2 (C28_accepted_alphabet _) d l Hd Hl) in E. destruct E as [_ F].
    rewrite Forall_forall in F. specialize (F c (in_elt c s1 s2)). destruct F as [F|F]; congruence.
Qed.
Print Assumptions C28_no_control_or_non_ascii.
