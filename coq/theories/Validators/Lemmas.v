(** C28 — proofs.  (1) the recogniser decides [joined]; (2) the regenerated [is_valid_username] equals the recogniser
    for every Unicode table that agrees with ASCII below 128; (3) the regenerated secret-name regex, under Python's
    match semantics, accepts exactly what the recogniser accepts. *)
From HailV Require Import Common.Prelude Regex.Regex Regex.RegexLemmas Validators.Model.
From HailG Require C28.Gen.
Open Scope N_scope.

(** * 1. recogniser <-> language *)
Section Recog.
  Variable sep : N -> bool.
  Hypothesis sep_not_alnum : forall c, sep c = true -> lower_alnum c = false.

  Let item_ok (p : N * list N) : Prop := sep (fst p) = true /\ label (snd p).

  Lemma recog_alnums l tail :
    Forall (fun c => lower_alnum c = true) l -> recog_from sep true (l ++ tail) = recog_from sep true tail.
  Proof.
    induction 1 as [|c l Hc _ IH]; cbn [app recog_from]; [reflexivity | rewrite Hc; exact IH].
  Qed.

  Lemma recog_label prev l tail :
    label l -> recog_from sep prev (l ++ tail) = recog_from sep true tail.
  Proof.
    intros [Hne Hall]. destruct l as [|c l]; [congruence|].
    inversion Hall as [|? ? Hc Hl]; subst. cbn [app recog_from]. rewrite Hc. apply recog_alnums; exact Hl.
  Qed.

  Lemma recog_unjoin rest : Forall item_ok rest -> recog_from sep true (unjoin rest) = true.
  Proof.
    induction 1 as [|[d l] rest [Hd Hl] _ IH]; cbn [unjoin flat_map fst snd app recog_from]; [reflexivity|].
    cbn [fst snd] in Hd, Hl. rewrite (sep_not_alnum d Hd), Hd. cbn [andb].
    fold (unjoin rest). rewrite recog_label by exact Hl. exact IH.
  Qed.

  Lemma joined_recog s : joined sep s -> recog sep s = true.
  Proof.
    intros (l0 & rest & -> & Hl0 & Hrest). unfold recog.
    rewrite recog_label by exact Hl0. apply recog_unjoin; exact Hrest.
  Qed.

  Lemma recog_decompose s :
    (recog_from sep true s = true ->
       exists l rest, s = l ++ unjoin rest /\ Forall (fun c => lower_alnum c = true) l /\ Forall item_ok rest) /\
    (recog_from sep false s = true ->
       exists l rest, s = l ++ unjoin rest /\ label l /\ Forall item_ok rest).
  Proof.
    induction s as [|c r [IHt IHf]]; cbn [recog_from].
    - split; [intros _; exists [], []; repeat split; constructor | discriminate].
    - destruct (lower_alnum c) eqn:Hc.
      + assert (G : recog_from sep true r = true ->
                    exists l rest, c :: r = l ++ unjoin rest /\ label l /\ Forall item_ok rest).
        { intros H. destruct (IHt H) as (l & rest & -> & Hl & Hrest).
          exists (c :: l), rest. repeat split; [discriminate | constructor; assumption | exact Hrest]. }
        split; intros H; destruct (G H) as (l & rest & E & [Hne Hl] & Hrest); exists l, rest; repeat split; assumption.
      + split.
        * destruct (sep c) eqn:Hs; cbn [andb]; [|discriminate].
          intros H. destruct (IHf H) as (l & rest & -> & Hl & Hrest).
          exists [], ((c, l) :: rest). repeat split; [constructor | constructor; [split; assumption | exact Hrest]].
        * rewrite andb_false_r. discriminate.
  Qed.

  Lemma recog_joined s : recog sep s = true -> joined sep s.
  Proof. intros H. exact (proj2 (recog_decompose s) H). Qed.

  Theorem recog_iff s : recog sep s = true <-> joined sep s.
  Proof. split; [apply recog_joined | apply joined_recog]. Qed.
End Recog.

Lemma hyphen_not_alnum c : is_hyphen c = true -> lower_alnum c = false.
Proof. unfold is_hyphen, lower_alnum, ascii_islower, ascii_isdigit. lia. Qed.

Lemma dot_or_hyphen_not_alnum c : is_dot_or_hyphen c = true -> lower_alnum c = false.
Proof. unfold is_dot_or_hyphen, lower_alnum, ascii_islower, ascii_isdigit. lia. Qed.

Lemma alnum_not_hyphen c : lower_alnum c = true -> (45 =? c) = false.
Proof. unfold lower_alnum, ascii_islower, ascii_isdigit. lia. Qed.

Lemma is_hyphen_eqb c : is_hyphen c = true -> (45 =? c) = true.
Proof. unfold is_hyphen. lia. Qed.

Theorem recog_user_iff s : recog_user s = true <-> L_user s.
Proof. apply recog_iff, hyphen_not_alnum. Qed.

Theorem recog_rfc1123_iff s : recog_rfc1123 s = true <-> L_rfc1123 s.
Proof. apply recog_iff, dot_or_hyphen_not_alnum. Qed.

(** * 2. is_valid_username (generated) = recogniser *)
Section Username.
  Variables py_isdigit py_islower : N -> bool.
  Hypothesis digit_ascii : forall c, c < 128 -> py_isdigit c = ascii_isdigit c.
  Hypothesis lower_ascii : forall c, c < 128 -> py_islower c = ascii_islower c.

  Definition char_ok (c : N) : bool := py_isascii c && (py_isdigit c || py_islower c || (c =? 45)).

  (** Because of the [isascii] guard only the ASCII part of the two Unicode tables is ever consulted. *)
  Lemma char_ok_ascii c : char_ok c = lower_alnum c || is_hyphen c.
  Proof.
    unfold char_ok, py_isascii. destruct (c <? 128) eqn:E.
    - rewrite digit_ascii, lower_ascii by lia. unfold lower_alnum, is_hyphen.
      destruct (ascii_isdigit c), (ascii_islower c), (c =? 45); reflexivity.
    - unfold lower_alnum, is_hyphen, ascii_islower, ascii_isdigit. lia.
  Qed.

  Definition head_ok (prev : bool) (s : list N) : bool := prev || negb (str_startswith s [45]).
  Definition tail_ok (prev : bool) (s : list N) : bool :=
    match s with [] => prev | _ => negb (str_endswith s [45]) end.
  Definition valid_from (prev : bool) (s : list N) : bool :=
    head_ok prev s && tail_ok prev s && negb (str_contains [45; 45] s) && forallb char_ok s.

  Lemma endswith_cons c r :
    str_endswith (c :: r) [45] = match r with [] => 45 =? c | _ => str_endswith r [45] end.
  Proof.
    destruct r as [|d r]; [cbn; apply andb_true_r|].
    apply eq_true_iff_eq. rewrite !str_endswith_iff. split.
    - intros (t & H). destruct t as [|x t]; [discriminate|]. injection H as -> H. eauto.
    - intros (t & ->). exists (c :: t). reflexivity.
  Qed.

  Lemma valid_from_recog s : forall prev, valid_from prev s = recog_from is_hyphen prev s.
  Proof.
    induction s as [|c r IH]; intros prev.
    - destruct prev; reflexivity.
    - unfold valid_from, head_ok, tail_ok. rewrite endswith_cons.
      cbn [recog_from forallb str_contains str_startswith prefixb]. rewrite char_ok_ascii.
      destruct (lower_alnum c) eqn:Hal.
      + rewrite <- IH. unfold valid_from, head_ok, tail_ok.
        assert (E : (45 =? c) = false) by (apply alnum_not_hyphen; exact Hal).
        rewrite E. cbn [andb orb negb]. rewrite orb_true_r.
        destruct r; reflexivity.
      + destruct (is_hyphen c) eqn:Hh; cbn [orb].
        * assert (E : (45 =? c) = true) by (apply is_hyphen_eqb; exact Hh).
          rewrite E. destruct prev; cbn [andb orb negb]; [|reflexivity].
          rewrite <- IH. unfold valid_from, head_ok, tail_ok, str_startswith. cbn [orb andb].
          destruct r as [|d r]; [reflexivity|].
          cbn [prefixb]. rewrite andb_true_r.
          destruct (45 =? d), (str_endswith (d :: r) [45]), (str_contains [45; 45] (d :: r)), (forallb char_ok (d :: r)); reflexivity.
        * rewrite !andb_false_r. reflexivity.
  Qed.

  Theorem generated_username_eq_recog s :
    C28.Gen.is_valid_username py_isdigit py_islower s = recog_user s.
  Proof.
    unfold recog_user, recog. rewrite <- valid_from_recog.
    unfold C28.Gen.is_valid_username. fold char_ok.
    destruct s as [|c r]; [reflexivity|].
    unfold valid_from, head_ok, tail_ok. cbn [negb orb].
    change (fun c0 : N => py_isascii c0 && (py_isdigit c0 || py_islower c0 || (c0 =? 45))) with char_ok.
    destruct (str_startswith (c :: r) [45]), (str_endswith (c :: r) [45]), (str_contains [45; 45] (c :: r)); reflexivity.
  Qed.
End Username.

(** * 3. the secret-name regex (generated) accepts exactly what the recogniser accepts *)

Definition alnum_ranges : list (N * N) := [(97, 122); (48, 57)].
Definition sep_ranges : list (N * N) := [(46, 46); (45, 45)].

Lemma alnum_set c : set_mem false alnum_ranges c = lower_alnum c.
Proof.
  unfold set_mem, in_ranges, alnum_ranges, lower_alnum, ascii_islower, ascii_isdigit; cbn [existsb fst snd].
  rewrite xorb_false_l, orb_false_r. reflexivity.
Qed.

Lemma sep_set c : set_mem false sep_ranges c = is_dot_or_hyphen c.
Proof.
  unfold set_mem, in_ranges, sep_ranges, is_dot_or_hyphen; cbn [existsb fst snd].
  rewrite xorb_false_l, orb_false_r.
  replace ((46 <=? c) && (c <=? 46)) with (c =? 46) by lia.
  replace ((45 <=? c) && (c <=? 45)) with (c =? 45) by lia. reflexivity.
Qed.

(** one iteration of the starred group  ([.\-]?[a-z0-9]) *)
Definition piece (w : list N) : Prop :=
  exists c, lower_alnum c = true /\ (w = [c] \/ exists d, is_dot_or_hyphen d = true /\ w = [d; c]).

Definition group_body : re := RGroup 1 (RSeq (ROpt (RSet false sep_ranges)) (RSet false alnum_ranges)).

Lemma group_body_iff pre w post : M group_body pre w post <-> piece w.
Proof.
  unfold group_body, piece. rewrite M_group_iff, M_seq_iff. split.
  - intros (w1 & w2 & -> & H1 & H2).
    apply M_set_iff in H2. destruct H2 as (c & -> & Hc). rewrite alnum_set in Hc.
    exists c; split; [exact Hc|].
    apply M_opt_iff in H1. destruct H1 as [-> | H1]; [left; reflexivity|].
    apply M_set_iff in H1. destruct H1 as (d & -> & Hd). rewrite sep_set in Hd. right; eauto.
  - intros (c & Hc & [-> | (d & Hd & ->)]).
    + exists [], [c]. repeat split; [apply MOpt0 | apply M_set_iff; exists c; rewrite alnum_set; auto].
    + exists [d], [c]. repeat split.
      * apply MOptS, M_set_iff. exists d; rewrite sep_set; auto.
      * apply M_set_iff; exists c; rewrite alnum_set; auto.
Qed.

Definition secret_shape (s : list N) : Prop :=
  exists c0 ws opt, s = c0 :: concat ws ++ opt /\ lower_alnum c0 = true /\ Forall piece ws /\
                    (opt = [] \/ exists c, opt = [c] /\ lower_alnum c = true).

(** This is where the pattern of the CURRENT source enters: the statement is about [C28.Gen.secret_regex] and
    [C28.Gen.secret_mode]; with [$] instead of [\Z] the last step ([post = []]) is not provable. *)
Lemma generated_secret_shape s :
  py_accepts C28.Gen.secret_mode C28.Gen.secret_regex s <-> secret_shape s.
Proof.
  unfold C28.Gen.secret_mode, C28.Gen.secret_regex, py_accepts.
  fold alnum_ranges sep_ranges. fold group_body.
  unfold secret_shape. split.
  - intros (w & post & -> & H).
    apply M_seq_iff in H. destruct H as (w0 & wa & -> & H0 & H).
    apply M_bol_iff in H0. destruct H0 as [_ ->].
    apply M_seq_iff in H. destruct H as (w1 & wb & -> & H1 & H).
    apply M_set_iff in H1. destruct H1 as (c0 & -> & Hc0). rewrite alnum_set in Hc0.
    apply M_seq_iff in H. destruct H as (w2 & wc & -> & H2 & H).
    apply (M_star_concat group_body piece group_body_iff) in H2. destruct H2 as (ws & -> & Hws).
    apply M_seq_iff in H. destruct H as (w3 & w4 & -> & H3 & H4).
    apply M_eos_iff in H4. destruct H4 as [-> ->].
    exists c0, ws, w3. rewrite !app_nil_r. cbn [app]. repeat split; try assumption.
    apply M_opt_iff in H3. destruct H3 as [-> | H3]; [left; reflexivity|].
    apply M_set_iff in H3. destruct H3 as (c & -> & Hc). rewrite alnum_set in Hc. right; eauto.
  - intros (c0 & ws & opt & -> & Hc0 & Hws & Hopt).
    exists (c0 :: concat ws ++ opt), []. split; [rewrite app_nil_r; reflexivity|].
    apply M_seq_iff. exists [], (c0 :: concat ws ++ opt). repeat split; [constructor|].
    apply M_seq_iff. exists [c0], (concat ws ++ opt). repeat split.
    { apply M_set_iff. exists c0. rewrite alnum_set; auto. }
    apply M_seq_iff. exists (concat ws), opt. repeat split.
    { apply (M_star_concat group_body piece group_body_iff). eauto. }
    apply M_seq_iff. exists opt, []. repeat split; [rewrite app_nil_r; reflexivity | | constructor].
    apply M_opt_iff. destruct Hopt as [-> | (c & -> & Hc)]; [left; reflexivity | right].
    apply M_set_iff. exists c. rewrite alnum_set; auto.
Qed.

Lemma pieces_recog ws tail :
  Forall piece ws -> recog_from is_dot_or_hyphen true (concat ws ++ tail) = recog_from is_dot_or_hyphen true tail.
Proof.
  induction 1 as [|w ws (c & Hc & [-> | (d & Hd & ->)]) _ IH]; cbn [concat app recog_from]; [reflexivity | |].
  - rewrite Hc. exact IH.
  - rewrite (dot_or_hyphen_not_alnum d Hd), Hd, Hc. cbn [andb]. exact IH.
Qed.

Lemma recog_pieces t :
  (recog_from is_dot_or_hyphen true t = true -> exists ws, t = concat ws /\ Forall piece ws) /\
  (recog_from is_dot_or_hyphen false t = true ->
     exists c r ws, t = c :: r /\ lower_alnum c = true /\ r = concat ws /\ Forall piece ws).
Proof.
  induction t as [|c r [IHt IHf]]; cbn [recog_from].
  - split; [intros _; exists []; split; [reflexivity | constructor] | discriminate].
  - destruct (lower_alnum c) eqn:Hc.
    + split; intros H; destruct (IHt H) as (ws & -> & Hws).
      * exists ([c] :: ws). split; [reflexivity|]. constructor; [exists c; auto | exact Hws].
      * exists c, (concat ws), ws. auto.
    + split.
      * destruct (is_dot_or_hyphen c) eqn:Hs; cbn [andb]; [|discriminate].
        intros H. destruct (IHf H) as (c' & r' & ws & -> & Hc' & -> & Hws).
        exists ([c; c'] :: ws). split; [reflexivity|]. constructor; [|exact Hws].
        exists c'. split; [exact Hc' | right; eauto].
      * rewrite andb_false_r. discriminate.
Qed.

Theorem generated_secret_iff_recog s :
  py_accepts C28.Gen.secret_mode C28.Gen.secret_regex s <-> recog_rfc1123 s = true.
Proof.
  rewrite generated_secret_shape. unfold recog_rfc1123, recog. split.
  - intros (c0 & ws & opt & -> & Hc0 & Hws & Hopt). cbn [recog_from]. rewrite Hc0.
    rewrite pieces_recog by exact Hws.
    destruct Hopt as [-> | (c & -> & Hc)]; cbn [recog_from]; [reflexivity | rewrite Hc; reflexivity].
  - intros H. destruct (proj2 (recog_pieces s) H) as (c & r & ws & -> & Hc & -> & Hws).
    exists c, ws, []. rewrite app_nil_r. auto.
Qed.

(** * 4. consequences used by Props_C28 *)

Lemma joined_chars sep s :
  joined sep s -> Forall (fun c => lower_alnum c = true \/ sep c = true) s.
Proof.
  intros (l0 & rest & -> & [_ Hl0] & Hrest). apply Forall_app. split.
  - eapply Forall_impl; [|exact Hl0]. auto.
  - induction Hrest as [|[d l] rest [Hd [_ Hl]] _ IH]; cbn [unjoin flat_map fst snd]; [constructor|].
    cbn [fst snd] in Hd, Hl. constructor; [right; exact Hd|].
    apply Forall_app. split; [eapply Forall_impl; [|exact Hl]; auto | exact IH].
Qed.

Lemma joined_nonempty sep s : joined sep s -> s <> [].
Proof. intros (l0 & rest & -> & [Hne _] & _). destruct l0; [congruence | discriminate]. Qed.

(** The hypotheses of the username theorem are satisfiable (by the ASCII tables themselves, and by any extension). *)
Example username_hyps_satisfiable :
  exists d l : N -> bool, (forall c, c < 128 -> d c = ascii_isdigit c) /\ (forall c, c < 128 -> l c = ascii_islower c).
Proof. exists ascii_isdigit, ascii_islower. split; reflexivity. Qed.

(** Sanity: "abc-def" / "a3.b-c" are in the languages; "abc\n", "-a", "a--b", "a.-b" and "" are not. *)
Example ex_user_in : recog_user [97; 98; 99; 45; 100; 101; 102] = true. Proof. reflexivity. Qed.
Example ex_rfc_in : recog_rfc1123 [97; 51; 46; 98; 45; 99] = true. Proof. reflexivity. Qed.
Example ex_newline_out : recog_rfc1123 [97; 98; 99; 10] = false /\ recog_user [97; 98; 99; 10] = false. Proof. split; reflexivity. Qed.
Example ex_misc_out : recog_user [45; 97] = false /\ recog_user [97; 45; 45; 98] = false
                      /\ recog_rfc1123 [97; 46; 45; 98] = false /\ recog_rfc1123 [] = false.
Proof. repeat split; reflexivity. Qed.
