(** C28 — the two languages of the property statement, written directly from its text, and an executable
    recogniser for them.  Definitions only; proofs are in Lemmas.v.

    "lowercase RFC-1123 style name (alphanumeric labels joined by single dots or hyphens)" and
    "non-empty string of ASCII lowercase letters, digits and single interior hyphens" are both instances of
      [joined sep] : a non-empty label, followed by any number of (separator, non-empty label) pairs,
    a label being a non-empty string over [a-z0-9].                                                       *)
From HailV Require Import Common.Prelude Regex.Regex.
Open Scope N_scope.

Definition ascii_isdigit (c : N) : bool := (48 <=? c) && (c <=? 57).
Definition ascii_islower (c : N) : bool := (97 <=? c) && (c <=? 122).
Definition lower_alnum (c : N) : bool := ascii_islower c || ascii_isdigit c.

Definition label (l : list N) : Prop := l <> [] /\ Forall (fun c => lower_alnum c = true) l.

Definition unjoin (rest : list (N * list N)) : list N := flat_map (fun p => fst p :: snd p) rest.

Definition joined (sep : N -> bool) (s : list N) : Prop :=
  exists (l0 : list N) (rest : list (N * list N)),
    s = l0 ++ unjoin rest /\ label l0 /\ Forall (fun p => sep (fst p) = true /\ label (snd p)) rest.

Definition is_hyphen (c : N) : bool := c =? 45.
Definition is_dot_or_hyphen (c : N) : bool := (c =? 46) || (c =? 45).

Definition L_user : list N -> Prop := joined is_hyphen.
Definition L_rfc1123 : list N -> Prop := joined is_dot_or_hyphen.

(** Executable recogniser: [prev] = "the previous character was alphanumeric". *)
Fixpoint recog_from (sep : N -> bool) (prev : bool) (s : list N) : bool :=
  match s with
  | [] => prev
  | c :: r =>
      if lower_alnum c then recog_from sep true r
      else if sep c && prev then recog_from sep false r
      else false
  end.

Definition recog (sep : N -> bool) (s : list N) : bool := recog_from sep false s.
Definition recog_user : list N -> bool := recog is_hyphen.
Definition recog_rfc1123 : list N -> bool := recog is_dot_or_hyphen.
