(** C19: proofs about the submission path ([Model.submit]): what is SENT is exactly the original specs,
    job groups before jobs, every request within the limits — for every bunch layout produced by
    [create_bunches], both paths (fast / slow), new batch or update, and every completion order of the
    concurrently spawned job requests. *)
From HailV Require Import Common.Prelude Bunches.Model Bunches.Lemmas.
From Coq Require Import Permutation.
Open Scope Z_scope.

Section SubmitProofs.
  Context {A : Type}.
  Notation tagged := (@tagged A).
  Notation request := (request A).

  (** *** filtering by type *)
  Lemma groups_of_app (b1 b2 : list tagged) : groups_of (b1 ++ b2) = groups_of b1 ++ groups_of b2.
  Proof. unfold groups_of; rewrite filter_app, map_app; reflexivity. Qed.
  Lemma jobs_of_app (b1 b2 : list tagged) : jobs_of (b1 ++ b2) = jobs_of b1 ++ jobs_of b2.
  Proof. unfold jobs_of; rewrite filter_app, map_app; reflexivity. Qed.

  Lemma groups_of_tag_false (l : list A) : groups_of (tag false l) = l.
  Proof. induction l as [|x l IH]; [reflexivity|]. unfold groups_of, tag in *; cbn; rewrite IH; reflexivity. Qed.
  Lemma groups_of_tag_true (l : list A) : groups_of (tag true l) = [].
  Proof. induction l as [|x l IH]; [reflexivity|]. unfold groups_of, tag in *; cbn; exact IH. Qed.
  Lemma jobs_of_tag_true (l : list A) : jobs_of (tag true l) = l.
  Proof. induction l as [|x l IH]; [reflexivity|]. unfold jobs_of, tag in *; cbn; rewrite IH; reflexivity. Qed.
  Lemma jobs_of_tag_false (l : list A) : jobs_of (tag false l) = [].
  Proof. induction l as [|x l IH]; [reflexivity|]. unfold jobs_of, tag in *; cbn; exact IH. Qed.

  Lemma groups_of_tagged (g j : list A) : groups_of (tag false g ++ tag true j) = g.
  Proof. rewrite groups_of_app, groups_of_tag_false, groups_of_tag_true; apply app_nil_r. Qed.
  Lemma jobs_of_tagged (g j : list A) : jobs_of (tag false g ++ tag true j) = j.
  Proof. rewrite jobs_of_app, jobs_of_tag_false, jobs_of_tag_true; reflexivity. Qed.

  (** *** what the two passes of the slow path carry *)
  Lemma sent_app (f : request -> list A) t1 t2 : flat_map f (t1 ++ t2) = flat_map f t1 ++ flat_map f t2.
  Proof. apply flat_map_app. Qed.

  Lemma sjg_groups (b : list tagged) : sent_groups (submit_job_groups b) = groups_of b.
  Proof.
    unfold submit_job_groups. destruct (groups_of b) as [|x g] eqn:E; cbn; [reflexivity|].
    rewrite app_nil_r; reflexivity.
  Qed.
  Lemma sjg_jobs (b : list tagged) : sent_jobs (submit_job_groups b) = [].
  Proof. unfold submit_job_groups. destruct (groups_of b); reflexivity. Qed.
  Lemma sj_jobs (b : list tagged) : sent_jobs (submit_jobs b) = jobs_of b.
  Proof.
    unfold submit_jobs. destruct (jobs_of b) as [|x g] eqn:E; cbn; [reflexivity|].
    rewrite app_nil_r; reflexivity.
  Qed.
  Lemma sj_groups (b : list tagged) : sent_groups (submit_jobs b) = [].
  Proof. unfold submit_jobs. destruct (jobs_of b); reflexivity. Qed.

  Lemma group_reqs_groups (bs : list (list tagged)) : sent_groups (group_reqs bs) = groups_of (concat bs).
  Proof.
    induction bs as [|b bs IH]; [reflexivity|].
    unfold group_reqs, sent_groups in *; cbn [flat_map concat].
    rewrite sent_app, groups_of_app, IH. f_equal. apply sjg_groups.
  Qed.
  Lemma group_reqs_jobs (bs : list (list tagged)) : sent_jobs (group_reqs bs) = [].
  Proof.
    induction bs as [|b bs IH]; [reflexivity|].
    unfold group_reqs, sent_jobs in *; cbn [flat_map]. rewrite sent_app, IH, app_nil_r. apply sjg_jobs.
  Qed.
  Lemma job_reqs_jobs (bs : list (list tagged)) : sent_jobs (job_reqs bs) = jobs_of (concat bs).
  Proof.
    induction bs as [|b bs IH]; [reflexivity|].
    unfold job_reqs, sent_jobs in *; cbn [flat_map concat].
    rewrite sent_app, jobs_of_app, IH. f_equal. apply sj_jobs.
  Qed.
  Lemma job_reqs_groups (bs : list (list tagged)) : sent_groups (job_reqs bs) = [].
  Proof.
    induction bs as [|b bs IH]; [reflexivity|].
    unfold job_reqs, sent_groups in *; cbn [flat_map]. rewrite sent_app, IH, app_nil_r. apply sj_groups.
  Qed.

  (** every job request carries no group, individually (needed for permutations) *)
  Lemma job_reqs_no_group (bs : list (list tagged)) : Forall (fun r => req_groups r = []) (job_reqs bs).
  Proof.
    induction bs as [|b bs IH]; [constructor|].
    unfold job_reqs in *; cbn [flat_map]. apply Forall_app; split; [|exact IH].
    unfold submit_jobs. destruct (jobs_of b); repeat constructor.
  Qed.
  Lemma group_reqs_no_job (bs : list (list tagged)) : Forall (fun r => req_jobs r = []) (group_reqs bs).
  Proof.
    induction bs as [|b bs IH]; [constructor|].
    unfold group_reqs in *; cbn [flat_map]. apply Forall_app; split; [|exact IH].
    unfold submit_job_groups. destruct (groups_of b); repeat constructor.
  Qed.
  Lemma flat_map_all_nil {B C} (f : B -> list C) l : Forall (fun r => f r = []) l -> flat_map f l = [].
  Proof. induction 1 as [|x l Hx _ IH]; cbn; [reflexivity | rewrite Hx, IH; reflexivity]. Qed.

  Lemma slow_trace_groups c (G J : list request) : sent_groups (slow_trace c G J) = sent_groups G ++ sent_groups J.
  Proof.
    unfold slow_trace, sent_groups. cbn [flat_map]. rewrite !sent_app. cbn [flat_map req_groups].
    destruct c; cbn [req_groups app]; rewrite app_nil_r; reflexivity.
  Qed.
  Lemma slow_trace_jobs c (G J : list request) : sent_jobs (slow_trace c G J) = sent_jobs G ++ sent_jobs J.
  Proof.
    unfold slow_trace, sent_jobs. cbn [flat_map]. rewrite !sent_app. cbn [flat_map req_jobs].
    destruct c; cbn [req_jobs app]; rewrite app_nil_r; reflexivity.
  Qed.

  (** *** [submit] sends, for ANY bunch layout, the groups of the layout and the jobs of the layout *)
  Theorem submit_sends c (bs : list (list tagged)) :
    sent_groups (submit c bs) = groups_of (concat bs) /\ sent_jobs (submit c bs) = jobs_of (concat bs).
  Proof.
    destruct bs as [|b [|b2 bs]].
    - destruct c; split; reflexivity.
    - cbn [concat]; rewrite app_nil_r. destruct c; cbn; rewrite !app_nil_r; split; reflexivity.
    - unfold submit. rewrite slow_trace_groups, slow_trace_jobs.
      rewrite group_reqs_groups, job_reqs_groups, group_reqs_jobs, job_reqs_jobs, app_nil_r. split; reflexivity.
  Qed.

  (** the slow path under an arbitrary completion order [J'] of the spawned job requests *)
  Theorem slow_any_order c (bs : list (list tagged)) J' :
    Permutation J' (job_reqs bs) ->
    sent_groups (slow_trace c (group_reqs bs) J') = groups_of (concat bs)
    /\ Permutation (sent_jobs (slow_trace c (group_reqs bs) J')) (jobs_of (concat bs))
    /\ (exists pre post, slow_trace c (group_reqs bs) J' = pre ++ post /\ sent_jobs pre = [] /\ sent_groups post = []).
  Proof.
    intros HP. repeat split.
    - rewrite slow_trace_groups, group_reqs_groups.
      unfold sent_groups. rewrite (flat_map_all_nil req_groups J'); [apply app_nil_r|].
      eapply Permutation_Forall; [symmetry; exact HP | apply job_reqs_no_group].
    - rewrite slow_trace_jobs, group_reqs_jobs; cbn [app].
      rewrite <- job_reqs_jobs. unfold sent_jobs. apply Permutation_flat_map; exact HP.
    - exists ((if c then CreateUpdate else OpenBatch) :: group_reqs bs), (J' ++ [Commit]).
      split; [reflexivity|]. split.
      + unfold sent_jobs; cbn [flat_map]. fold (sent_jobs (group_reqs bs)). rewrite group_reqs_jobs.
        destruct c; reflexivity.
      + unfold sent_groups. rewrite sent_app. cbn [flat_map req_groups]. rewrite app_nil_r.
        apply flat_map_all_nil. eapply Permutation_Forall; [symmetry; exact HP | apply job_reqs_no_group].
  Qed.

  (** *** the whole pipeline, for any bunching function whose bunches concatenate to the tagged input *)
  Theorem submit_specs_sends bunch c (groups jobs : list A) :
    concat (bunch (tag false groups) (tag true jobs)) = tag false groups ++ tag true jobs ->
    sent_groups (submit_specs bunch c groups jobs) = groups /\ sent_jobs (submit_specs bunch c groups jobs) = jobs.
  Proof.
    intros Hc. unfold submit_specs. destruct (submit_sends c (bunch (tag false groups) (tag true jobs))) as [Hg Hj].
    rewrite Hg, Hj, Hc, groups_of_tagged, jobs_of_tagged. split; reflexivity.
  Qed.

  (** *** limits *)
  Variable nb : A -> Z.
  Variables mb ms : Z.
  Definition nbt (e : tagged) : Z := nb (fst e).
  Hypothesis Hnb : forall x, 0 <= nb x.

  Definition req_ok (r : request) : Prop :=
    Z.of_nat (length (req_groups r) + length (req_jobs r)) <= ms
    /\ zsum nb (req_groups r) + zsum nb (req_jobs r) < mb
    /\ match r with GroupsCreate l | JobsCreate l => l <> [] | _ => True end.

  Lemma split_length (b : list tagged) : (length (groups_of b) + length (jobs_of b) = length b)%nat.
  Proof.
    unfold groups_of, jobs_of, is_group, is_job. rewrite !map_length.
    induction b as [|[x t] b IH]; [reflexivity|]. cbn [filter snd]. destruct t; cbn [negb length]; lia.
  Qed.
  Lemma split_zsum (b : list tagged) : zsum nb (groups_of b) + zsum nb (jobs_of b) = zsum nbt b.
  Proof.
    unfold groups_of, jobs_of, is_group, is_job.
    induction b as [|[x t] b IH]; [reflexivity|]. cbn [filter snd zsum]. unfold nbt at 1; cbn [fst].
    destruct t; cbn [negb map zsum fst]; lia.
  Qed.
  Lemma zsum_nonneg (l : list A) : 0 <= zsum nb l.
  Proof. induction l as [|x l IH]; cbn [zsum]; [lia | specialize (Hnb x); lia]. Qed.

  Lemma submit_job_groups_ok (b : list tagged) : bunch_ok nbt mb ms b -> Forall req_ok (submit_job_groups b).
  Proof.
    intros (Hne & Hlen & Hsum). unfold submit_job_groups.
    destruct (groups_of b) as [|x g] eqn:E; [constructor|]. constructor; [|constructor].
    pose proof (split_length b) as HL. pose proof (split_zsum b) as HS. pose proof (zsum_nonneg (jobs_of b)) as HJ.
    rewrite E in HL, HS. unfold req_ok; cbn [req_groups req_jobs zsum length is_nil] in *.
    repeat split; [lia | lia | discriminate].
  Qed.
  Lemma submit_jobs_ok (b : list tagged) : bunch_ok nbt mb ms b -> Forall req_ok (submit_jobs b).
  Proof.
    intros (Hne & Hlen & Hsum). unfold submit_jobs.
    destruct (jobs_of b) as [|x g] eqn:E; [constructor|]. constructor; [|constructor].
    pose proof (split_length b) as HL. pose proof (split_zsum b) as HS. pose proof (zsum_nonneg (groups_of b)) as HJ.
    rewrite E in HL, HS. unfold req_ok; cbn [req_groups req_jobs zsum length is_nil] in *.
    repeat split; [lia | lia | discriminate].
  Qed.

  Lemma group_reqs_ok (bs : list (list tagged)) : Forall (bunch_ok nbt mb ms) bs -> Forall req_ok (group_reqs bs).
  Proof.
    induction 1 as [|b bs Hb _ IH]; [constructor|]. unfold group_reqs in *; cbn [flat_map].
    apply Forall_app; split; [apply submit_job_groups_ok; exact Hb | exact IH].
  Qed.
  Lemma job_reqs_ok (bs : list (list tagged)) : Forall (bunch_ok nbt mb ms) bs -> Forall req_ok (job_reqs bs).
  Proof.
    induction 1 as [|b bs Hb _ IH]; [constructor|]. unfold job_reqs in *; cbn [flat_map].
    apply Forall_app; split; [apply submit_jobs_ok; exact Hb | exact IH].
  Qed.

  Hypothesis Hmb : 0 < mb.
  Hypothesis Hms : 0 < ms.

  Lemma ctl_ok r : req_groups r = [] -> req_jobs r = [] ->
    match r with GroupsCreate _ | JobsCreate _ => False | _ => True end -> req_ok r.
  Proof. intros Hg Hj Hk. unfold req_ok. rewrite Hg, Hj. cbn [length zsum]. destruct r; try contradiction; repeat split; lia. Qed.

  Lemma slow_trace_ok c (G J : list request) : Forall req_ok G -> Forall req_ok J -> Forall req_ok (slow_trace c G J).
  Proof.
    intros HG HJ. unfold slow_trace. constructor.
    - destruct c; apply ctl_ok; reflexivity || exact I.
    - apply Forall_app; split; [exact HG|]. apply Forall_app; split; [exact HJ|].
      constructor; [apply ctl_ok; reflexivity || exact I | constructor].
  Qed.

  (** every request of [submit] respects the limits when every bunch does *)
  Theorem submit_limits c (bs : list (list tagged)) :
    Forall (bunch_ok nbt mb ms) bs -> Forall req_ok (submit c bs).
  Proof.
    intros H. destruct bs as [|b [|b2 bs]].
    - destruct c; [constructor | constructor; [apply ctl_ok; reflexivity || exact I | constructor]].
    - inversion H as [|? ? (Hne & Hlen & Hsum) _]; subst.
      pose proof (split_length b) as HL. pose proof (split_zsum b) as HS.
      cbn [submit]. destruct c; (constructor; [|constructor]); unfold req_ok; cbn [req_groups req_jobs];
        (repeat split; [lia | lia]).
    - unfold submit. apply slow_trace_ok; [apply group_reqs_ok | apply job_reqs_ok]; exact H.
  Qed.

  (** ... also under any completion order of the job requests *)
  Theorem slow_any_order_limits c (bs : list (list tagged)) J' :
    Forall (bunch_ok nbt mb ms) bs -> Permutation J' (job_reqs bs) ->
    Forall req_ok (slow_trace c (group_reqs bs) J').
  Proof.
    intros H HP. apply slow_trace_ok; [apply group_reqs_ok; exact H|].
    eapply Permutation_Forall; [symmetry; exact HP | apply job_reqs_ok; exact H].
  Qed.
End SubmitProofs.

(** *** happens-before: the stages of a submission and the orders in which the server can receive the requests *)
Section HappensBefore.
  Context {A : Type}.
  Notation tagged := (@tagged A).
  Notation request := (request A).

  Lemma Forall2_perm_concat (S' S : list (list request)) :
    Forall2 (@Permutation request) S' S -> Permutation (concat S') (concat S).
  Proof. induction 1; cbn [concat]; [constructor | apply Permutation_app; assumption]. Qed.

  (** every stage with more than one request carries no job group: the group-carrying requests are totally ordered *)
  Definition seq_groups (S : list (list request)) : Prop :=
    Forall (fun st => (length st <= 1)%nat \/ Forall (fun r => req_groups r = []) st) S.

  Lemma linear_groups (S' S : list (list request)) :
    Forall2 (@Permutation request) S' S -> seq_groups S -> sent_groups (concat S') = sent_groups (concat S).
  Proof.
    induction 1 as [|st' st S' S HP _ IH]; intros HS; [reflexivity|].
    inversion HS as [|? ? Hst HS']; subst. cbn [concat]. unfold sent_groups in *.
    rewrite !flat_map_app, (IH HS'). f_equal.
    destruct Hst as [Hlen|Hnil].
    - destruct st as [|x [|y st]]; cbn [length] in Hlen; try lia.
      + apply Permutation_sym, Permutation_nil in HP; subst; reflexivity.
      + apply Permutation_sym, Permutation_length_1_inv in HP; subst; reflexivity.
    - rewrite !flat_map_all_nil; [reflexivity | exact Hnil |].
      eapply Permutation_Forall; [symmetry; exact HP | exact Hnil].
  Qed.

  Lemma concat_singletons (l : list request) : concat (singletons l) = l.
  Proof. induction l as [|x l IH]; [reflexivity|]. cbn. f_equal. exact IH. Qed.

  Lemma slow_stages_concat c (G J : list request) : concat (slow_stages c G J) = slow_trace c G J.
  Proof.
    unfold slow_stages, slow_trace. cbn [concat app]. f_equal.
    rewrite concat_app, concat_singletons. cbn [concat]. rewrite app_nil_r. reflexivity.
  Qed.

  Lemma submit_stages_concat c (bs : list (list tagged)) : concat (submit_stages c bs) = submit c bs.
  Proof.
    destruct bs as [|b [|b2 bs]].
    - destruct c; reflexivity.
    - destruct c; reflexivity.
    - unfold submit_stages, submit. apply slow_stages_concat.
  Qed.

  Lemma seq_groups_singletons (l : list request) : seq_groups (singletons l).
  Proof. induction l as [|x l IH]; constructor; [left; cbn; lia | exact IH]. Qed.

  Lemma submit_stages_seq c (bs : list (list tagged)) : seq_groups (submit_stages c bs).
  Proof.
    destruct bs as [|b [|b2 bs]].
    - destruct c; repeat constructor.
    - constructor; [left; cbn; lia | constructor].
    - unfold submit_stages, slow_stages. constructor; [left; cbn; lia|].
      apply Forall_app; split; [apply seq_groups_singletons|].
      constructor; [right; apply job_reqs_no_group | constructor; [left; cbn; lia | constructor]].
  Qed.

  (** whatever order compatible with happens-before the server receives the requests in: the job groups arrive in
      their original order (parents before children) and every job arrives exactly once *)
  Theorem submit_linearization c (bs : list (list tagged)) t :
    linearization (submit_stages c bs) t ->
    sent_groups t = groups_of (concat bs) /\ Permutation (sent_jobs t) (jobs_of (concat bs)).
  Proof.
    intros (S' & HF & ->). destruct (submit_sends c bs) as [Hg Hj]. split.
    - rewrite (linear_groups _ _ HF (submit_stages_seq c bs)), submit_stages_concat. exact Hg.
    - rewrite <- Hj, <- submit_stages_concat. unfold sent_jobs.
      apply Permutation_flat_map, Forall2_perm_concat, HF.
  Qed.

  (** the slow path, explicitly: create; ONE STAGE PER job-group request, in bunch order; all job requests; commit *)
  Theorem slow_path_stages c (bs : list (list tagged)) :
    (2 <= length bs)%nat ->
    submit_stages c bs = slow_stages c (group_reqs bs) (job_reqs bs)
    /\ Forall (fun r => req_jobs r = []) (group_reqs bs)
    /\ Forall (fun r => req_groups r = []) (job_reqs bs).
  Proof.
    intros Hlen. destruct bs as [|b [|b2 bs]]; cbn [length] in Hlen; try lia.
    split; [reflexivity|]. split; [apply group_reqs_no_job | apply job_reqs_no_group].
  Qed.
End HappensBefore.

(** Non-vacuity / the shape of the traces: one group + two jobs, at most two specs per bunch (the smallest
    layout with a MIXED bunch) takes the slow path, and the mixed bunch contributes to BOTH passes. *)
Example submit_example :
  submit_specs (fun g j => create_bunches (fun e : Z * bool => fst e) g j 100 2) false [10] [20; 30]
  = [OpenBatch; GroupsCreate [10]; JobsCreate [20]; JobsCreate [30]; Commit]
  /\ submit_specs (fun g j => create_bunches (fun e : Z * bool => fst e) g j 100 3) true [10] [20; 30]
  = [UpdateFast [10] [20; 30]].
Proof. split; vm_compute; reflexivity. Qed.

(** *** The pipeline with the bunching function GENERATED from the current source *)
From HailG Require C19.Gen.

Section Pipeline.
  Context {A : Type}.
  Variable nb : A -> Z.
  Variables mb ms : Z.

  Definition gen_bunch (g j : list (@tagged A)) : list (list (@tagged A)) :=
    C19.Gen.create_bunches (nbt nb) g j mb ms.

  Lemma gen_bunch_concat g j : concat (gen_bunch g j) = g ++ j.
  Proof. unfold gen_bunch; rewrite generated_eq_model; apply concat_create_bunches. Qed.

  Lemma gen_bunch_ok (groups jobs : list A) :
    C19.Gen.limits_ok mb ms = true ->
    forallb (C19.Gen.spec_ok nb mb) (groups ++ jobs) = true ->
    Forall (bunch_ok (nbt nb) mb ms) (gen_bunch (tag false groups) (tag true jobs)).
  Proof.
    intros Hlim Hspecs.
    unfold C19.Gen.limits_ok in Hlim. apply andb_true_iff in Hlim; destruct Hlim as [H1 H2].
    apply Z.gtb_lt in H1; apply Z.gtb_lt in H2.
    unfold gen_bunch; rewrite generated_eq_model. apply limits_create_bunches; try lia.
    rewrite forallb_forall in Hspecs. apply Forall_forall; intros [x t] Hx.
    assert (Hin : In x (groups ++ jobs)).
    { apply in_app_or in Hx. apply in_or_app. unfold tag in Hx.
      destruct Hx as [Hx|Hx]; [left|right]; apply in_map_iff in Hx; destruct Hx as (y & Hy & Hin); inversion Hy; subst; exact Hin. }
    specialize (Hspecs x Hin). unfold C19.Gen.spec_ok in Hspecs. unfold nbt; cbn [fst]. lia.
  Qed.

  Theorem pipeline_sends created (groups jobs : list A) :
    let trace := submit_specs gen_bunch created groups jobs in
    sent_groups trace = groups /\ sent_jobs trace = jobs.
  Proof. apply submit_specs_sends, gen_bunch_concat. Qed.

  Theorem pipeline_any_order created (groups jobs : list A) J' :
    let bunches := gen_bunch (tag false groups) (tag true jobs) in
    Permutation J' (job_reqs bunches) ->
    let trace := slow_trace created (group_reqs bunches) J' in
    sent_groups trace = groups /\ Permutation (sent_jobs trace) jobs
    /\ (exists pre post, trace = pre ++ post /\ sent_jobs pre = [] /\ sent_groups post = []).
  Proof.
    intros bunches HP trace. destruct (slow_any_order created bunches J' HP) as (Hg & Hj & Hsplit).
    subst bunches trace. rewrite gen_bunch_concat, groups_of_tagged in Hg. rewrite gen_bunch_concat, jobs_of_tagged in Hj.
    repeat split; assumption.
  Qed.

  Theorem pipeline_limits created (groups jobs : list A) :
    (forall x, 0 <= nb x) ->
    C19.Gen.limits_ok mb ms = true ->
    forallb (C19.Gen.spec_ok nb mb) (groups ++ jobs) = true ->
    Forall (req_ok nb mb ms) (submit_specs gen_bunch created groups jobs).
  Proof.
    intros Hnb Hlim Hspecs.
    assert (H1 : 0 < mb /\ 0 < ms).
    { unfold C19.Gen.limits_ok in Hlim. apply andb_true_iff in Hlim; destruct Hlim as [H1 H2].
      apply Z.gtb_lt in H1; apply Z.gtb_lt in H2; split; assumption. }
    unfold submit_specs. apply submit_limits; try tauto. apply gen_bunch_ok; assumption.
  Qed.

  Theorem pipeline_any_order_limits created (groups jobs : list A) J' :
    (forall x, 0 <= nb x) ->
    C19.Gen.limits_ok mb ms = true ->
    forallb (C19.Gen.spec_ok nb mb) (groups ++ jobs) = true ->
    let bunches := gen_bunch (tag false groups) (tag true jobs) in
    Permutation J' (job_reqs bunches) ->
    Forall (req_ok nb mb ms) (slow_trace created (group_reqs bunches) J').
  Proof.
    intros Hnb Hlim Hspecs bunches HP.
    assert (H1 : 0 < mb /\ 0 < ms).
    { unfold C19.Gen.limits_ok in Hlim. apply andb_true_iff in Hlim; destruct Hlim as [H1 H2].
      apply Z.gtb_lt in H1; apply Z.gtb_lt in H2; split; assumption. }
    apply slow_any_order_limits; try tauto. apply gen_bunch_ok; assumption.
  Qed.
  Theorem pipeline_linearization created (groups jobs : list A) t :
    linearization (submit_stages created (gen_bunch (tag false groups) (tag true jobs))) t ->
    sent_groups t = groups /\ Permutation (sent_jobs t) jobs.
  Proof.
    intros HL. destruct (submit_linearization created _ t HL) as [Hg Hj].
    rewrite gen_bunch_concat, groups_of_tagged in Hg. rewrite gen_bunch_concat, jobs_of_tagged in Hj. split; assumption.
  Qed.

  Theorem pipeline_stages created (groups jobs : list A) :
    let bunches := gen_bunch (tag false groups) (tag true jobs) in
    concat (submit_stages created bunches) = submit_specs gen_bunch created groups jobs
    /\ ((2 <= length bunches)%nat ->
        submit_stages created bunches = slow_stages created (group_reqs bunches) (job_reqs bunches)
        /\ Forall (fun r => req_jobs r = []) (group_reqs bunches)
        /\ Forall (fun r => req_groups r = []) (job_reqs bunches)).
  Proof. intros bunches. split; [apply submit_stages_concat | apply slow_path_stages]. Qed.
End Pipeline.
