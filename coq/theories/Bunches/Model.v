(** Hand model of hailtop.batch_client.aioclient.Batch._create_bunches (greedy bunching).
    Executable definitions only.  The generated translation of the Python source
    (HailG.C19.Gen) is proved equal to this model in Lemmas.v. *)
From HailV Require Import Common.Prelude.
Open Scope Z_scope.

Section Bunches.
  Context {A : Type}.
  Variable nb : A -> Z.                      (* byte size of a serialised spec *)

  Definition st : Type := (list (list A) * list A * Z)%type.

  Definition step (mb ms : Z) (s : st) (x : A) : st :=
    let '(bs, b, n) := s in
    if (n + nb x <? mb) && (Z.of_nat (length b) <? ms)
    then (bs, b ++ [x], n + nb x)
    else (bs ++ [b], [x], nb x).

  Definition finish (s : st) : list (list A) :=
    let '(bs, b, _) := s in if negb (is_nil b) then bs ++ [b] else bs.

  Definition create_bunches (groups jobs : list A) (mb ms : Z) : list (list A) :=
    finish (fold_left (step mb ms) (groups ++ jobs) ([], [], 0)).
End Bunches.
