(** Hand model of hailtop.batch_client.aioclient.Batch._create_bunches (greedy bunching).
    Executable definitions only.  The generated translation of the Python source
    (HailG.C19.Gen) is proved equal to this model in Lemmas.v. *)
From HailV Require Import Common.Prelude.
From Coq Require Permutation.
Open Scope Z_scope.

Section Bunches.
  Context {A : Type}.
  Variable nb : A -> Z.                      (* byte size of a serialised spec *)

  Definition st : Type := (list (list A) * list A * Z)%type.

  Definition step (mb ms : Z) (s : st) (x : A) : st :=
    let '(bs, b, n) := s in
    if (n + nb x <? mb) && (Z.of_nat (length b) <? ms)
    then (bs, b ++ [x], n + nb x)
    else (bs ++ [b], [x], nb x).

  Definition finish (s : st) : list (list A) :=
    let '(bs, b, _) := s in if negb (is_nil b) then bs ++ [b] else bs.

  Definition create_bunches (groups jobs : list A) (mb ms : Z) : list (list A) :=
    finish (fold_left (step mb ms) (groups ++ jobs) ([], [], 0)).
End Bunches.

(** ** The submission path: what [Batch._submit] SENDS.

    Hand model of [_submit] / [_create_fast] / [_update_fast] / [_submit_job_group_bunches] /
    [_submit_job_groups] / [_submit_job_bunches] / [_submit_jobs] / [_submit_spec_bunch]: the list of HTTP
    requests in program order, each with the specs its body carries.  A spec is tagged with its [SpecType]
    ([true] = JOB, [false] = JOB_GROUP) exactly as [_create_bunches] tags it.  The job requests are spawned
    concurrently (bounded_gather): [job_reqs] lists them in spawn order and the theorems about them hold for
    every permutation (SubmitLemmas.v).  Tied to the real code by correspondence (harness/props/C19.py). *)
Section Submit.
  Context {A : Type}.

  Definition tagged : Type := (A * bool)%type.
  Definition tag (job : bool) (l : list A) : list tagged := map (fun x => (x, job)) l.
  Definition is_job (e : tagged) : bool := snd e.
  Definition is_group (e : tagged) : bool := negb (snd e).
  Definition jobs_of (b : list tagged) : list A := map fst (filter is_job b).
  Definition groups_of (b : list tagged) : list A := map fst (filter is_group b).

  Inductive request : Type :=
  | OpenBatch                                   (* POST batches/create *)
  | CreateUpdate                                (* POST batches/<id>/updates/create *)
  | Commit                                      (* PATCH updates/<u>/commit *)
  | CreateFast (groups jobs : list A)           (* POST batches/create-fast *)
  | UpdateFast (groups jobs : list A)           (* POST batches/<id>/update-fast *)
  | GroupsCreate (specs : list A)               (* POST updates/<u>/job-groups/create *)
  | JobsCreate (specs : list A).                (* POST updates/<u>/jobs/create *)

  (* _submit_job_groups / _submit_jobs: filter the bunch by type, send only if something is left *)
  Definition submit_job_groups (b : list tagged) : list request :=
    let g := groups_of b in if is_nil g then [] else [GroupsCreate g].
  Definition submit_jobs (b : list tagged) : list request :=
    let j := jobs_of b in if is_nil j then [] else [JobsCreate j].

  (* _submit_job_group_bunches: sequential over ALL bunches; _submit_job_bunches: one task per bunch, ALL bunches *)
  Definition group_reqs (bunches : list (list tagged)) : list request := flat_map submit_job_groups bunches.
  Definition job_reqs (bunches : list (list tagged)) : list request := flat_map submit_jobs bunches.

  Definition slow_trace (created : bool) (G J : list request) : list request :=
    (if created then CreateUpdate else OpenBatch) :: G ++ J ++ [Commit].

  Definition submit (created : bool) (bunches : list (list tagged)) : list request :=
    match bunches with
    | [] => if created then [] else [OpenBatch]
    | [b] => if created then [UpdateFast (groups_of b) (jobs_of b)] else [CreateFast (groups_of b) (jobs_of b)]
    | _ => slow_trace created (group_reqs bunches) (job_reqs bunches)
    end.

  (* what a request carries *)
  Definition req_groups (r : request) : list A :=
    match r with CreateFast g _ | UpdateFast g _ | GroupsCreate g => g | _ => [] end.
  Definition req_jobs (r : request) : list A :=
    match r with CreateFast _ j | UpdateFast _ j | JobsCreate j => j | _ => [] end.
  Definition sent_groups (t : list request) : list A := flat_map req_groups t.
  Definition sent_jobs (t : list request) : list A := flat_map req_jobs t.

  (* for the correspondence run: (kind, group payload, job payload) *)
  Definition req_code (r : request) : Z :=
    match r with OpenBatch => 0 | CreateUpdate => 1 | Commit => 2 | CreateFast _ _ => 3 | UpdateFast _ _ => 4
               | GroupsCreate _ => 5 | JobsCreate _ => 6 end.
  Definition encode (t : list request) : list (Z * list A * list A) :=
    map (fun r => (req_code r, req_groups r, req_jobs r)) t.

  (** *** happens-before.  A submission is a list of STAGES: every request of a stage is started only after every
      request of every earlier stage has COMPLETED (the code awaits it); the requests of one stage are in flight together.
      [_submit_job_group_bunches] awaits each job-group request before sending the next (one stage per request: a job group
      must reach the server after its parent); [_submit_job_bunches] gathers the job requests (one stage for all of
      them); the commit is awaited last. *)
  Definition singletons (l : list request) : list (list request) := map (fun r => [r]) l.

  Definition slow_stages (created : bool) (G J : list request) : list (list request) :=
    [if created then CreateUpdate else OpenBatch] :: singletons G ++ [J; [Commit]].

  Definition submit_stages (created : bool) (bunches : list (list tagged)) : list (list request) :=
    match bunches with
    | [] => if created then [] else [[OpenBatch]]
    | [b] => [[if created then UpdateFast (groups_of b) (jobs_of b) else CreateFast (groups_of b) (jobs_of b)]]
    | _ => slow_stages created (group_reqs bunches) (job_reqs bunches)
    end.

  Definition encode_stages (s : list (list request)) : list (list (Z * list A * list A)) := map encode s.
End Submit.
Arguments request : clear implicits.

(** The orders in which the server can RECEIVE the requests of a staged submission: any order inside a stage,
    stage after stage. *)
Definition linearization {A : Type} (stages : list (list (request A))) (t : list (request A)) : Prop :=
  exists stages', Forall2 (@Permutation.Permutation (request A)) stages' stages /\ t = concat stages'.

(** The whole client pipeline: tag, bunch, submit. *)
Definition submit_specs {A : Type} (bunch : list (@tagged A) -> list (@tagged A) -> list (list (@tagged A)))
    (created : bool) (groups jobs : list A) : list (request A) :=
  submit created (bunch (tag false groups) (tag true jobs)).
