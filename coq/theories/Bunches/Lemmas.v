(** C19: proofs about the bunching model, and equality of the generated translation with it. *)
From HailV Require Import Common.Prelude Bunches.Model.
From HailG Require C19.Gen.
Open Scope Z_scope.

Section Proofs.
  Context {A : Type}.
  Variable nb : A -> Z.
  Variables mb ms : Z.

  (** The translation of the current Python source computes the hand model. *)
  Lemma generated_eq_model groups jobs :
    C19.Gen.create_bunches nb groups jobs mb ms = create_bunches nb groups jobs mb ms.
  Proof.
    unfold C19.Gen.create_bunches, create_bunches.
    generalize (groups ++ jobs); intro l.
    match goal with |- context [fold_left ?g l _] => set (f := g) end.
    assert (H : forall l bs b n,
      (let '(b', n', bs') := fold_left f l (b, n, bs) in (bs', b', n')) = fold_left (step nb mb ms) l (bs, b, n)).
    { clear l; induction l as [|x l IH]; intros bs b n; cbn [fold_left]; [reflexivity|].
      unfold f at 2, step at 2.
      destruct ((n + nb x <? mb) && (Z.of_nat (length b) <? ms)); apply IH. }
    specialize (H l [] [] 0).
    destruct (fold_left f l ([], 0, [])) as [[b' n'] bs'].
    rewrite <- H. unfold finish. destruct b'; reflexivity.
  Qed.

  (** Invariant of the greedy loop. *)
  Definition bunch_ok (b : list A) : Prop :=
    b <> [] /\ Z.of_nat (length b) <= ms /\ zsum nb b < mb.

  Definition Inv (done : list A) (s : st) : Prop :=
    let '(bs, b, n) := s in
    concat bs ++ b = done /\ n = zsum nb b /\ Forall bunch_ok bs /\ (b = [] \/ bunch_ok b).

  Lemma concat_snoc (bs : list (list A)) b : concat (bs ++ [b]) = concat bs ++ b.
  Proof. rewrite concat_app; cbn [concat]; rewrite app_nil_r; reflexivity. Qed.

  Lemma step_concat done s x :
    (let '(bs, b, _) := s in concat bs ++ b = done) ->
    (let '(bs, b, _) := step nb mb ms s x in concat bs ++ b = done ++ [x]).
  Proof.
    destruct s as [[bs b] n]; intros H; unfold step.
    destruct ((n + nb x <? mb) && (Z.of_nat (length b) <? ms)).
    - rewrite app_assoc, H; reflexivity.
    - rewrite concat_snoc, H; reflexivity.
  Qed.

  Lemma fold_concat l : forall done s,
    (let '(bs, b, _) := s in concat bs ++ b = done) ->
    (let '(bs, b, _) := fold_left (step nb mb ms) l s in concat bs ++ b = done ++ l).
  Proof.
    induction l as [|x l IH]; intros done s H; cbn [fold_left].
    - rewrite app_nil_r; exact H.
    - specialize (IH (done ++ [x]) (step nb mb ms s x) (step_concat done s x H)).
      rewrite <- app_assoc in IH; exact IH.
  Qed.

  Theorem concat_create_bunches groups jobs :
    concat (create_bunches nb groups jobs mb ms) = groups ++ jobs.
  Proof.
    unfold create_bunches.
    pose proof (fold_concat (groups ++ jobs) [] ([], [], 0) eq_refl) as H.
    destruct (fold_left (step nb mb ms) (groups ++ jobs) ([], [], 0)) as [[bs b] n].
    cbn [app] in H. unfold finish.
    destruct b as [|y b]; cbn [is_nil negb].
    - rewrite app_nil_r in H; exact H.
    - rewrite concat_snoc; exact H.
  Qed.

  Hypothesis Hmb : 0 < mb.
  Hypothesis Hms : 0 < ms.

  Lemma step_inv done s x : nb x < mb -> Inv done s -> Inv (done ++ [x]) (step nb mb ms s x).
  Proof.
    destruct s as [[bs b] n]; intros Hx (Hc & Hn & Hbs & Hb); unfold step.
    destruct ((n + nb x <? mb) && (Z.of_nat (length b) <? ms)) eqn:E.
    - apply andb_true_iff in E; destruct E as [E1 E2].
      repeat split.
      + rewrite app_assoc, Hc; reflexivity.
      + rewrite zsum_app; cbn [zsum]; lia.
      + exact Hbs.
      + right; repeat split.
        * destruct b; discriminate.
        * rewrite app_length; cbn [length]; lia.
        * rewrite zsum_app; cbn [zsum]; lia.
    - assert (Hne : b <> []).
      { intros ->; cbn [zsum length] in *; subst n. apply andb_false_iff in E; lia. }
      repeat split.
      + rewrite concat_snoc, Hc; reflexivity.
      + cbn [zsum]; lia.
      + apply Forall_app; split; [exact Hbs|]. constructor; [|constructor].
        destruct Hb as [Hb|Hb]; [contradiction | exact Hb].
      + right; repeat split; [discriminate | cbn [length]; lia | cbn [zsum]; lia].
  Qed.

  Lemma fold_inv l : forall done s,
    Forall (fun x => nb x < mb) l -> Inv done s -> Inv (done ++ l) (fold_left (step nb mb ms) l s).
  Proof.
    induction l as [|x l IH]; intros done s Hl Hs; cbn [fold_left].
    - rewrite app_nil_r; exact Hs.
    - inversion Hl as [|? ? Hx Hl']; subst.
      specialize (IH (done ++ [x]) _ Hl' (step_inv done s x Hx Hs)).
      rewrite <- app_assoc in IH; exact IH.
  Qed.

  Theorem limits_create_bunches groups jobs :
    Forall (fun x => nb x < mb) (groups ++ jobs) ->
    Forall bunch_ok (create_bunches nb groups jobs mb ms).
  Proof.
    intros Hl. unfold create_bunches.
    assert (H0 : Inv [] ([], [], 0)) by (cbn; repeat split; auto).
    pose proof (fold_inv (groups ++ jobs) [] _ Hl H0) as H.
    destruct (fold_left (step nb mb ms) (groups ++ jobs) ([], [], 0)) as [[bs b] n].
    destruct H as (_ & _ & Hbs & Hb). unfold finish.
    destruct b as [|y b]; cbn [is_nil negb]; [exact Hbs|].
    apply Forall_app; split; [exact Hbs|]. constructor; [|constructor].
    destruct Hb as [Hb|Hb]; [discriminate | exact Hb].
  Qed.
End Proofs.

(** Non-vacuity: a concrete run that meets the hypotheses and needs three bunches. *)
Example bunches_example :
  create_bunches (fun x : Z => x) [3; 3] [2; 5; 1] 7 2 = [[3; 3]; [2]; [5; 1]]
  /\ Forall (fun x => x < 7) ([3; 3] ++ [2; 5; 1]).
Proof. split; [vm_compute; reflexivity | repeat constructor]. Qed.
