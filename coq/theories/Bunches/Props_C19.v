(** C19 — property theorems only.  Stated about the definition GENERATED from the current Python source. *)
From HailV Require Import Common.Prelude Bunches.Model Bunches.Lemmas.
From HailG Require C19.Gen.
Open Scope Z_scope.

(** Concatenating the bunches gives exactly the job-group specs followed by the job specs, in order —
    for every spec list, size function and limits (no hypothesis at all). *)
Theorem C19_concat : forall (A : Type) (nb : A -> Z) (mb ms : Z) (groups jobs : list A),
  concat (C19.Gen.create_bunches nb groups jobs mb ms) = groups ++ jobs.
Proof. intros; rewrite generated_eq_model; apply concat_create_bunches. Qed.
Print Assumptions C19_concat.

(** All job groups come before all jobs. *)
Theorem C19_groups_first : forall (A : Type) (nb : A -> Z) (mb ms : Z) (groups jobs : list A),
  let flat := concat (C19.Gen.create_bunches nb groups jobs mb ms) in
  firstn (length groups) flat = groups /\ skipn (length groups) flat = jobs.
Proof.
  intros; subst flat; rewrite generated_eq_model, concat_create_bunches.
  split; [rewrite firstn_app, Nat.sub_diag, firstn_all; cbn; apply app_nil_r
         | rewrite skipn_app, Nat.sub_diag, skipn_all; reflexivity].
Qed.
Print Assumptions C19_groups_first.

(** Under the assertions the code itself makes (positive limits; every single spec below the byte limit),
    every bunch is non-empty, has at most [ms] specs and strictly fewer than [mb] bytes. *)
Theorem C19_limits : forall (A : Type) (nb : A -> Z) (mb ms : Z) (groups jobs : list A),
  C19.Gen.limits_ok mb ms = true ->
  forallb (C19.Gen.spec_ok nb mb) (groups ++ jobs) = true ->
  Forall (fun b => b <> [] /\ Z.of_nat (length b) <= ms /\ zsum nb b < mb)
         (C19.Gen.create_bunches nb groups jobs mb ms).
Proof.
  intros A nb mb ms groups jobs Hlim Hspecs.
  unfold C19.Gen.limits_ok in Hlim. apply andb_true_iff in Hlim; destruct Hlim as [H1 H2].
  apply Z.gtb_lt in H1; apply Z.gtb_lt in H2.
  rewrite generated_eq_model. apply limits_create_bunches; try lia.
  rewrite forallb_forall in Hspecs. apply Forall_forall; intros x Hx.
  specialize (Hspecs x Hx). unfold C19.Gen.spec_ok in Hspecs. lia.
Qed.
Print Assumptions C19_limits.
