(** C19 — property theorems only.  Stated about the definition GENERATED from the current Python source. *)
From HailV Require Import Common.Prelude Bunches.Model Bunches.Lemmas Bunches.SubmitLemmas.
From Coq Require Import Permutation.
From HailG Require C19.Gen.
Open Scope Z_scope.

(** Concatenating the bunches gives exactly the job-group specs followed by the job specs, in order —
    for every spec list, size function and limits (no hypothesis at all). *)
Theorem C19_concat : forall (A : Type) (nb : A -> Z) (mb ms : Z) (groups jobs : list A),
  concat (C19.Gen.create_bunches nb groups jobs mb ms) = groups ++ jobs.
Proof. intros; rewrite generated_eq_model; apply concat_create_bunches. Qed.
Print Assumptions C19_concat.

(** All job groups come before all jobs. *)
Theorem C19_groups_first : forall (A : Type) (nb : A -> Z) (mb ms : Z) (groups jobs : list A),
  let flat := concat (C19.Gen.create_bunches nb groups jobs mb ms) in
  firstn (length groups) flat = groups /\ skipn (length groups) flat = jobs.
Proof.
  intros; subst flat; rewrite generated_eq_model, concat_create_bunches.
  split; [rewrite firstn_app, Nat.sub_diag, firstn_all; cbn; apply app_nil_r
         | rewrite skipn_app, Nat.sub_diag, skipn_all; reflexivity].
Qed.
Print Assumptions C19_groups_first.

(** Under the assertions the code itself makes (positive limits; every single spec below the byte limit),
    every bunch is non-empty, has at most [ms] specs and strictly fewer than [mb] bytes. *)
Theorem C19_limits : forall (A : Type) (nb : A -> Z) (mb ms : Z) (groups jobs : list A),
  C19.Gen.limits_ok mb ms = true ->
  forallb (C19.Gen.spec_ok nb mb) (groups ++ jobs) = true ->
  Forall (fun b => b <> [] /\ Z.of_nat (length b) <= ms /\ zsum nb b < mb)
         (C19.Gen.create_bunches nb groups jobs mb ms).
Proof.
  intros A nb mb ms groups jobs Hlim Hspecs.
  unfold C19.Gen.limits_ok in Hlim. apply andb_true_iff in Hlim; destruct Hlim as [H1 H2].
  apply Z.gtb_lt in H1; apply Z.gtb_lt in H2.
  rewrite generated_eq_model. apply limits_create_bunches; try lia.
  rewrite forallb_forall in Hspecs. apply Forall_forall; intros x Hx.
  specialize (Hspecs x Hx). unfold C19.Gen.spec_ok in Hspecs. lia.
Qed.
Print Assumptions C19_limits.

(** ** What is SENT (Batch._submit): the hand model [Model.submit] of the submission path applied to the bunches
    of the GENERATED [create_bunches] ([gen_bunch]); [submit] is tied to the real code by the correspondence run. *)

(** Fast path or slow path, new batch or update: the job-group payloads of the requests, concatenated in request
    order, are exactly the job-group specs, and the job payloads exactly the job specs (each spec sent once, in order). *)
Theorem C19_sent_exactly : forall (A : Type) (nb : A -> Z) (mb ms : Z) (created : bool) (groups jobs : list A),
  let trace := submit_specs (gen_bunch nb mb ms) created groups jobs in
  sent_groups trace = groups /\ sent_jobs trace = jobs.
Proof. intros A nb mb ms created groups jobs; exact (pipeline_sends nb mb ms created groups jobs). Qed.
Print Assumptions C19_sent_exactly.

(** The job requests of the slow path run concurrently (bounded_gather): for EVERY order [J'] in which they reach the
    server the job groups are still sent in order, every job spec is sent exactly once, and every request carrying a
    job group precedes every request carrying a job. *)
Theorem C19_sent_any_completion_order : forall (A : Type) (nb : A -> Z) (mb ms : Z) (created : bool) (groups jobs : list A)
    (J' : list (request A)),
  let bunches := gen_bunch nb mb ms (tag false groups) (tag true jobs) in
  Permutation J' (job_reqs bunches) ->
  let trace := slow_trace created (group_reqs bunches) J' in
  sent_groups trace = groups /\ Permutation (sent_jobs trace) jobs
  /\ (exists pre post, trace = pre ++ post /\ sent_jobs pre = [] /\ sent_groups post = []).
Proof. intros A nb mb ms created groups jobs J'; exact (pipeline_any_order nb mb ms created groups jobs J'). Qed.
Print Assumptions C19_sent_any_completion_order.

(** Under the code's own assertions (and byte sizes being non-negative) every request carries at most [ms] specs
    and fewer than [mb] bytes of specs, and no job-groups/create or jobs/create request is empty. *)
Theorem C19_sent_limits : forall (A : Type) (nb : A -> Z) (mb ms : Z) (created : bool) (groups jobs : list A),
  (forall x, 0 <= nb x) ->
  C19.Gen.limits_ok mb ms = true ->
  forallb (C19.Gen.spec_ok nb mb) (groups ++ jobs) = true ->
  Forall (req_ok nb mb ms) (submit_specs (gen_bunch nb mb ms) created groups jobs).
Proof. intros A nb mb ms created groups jobs; exact (pipeline_limits nb mb ms created groups jobs). Qed.
Print Assumptions C19_sent_limits.

Theorem C19_sent_limits_any_completion_order : forall (A : Type) (nb : A -> Z) (mb ms : Z) (created : bool)
    (groups jobs : list A) (J' : list (request A)),
  (forall x, 0 <= nb x) ->
  C19.Gen.limits_ok mb ms = true ->
  forallb (C19.Gen.spec_ok nb mb) (groups ++ jobs) = true ->
  let bunches := gen_bunch nb mb ms (tag false groups) (tag true jobs) in
  Permutation J' (job_reqs bunches) ->
  Forall (req_ok nb mb ms) (slow_trace created (group_reqs bunches) J').
Proof. intros A nb mb ms created groups jobs J'; exact (pipeline_any_order_limits nb mb ms created groups jobs J'). Qed.
Print Assumptions C19_sent_limits_any_completion_order.

(** ** happens-before.  [submit_stages] is the model's happens-before relation: a request is started only after every
    request of every earlier stage has COMPLETED.  On the slow path the stages are: create; then ONE STAGE PER
    job-groups/create request, in bunch order (sequential: each is awaited before the next is sent, so that a job group
    reaches the server after its parent); then all jobs/create requests together (concurrent); then the commit. *)
Theorem C19_sent_stages : forall (A : Type) (nb : A -> Z) (mb ms : Z) (created : bool) (groups jobs : list A),
  let bunches := gen_bunch nb mb ms (tag false groups) (tag true jobs) in
  concat (submit_stages created bunches) = submit_specs (gen_bunch nb mb ms) created groups jobs
  /\ ((2 <= length bunches)%nat ->
      submit_stages created bunches
      = [if created then CreateUpdate else OpenBatch] :: map (fun r => [r]) (group_reqs bunches) ++ [job_reqs bunches; [Commit]]
      /\ Forall (fun r => req_jobs r = []) (group_reqs bunches)
      /\ Forall (fun r => req_groups r = []) (job_reqs bunches)).
Proof. intros A nb mb ms created groups jobs; exact (pipeline_stages nb mb ms created groups jobs). Qed.
Print Assumptions C19_sent_stages.

(** In EVERY order in which the server can receive the requests under that happens-before relation (any order inside a
    stage, stage after stage) the job-group specs arrive exactly in their original order and every job spec exactly once. *)
Theorem C19_sent_happens_before : forall (A : Type) (nb : A -> Z) (mb ms : Z) (created : bool) (groups jobs : list A)
    (t : list (request A)),
  linearization (submit_stages created (gen_bunch nb mb ms (tag false groups) (tag true jobs))) t ->
  sent_groups t = groups /\ Permutation (sent_jobs t) jobs.
Proof. intros A nb mb ms created groups jobs t; exact (pipeline_linearization nb mb ms created groups jobs t). Qed.
Print Assumptions C19_sent_happens_before.
