(** C17 — hand model of the Batch DSL ordering and of LocalBackend failure propagation.
    Executable definitions only.

    Source modelled (hail/python/hailtop/batch):
      batch.py   Batch._async_run        : DFS post-order over [self._jobs] / [j._dependencies] with a [seen] set,
                                           numbering [job_index = enumerate(ordered_jobs, start=1)], cycle test
                                           [job_index[d] >= i -> BatchException].
      backend.py LocalBackend._async_run : [child_jobs], [cancelled_jobs], [cancel_child_jobs], the job loop.

    Jobs are natural numbers; [jobs] is the creation order ([Batch._jobs]); [deps j] is [j._dependencies] in the
    order in which Python happens to iterate that set (the theorems hold for every order), explicit and
    resource-induced dependencies alike ([Job._interpolate_command] adds the source job of every foreign resource). *)
From HailV Require Import Common.Prelude.

Section Order.
  Variable deps : nat -> list nat.

  Definition mem (x : nat) (l : list nat) : bool := existsb (Nat.eqb x) l.

  (** [schedule_job]:  if j in seen: return; seen.add(j); for p in deps: schedule_job(p); ordered.append(j).
      State = (seen, ordered).  Fuel makes the recursion structural; [order] below supplies [S (length jobs)],
      which Lemmas.v proves sufficient (the fuel-exhausted branch is never taken). *)
  Fixpoint visit (fuel : nat) (j : nat) (s : list nat * list nat) : list nat * list nat :=
    match fuel with
    | O => s
    | S f =>
        if mem j (fst s) then s
        else let s' := fold_left (fun s p => visit f p s) (deps j) (j :: fst s, snd s) in
             (fst s', snd s' ++ [j])
    end.

  Definition visit_all (fuel : nat) (roots : list nat) (s : list nat * list nat) : list nat * list nat :=
    fold_left (fun s j => visit fuel j s) roots s.

  (** [ordered_jobs] *)
  Definition order (jobs : list nat) : list nat := snd (visit_all (S (length jobs)) jobs ([], [])).

  (** position in [ordered_jobs] ([job_index[j] - 1]); [length l] when absent *)
  Fixpoint index_of (x : nat) (l : list nat) : nat :=
    match l with [] => O | y :: r => if Nat.eqb x y then O else S (index_of x r) end.

  (** the cycle test: no dependency d of j with job_index[d] >= job_index[j] *)
  Definition check (ord : list nat) : bool :=
    forallb (fun j => forallb (fun d => index_of d ord <? index_of j ord) (deps j)) ord.

  (** ---- LocalBackend ------------------------------------------------------------------------------ *)
  Variable always_run : nat -> bool.
  Variable fails : nat -> bool.          (* the scripted outcome of the job's command, if it is run *)

  Inductive status := Ok | Failed | Skipped.

  (** [cancel_child_jobs j] : children of j (jobs of this run that list j as a dependency) that are not always_run *)
  Definition cancel_children (all : list nat) (j : nat) : list nat :=
    filter (fun c => negb (always_run c) && mem j (deps c)) all.

  (** the job loop; [cancelled] is [cancelled_jobs] *)
  Fixpoint run_local (all todo cancelled : list nat) : list (nat * status) :=
    match todo with
    | [] => []
    | j :: rest =>
        if mem j cancelled then (j, Skipped) :: run_local all rest (cancel_children all j ++ cancelled)
        else if fails j then (j, Failed) :: run_local all rest (cancel_children all j ++ cancelled)
        else (j, Ok) :: run_local all rest cancelled
    end.

  Inductive outcome := Rejected | Ran (ord : list nat) (log : list (nat * status)).

  (** Batch.run() on a fresh batch with the local backend *)
  Definition batch_run (jobs : list nat) : outcome :=
    let ord := order jobs in
    if check ord then Ran ord (run_local ord ord []) else Rejected.

  Fixpoint status_of (j : nat) (log : list (nat * status)) : option status :=
    match log with [] => None | (x, s) :: r => if Nat.eqb j x then Some s else status_of j r end.
End Order.
