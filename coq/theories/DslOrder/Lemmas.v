(** C17 — proofs about the DSL ordering / local-backend model. *)
From HailV Require Import Common.Prelude DslOrder.Model.
From Coq Require Import Permutation.

Lemma mem_In x l : mem x l = true <-> In x l.
Proof.
  unfold mem. rewrite existsb_exists. split.
  - intros (y & Hy & E). apply Nat.eqb_eq in E. subst. exact Hy.
  - intros H. exists x. split; [exact H | apply Nat.eqb_refl].
Qed.

Lemma mem_false x l : mem x l = false <-> ~ In x l.
Proof. rewrite <- mem_In. destruct (mem x l); split; congruence. Qed.

(** ---- generic list facts ------------------------------------------------------------------------ *)
Lemma filter_length_le {A} (p q : A -> bool) l :
  (forall x, In x l -> p x = true -> q x = true) -> length (filter p l) <= length (filter q l).
Proof.
  induction l as [|a l IH]; intros H; cbn [filter]; [lia|].
  assert (IH' := IH (fun x Hx => H x (or_intror Hx))).
  destruct (p a) eqn:Pa.
  - rewrite (H a (or_introl eq_refl) Pa). cbn [length]. lia.
  - destruct (q a); cbn [length]; lia.
Qed.

Lemma filter_length_lt {A} (p q : A -> bool) l x :
  (forall y, In y l -> p y = true -> q y = true) -> In x l -> q x = true -> p x = false ->
  length (filter p l) < length (filter q l).
Proof.
  induction l as [|a l IH]; intros H Hx Qx Px; [destruct Hx|].
  cbn [filter].
  assert (Hle := filter_length_le p q l (fun y Hy => H y (or_intror Hy))).
  destruct Hx as [->|Hx].
  - rewrite Qx, Px. cbn [length]. lia.
  - assert (IH' := IH (fun y Hy => H y (or_intror Hy)) Hx Qx Px).
    destruct (p a) eqn:Pa.
    + rewrite (H a (or_introl eq_refl) Pa). cbn [length]. lia.
    + destruct (q a); cbn [length]; lia.
Qed.

Lemma NoDup_app_intro {A} (l1 l2 : list A) :
  NoDup l1 -> NoDup l2 -> (forall x, In x l1 -> In x l2 -> False) -> NoDup (l1 ++ l2).
Proof.
  induction l1 as [|a l1 IH]; intros H1 H2 Hd; cbn [app]; [exact H2|].
  inversion H1 as [|? ? Ha Hr]; subst. constructor.
  - intros Hin. apply in_app_or in Hin. destruct Hin as [Hin|Hin]; [exact (Ha Hin)|].
    exact (Hd a (or_introl eq_refl) Hin).
  - apply IH; [exact Hr | exact H2 |]. intros x Hx. apply Hd. right. exact Hx.
Qed.

(** ---- index_of ---------------------------------------------------------------------------------- *)
Lemma index_app_notin d pre l : ~ In d pre -> index_of d (pre ++ l) = length pre + index_of d l.
Proof.
  induction pre as [|y pre IH]; intros H; cbn [app index_of length]; [reflexivity|].
  destruct (Nat.eqb d y) eqn:E.
  - apply Nat.eqb_eq in E. subst. exfalso. apply H. left. reflexivity.
  - rewrite IH; [lia|]. intros Hin. apply H. right. exact Hin.
Qed.

Lemma index_in_lt d pre l : In d pre -> index_of d (pre ++ l) < length pre.
Proof.
  induction pre as [|y pre IH]; intros H; [destruct H|].
  cbn [app index_of length]. destruct (Nat.eqb d y) eqn:E; [lia|].
  destruct H as [->|H]; [rewrite Nat.eqb_refl in E; discriminate|].
  specialize (IH H). lia.
Qed.

Lemma index_head x r : index_of x (x :: r) = 0.
Proof. cbn [index_of]. rewrite Nat.eqb_refl. reflexivity. Qed.

Section Proofs.
  Variable deps : nat -> list nat.
  Variable jobs : list nat.

  Definition closed : Prop := forall j d, In j jobs -> In d (deps j) -> In d jobs.

  (** ---- topological shape of a list ----------------------------------------------------------- *)
  (** every element's dependencies all lie strictly earlier ([pre] = what precedes [l]) *)
  Fixpoint topo_from (pre l : list nat) : Prop :=
    match l with [] => True | x :: r => incl (deps x) pre /\ topo_from (pre ++ [x]) r end.

  Lemma topo_from_snoc l : forall pre j,
    topo_from pre (l ++ [j]) <-> topo_from pre l /\ incl (deps j) (pre ++ l).
  Proof.
    induction l as [|x l IH]; intros pre j; cbn [app topo_from].
    - rewrite app_nil_r. tauto.
    - rewrite IH. rewrite <- app_assoc. cbn [app]. tauto.
  Qed.

  Lemma topo_index l : forall pre, topo_from pre l -> NoDup (pre ++ l) ->
    forall x d, In x l -> In d (deps x) -> index_of d (pre ++ l) < index_of x (pre ++ l).
  Proof.
    induction l as [|y r IH]; intros pre Ht Hnd x d Hx Hd; [destruct Hx|].
    cbn [topo_from] in Ht. destruct Ht as [Hy Hr].
    destruct Hx as [->|Hx].
    - assert (Hnx : ~ In x pre).
      { intros Hin. apply NoDup_remove_2 in Hnd. apply Hnd. apply in_or_app. left. exact Hin. }
      rewrite (index_app_notin x pre _ Hnx), index_head.
      assert (Hlt := index_in_lt d pre (x :: r) (Hy d Hd)). lia.
    - specialize (IH (pre ++ [y])). rewrite <- app_assoc in IH. cbn [app] in IH.
      exact (IH Hr Hnd x d Hx Hd).
  Qed.

  (** no dependency of an element is that element or a later one *)
  Fixpoint nodep_after (l : list nat) : Prop :=
    match l with [] => True | x :: r => (forall d, In d (deps x) -> ~ In d (x :: r)) /\ nodep_after r end.

  Lemma index_nodep_after l : forall pre, NoDup (pre ++ l) ->
    (forall x d, In x l -> In d (deps x) -> index_of d (pre ++ l) < index_of x (pre ++ l)) ->
    nodep_after l.
  Proof.
    induction l as [|y r IH]; intros pre Hnd H; cbn [nodep_after]; [exact I|]. split.
    - intros d Hd Hin.
      assert (Hny : ~ In y pre).
      { intros Hp. apply NoDup_remove_2 in Hnd. apply Hnd. apply in_or_app. left. exact Hp. }
      assert (Hnd' : ~ In d pre).
      { intros Hp. destruct Hin as [<-|Hin]; [exact (Hny Hp)|].
        rewrite <- (app_nil_l (y :: r)) in Hnd. rewrite app_assoc in Hnd.
        clear - Hnd Hp Hin. induction pre as [|a pre IHp]; [destruct Hp|].
        cbn [app] in Hnd. inversion Hnd as [|? ? Ha Hrest]; subst. destruct Hp as [->|Hp].
        - apply Ha. rewrite app_nil_r. apply in_or_app. right. right. exact Hin.
        - exact (IHp Hrest Hp). }
      specialize (H y d (or_introl eq_refl) Hd).
      rewrite (index_app_notin d pre _ Hnd'), (index_app_notin y pre _ Hny), index_head in H. lia.
    - apply (IH (pre ++ [y])); rewrite <- app_assoc; cbn [app]; [exact Hnd|].
      intros x d Hx Hd. apply H; [right; exact Hx | exact Hd].
  Qed.

  (** ---- the DFS ------------------------------------------------------------------------------- *)
  Definition unseen (seen : list nat) : list nat := filter (fun x => negb (mem x seen)) jobs.

  Lemma unseen_mono seen seen' : incl seen seen' -> length (unseen seen') <= length (unseen seen).
  Proof.
    intros H. apply filter_length_le. intros x _ Hx.
    apply negb_true_iff in Hx. apply negb_true_iff. apply mem_false in Hx. apply mem_false.
    intros Hin. apply Hx. apply H. exact Hin.
  Qed.

  Lemma unseen_lt j seen : In j jobs -> ~ In j seen -> length (unseen (j :: seen)) < length (unseen seen).
  Proof.
    intros Hj Hn. apply (filter_length_lt _ _ jobs j).
    - intros y _ Hy. apply negb_true_iff in Hy. apply negb_true_iff. apply mem_false in Hy. apply mem_false.
      intros Hin. apply Hy. right. exact Hin.
    - exact Hj.
    - apply negb_true_iff. apply mem_false. exact Hn.
    - apply negb_false_iff. apply mem_In. left. reflexivity.
  Qed.

  Variable rank : nat -> nat.
  Definition ranked : Prop := forall j d, In j jobs -> In d (deps j) -> rank d < rank j.

  (** every "gray" job (seen, not yet numbered) ranks above j *)
  Definition gray_above (j : nat) (seen ord : list nat) : Prop :=
    forall g, In g seen -> ~ In g ord -> rank j < rank g.

  (** what a (sequence of) schedule_job call(s) on targets [ps] does to (seen, ord) *)
  Definition post (ps : list nat) (seen ord : list nat) (s' : list nat * list nat) : Prop :=
    exists new, snd s' = ord ++ new
      /\ (forall x, In x (fst s') <-> In x new \/ In x seen)
      /\ NoDup new
      /\ (forall x, In x new -> ~ In x seen /\ In x jobs)
      /\ (forall p, In p ps -> In p seen \/ In p new)
      /\ (ranked -> (forall p, In p ps -> gray_above p seen ord) -> topo_from [] ord -> topo_from [] (ord ++ new)).

  Definition visit_ok (f : nat) : Prop :=
    forall j seen ord, In j jobs -> length (unseen seen) < f -> post [j] seen ord (visit deps f j (seen, ord)).

  Lemma fold_spec f : closed -> visit_ok f ->
    forall ps seen ord, incl ps jobs -> length (unseen seen) < f ->
    post ps seen ord (fold_left (fun s p => visit deps f p s) ps (seen, ord)).
  Proof.
    intros Hcl Hv ps. induction ps as [|p ps IH]; intros seen ord Hps Hfuel; cbn [fold_left].
    - exists []. cbn [fst snd]. rewrite app_nil_r.
      split; [reflexivity|]. split; [|split; [|split; [|split]]].
      + intros x. cbn [In]. tauto.
      + constructor.
      + intros x [].
      + intros q [].
      + intros _ _ Ht. exact Ht.
    - assert (Hp : In p jobs) by (apply Hps; left; reflexivity).
      destruct (Hv p seen ord Hp Hfuel) as (new1 & E1 & S1 & N1 & F1 & T1 & R1).
      destruct (visit deps f p (seen, ord)) as [seen1 ord1] eqn:Ev. cbn [fst snd] in *.
      subst ord1.
      assert (Hinc : incl seen seen1) by (intros x Hx; apply S1; right; exact Hx).
      assert (Hfuel1 : length (unseen seen1) < f) by (pose proof (unseen_mono _ _ Hinc); lia).
      destruct (IH seen1 (ord ++ new1) (fun x Hx => Hps x (or_intror Hx)) Hfuel1)
        as (new2 & E2 & S2 & N2 & F2 & T2 & R2).
      exists (new1 ++ new2). rewrite E2, app_assoc. split; [reflexivity|]. split; [|split; [|split; [|split]]].
      + intros x. rewrite S2, S1, in_app_iff. tauto.
      + apply NoDup_app_intro; [exact N1 | exact N2 |].
        intros x H1 H2. destruct (F2 x H2) as [Hn _]. apply Hn. apply S1. left. exact H1.
      + intros x Hx. apply in_app_or in Hx. destruct Hx as [Hx|Hx]; [exact (F1 x Hx)|].
        destruct (F2 x Hx) as [Hn Hj]. split; [|exact Hj]. intros Hs. apply Hn. apply Hinc. exact Hs.
      + intros q [<-|Hq].
        * destruct (T1 p (or_introl eq_refl)) as [H|H]; [left; exact H | right; apply in_or_app; left; exact H].
        * destruct (T2 q Hq) as [H|H].
          -- apply S1 in H. destruct H as [H|H]; [right; apply in_or_app; left; exact H | left; exact H].
          -- right. apply in_or_app. right. exact H.
      + intros Hr Hg Ht. apply R2; [exact Hr| |].
        * intros q Hq g Hg1 Hg2. apply (Hg q (or_intror Hq) g).
          -- apply S1 in Hg1. destruct Hg1 as [Hg1|Hg1]; [|exact Hg1].
             exfalso. apply Hg2. apply in_or_app. right. exact Hg1.
          -- intros Ho. apply Hg2. apply in_or_app. left. exact Ho.
        * apply R1; [exact Hr | | exact Ht].
          intros q [<-|[]]. apply Hg. left. reflexivity.
  Qed.

  Lemma visit_spec : closed -> forall f, visit_ok f.
  Proof.
    intros Hcl f. induction f as [|f IH]; intros j seen ord Hj Hfuel; [lia|].
    cbn [visit fst snd].
    destruct (mem j seen) eqn:Em.
    - apply mem_In in Em. exists []. cbn [fst snd]. rewrite app_nil_r.
      split; [reflexivity|]. split; [|split; [|split; [|split]]].
      + intros x. cbn [In]. tauto.
      + constructor.
      + intros x [].
      + intros q [<-|[]]. left. exact Em.
      + intros _ _ Ht. exact Ht.
    - apply mem_false in Em.
      assert (Hfuel' : length (unseen (j :: seen)) < f) by (pose proof (unseen_lt j seen Hj Em); lia).
      assert (Hdeps : incl (deps j) jobs) by (intros d Hd; exact (Hcl j d Hj Hd)).
      destruct (fold_spec f Hcl IH (deps j) (j :: seen) ord Hdeps Hfuel') as (new & E & S & N & F & T & R).
      destruct (fold_left (fun s p => visit deps f p s) (deps j) (j :: seen, ord)) as [seen1 ord1].
      cbn [fst snd] in *. subst ord1.
      exists (new ++ [j]). rewrite app_assoc. split; [reflexivity|]. split; [|split; [|split; [|split]]].
      + intros x. rewrite S, in_app_iff. cbn [In]. intuition.
      + apply NoDup_app_intro; [exact N | repeat constructor; intros [] |].
        intros x Hx [<-|[]]. destruct (F j Hx) as [Hn _]. apply Hn. left. reflexivity.
      + intros x Hx. apply in_app_or in Hx. destruct Hx as [Hx|[<-|[]]].
        * destruct (F x Hx) as [Hn Hjb]. split; [|exact Hjb]. intros Hs. apply Hn. right. exact Hs.
        * split; [exact Em | exact Hj].
      + intros q [<-|[]]. right. apply in_or_app. right. left. reflexivity.
      + intros Hr Hg Ht. apply topo_from_snoc. cbn [app].
        assert (Hgj : gray_above j seen ord) by (apply Hg; left; reflexivity).
        split.
        * apply R; [exact Hr | | exact Ht].
          intros p Hp g Hg1 Hg2. specialize (Hr j p Hj Hp).
          destruct Hg1 as [<-|Hg1]; [exact Hr|].
          specialize (Hgj g Hg1 Hg2). lia.
        * intros p Hp. specialize (Hr j p Hj Hp).
          destruct (T p Hp) as [[<-|Hs]|Hn].
          -- lia.
          -- destruct (in_dec Nat.eq_dec p ord) as [Ho|Ho]; [apply in_or_app; left; exact Ho|].
             specialize (Hgj p Hs Ho). lia.
          -- apply in_or_app. right. exact Hn.
  Qed.

  (** the whole DFS of Batch._async_run *)
  Lemma order_spec : closed ->
    NoDup (order deps jobs) /\ (forall x, In x (order deps jobs) <-> In x jobs) /\
    (ranked -> topo_from [] (order deps jobs)).
  Proof.
    intros Hcl. unfold order, visit_all.
    assert (Hfuel : length (unseen []) < S (length jobs)).
    { unfold unseen. pose proof (filter_length_le (fun x => negb (mem x [])) (fun _ => true) jobs (fun _ _ _ => eq_refl)) as H.
      assert (E : filter (fun _ : nat => true) jobs = jobs) by (clear; induction jobs as [|a l IH]; cbn [filter]; [reflexivity | rewrite IH; reflexivity]).
      rewrite E in H. lia. }
    destruct (fold_spec _ Hcl (visit_spec Hcl _) jobs [] [] (fun x H => H) Hfuel) as (new & E & S & N & F & T & R).
    cbn [app] in E, R. rewrite E. split; [exact N|]. split.
    - intros x. split; [intros Hx; exact (proj2 (F x Hx)) | intros Hx; destruct (T x Hx) as [[]|H]; exact H].
    - intros Hr. apply R; [exact Hr | | exact I]. intros p _ g [].
  Qed.

  Lemma order_perm : closed -> NoDup jobs -> Permutation jobs (order deps jobs).
  Proof.
    intros Hcl Hnd. destruct (order_spec Hcl) as (N & S & _).
    apply NoDup_Permutation; [exact Hnd | exact N |]. intros x. symmetry. apply S.
  Qed.

  (** ---- the cycle test ------------------------------------------------------------------------ *)
  Lemma check_true_iff ord :
    check deps ord = true <-> (forall j d, In j ord -> In d (deps j) -> index_of d ord < index_of j ord).
  Proof.
    unfold check. rewrite forallb_forall. split.
    - intros H j d Hj Hd. specialize (H j Hj). rewrite forallb_forall in H. apply Nat.ltb_lt. exact (H d Hd).
    - intros H j Hj. rewrite forallb_forall. intros d Hd. apply Nat.ltb_lt. exact (H j d Hj Hd).
  Qed.

  Lemma ranked_check : closed -> ranked -> check deps (order deps jobs) = true.
  Proof.
    intros Hcl Hr. destruct (order_spec Hcl) as (N & S & T). apply check_true_iff.
    intros j d Hj Hd. exact (topo_index (order deps jobs) [] (T Hr) N j d Hj Hd).
  Qed.

  (** j transitively depends on e (non-empty path through jobs of the batch) *)
  Inductive reach : nat -> nat -> Prop :=
  | reach_one j d : In j jobs -> In d (deps j) -> reach j d
  | reach_step j d e : In j jobs -> In d (deps j) -> reach d e -> reach j e.

  Lemma reach_index ord : (forall x, In x jobs -> In x ord) -> check deps ord = true ->
    forall j e, reach j e -> index_of e ord < index_of j ord.
  Proof.
    intros Hcov Hc. rewrite check_true_iff in Hc.
    induction 1 as [j d Hj Hd | j d e Hj Hd _ IH].
    - exact (Hc j d (Hcov j Hj) Hd).
    - specialize (Hc j d (Hcov j Hj) Hd). lia.
  Qed.

  Lemma cycle_check : closed -> (exists j, reach j j) -> check deps (order deps jobs) = false.
  Proof.
    intros Hcl [j Hj]. destruct (check deps (order deps jobs)) eqn:E; [|reflexivity].
    destruct (order_spec Hcl) as (_ & S & _).
    pose proof (reach_index _ (fun x Hx => proj2 (S x) Hx) E j j Hj). lia.
  Qed.
End Proofs.

(** ---- LocalBackend job loop ----------------------------------------------------------------------- *)
Section Local.
  Variable deps : nat -> list nat.
  Variables always_run fails : nat -> bool.
  Variable all : list nat.

  Notation run := (run_local deps always_run fails all).
  Notation cc := (cancel_children deps always_run all).

  Definition bad (log : list (nat * status)) (p : nat) : Prop :=
    status_of p log = Some Failed \/ status_of p log = Some Skipped.

  Lemma cc_In y x : In y (cc x) <-> In y all /\ always_run y = false /\ In x (deps y).
  Proof.
    unfold cancel_children. rewrite filter_In, andb_true_iff, negb_true_iff, mem_In. tauto.
  Qed.

  Lemma run_fst todo : forall c, map fst (run todo c) = todo.
  Proof.
    induction todo as [|x rest IH]; intros c; cbn [run_local]; [reflexivity|].
    destruct (mem x c); [|destruct (fails x)]; cbn [map fst]; rewrite IH; reflexivity.
  Qed.

  Lemma status_notin j todo : forall c, ~ In j todo -> status_of j (run todo c) = None.
  Proof.
    induction todo as [|x rest IH]; intros c Hn; cbn [run_local]; [reflexivity|].
    assert (E : Nat.eqb j x = false) by (apply Nat.eqb_neq; intros ->; apply Hn; left; reflexivity).
    assert (Hr : ~ In j rest) by (intros H; apply Hn; right; exact H).
    destruct (mem x c); [|destruct (fails x)]; cbn [status_of]; rewrite E; apply IH; exact Hr.
  Qed.

  (** one iteration of the loop, described uniformly *)
  Lemma run_step x rest c :
    exists sx c', run (x :: rest) c = (x, sx) :: run rest c'
      /\ (sx = Skipped <-> In x c)
      /\ (sx = Failed <-> ~ In x c /\ fails x = true)
      /\ (forall y, In y c' <-> In y c \/ ((sx = Failed \/ sx = Skipped) /\ In y (cc x))).
  Proof.
    cbn [run_local]. destruct (mem x c) eqn:Em.
    - apply mem_In in Em. exists Skipped, (cc x ++ c). split; [reflexivity|]. split; [tauto|]. split.
      + split; [discriminate | intros [H _]; contradiction].
      + intros y. rewrite in_app_iff. tauto.
    - apply mem_false in Em. destruct (fails x) eqn:Ef.
      + exists Failed, (cc x ++ c). split; [reflexivity|]. split; [split; [discriminate|contradiction]|]. split.
        * tauto.
        * intros y. rewrite in_app_iff. tauto.
      + exists Ok, c. split; [reflexivity|]. split; [split; [discriminate|contradiction]|]. split.
        * split; [discriminate | intros [_ H]; discriminate].
        * intros y. split; [tauto|]. intros [H|[[H|H] _]]; [exact H | discriminate | discriminate].
  Qed.

  Lemma run_skip_spec todo : forall c, NoDup todo -> nodep_after deps todo -> incl todo all ->
    forall j, In j todo ->
      (status_of j (run todo c) = Some Skipped <->
       In j c \/ (always_run j = false /\ exists p, In p (deps j) /\ In p todo /\ bad (run todo c) p)).
  Proof.
    induction todo as [|x rest IH]; intros c Hnd Hna Hall j Hj; [destruct Hj|].
    inversion Hnd as [|? ? Hx Hnd']; subst. cbn [nodep_after] in Hna. destruct Hna as [Hxd Hna'].
    assert (Hall' : incl rest all) by (intros y Hy; apply Hall; right; exact Hy).
    destruct (run_step x rest c) as (sx & c' & E & Hsk & _ & Hc'). rewrite E.
    assert (Hbadx : bad ((x, sx) :: run rest c') x <-> (sx = Failed \/ sx = Skipped)).
    { unfold bad. cbn [status_of]. rewrite Nat.eqb_refl. split; intros [H|H]; [left|right|left|right]; congruence. }
    assert (Hbadr : forall p, In p rest -> (bad ((x, sx) :: run rest c') p <-> bad (run rest c') p)).
    { intros p Hp. unfold bad. cbn [status_of].
      assert (Nat.eqb p x = false) as -> by (apply Nat.eqb_neq; intros ->; exact (Hx Hp)). tauto. }
    destruct Hj as [<-|Hj].
    - cbn [status_of]. rewrite Nat.eqb_refl. split.
      + intros H. left. apply Hsk. congruence.
      + intros [H|(_ & p & Hp & Hin & _)]; [f_equal; apply Hsk; exact H|].
        exfalso. exact (Hxd p Hp Hin).
    - assert (Hne : Nat.eqb j x = false) by (apply Nat.eqb_neq; intros ->; exact (Hx Hj)).
      cbn [status_of]. rewrite Hne. rewrite (IH c' Hnd' Hna' Hall' j Hj). rewrite Hc', cc_In. split.
      + intros [[H|(Hb & _ & Ha & Hd)]|(Ha & p & Hp & Hin & Hb)].
        * left. exact H.
        * right. split; [exact Ha|]. exists x. split; [exact Hd|]. split; [left; reflexivity|]. apply Hbadx. exact Hb.
        * right. split; [exact Ha|]. exists p. split; [exact Hp|]. split; [right; exact Hin|]. apply Hbadr; assumption.
      + intros [H|(Ha & p & Hp & [<-|Hin] & Hb)].
        * left. left. exact H.
        * left. right. split; [apply Hbadx; exact Hb|]. split; [apply Hall; right; exact Hj|]. split; assumption.
        * right. split; [exact Ha|]. exists p. split; [exact Hp|]. split; [exact Hin|]. apply Hbadr; assumption.
  Qed.

  Lemma run_failed_spec todo : forall c, NoDup todo -> forall j, In j todo ->
      (status_of j (run todo c) = Some Failed <-> status_of j (run todo c) <> Some Skipped /\ fails j = true)
   /\ (status_of j (run todo c) = Some Ok <-> status_of j (run todo c) <> Some Skipped /\ fails j = false).
  Proof.
    induction todo as [|x rest IH]; intros c Hnd j Hj; [destruct Hj|].
    inversion Hnd as [|? ? Hx Hnd']; subst.
    destruct Hj as [<-|Hj].
    - clear IH. cbn [run_local]. destruct (mem x c) eqn:Em; [|destruct (fails x) eqn:Ef]; cbn [status_of]; rewrite Nat.eqb_refl;
        (split; (split; [intros H; first [discriminate H | (split; [discriminate | congruence])] | intros [H1 H2]; congruence])).
    - assert (Hne : Nat.eqb j x = false) by (apply Nat.eqb_neq; intros ->; exact (Hx Hj)).
      cbn [run_local]. destruct (mem x c); [|destruct (fails x)]; cbn [status_of]; rewrite Hne; apply IH; assumption.
  Qed.
End Local.

(** ---- the statements of Props_C17 ----------------------------------------------------------------- *)
Section Top.
  Variable deps : nat -> list nat.
  Variables always_run fails : nat -> bool.
  Variable jobs : list nat.
  Notation brun := (batch_run deps always_run fails jobs).

  Lemma numbering_perm : NoDup jobs -> closed deps jobs -> Permutation jobs (order deps jobs).
  Proof. intros Hnd Hcl. exact (order_perm deps jobs (fun _ => 0) Hcl Hnd). Qed.

  Lemma ran_inv ord log : brun = Ran ord log ->
    ord = order deps jobs /\ check deps ord = true /\ log = run_local deps always_run fails ord ord [].
  Proof.
    unfold batch_run. destruct (check deps (order deps jobs)) eqn:E; [|discriminate].
    intros H. inversion H; subst. auto.
  Qed.

  Lemma accepted_sound ord log : closed deps jobs -> brun = Ran ord log ->
    (forall j d, In j jobs -> In d (deps j) -> index_of d ord < index_of j ord) /\ map fst log = ord.
  Proof.
    intros Hcl H. destruct (ran_inv ord log H) as (Eo & Ec & El). split.
    - rewrite check_true_iff in Ec. intros j d Hj Hd. apply Ec; [|exact Hd].
      rewrite Eo. destruct (order_spec deps jobs (fun _ => 0) Hcl) as (_ & S & _). apply S. exact Hj.
    - rewrite El. apply run_fst.
  Qed.

  Lemma dag_accepted (rank : nat -> nat) : closed deps jobs -> ranked deps jobs rank ->
    exists log, brun = Ran (order deps jobs) log.
  Proof.
    intros Hcl Hr. unfold batch_run. rewrite (ranked_check deps jobs rank Hcl Hr). eexists. reflexivity.
  Qed.

  Lemma topological (rank : nat -> nat) : closed deps jobs -> ranked deps jobs rank ->
    exists log, brun = Ran (order deps jobs) log /\ map fst log = order deps jobs /\
      (forall j d, In j jobs -> In d (deps j) -> index_of d (order deps jobs) < index_of j (order deps jobs)).
  Proof.
    intros Hcl Hr. destruct (dag_accepted rank Hcl Hr) as [log E]. exists log. split; [exact E|].
    destruct (accepted_sound _ _ Hcl E) as [H1 H2]. split; assumption.
  Qed.

  Lemma cycle_rejected : closed deps jobs -> (exists j, reach deps jobs j j) -> brun = Rejected.
  Proof. intros Hcl Hc. unfold batch_run. rewrite (cycle_check deps jobs (fun _ => 0) Hcl Hc). reflexivity. Qed.

  Lemma skip_exact ord log : closed deps jobs -> brun = Ran ord log ->
    forall j, In j jobs ->
      (status_of j log = Some Skipped <->
         always_run j = false /\ exists p, In p (deps j) /\ (status_of p log = Some Failed \/ status_of p log = Some Skipped))
   /\ (status_of j log = Some Failed <-> status_of j log <> Some Skipped /\ fails j = true)
   /\ (status_of j log = Some Ok <-> status_of j log <> Some Skipped /\ fails j = false).
  Proof.
    intros Hcl H j Hj. destruct (ran_inv ord log H) as (Eo & Ec & El).
    destruct (order_spec deps jobs (fun _ => 0) Hcl) as (N & S & _). rewrite <- Eo in N, S.
    assert (Hjo : In j ord) by (apply S; exact Hj).
    assert (Hna : nodep_after deps ord).
    { apply (index_nodep_after deps ord []); [exact N|]. apply check_true_iff. exact Ec. }
    split.
    - rewrite El. rewrite (run_skip_spec deps always_run fails ord ord [] N Hna (fun x Hx => Hx) j Hjo).
      split.
      + intros [[]|(Ha & p & Hp & _ & Hb)]. split; [exact Ha|]. exists p. split; [exact Hp | exact Hb].
      + intros (Ha & p & Hp & Hb). right. split; [exact Ha|]. exists p. split; [exact Hp|]. split; [|exact Hb].
        apply S. exact (Hcl j p Hj Hp).
    - rewrite El. exact (run_failed_spec deps always_run fails ord ord [] N j Hjo).
  Qed.
End Top.

(** The hypotheses are satisfiable: a diamond created "backwards" (job 0 depends on 1 and 2, which depend on 3),
    job 3 fails, job 2 is always_run; and a 2-cycle. *)
Definition ex_deps (j : nat) : list nat := nth j [[1; 2]; [3]; [3]; []] [].
Example ex_dag_ranked : closed ex_deps [0; 1; 2; 3] /\ ranked ex_deps [0; 1; 2; 3] (fun j => 3 - j) /\ NoDup [0; 1; 2; 3].
Proof.
  split; [|split].
  - intros j d Hj Hd. cbn in Hj. destruct Hj as [<-|[<-|[<-|[<-|[]]]]]; cbn in Hd; cbn; tauto.
  - intros j d Hj Hd. cbn in Hj. destruct Hj as [<-|[<-|[<-|[<-|[]]]]]; cbn in Hd;
      repeat (destruct Hd as [<-|Hd]; [cbn; lia|]); destruct Hd.
  - repeat constructor; cbn; intuition lia.
Qed.
Example ex_dag_run :
  batch_run ex_deps (fun j => Nat.eqb j 2) (fun j => Nat.eqb j 3) [0; 1; 2; 3]
  = Ran [3; 1; 2; 0] [(3, Failed); (1, Skipped); (2, Ok); (0, Skipped)].
Proof. vm_compute. reflexivity. Qed.
Example ex_cycle : reach (fun j => nth j [[1]; [0]] []) [0; 1] 0 0 /\
  batch_run (fun j => nth j [[1]; [0]] []) (fun _ => false) (fun _ => false) [0; 1] = Rejected.
Proof.
  split; [|vm_compute; reflexivity].
  apply (reach_step _ _ 0 1 0); [left; reflexivity | left; reflexivity |].
  apply reach_one; [right; left; reflexivity | left; reflexivity].
Qed.
