(** C17 — property theorems only (hailtop.batch: Batch._async_run ordering + cycle test, LocalBackend job loop).

    Vocabulary.  [jobs] = the batch's jobs in creation order (any order); [deps j] = j's dependency set in
    whatever order Python iterates it, explicit ([depends_on]) and resource-induced alike; [closed] = every
    dependency is a job of the batch.  A pipeline is DAG-shaped when it admits a topological ranking
    ([ranked deps jobs rank]: every dependency ranks strictly below its dependant) and cyclic when some job
    reaches itself along a non-empty dependency path ([reach j j]).  [index_of j ord + 1] is the job id. *)
From HailV Require Import Common.Prelude DslOrder.Model DslOrder.Lemmas.
From Coq Require Import Permutation.

(** The numbering covers every job exactly once, for EVERY dependency graph. *)
Theorem C17_numbering_is_permutation : forall (deps : nat -> list nat) (jobs : list nat),
  NoDup jobs -> closed deps jobs -> Permutation jobs (order deps jobs).
Proof. exact numbering_perm. Qed.
Print Assumptions C17_numbering_is_permutation.

(** Every DAG-shaped pipeline, whatever the creation order, the set-iteration order, the always_run flags and
    the failing commands, is accepted; jobs are processed in numbering order; every dependency is numbered
    before its dependant. *)
Theorem C17_topological : forall (deps : nat -> list nat) (always_run fails : nat -> bool) (jobs : list nat) (rank : nat -> nat),
  closed deps jobs -> ranked deps jobs rank ->
  exists log, batch_run deps always_run fails jobs = Ran (order deps jobs) log /\ map fst log = order deps jobs /\
    (forall j d, In j jobs -> In d (deps j) -> index_of d (order deps jobs) < index_of j (order deps jobs)).
Proof. exact topological. Qed.
Print Assumptions C17_topological.

(** Whenever a run is accepted at all, the numbering respects every dependency (all graphs). *)
Theorem C17_accepted_respects_dependencies : forall (deps : nat -> list nat) (always_run fails : nat -> bool) (jobs ord : list nat) log,
  closed deps jobs -> batch_run deps always_run fails jobs = Ran ord log ->
  (forall j d, In j jobs -> In d (deps j) -> index_of d ord < index_of j ord) /\ map fst log = ord.
Proof. exact accepted_sound. Qed.
Print Assumptions C17_accepted_respects_dependencies.

(** Every cyclic pipeline is rejected (and [Rejected] carries no execution log: nothing has run). *)
Theorem C17_cycle_rejected : forall (deps : nat -> list nat) (always_run fails : nat -> bool) (jobs : list nat),
  closed deps jobs -> (exists j, reach deps jobs j j) -> batch_run deps always_run fails jobs = Rejected.
Proof. exact cycle_rejected. Qed.
Print Assumptions C17_cycle_rejected.

(** The local backend skips exactly the non-always-run jobs with a failed or skipped parent (the inductive
    closure of "depends on a failed or skipped job"); every other job runs, and fails iff its command fails. *)
Theorem C17_skip_exact : forall (deps : nat -> list nat) (always_run fails : nat -> bool) (jobs ord : list nat) log,
  closed deps jobs -> batch_run deps always_run fails jobs = Ran ord log ->
  forall j, In j jobs ->
      (status_of j log = Some Skipped <->
         always_run j = false /\ exists p, In p (deps j) /\ (status_of p log = Some Failed \/ status_of p log = Some Skipped))
   /\ (status_of j log = Some Failed <-> status_of j log <> Some Skipped /\ fails j = true)
   /\ (status_of j log = Some Ok <-> status_of j log <> Some Skipped /\ fails j = false).
Proof. exact skip_exact. Qed.
Print Assumptions C17_skip_exact.
