(** Model of hail/python/hailtop/aiotools/weighted_semaphore.py::WeightedSemaphore (the copy tool's transfer
    semaphore) WITH the cancellation fix of fixes/C40.diff, driven by jobs

        async with sem.acquire_manager(n):      # _AcquireManager.__aenter__ / __aexit__
            await gate.wait()                   # the body; may end normally, by an error, or by cancellation

    at the granularity of asyncio callbacks.  Executable definitions only.

    State: [value] = self.value; [events] = self.events (a SortedKeyList keyed by weight: smallest first, equal
    weights in insertion order) as (weight, job id); [jobs] = per job its weight and where its coroutine stands;
    [ready] = the event loop's ready queue (each live job has at most one callback in it).

    Actions (one constructor per harness action):
      Spawn n      create_task(job): the task's first step is appended to the ready queue;
      Exit i err   the body of job i (which must be inside it) finishes, normally or by raising: the gate is set,
                   the job's wake-up is appended to the ready queue;
      Cancel i     task_i.cancel(): a task waiting on a pending future has that future cancelled and its wake-up
                   scheduled; a task whose wake-up (or first step) is already scheduled is only marked
                   (Task._must_cancel): CancelledError is thrown into it when it runs;
      Tick         the event loop runs ONE callback, the head of the ready queue.
    Everything that happens inside one callback ([acquire] up to its await, [release] with its loop, the
    [except] handler of the fix, [__aexit__]) is atomic under asyncio, so every execution is a list of these actions. *)
From HailV Require Import Common.Prelude.
Open Scope Z_scope.

Inductive outcome := Ok | Err | Canc.

Inductive status :=
  | New                    (* task created, first step scheduled *)
  | NewC                   (* ... and cancelled before it ever ran *)
  | Queued                 (* inside acquire: entry in self.events, awaiting event.wait() *)
  | QueuedC                (* cancelled while queued: entry STILL in self.events, wake-up (CancelledError) scheduled *)
  | Granted                (* release() popped the entry, took the weight and set the event; wake-up scheduled *)
  | GrantedC               (* granted AND cancelled (in either order), wake-up scheduled: the handler will give the weight back *)
  | Holding                (* inside the body *)
  | Leaving (o : outcome)  (* body finished / cancelled, wake-up scheduled: __aexit__ will release *)
  | Done (o : outcome).

Definition waiting (st : status) : bool := match st with Queued | QueuedC => true | _ => false end.
Definition holds (st : status) : bool :=
  match st with Granted | GrantedC | Holding | Leaving _ => true | _ => false end.
Definition pending (st : status) : bool :=
  match st with New | NewC | QueuedC | Granted | GrantedC | Leaving _ => true | _ => false end.
Definition is_holding (st : status) : bool := match st with Holding => true | _ => false end.

Notation job := (Z * status)%type (only parsing).
Notation ev := (Z * nat)%type (only parsing).

Record state := mk {
  value  : Z;
  events : list ev;
  jobs   : list job;
  ready  : list nat
}.

Definition init (maxv : Z) : state := mk maxv [] [] [].

Inductive action := Spawn (n : Z) | Exit (i : nat) (err : bool) | Cancel (i : nat) | Tick.

Fixpoint setst (i : nat) (st : status) (l : list job) : list job :=
  match l, i with
  | [], _ => []
  | (n, _) :: r, O => (n, st) :: r
  | x :: r, S k => x :: setst k st r
  end.

(** SortedKeyList.add: after every entry whose key is <= the new key (bisect_right). *)
Fixpoint insert (e : ev) (l : list ev) : list ev :=
  match l with
  | [] => [e]
  | x :: r => if fst x <=? fst e then x :: insert e r else e :: l
  end.

(** SortedKeyList.remove of the entry of job i. *)
Fixpoint remove_ev (i : nat) (l : list ev) : list ev :=
  match l with
  | [] => []
  | x :: r => if Nat.eqb (snd x) i then r else x :: remove_ev i r
  end.

Definition status_of (i : nat) (js : list job) : option status :=
  match nth_error js i with Some (_, st) => Some st | None => None end.

(** The [while self.events] loop of [release]. *)
Fixpoint grant_loop (v : Z) (evs : list ev) (js : list job) (rdy : list nat) : state :=
  match evs with
  | [] => mk v [] js rdy
  | (n, j) :: r =>
      if n <=? v
      then match status_of j js with
           | Some QueuedC => grant_loop (v - n) r (setst j GrantedC js) rdy         (* future already cancelled: no new callback *)
           | Some Queued  => grant_loop (v - n) r (setst j Granted js) (rdy ++ [j]) (* event.set() schedules the waiter *)
           | _            => grant_loop (v - n) r js rdy   (* unreachable: an entry always belongs to a queued job (Lemmas.i_ev) *)
           end
      else mk v evs js rdy
  end.

(** [self.release(n)] *)
Definition release (n : Z) (s : state) : state := grant_loop (value s + n) (events s) (jobs s) (ready s).

Definition out_of (err : bool) : outcome := if err then Err else Ok.

Definition tick (maxv : Z) (s : state) : state :=
  match ready s with
  | [] => s
  | i :: rdy =>
      match nth_error (jobs s) i with
      | None => mk (value s) (events s) (jobs s) rdy
      | Some (n, st) =>
          match st with
          | New =>
              if negb (n <=? maxv) then mk (value s) (events s) (setst i (Done Err) (jobs s)) rdy   (* assert n <= self.max *)
              else if n <=? value s then mk (value s - n) (events s) (setst i Holding (jobs s)) rdy
              else mk (value s) (insert (n, i) (events s)) (setst i Queued (jobs s)) rdy
          | NewC => mk (value s) (events s) (setst i (Done Canc) (jobs s)) rdy
          | QueuedC =>                                                                              (* fix: self.events.remove(entry) *)
              mk (value s) (remove_ev i (events s)) (setst i (Done Canc) (jobs s)) rdy
          | Granted => mk (value s) (events s) (setst i Holding (jobs s)) rdy
          | GrantedC =>                                                                             (* fix: self.release(n) *)
              release n (mk (value s) (events s) (setst i (Done Canc) (jobs s)) rdy)
          | Leaving o =>                                                                            (* __aexit__: self._ws.release(self._n) *)
              release n (mk (value s) (events s) (setst i (Done o) (jobs s)) rdy)
          | Queued | Holding | Done _ => mk (value s) (events s) (jobs s) rdy
          end
      end
  end.

Definition cancel (i : nat) (s : state) : state :=
  match status_of i (jobs s) with
  | Some New => mk (value s) (events s) (setst i NewC (jobs s)) (ready s)
  | Some Queued => mk (value s) (events s) (setst i QueuedC (jobs s)) (ready s ++ [i])
  | Some Granted => mk (value s) (events s) (setst i GrantedC (jobs s)) (ready s)
  | Some Holding => mk (value s) (events s) (setst i (Leaving Canc) (jobs s)) (ready s ++ [i])
  | Some (Leaving _) => mk (value s) (events s) (setst i (Leaving Canc) (jobs s)) (ready s)
  | _ => s
  end.

Definition step (maxv : Z) (s : state) (a : action) : state :=
  match a with
  | Spawn n => mk (value s) (events s) (jobs s ++ [(n, New)]) (ready s ++ [length (jobs s)])
  | Exit i err =>
      match status_of i (jobs s) with
      | Some Holding => mk (value s) (events s) (setst i (Leaving (out_of err)) (jobs s)) (ready s ++ [i])
      | _ => s
      end
  | Cancel i => cancel i s
  | Tick => tick maxv s
  end.

Definition run (maxv : Z) (acts : list action) : state := fold_left (step maxv) acts (init maxv).

Definition hw (j : job) : Z := if holds (snd j) then fst j else 0.
Definition hsum (js : list job) : Z := zsum hw js.
Definition body_sum (js : list job) : Z := zsum (fun j : job => if is_holding (snd j) then fst j else 0) js.
Definition spawn_weights (acts : list action) : list Z :=
  flat_map (fun a => match a with Spawn n => [n] | _ => [] end) acts.

(** Observable trace for the correspondence: the state after every action. *)
Fixpoint trace (maxv : Z) (s : state) (acts : list action) : list state :=
  match acts with
  | [] => []
  | a :: r => let s' := step maxv s a in s' :: trace maxv s' r
  end.

(** Compact fingerprint of a trace (correspondence only: printing every state of every schedule is what costs time;
    the Python side computes the same fingerprint from the implementation's observations, and a schedule whose
    fingerprints differ is re-evaluated in full to locate the first differing state). *)
Definition enc_status (st : status) : Z :=
  match st with
  | New => 1 | NewC => 2 | Queued => 3 | QueuedC => 4 | Granted => 5 | GrantedC => 6 | Holding => 7
  | Leaving Ok => 8 | Leaving Err => 9 | Leaving Canc => 10
  | Done Ok => 11 | Done Err => 12 | Done Canc => 13
  end.
Definition enc_state (s : state) : list Z :=
  value s :: Z.of_nat (length (events s))
  :: flat_map (fun e : ev => [fst e; Z.of_nat (snd e)]) (events s)
  ++ Z.of_nat (length (jobs s)) :: flat_map (fun j : job => [fst j; enc_status (snd j)]) (jobs s)
  ++ Z.of_nat (length (ready s)) :: map Z.of_nat (ready s).
Definition hmix (h x : Z) : Z := Z.land (h * 131 + x + 7) 2305843009213693951.   (* 2^61 - 1 as a bit mask *)
Definition fingerprint (maxv : Z) (acts : list action) : Z :=
  fold_left (fun h s => fold_left hmix (enc_state s) h) (trace maxv (init maxv) acts) 7.

(** Compact schedule encoding (correspondence only: a list literal with notations costs Coq milliseconds per action to
    parse, one numeral nothing).  A schedule of [k] actions is one number in base 2^20, least significant digit first;
    digit = kind + 8 * arg with kind 1 = Tick, 2 = Spawn arg, 3 = Exit arg false, 4 = Exit arg true, 5 = Cancel arg.
    A wrong decoding would show up as a disagreement with the implementation, never hide one. *)
Definition decode_action (d : Z) : action :=
  let k := d mod 8 in let a := d / 8 in
  if k =? 2 then Spawn a else if k =? 3 then Exit (Z.to_nat a) false else if k =? 4 then Exit (Z.to_nat a) true
  else if k =? 5 then Cancel (Z.to_nat a) else Tick.
Fixpoint decode (k : nat) (z : Z) : list action :=
  match k with
  | O => []
  | S m => decode_action (Z.land z 1048575) :: decode m (Z.shiftr z 20)
  end.
