(** C40: invariants of the (fixed) weighted-semaphore model, by induction over arbitrary action lists,
    cancellation allowed at every point. *)
From Coq Require Import Permutation Sorted.
From HailV Require Import Common.Prelude SemWeighted.Model.
Open Scope Z_scope.

(** * Lists of jobs *)
Lemma setst_length i st : forall l, length (setst i st l) = length l.
Proof.
  revert i; fix IH 2. intros i [|[n s0] r]; [destruct i; reflexivity|].
  destruct i; cbn [setst length]; [reflexivity | now rewrite IH].
Qed.

Lemma nth_setst_eq st : forall l i n st0,
  nth_error l i = Some (n, st0) -> nth_error (setst i st l) i = Some (n, st).
Proof.
  induction l as [|[m s0] r IH]; intros [|i] n st0 H; cbn in *; try discriminate.
  - now inversion H.
  - now apply IH with st0.
Qed.

Lemma nth_setst_ne st : forall l i j, i <> j -> nth_error (setst i st l) j = nth_error l j.
Proof.
  induction l as [|[m s0] r IH]; intros [|i] [|j] H; cbn; try reflexivity; try congruence.
  apply IH; congruence.
Qed.

Lemma nth_setst_inv st l i j n' st' :
  nth_error (setst i st l) j = Some (n', st') ->
  (j = i /\ st' = st /\ exists st0, nth_error l i = Some (n', st0)) \/ (j <> i /\ nth_error l j = Some (n', st')).
Proof.
  intros H. destruct (Nat.eq_dec j i) as [->|Hne].
  - left. destruct (nth_error l i) as [[m s0]|] eqn:E.
    + rewrite (nth_setst_eq st _ _ _ _ E) in H. inversion H; subst. repeat split; eauto.
    + exfalso. assert (L : (length (setst i st l) <= i)%nat) by (rewrite setst_length; now apply nth_error_None).
      apply nth_error_None in L. congruence.
  - right. split; [exact Hne|]. rewrite nth_setst_ne in H by congruence. exact H.
Qed.

Lemma hsum_setst st : forall l i n st0,
  nth_error l i = Some (n, st0) -> hsum (setst i st l) = hsum l - hw (n, st0) + hw (n, st).
Proof.
  unfold hsum. induction l as [|[m s0] r IH]; intros [|i] n st0 H; cbn [nth_error] in H; try discriminate.
  - inversion H; subst. cbn [setst zsum]. lia.
  - cbn [setst zsum]. rewrite (IH _ _ _ H). lia.
Qed.

Lemma nth_snoc_inv {A} (l : list A) x j y :
  nth_error (l ++ [x]) j = Some y -> nth_error l j = Some y \/ (j = length l /\ y = x).
Proof.
  intros H. destruct (Nat.lt_ge_cases j (length l)) as [Hl|Hl].
  - left. now rewrite nth_error_app1 in H.
  - right. rewrite nth_error_app2 in H by lia.
    destruct (j - length l)%nat as [|k] eqn:E; cbn in H.
    + inversion H; split; [lia | reflexivity].
    + destruct k; discriminate.
Qed.

Lemma nth_snoc_old {A} (l : list A) x j y : nth_error l j = Some y -> nth_error (l ++ [x]) j = Some y.
Proof. intros H. rewrite nth_error_app1; [exact H | apply nth_error_Some; congruence]. Qed.

Lemma status_of_some i js st : status_of i js = Some st -> exists n, nth_error js i = Some (n, st).
Proof. unfold status_of. destruct (nth_error js i) as [[n s0]|]; intros H; inversion H; eauto. Qed.

Lemma status_of_nth i js n st : nth_error js i = Some (n, st) -> status_of i js = Some st.
Proof. unfold status_of; now intros ->. Qed.

(** * The events list *)
Lemma insert_perm e : forall l, Permutation (insert e l) (e :: l).
Proof.
  induction l as [|x r IH]; cbn [insert]; [reflexivity|].
  destruct (fst x <=? fst e); [|reflexivity].
  rewrite IH. apply perm_swap.
Qed.

Lemma in_insert e l x : In x (insert e l) <-> x = e \/ In x l.
Proof.
  split; intros H.
  - apply (Permutation_in _ (insert_perm e l)) in H. destruct H; [left; congruence | now right].
  - apply (Permutation_in _ (Permutation_sym (insert_perm e l))). destruct H; [left; congruence | now right].
Qed.

Lemma Forall_insert (P : Z * nat -> Prop) e l : P e -> Forall P l -> Forall P (insert e l).
Proof.
  intros He Hl. apply Forall_forall. intros x Hx. apply in_insert in Hx. destruct Hx as [->|Hx]; [exact He|].
  rewrite Forall_forall in Hl. now apply Hl.
Qed.

Lemma remove_ev_incl i : forall l e, In e (remove_ev i l) -> In e l.
Proof.
  induction l as [|x r IH]; intros e H; cbn [remove_ev] in H; [contradiction|].
  destruct (Nat.eqb (snd x) i); [now right|]. destruct H as [H|H]; [now left | right; now apply IH].
Qed.

Lemma remove_ev_keeps i : forall l n j, In (n, j) l -> j <> i -> In (n, j) (remove_ev i l).
Proof.
  induction l as [|x r IH]; intros n j H Hne; [contradiction|]. cbn [remove_ev].
  destruct (Nat.eqb (snd x) i) eqn:E.
  - destruct H as [H|H]; [|exact H]. subst x. cbn [snd] in E. apply Nat.eqb_eq in E. congruence.
  - destruct H as [H|H]; [now left | right; now apply IH].
Qed.

Lemma remove_ev_nodup i : forall l, NoDup (map snd l) -> NoDup (map snd (remove_ev i l)).
Proof.
  induction l as [|x r IH]; intros H; cbn [remove_ev map] in *; [constructor|].
  inversion H as [|? ? Hx Hr]; subst.
  destruct (Nat.eqb (snd x) i); [exact Hr|]. cbn [map]. constructor; [|now apply IH].
  intros Hin. apply Hx. apply in_map_iff in Hin. destruct Hin as [e [He Hin]]. apply in_map_iff. exists e. split; [exact He|].
  eapply remove_ev_incl; eassumption.
Qed.

Lemma remove_ev_gone i : forall l n j, NoDup (map snd l) -> In (n, j) (remove_ev i l) -> j <> i.
Proof.
  induction l as [|x r IH]; intros n j Hnd H; cbn [remove_ev] in H; [contradiction|].
  cbn [map] in Hnd. inversion Hnd as [|? ? Hx Hr]; subst.
  destruct (Nat.eqb (snd x) i) eqn:E.
  - apply Nat.eqb_eq in E. intros ->. apply Hx. rewrite E. apply in_map_iff. exists (n, i). now split.
  - destruct H as [H|H].
    + subst x. cbn [snd] in E. now apply Nat.eqb_neq in E.
    + now apply IH with n.
Qed.

Lemma Forall_remove_ev (P : Z * nat -> Prop) i l : Forall P l -> Forall P (remove_ev i l).
Proof.
  intros H. apply Forall_forall. intros x Hx. rewrite Forall_forall in H. apply H. eapply remove_ev_incl; eassumption.
Qed.

(** * The main invariant *)
Record Inv (maxv : Z) (s : state) : Prop := {
  i_cons  : value s + hsum (jobs s) = maxv;
  i_nodup : NoDup (map snd (events s));
  i_ev    : forall n j, In (n, j) (events s) -> exists st, nth_error (jobs s) j = Some (n, st) /\ waiting st = true;
  i_wait  : forall j n st, nth_error (jobs s) j = Some (n, st) -> waiting st = true -> In (n, j) (events s);
  i_pend  : forall j n st, nth_error (jobs s) j = Some (n, st) -> pending st = true -> In j (ready s)
}.

Lemma Inv_init maxv : Inv maxv (init maxv).
Proof.
  constructor; cbn; try lia.
  - constructor.
  - intros [|j] n st H; discriminate H.
  - intros [|j] n st H; discriminate H.
Qed.

(** One job changes its position without entering or leaving the events list. *)
Lemma Inv_chg maxv s i n st0 st1 rdy' :
  Inv maxv s ->
  nth_error (jobs s) i = Some (n, st0) ->
  waiting st1 = waiting st0 ->
  (forall j, j <> i -> In j (ready s) -> In j rdy') ->
  (pending st1 = true -> In i rdy') ->
  Inv maxv (mk (value s + hw (n, st0) - hw (n, st1)) (events s) (setst i st1 (jobs s)) rdy').
Proof.
  intros [Hc Hnd Hev Hwt Hpd] Hi Hw Hr1 Hr2. constructor; cbn [value events jobs ready].
  - rewrite (hsum_setst st1 _ _ _ _ Hi). lia.
  - exact Hnd.
  - intros m j Hin. destruct (Hev m j Hin) as [st [Hj Hwj]].
    destruct (Nat.eq_dec j i) as [->|Hne].
    + rewrite Hi in Hj. inversion Hj; subst. exists st1. split; [now apply nth_setst_eq with st | congruence].
    + exists st. split; [rewrite nth_setst_ne by congruence; exact Hj | exact Hwj].
  - intros j m st Hj Hwj. apply nth_setst_inv in Hj. destruct Hj as [[-> [-> [s0 Hs0]]] | [Hne Hj]].
    + rewrite Hi in Hs0. inversion Hs0; subst. apply Hwt with s0; [exact Hi | congruence].
    + now apply Hwt with st.
  - intros j m st Hj Hpj. apply nth_setst_inv in Hj. destruct Hj as [[-> [-> _]] | [Hne Hj]].
    + now apply Hr2.
    + apply Hr1; [exact Hne|]. now apply Hpd with m st.
Qed.

Lemma Inv_spawn maxv s n : Inv maxv s ->
  Inv maxv (mk (value s) (events s) (jobs s ++ [(n, New)]) (ready s ++ [length (jobs s)])).
Proof.
  intros [Hc Hnd Hev Hwt Hpd]. constructor; cbn [value events jobs ready].
  - unfold hsum in *. rewrite zsum_app. cbn [zsum hw holds snd fst]. lia.
  - exact Hnd.
  - intros m j Hin. destruct (Hev m j Hin) as [st [Hj Hwj]]. exists st. split; [now apply nth_snoc_old | exact Hwj].
  - intros j m st Hj Hwj. apply nth_snoc_inv in Hj. destruct Hj as [Hj | [_ Hj]].
    + now apply Hwt with st.
    + inversion Hj; subst. discriminate.
  - intros j m st Hj Hpj. apply in_or_app. apply nth_snoc_inv in Hj. destruct Hj as [Hj | [-> _]].
    + left. now apply Hpd with m st.
    + right. now left.
Qed.

(** The first step of a job that has to wait: [self.events.add((n, event))]. *)
Lemma Inv_enqueue maxv s i n rdy :
  Inv maxv s -> ready s = i :: rdy -> nth_error (jobs s) i = Some (n, New) ->
  Inv maxv (mk (value s) (insert (n, i) (events s)) (setst i Queued (jobs s)) rdy).
Proof.
  intros [Hc Hnd Hev Hwt Hpd] Hr Hi. constructor; cbn [value events jobs ready].
  - rewrite (hsum_setst Queued _ _ _ _ Hi). cbn [hw holds snd]. lia.
  - apply (Permutation_NoDup (Permutation_sym (Permutation_map snd (insert_perm (n, i) (events s))))).
    cbn [map snd]. constructor; [|exact Hnd].
    intros Hin. apply in_map_iff in Hin. destruct Hin as [[m j] [Hj Hin]]. cbn [snd] in Hj. subst j.
    destruct (Hev m i Hin) as [st [Hj Hwj]]. rewrite Hi in Hj. inversion Hj; subst. discriminate.
  - intros m j Hin. apply in_insert in Hin. destruct Hin as [Hin|Hin].
    + inversion Hin; subst. exists Queued. split; [now apply nth_setst_eq with New | reflexivity].
    + destruct (Hev m j Hin) as [st [Hj Hwj]]. exists st. split; [|exact Hwj].
      rewrite nth_setst_ne; [exact Hj|]. intros <-. rewrite Hi in Hj. inversion Hj; subst. discriminate.
  - intros j m st Hj Hwj. apply in_insert. apply nth_setst_inv in Hj. destruct Hj as [[-> [-> [s0 Hs0]]] | [Hne Hj]].
    + left. rewrite Hi in Hs0. now inversion Hs0.
    + right. now apply Hwt with st.
  - intros j m st Hj Hpj. apply nth_setst_inv in Hj. destruct Hj as [[-> [-> _]] | [Hne Hj]]; [discriminate|].
    pose proof (Hpd j m st Hj Hpj) as Hin. rewrite Hr in Hin. destruct Hin; [congruence | assumption].
Qed.

(** The handler of the fix for a waiter cancelled while still queued: [self.events.remove(entry)]. *)
Lemma Inv_dequeue maxv s i n rdy :
  Inv maxv s -> ready s = i :: rdy -> nth_error (jobs s) i = Some (n, QueuedC) ->
  Inv maxv (mk (value s) (remove_ev i (events s)) (setst i (Done Canc) (jobs s)) rdy).
Proof.
  intros [Hc Hnd Hev Hwt Hpd] Hr Hi. constructor; cbn [value events jobs ready].
  - rewrite (hsum_setst (Done Canc) _ _ _ _ Hi). cbn [hw holds snd]. lia.
  - now apply remove_ev_nodup.
  - intros m j Hin. pose proof (remove_ev_gone _ _ _ _ Hnd Hin) as Hne. apply remove_ev_incl in Hin.
    destruct (Hev m j Hin) as [st [Hj Hwj]]. exists st. split; [|exact Hwj]. rewrite nth_setst_ne by congruence. exact Hj.
  - intros j m st Hj Hwj. apply nth_setst_inv in Hj. destruct Hj as [[-> [-> _]] | [Hne Hj]]; [discriminate|].
    apply remove_ev_keeps; [now apply Hwt with st | exact Hne].
  - intros j m st Hj Hpj. apply nth_setst_inv in Hj. destruct Hj as [[-> [-> _]] | [Hne Hj]]; [discriminate|].
    pose proof (Hpd j m st Hj Hpj) as Hin. rewrite Hr in Hin. destruct Hin; [congruence | assumption].
Qed.

(** The release loop. *)
Lemma Inv_grant_loop maxv : forall evs v js rdy,
  Inv maxv (mk v evs js rdy) -> Inv maxv (grant_loop v evs js rdy).
Proof.
  induction evs as [|[n j] r IH]; intros v js rdy HI; cbn [grant_loop]; [exact HI|].
  destruct (n <=? v); [|exact HI].
  destruct HI as [Hc Hnd Hev Hwt Hpd]; cbn [value events jobs ready] in *.
  destruct (Hev n j (or_introl eq_refl)) as [st [Hj Hwj]].
  rewrite (status_of_nth _ _ _ _ Hj).
  inversion Hnd as [|? ? Hjr Hndr]; subst.
  assert (Hother : forall m k, In (m, k) r -> k <> j).
  { intros m k Hin ->. apply Hjr. apply in_map_iff. exists (m, j). now split. }
  destruct st; try discriminate; apply IH; constructor; cbn [value events jobs ready].
  (* Queued -> Granted, wake-up scheduled *)
  - rewrite (hsum_setst Granted _ _ _ _ Hj). cbn [hw holds snd fst]. lia.
  - exact Hndr.
  - intros m k Hin. destruct (Hev m k (or_intror Hin)) as [st [Hk Hwk]]. exists st. split; [|exact Hwk].
    rewrite nth_setst_ne; [exact Hk|]. intros <-. now apply (Hother m j Hin).
  - intros k m st Hk Hwk. apply nth_setst_inv in Hk. destruct Hk as [[-> [-> _]] | [Hne Hk]]; [discriminate|].
    destruct (Hwt k m st Hk Hwk) as [Heq|Hin]; [inversion Heq; congruence | exact Hin].
  - intros k m st Hk Hpk. apply in_or_app. apply nth_setst_inv in Hk. destruct Hk as [[-> [-> _]] | [Hne Hk]].
    + right; now left.
    + left. now apply Hpd with m st.
  (* QueuedC -> GrantedC, its wake-up is already scheduled *)
  - rewrite (hsum_setst GrantedC _ _ _ _ Hj). cbn [hw holds snd fst]. lia.
  - exact Hndr.
  - intros m k Hin. destruct (Hev m k (or_intror Hin)) as [st [Hk Hwk]]. exists st. split; [|exact Hwk].
    rewrite nth_setst_ne; [exact Hk|]. intros <-. now apply (Hother m j Hin).
  - intros k m st Hk Hwk. apply nth_setst_inv in Hk. destruct Hk as [[-> [-> _]] | [Hne Hk]]; [discriminate|].
    destruct (Hwt k m st Hk Hwk) as [Heq|Hin]; [inversion Heq; congruence | exact Hin].
  - intros k m st Hk Hpk. apply nth_setst_inv in Hk. destruct Hk as [[-> [-> _]] | [Hne Hk]].
    + now apply Hpd with n QueuedC.
    + now apply Hpd with m st.
Qed.

Lemma Inv_release maxv s i n st0 o rdy :
  Inv maxv s -> ready s = i :: rdy -> nth_error (jobs s) i = Some (n, st0) ->
  holds st0 = true -> waiting st0 = false ->
  Inv maxv (release n (mk (value s) (events s) (setst i (Done o) (jobs s)) rdy)).
Proof.
  intros HI Hr Hi Hh Hw. unfold release; cbn [value events jobs ready].
  apply Inv_grant_loop.
  replace (value s + n) with (value s + hw (n, st0) - hw (n, Done o))
    by (unfold hw; cbn [snd fst holds]; rewrite Hh; lia).
  apply (Inv_chg maxv s i n st0 (Done o) rdy HI Hi).
  - now rewrite Hw.
  - intros j Hne Hin. rewrite Hr in Hin. destruct Hin; [congruence | assumption].
  - discriminate.
Qed.

Lemma Inv_tick maxv s : Inv maxv s -> Inv maxv (tick maxv s).
Proof.
  intros HI. unfold tick. destruct (ready s) as [|i rdy] eqn:Hr; [exact HI|].
  assert (Hpop : forall j, j <> i -> In j (ready s) -> In j rdy).
  { intros j Hne Hin. rewrite Hr in Hin. destruct Hin; [congruence | assumption]. }
  destruct (nth_error (jobs s) i) as [[n st]|] eqn:Hi.
  2:{ destruct HI as [Hc Hnd Hev Hwt Hpd]. constructor; cbn [value events jobs ready]; try assumption.
      intros j m st Hj Hpj. apply Hpop; [congruence | now apply Hpd with m st]. }
  destruct st.
  - (* New *)
    destruct (negb (n <=? maxv)).
    + replace (value s) with (value s + hw (n, New) - hw (n, Done Err)) at 1 by (cbn; lia).
      apply (Inv_chg maxv s i n New (Done Err) rdy HI Hi); [reflexivity | exact Hpop | discriminate].
    + destruct (n <=? value s).
      * replace (value s - n) with (value s + hw (n, New) - hw (n, Holding)) by (cbn; lia).
        apply (Inv_chg maxv s i n New Holding rdy HI Hi); [reflexivity | exact Hpop | discriminate].
      * now apply Inv_enqueue.
  - (* NewC *)
    replace (value s) with (value s + hw (n, NewC) - hw (n, Done Canc)) at 1 by (cbn; lia).
    apply (Inv_chg maxv s i n NewC (Done Canc) rdy HI Hi); [reflexivity | exact Hpop | discriminate].
  - (* Queued: not in the ready queue of a reachable state *)
    destruct HI as [Hc Hnd Hev Hwt Hpd]. constructor; cbn [value events jobs ready]; try assumption.
    intros j m st Hj Hpj. apply Hpop; [|now apply Hpd with m st]. intros ->. rewrite Hi in Hj. inversion Hj; subst. discriminate.
  - (* QueuedC *) now apply Inv_dequeue with n.
  - (* Granted *)
    replace (value s) with (value s + hw (n, Granted) - hw (n, Holding)) at 1 by (cbn; lia).
    apply (Inv_chg maxv s i n Granted Holding rdy HI Hi); [reflexivity | exact Hpop | discriminate].
  - (* GrantedC *) now apply Inv_release with GrantedC.
  - (* Holding *)
    destruct HI as [Hc Hnd Hev Hwt Hpd]. constructor; cbn [value events jobs ready]; try assumption.
    intros j m st Hj Hpj. apply Hpop; [|now apply Hpd with m st]. intros ->. rewrite Hi in Hj. inversion Hj; subst. discriminate.
  - (* Leaving *) now apply Inv_release with (Leaving o).
  - (* Done *)
    destruct HI as [Hc Hnd Hev Hwt Hpd]. constructor; cbn [value events jobs ready]; try assumption.
    intros j m st Hj Hpj. apply Hpop; [|now apply Hpd with m st]. intros ->. rewrite Hi in Hj. inversion Hj; subst. discriminate.
Qed.

Lemma state_eta s : s = mk (value s) (events s) (jobs s) (ready s).
Proof. now destruct s. Qed.

Lemma Inv_same_value maxv s i n st0 st1 rdy' :
  Inv maxv s -> nth_error (jobs s) i = Some (n, st0) ->
  waiting st1 = waiting st0 -> holds st1 = holds st0 ->
  (forall j, j <> i -> In j (ready s) -> In j rdy') -> (pending st1 = true -> In i rdy') ->
  Inv maxv (mk (value s) (events s) (setst i st1 (jobs s)) rdy').
Proof.
  intros HI Hi Hw Hh H1 H2.
  replace (value s) with (value s + hw (n, st0) - hw (n, st1)) at 1 by (unfold hw; cbn [snd fst]; rewrite Hh; lia).
  now apply Inv_chg.
Qed.

Lemma Inv_cancel maxv s i : Inv maxv s -> Inv maxv (cancel i s).
Proof.
  intros HI. unfold cancel. destruct (status_of i (jobs s)) as [st|] eqn:Hs; [|exact HI].
  apply status_of_some in Hs. destruct Hs as [n Hi].
  assert (Hin : pending st = true -> In i (ready s)) by (intros Hp; now apply (i_pend _ _ HI i n st)).
  destruct st; try exact HI.
  - apply (Inv_same_value maxv s i n New NewC (ready s) HI Hi); auto.
  - apply (Inv_same_value maxv s i n Queued QueuedC _ HI Hi); auto.
    + intros j _ H; apply in_or_app; now left.
    + intros _; apply in_or_app; right; now left.
  - apply (Inv_same_value maxv s i n Granted GrantedC (ready s) HI Hi); auto.
  - apply (Inv_same_value maxv s i n Holding (Leaving Canc) _ HI Hi); auto.
    + intros j _ H; apply in_or_app; now left.
    + intros _; apply in_or_app; right; now left.
  - apply (Inv_same_value maxv s i n (Leaving o) (Leaving Canc) (ready s) HI Hi); auto.
Qed.

Lemma Inv_step maxv s a : Inv maxv s -> Inv maxv (step maxv s a).
Proof.
  intros HI. destruct a as [n | i err | i | ]; cbn [step].
  - now apply Inv_spawn.
  - destruct (status_of i (jobs s)) as [st|] eqn:Hs; [|exact HI].
    destruct st; try exact HI.
    apply status_of_some in Hs. destruct Hs as [n Hi].
    apply (Inv_same_value maxv s i n Holding (Leaving (out_of err)) _ HI Hi); auto.
    + intros j _ H; apply in_or_app; now left.
    + intros _; apply in_or_app; right; now left.
  - now apply Inv_cancel.
  - now apply Inv_tick.
Qed.

Lemma Inv_fold maxv acts : forall s, Inv maxv s -> Inv maxv (fold_left (step maxv) acts s).
Proof. induction acts as [|a r IH]; intros s H; cbn [fold_left]; [exact H | apply IH, Inv_step, H]. Qed.

Theorem Inv_run maxv acts : Inv maxv (run maxv acts).
Proof. apply Inv_fold, Inv_init. Qed.

(** * Second invariant: order of the events list, no lost wake-up, non-negativity (weights >= 0) *)
Definition ssorted (l : list (Z * nat)) : Prop := StronglySorted (fun a b => fst a <= fst b) l.

Record InvW (maxv : Z) (s : state) : Prop := {
  w_jobs   : Forall (fun j : Z * status => 0 <= fst j) (jobs s);
  w_value  : 0 <= value s;
  w_sorted : ssorted (events s);
  w_gt     : Forall (fun e : Z * nat => value s < fst e) (events s);
  w_max    : Forall (fun e : Z * nat => fst e <= maxv) (events s)
}.

Lemma setst_weights (P : Z -> Prop) st : forall l i,
  Forall (fun j : Z * status => P (fst j)) l -> Forall (fun j : Z * status => P (fst j)) (setst i st l).
Proof.
  induction l as [|[m s0] r IH]; intros [|i] H; cbn [setst]; try exact H.
  - inversion H; subst. constructor; assumption.
  - inversion H; subst. constructor; [assumption | now apply IH].
Qed.

Lemma insert_sorted e : forall l, ssorted l -> ssorted (insert e l).
Proof.
  unfold ssorted. induction l as [|x r IH]; intros H; cbn [insert].
  - constructor; constructor.
  - inversion H as [|? ? Hr Hx]; subst. destruct (fst x <=? fst e) eqn:E.
    + constructor; [now apply IH|]. apply Forall_insert; [lia | exact Hx].
    + constructor; [exact H|]. constructor; [lia|].
      eapply Forall_impl; [|exact Hx]. cbn beta. intros a Ha. lia.
Qed.

Lemma remove_ev_sorted i : forall l, ssorted l -> ssorted (remove_ev i l).
Proof.
  unfold ssorted. induction l as [|x r IH]; intros H; cbn [remove_ev]; [constructor|].
  inversion H as [|? ? Hr Hx]; subst. destruct (Nat.eqb (snd x) i); [exact Hr|].
  constructor; [now apply IH | now apply Forall_remove_ev].
Qed.

Lemma grant_loop_W maxv : forall evs v js rdy,
  Forall (fun j : Z * status => 0 <= fst j) js -> 0 <= v -> ssorted evs ->
  Forall (fun e : Z * nat => fst e <= maxv) evs ->
  InvW maxv (grant_loop v evs js rdy).
Proof.
  induction evs as [|[n j] r IH]; intros v js rdy Hj Hv Hs Hm; cbn [grant_loop].
  - constructor; cbn [value events jobs]; try assumption; constructor.
  - inversion Hs as [|? ? Hr Hx]; subst. inversion Hm as [|? ? Hm1 Hm2]; subst.
    destruct (n <=? v) eqn:E.
    + destruct (status_of j js) as [[]|]; apply IH; try assumption; try lia; now apply setst_weights.
    + constructor; cbn [value events jobs]; try assumption.
      constructor; [cbn [fst]; lia|]. eapply Forall_impl; [|exact Hx]. cbn [fst]. intros a Ha. lia.
Qed.

Lemma InvW_init maxv : 0 <= maxv -> InvW maxv (init maxv).
Proof. intros H. constructor; cbn; try assumption; constructor. Qed.

Definition valid_act (a : action) : Prop := match a with Spawn n => 0 <= n | _ => True end.

Lemma job_weight_nonneg s i n st :
  Forall (fun j : Z * status => 0 <= fst j) (jobs s) -> nth_error (jobs s) i = Some (n, st) -> 0 <= n.
Proof. intros H Hi. rewrite Forall_forall in H. apply (H (n, st)). eapply nth_error_In; eassumption. Qed.

Lemma InvW_tick maxv s : InvW maxv s -> InvW maxv (tick maxv s).
Proof.
  intros HW. pose proof HW as [Hj Hv Hs Hg Hm]. unfold tick. destruct (ready s) as [|i rdy]; [exact HW|].
  destruct (nth_error (jobs s) i) as [[n st]|] eqn:Hi.
  2:{ constructor; cbn [value events jobs]; assumption. }
  pose proof (job_weight_nonneg s i n st Hj Hi) as Hn.
  destruct st; try (constructor; cbn [value events jobs]; try assumption; now apply setst_weights).
  - (* New *)
    destruct (negb (n <=? maxv)) eqn:Emax.
    + constructor; cbn [value events jobs]; try assumption; now apply setst_weights.
    + destruct (n <=? value s) eqn:E.
      * constructor; cbn [value events jobs]; try assumption; try lia; [now apply setst_weights|].
        eapply Forall_impl; [|exact Hg]. cbn beta. intros a Ha. lia.
      * constructor; cbn [value events jobs]; try assumption.
        -- now apply setst_weights.
        -- now apply insert_sorted.
        -- apply Forall_insert; [cbn [fst]; lia | exact Hg].
        -- apply Forall_insert; [cbn [fst]; lia | exact Hm].
  - (* QueuedC *)
    constructor; cbn [value events jobs]; try assumption.
    + now apply setst_weights.
    + now apply remove_ev_sorted.
    + now apply Forall_remove_ev.
    + now apply Forall_remove_ev.
  - (* GrantedC *) unfold release; cbn [value events jobs ready]. apply grant_loop_W; try assumption; try lia. now apply setst_weights.
  - (* Leaving *) unfold release; cbn [value events jobs ready]. apply grant_loop_W; try assumption; try lia. now apply setst_weights.
Qed.

Lemma InvW_step maxv s a : valid_act a -> InvW maxv s -> InvW maxv (step maxv s a).
Proof.
  intros Hva HW. pose proof HW as [Hj Hv Hs Hg Hm]. destruct a as [n | i err | i | ]; cbn [step].
  - constructor; cbn [value events jobs]; try assumption. apply Forall_app. split; [exact Hj|]. constructor; [exact Hva | constructor].
  - destruct (status_of i (jobs s)) as [[]|]; try exact HW.
    constructor; cbn [value events jobs]; try assumption. now apply setst_weights.
  - unfold cancel. destruct (status_of i (jobs s)) as [[]|]; try exact HW;
      (constructor; cbn [value events jobs]; try assumption; now apply setst_weights).
  - now apply InvW_tick.
Qed.

Lemma InvW_run maxv acts : 0 <= maxv -> Forall valid_act acts -> InvW maxv (run maxv acts).
Proof.
  intros Hm. unfold run. pose proof (InvW_init maxv Hm) as H0. revert H0. generalize (init maxv).
  induction acts as [|a r IH]; intros s H0 Hv; cbn [fold_left]; [exact H0|].
  inversion Hv; subst. apply IH; [now apply InvW_step | assumption].
Qed.

(** * A cancelled job can only move towards Done *)
Definition cmark (st : status) : bool :=
  match st with NewC | QueuedC | GrantedC | Leaving Canc | Done _ => true | _ => false end.

Definition marked (i : nat) (s : state) : Prop := exists st, status_of i (jobs s) = Some st /\ cmark st = true.

Lemma status_setst_eq i st js st0 : status_of i js = Some st0 -> status_of i (setst i st js) = Some st.
Proof. intros H. apply status_of_some in H. destruct H as [n H]. unfold status_of. now rewrite (nth_setst_eq st _ _ _ _ H). Qed.

Lemma status_setst_ne i k st js : k <> i -> status_of i (setst k st js) = status_of i js.
Proof. intros H. unfold status_of. now rewrite nth_setst_ne. Qed.

Lemma marked_set i k st0 st1 v evs js rdy :
  status_of k js = Some st0 -> (cmark st0 = true -> cmark st1 = true) ->
  marked i (mk v evs js rdy) -> forall v' evs' rdy', marked i (mk v' evs' (setst k st1 js) rdy').
Proof.
  intros Hk Himp [st [Hs Hc]] v' evs' rdy'. unfold marked in *; cbn [jobs] in *.
  destruct (Nat.eq_dec k i) as [->|Hne].
  - exists st1. split; [now apply status_setst_eq with st0|]. apply Himp. congruence.
  - exists st. split; [now rewrite status_setst_ne | exact Hc].
Qed.

Lemma marked_grant_loop i : forall evs v js rdy,
  marked i (mk v evs js rdy) -> marked i (grant_loop v evs js rdy).
Proof.
  induction evs as [|[n j] r IH]; intros v js rdy H; cbn [grant_loop].
  - destruct H as [st H]. exists st. exact H.
  - destruct (n <=? v).
    + destruct (status_of j js) as [st|] eqn:Hj.
      * destruct st; try (apply IH; destruct H as [st' H']; exists st'; exact H').
        -- apply IH. apply (marked_set i j Queued Granted v ((n, j) :: r) js rdy Hj); [discriminate | exact H].
        -- apply IH. apply (marked_set i j QueuedC GrantedC v ((n, j) :: r) js rdy Hj); [reflexivity | exact H].
      * apply IH. destruct H as [st' H']; exists st'; exact H'.
    + destruct H as [st H]. exists st. exact H.
Qed.

Lemma marked_step maxv i s a : marked i s -> marked i (step maxv s a).
Proof.
  intros H. rewrite (state_eta s) in H. destruct a as [n | k err | k | ]; cbn [step].
  - destruct H as [st [Hs Hc]]. exists st. split; [|exact Hc]. cbn [jobs] in *.
    apply status_of_some in Hs. destruct Hs as [m Hs]. apply status_of_nth with m. now apply nth_snoc_old.
  - destruct (status_of k (jobs s)) as [st|] eqn:Hk; [|now rewrite (state_eta s)].
    destruct st; try now rewrite (state_eta s).
    eapply marked_set; [exact Hk | | exact H]; discriminate.
  - unfold cancel. destruct (status_of k (jobs s)) as [st|] eqn:Hk; [|now rewrite (state_eta s)].
    destruct st; try (now rewrite (state_eta s));
      (eapply marked_set; [exact Hk | | exact H]); try discriminate; reflexivity.
  - unfold tick. destruct (ready s) as [|k rdy] eqn:Hr; [now rewrite (state_eta s)|].
    destruct (nth_error (jobs s) k) as [[n st]|] eqn:Hk.
    2:{ destruct H as [st H]. exists st. exact H. }
    pose proof (status_of_nth _ _ _ _ Hk) as Hsk.
    destruct st; try (destruct H as [st' H']; exists st'; exact H').
    + destruct (negb (n <=? maxv)); [|destruct (n <=? value s)];
        (eapply marked_set; [exact Hsk | | exact H]); discriminate.
    + eapply marked_set; [exact Hsk | | exact H]; reflexivity.
    + eapply marked_set; [exact Hsk | | exact H]; reflexivity.
    + eapply marked_set; [exact Hsk | | exact H]; discriminate.
    + unfold release; cbn [value events jobs ready]. apply marked_grant_loop.
      eapply marked_set; [exact Hsk | | exact H]; reflexivity.
    + unfold release; cbn [value events jobs ready]. apply marked_grant_loop.
      eapply marked_set; [exact Hsk | | exact H]; reflexivity.
Qed.

Lemma marked_fold maxv i acts : forall s, marked i s -> marked i (fold_left (step maxv) acts s).
Proof. induction acts as [|a r IH]; intros s H; cbn [fold_left]; [exact H | apply IH, marked_step, H]. Qed.

Lemma cancel_marks i s : (i < length (jobs s))%nat -> marked i (cancel i s).
Proof.
  intros Hl. unfold cancel. destruct (nth_error (jobs s) i) as [[n st]|] eqn:Hi.
  2:{ apply nth_error_None in Hi. lia. }
  pose proof (status_of_nth _ _ _ _ Hi) as Hs. rewrite Hs.
  destruct st; try (exists (match st with _ => _ end)); unfold marked; cbn [jobs];
    try (eexists; split; [eapply status_setst_eq; exact Hs | reflexivity]);
    try (eexists; split; [exact Hs | reflexivity]).
Qed.

(** * Quiescence: the ready queue is empty *)
Lemma zsum_ext_in {A} (f g : A -> Z) : forall l, (forall x, In x l -> f x = g x) -> zsum f l = zsum g l.
Proof.
  induction l as [|x r IH]; intros H; cbn [zsum]; [reflexivity|].
  rewrite (H x (or_introl eq_refl)), IH; [reflexivity|]. intros y Hy. apply H. now right.
Qed.

Lemma quiescent_positions maxv s : Inv maxv s -> ready s = [] ->
  forall j n st, nth_error (jobs s) j = Some (n, st) -> st = Queued \/ st = Holding \/ exists o, st = Done o.
Proof.
  intros HI Hr j n st Hj. pose proof (i_pend _ _ HI j n st Hj) as Hp. rewrite Hr in Hp.
  destruct st; try (exfalso; now apply Hp); eauto.
Qed.

Lemma quiescent_sum maxv s : Inv maxv s -> ready s = [] -> value s + body_sum (jobs s) = maxv.
Proof.
  intros HI Hr. rewrite <- (i_cons _ _ HI). f_equal. unfold body_sum, hsum. apply zsum_ext_in.
  intros [n st] Hin. apply In_nth_error in Hin. destruct Hin as [j Hj].
  destruct (quiescent_positions maxv s HI Hr j n st Hj) as [-> | [-> | [o ->]]]; reflexivity.
Qed.

Lemma no_holder_body_sum : forall js,
  (forall j n st, nth_error js j = Some (n, st) -> st <> Holding) -> body_sum js = 0.
Proof.
  unfold body_sum. induction js as [|[n st] r IH]; intros H; cbn [zsum]; [reflexivity|].
  rewrite IH.
  - cbn [snd fst]. destruct st; cbn [is_holding]; try lia. exfalso. now apply (H 0%nat n Holding).
  - intros j m st' Hj. apply (H (S j) m st'). exact Hj.
Qed.

Lemma run_app maxv a b : run maxv (a ++ b) = fold_left (step maxv) b (run maxv a).
Proof. unfold run. now rewrite fold_left_app. Qed.

Lemma cancelled_job_done maxv acts1 i acts2 :
  (i < length (jobs (run maxv acts1)))%nat ->
  let s := run maxv (acts1 ++ Cancel i :: acts2) in
  ready s = [] -> exists n o, nth_error (jobs s) i = Some (n, Done o).
Proof.
  intros Hl s Hr. subst s. rewrite run_app in *. cbn [fold_left] in *. cbn [step] in *.
  pose proof (marked_fold maxv i acts2 _ (cancel_marks i _ Hl)) as [st [Hs Hc]].
  set (s := fold_left (step maxv) acts2 (cancel i (run maxv acts1))) in *.
  assert (HI : Inv maxv s).
  { subst s. apply Inv_fold. apply Inv_cancel. apply Inv_run. }
  apply status_of_some in Hs. destruct Hs as [n Hn].
  destruct (quiescent_positions maxv s HI Hr i n st Hn) as [-> | [-> | [o ->]]]; try discriminate.
  now exists n, o.
Qed.

(** Hypotheses are satisfiable and the statements are not vacuous: the two leak schedules of DESIGN section 6 on the
    fixed model (capacity 2; holder takes 2; a waiter for 1 is cancelled while queued / after having been granted). *)
Example ex_cancel_queued :
  let acts := [Spawn 2; Tick; Spawn 1; Tick; Cancel 1; Tick; Exit 0 false; Tick] in
  Forall valid_act acts /\
  run 2 acts = mk 2 [] [(2, Done Ok); (1, Done Canc)] [].
Proof.
  split; [|reflexivity].
  repeat (apply Forall_cons; [cbn [valid_act]; try lia; exact I|]). apply Forall_nil.
Qed.

Example ex_cancel_granted :
  let acts := [Spawn 2; Tick; Spawn 1; Tick; Exit 0 false; Tick; Cancel 1] in
  run 2 acts = mk 1 [] [(2, Done Ok); (1, GrantedC)] [1%nat] /\
  run 2 (acts ++ [Tick]) = mk 2 [] [(2, Done Ok); (1, Done Canc)] [].
Proof. cbn. split; reflexivity. Qed.
