(** C40 — the copy tool's weighted semaphore is safe and gives everything back on cancellation.
    Property theorems only.  Every statement quantifies over ALL action lists: any number of jobs, any weights, bodies
    ending normally / by an error / by cancellation, and [Cancel] of any job between ANY two event-loop callbacks.
    Model: SemWeighted/Model.v — hailtop/aiotools/weighted_semaphore.py WITH fixes/C40.diff applied. *)
From HailV Require Import Common.Prelude SemWeighted.Model SemWeighted.Lemmas.
Open Scope Z_scope.

(** Exact accounting after every action: free value + weights of the jobs that have been granted and have not yet
    released (granted-not-resumed, in the body, leaving) = capacity.  No assumption. *)
Theorem C40_conservation : forall (maxv : Z) (acts : list action),
  value (run maxv acts) + hsum (jobs (run maxv acts)) = maxv.
Proof. intros. apply (i_cons _ _ (Inv_run maxv acts)). Qed.
Print Assumptions C40_conservation.

(** Never more than the capacity is granted (weights non-negative). *)
Theorem C40_capacity : forall (maxv : Z) (acts : list action),
  0 <= maxv -> Forall valid_act acts ->
  0 <= value (run maxv acts) /\ hsum (jobs (run maxv acts)) <= maxv.
Proof.
  intros maxv acts Hm Hv. pose proof (w_value _ _ (InvW_run maxv acts Hm Hv)) as H.
  pose proof (C40_conservation maxv acts). split; lia.
Qed.
Print Assumptions C40_capacity.

(** The events list is exactly the set of jobs blocked in acquire (each once, with its own weight): nothing dead stays
    in it and no blocked job is missing from it. *)
Theorem C40_events_exact : forall (maxv : Z) (acts : list action),
  let s := run maxv acts in
  NoDup (map snd (events s)) /\
  (forall n j, In (n, j) (events s) <-> exists st, nth_error (jobs s) j = Some (n, st) /\ waiting st = true).
Proof.
  intros maxv acts s. pose proof (Inv_run maxv acts) as [_ Hnd Hev Hwt _]. split; [exact Hnd|].
  intros n j; split; [apply Hev | intros [st [Hj Hw]]; now apply Hwt with st].
Qed.
Print Assumptions C40_events_exact.

(** All returned at quiescence: whenever the event loop is idle, every job is blocked in acquire, inside its body, or
    finished — and the free value is the capacity minus the weights of the jobs inside bodies.  In particular once every
    holder has exited (normally, by error or by cancellation) the value is back at the capacity. *)
Theorem C40_all_returned_at_quiescence : forall (maxv : Z) (acts : list action),
  let s := run maxv acts in
  ready s = [] ->
  (forall j n st, nth_error (jobs s) j = Some (n, st) -> st = Queued \/ st = Holding \/ exists o, st = Done o) /\
  value s + body_sum (jobs s) = maxv /\
  ((forall j n st, nth_error (jobs s) j = Some (n, st) -> st <> Holding) -> value s = maxv).
Proof.
  intros maxv acts s Hr. pose proof (Inv_run maxv acts) as HI. fold s in HI.
  split; [now apply quiescent_positions with maxv|]. pose proof (quiescent_sum maxv s HI Hr) as Hs.
  split; [exact Hs|]. intros Hn. rewrite (no_holder_body_sum _ Hn) in Hs. lia.
Qed.
Print Assumptions C40_all_returned_at_quiescence.

(** A cancelled waiter is free: a job cancelled at ANY moment (before its first step, while queued, after release()
    granted it but before it resumed, inside the body, while leaving) is finished whenever the loop is idle again —
    so, by the previous theorem, it holds nothing and, by C40_events_exact, it is not in the events list. *)
Theorem C40_cancelled_waiter_free : forall (maxv : Z) (before : list action) (i : nat) (after : list action),
  (i < length (jobs (run maxv before)))%nat ->
  let s := run maxv (before ++ Cancel i :: after) in
  ready s = [] ->
  exists n o, nth_error (jobs s) i = Some (n, Done o).
Proof. exact cancelled_job_done. Qed.
Print Assumptions C40_cancelled_waiter_free.

(** No lost wake-up: after every action every queued weight is strictly larger than the free value (weights >= 0). *)
Theorem C40_no_lost_wakeup : forall (maxv : Z) (acts : list action) (n : Z) (j : nat),
  0 <= maxv -> Forall valid_act acts ->
  In (n, j) (events (run maxv acts)) -> value (run maxv acts) < n <= maxv.
Proof.
  intros maxv acts n j Hm Hv Hin. pose proof (InvW_run maxv acts Hm Hv) as [_ _ _ Hg Hx].
  rewrite Forall_forall in Hg, Hx. specialize (Hg _ Hin). specialize (Hx _ Hin). cbn [fst] in *. lia.
Qed.
Print Assumptions C40_no_lost_wakeup.

(** Liveness corollary: when the loop is idle and nobody is inside a body, nobody is blocked either: every job has finished
    and the whole capacity is free. *)
Theorem C40_idle_and_unheld_means_all_done : forall (maxv : Z) (acts : list action),
  0 <= maxv -> Forall valid_act acts ->
  let s := run maxv acts in
  ready s = [] ->
  (forall j n st, nth_error (jobs s) j = Some (n, st) -> st <> Holding) ->
  value s = maxv /\ events s = [] /\ forall j n st, nth_error (jobs s) j = Some (n, st) -> exists o, st = Done o.
Proof.
  intros maxv acts Hm Hv s Hr Hn.
  destruct (C40_all_returned_at_quiescence maxv acts Hr) as (Hpos & _ & Hval). fold s in Hpos, Hval.
  specialize (Hval Hn). split; [exact Hval|].
  assert (He : events s = []).
  { destruct (events s) as [|[n j] r] eqn:E; [reflexivity|]. exfalso.
    pose proof (C40_no_lost_wakeup maxv acts n j Hm Hv) as H. fold s in H. rewrite E in H.
    specialize (H (or_introl eq_refl)). lia. }
  split; [exact He|]. intros j n st Hj. destruct (Hpos j n st Hj) as [-> | [-> | Hd]]; [| now elim (Hn j n Holding) | exact Hd].
  exfalso. pose proof (i_wait _ _ (Inv_run maxv acts) j n Queued Hj eq_refl) as Hin. fold s in Hin. now rewrite He in Hin.
Qed.
Print Assumptions C40_idle_and_unheld_means_all_done.
