(** C24: invariants of the sliding-window rate limiter model, by induction over arbitrary action lists. *)
From Coq Require Import Sorted.
From HailV Require Import Common.Prelude RateLimiter.Model.
Open Scope Z_scope.

(** * Counting *)
Definition cnt (f : Z -> bool) (l : list Z) : Z := Z.of_nat (length (filter f l)).

Lemma cnt_app f a b : cnt f (a ++ b) = cnt f a + cnt f b.
Proof. unfold cnt. rewrite filter_app, app_length. lia. Qed.

Lemma cnt_nonneg f l : 0 <= cnt f l.
Proof. unfold cnt; lia. Qed.

Lemma cnt_le_length f l : cnt f l <= Z.of_nat (length l).
Proof.
  unfold cnt. induction l as [|a r IH]; cbn [filter length]; [lia|].
  destruct (f a); cbn [length]; lia.
Qed.

Lemma cnt_none f l : Forall (fun a => f a = false) l -> cnt f l = 0.
Proof.
  unfold cnt. induction 1 as [|a r Ha _ IH]; cbn [filter]; [reflexivity|]. now rewrite Ha.
Qed.

Lemma cnt_all f l : Forall (fun a => f a = true) l -> cnt f l = Z.of_nat (length l).
Proof.
  unfold cnt. induction 1 as [|a r Ha _ IH]; cbn [filter]; [reflexivity|]. rewrite Ha. cbn [length]. lia.
Qed.

Lemma cnt_mono (f g : Z -> bool) l : (forall a, In a l -> f a = true -> g a = true) -> cnt f l <= cnt g l.
Proof.
  unfold cnt. induction l as [|a r IH]; intros H; cbn [filter]; [lia|].
  assert (IH' : Z.of_nat (length (filter f r)) <= Z.of_nat (length (filter g r))) by (apply IH; intros; apply H; [now right | assumption]).
  destruct (f a) eqn:Ef.
  - rewrite (H a (or_introl eq_refl) Ef). cbn [length]. lia.
  - destruct (g a); cbn [length]; lia.
Qed.

Lemma filter_snd_length (f : Z -> bool) (l : list (nat * Z)) :
  Z.of_nat (length (filter (fun e => f (snd e)) l)) = cnt f (map snd l).
Proof.
  unfold cnt. induction l as [|e r IH]; cbn [filter map]; [reflexivity|].
  destruct (f (snd e)); cbn [length]; lia.
Qed.

Lemma window_count_cnt w t l : window_count w t l = cnt (in_window w t) (map snd l).
Proof. unfold window_count. apply filter_snd_length. Qed.

Lemma trailing_count_cnt w s : trailing_count w s = cnt (fun a => now s - w <? a) (map snd (adm s)).
Proof. unfold trailing_count. apply (filter_snd_length (fun a => now s - w <? a)). Qed.

(** * The eviction loop *)
Lemma evict_split lim : forall l, exists pre, l = pre ++ evict lim l /\ Forall (fun a => a <= lim) pre.
Proof.
  induction l as [|a r [pre [E F]]]; cbn [evict].
  - exists []. split; [reflexivity | constructor].
  - destruct (a <=? lim) eqn:H.
    + exists (a :: pre). split; [cbn [app]; now rewrite <- E | constructor; [lia | exact F]].
    + exists []. split; [reflexivity | constructor].
Qed.

Lemma evict_head lim : forall l h r, evict lim l = h :: r -> lim < h.
Proof.
  induction l as [|a l IH]; intros h r H; cbn [evict] in H; [discriminate|].
  destruct (a <=? lim) eqn:E; [now apply IH with r | inversion H; subst; lia].
Qed.

Definition sorted (l : list Z) : Prop := StronglySorted Z.le l.

Lemma evict_sorted lim : forall l, sorted l -> sorted (evict lim l).
Proof.
  unfold sorted. induction l as [|a r IH]; intros H; cbn [evict]; [constructor|].
  destruct (a <=? lim); [apply IH; now inversion H | exact H].
Qed.

Lemma evict_Forall (P : Z -> Prop) lim : forall l, Forall P l -> Forall P (evict lim l).
Proof.
  induction l as [|a r IH]; intros H; cbn [evict]; [constructor|].
  destruct (a <=? lim); [apply IH; now inversion H | exact H].
Qed.

Lemma evict_all_gt lim l : sorted l -> Forall (fun a => lim < a) (evict lim l).
Proof.
  intros Hs. pose proof (evict_sorted lim l Hs) as Hs'. destruct (evict lim l) as [|h r] eqn:E; [constructor|].
  pose proof (evict_head lim l h r E) as Hh. unfold sorted in Hs'. inversion Hs' as [|? ? _ Hr]; subst.
  constructor; [exact Hh|]. eapply Forall_impl; [|exact Hr]. cbn beta. intros a Ha. lia.
Qed.

Lemma sorted_snoc l x : sorted l -> Forall (fun a => a <= x) l -> sorted (l ++ [x]).
Proof.
  unfold sorted. induction l as [|a r IH]; intros Hs Hf; cbn [app].
  - constructor; constructor.
  - inversion Hs as [|? ? Hr Ha]; subst. inversion Hf as [|? ? Hax Hfr]; subst.
    constructor; [now apply IH|]. apply Forall_app. split; [exact Ha | constructor; [exact Hax | constructor]].
Qed.

Lemma remove_id_incl i : forall l e, In e (remove_id i l) -> In e l.
Proof.
  induction l as [|[j t] r IH]; intros e H; cbn [remove_id] in H; [contradiction|].
  destruct (Nat.eqb i j); [now right|]. destruct H as [H|H]; [now left | right; now apply IH].
Qed.

(** * The invariant (count >= 1, as RateLimit is used; with count = 0 the real code raises IndexError) *)
Record Inv (w c : Z) (s : state) : Prop := {
  v_split  : exists old, map snd (adm s) = old ++ items s /\ Forall (fun a => a <= now s - w) old;
  v_le_now : Forall (fun a => a <= now s) (items s);
  v_sorted : sorted (items s);
  v_window : forall t, window_count w t (adm s) <= c;
  v_sleep  : forall i T, In (i, T) (waiters s) -> now s < T ->
             In (T - w) (items s) /\ c <= cnt (fun a => T - w <=? a) (items s)
}.

Lemma Inv_init w c t0 : 1 <= c -> Inv w c (init t0).
Proof.
  intros Hc. constructor; cbn.
  - exists []. split; [reflexivity | constructor].
  - constructor.
  - constructor.
  - intros t. unfold window_count. cbn. lia.
  - intros i T [].
Qed.

Lemma Inv_attempt w c id s : 1 <= c -> Inv w c s -> Inv w c (attempt w c id s).
Proof.
  intros Hc [[old [Ha Ho]] Hn Hs Hw Hsl]. unfold attempt.
  destruct (evict_split (now s - w) (items s)) as [pre [Ei Hpre]].
  set (it := evict (now s - w) (items s)) in *.
  assert (Hit_n : Forall (fun a => a <= now s) it) by (apply evict_Forall; exact Hn).
  assert (Hit_s : sorted it) by (apply evict_sorted; exact Hs).
  assert (Hop : Forall (fun a => a <= now s - w) (old ++ pre)) by (apply Forall_app; now split).
  assert (Hadm : map snd (adm s) = (old ++ pre) ++ it) by (rewrite Ha, Ei at 1; now rewrite app_assoc).
  (* what a sleeper knows survives the eviction *)
  assert (Hkeep : forall i T, In (i, T) (waiters s) -> now s < T ->
                  In (T - w) it /\ c <= cnt (fun a => T - w <=? a) it).
  { intros i T Hin HT. destruct (Hsl i T Hin HT) as [H1 H2]. rewrite Ei in H1, H2. split.
    - apply in_app_or in H1. destruct H1 as [H1|H1]; [|exact H1].
      rewrite Forall_forall in Hpre. specialize (Hpre _ H1). cbn beta in Hpre. lia.
    - rewrite cnt_app in H2. rewrite cnt_none in H2; [lia|].
      eapply Forall_impl; [|exact Hpre]. cbn beta. intros a Ha'. lia. }
  destruct (Z.of_nat (length it) <? c) eqn:Eadm.
  - (* admitted *)
    constructor; cbn [now items waiters adm].
    + exists (old ++ pre). split; [rewrite map_app, Hadm; cbn [map snd]; now rewrite app_assoc | exact Hop].
    + apply Forall_app. split; [exact Hit_n | constructor; [lia | constructor]].
    + now apply sorted_snoc.
    + intros t. rewrite window_count_cnt, map_app, cnt_app. cbn [map snd]. rewrite <- window_count_cnt.
      unfold cnt at 1. cbn [filter]. destruct (in_window w t (now s)) eqn:Ein; cbn [length]; [|specialize (Hw t); lia].
      unfold in_window in Ein. rewrite window_count_cnt, Hadm, cnt_app.
      rewrite cnt_none.
      * pose proof (cnt_le_length (in_window w t) it). lia.
      * eapply Forall_impl; [|exact Hop]. cbn beta. intros a Ha'. unfold in_window. lia.
    + intros i T Hin HT. destruct (Hkeep i T Hin HT) as [H1 H2]. split.
      * apply in_or_app. now left.
      * rewrite cnt_app. pose proof (cnt_nonneg (fun a => T - w <=? a) [now s]). lia.
  - (* sent to sleep *)
    constructor; cbn [now items waiters adm].
    + exists (old ++ pre). split; [exact Hadm | exact Hop].
    + exact Hit_n.
    + exact Hit_s.
    + exact Hw.
    + intros i T Hin HT. apply in_app_or in Hin. destruct Hin as [Hin|[Hin|[]]]; [now apply Hkeep with i|].
      inversion Hin; subst. clear Hin.
      destruct it as [|h r] eqn:Eit; [cbn [length] in Eadm; lia|]. cbn [hd].
      replace (h + w - w) with h by lia. split; [now left|].
      rewrite cnt_all; [lia|].
      unfold sorted in Hit_s. inversion Hit_s as [|? ? _ Hr]; subst.
      constructor; [lia|]. eapply Forall_impl; [|exact Hr]. cbn beta. intros a Ha'. lia.
Qed.

Lemma Inv_waiters_subset w c s ws :
  Inv w c s -> (forall e, In e ws -> In e (waiters s)) -> forall nx ins, Inv w c (mk (now s) (items s) ws (adm s) nx ins).
Proof.
  intros [Ha Hn Hs Hw Hsl] Hsub nx ins. constructor; cbn [now items waiters adm]; try assumption.
  intros i T Hin. apply Hsl with i. now apply Hsub.
Qed.

Lemma Inv_step w c s a : 1 <= c -> Inv w c s -> Inv w c (step w c s a).
Proof.
  intros Hc HI. destruct a as [ | i | dt | i k | i]; cbn [step].
  - apply Inv_attempt; [exact Hc|]. apply (Inv_waiters_subset w c s (waiters s) HI). auto.
  - destruct (lookup i (waiters s)) as [t|]; [|exact HI]. destruct (t <=? now s); [|exact HI].
    apply Inv_attempt; [exact Hc|]. apply (Inv_waiters_subset w c s _ HI). apply remove_id_incl.
  - destruct HI as [[old [Ha Ho]] Hn Hs Hw Hsl]. constructor; cbn [now items waiters adm].
    + exists old. split; [exact Ha|]. eapply Forall_impl; [|exact Ho]. cbn beta. intros a Ha'. lia.
    + eapply Forall_impl; [|exact Hn]. cbn beta. intros a Ha'. lia.
    + exact Hs.
    + exact Hw.
    + intros i T Hin HT. apply Hsl with i; [exact Hin | lia].
  - (* a body is left, in whatever manner: __aexit__ touches nothing *)
    destruct (existsb (Nat.eqb i) (inside s)); [|exact HI]. unfold aexit.
    apply (Inv_waiters_subset w c s (waiters s) HI). auto.
  - (* a sleeper is cancelled *)
    destruct (lookup i (waiters s)) as [t|]; [|exact HI].
    apply (Inv_waiters_subset w c s _ HI). apply remove_id_incl.
Qed.

Lemma Inv_run w c t0 acts : 1 <= c -> Inv w c (run w c t0 acts).
Proof.
  intros Hc. unfold run. pose proof (Inv_init w c t0 Hc) as H0. revert H0. generalize (init t0).
  induction acts as [|a r IH]; intros s H0; cbn [fold_left]; [exact H0 | apply IH, Inv_step; assumption].
Qed.

(** * Consequences *)
Lemma decision_exact w c s : Inv w c s ->
  Z.of_nat (length (evict (now s - w) (items s))) = trailing_count w s.
Proof.
  intros [[old [Ha Ho]] Hn Hs _ _].
  destruct (evict_split (now s - w) (items s)) as [pre [Ei Hpre]].
  pose proof (evict_all_gt (now s - w) (items s) Hs) as Hg.
  set (it := evict (now s - w) (items s)) in *.
  rewrite trailing_count_cnt, Ha, Ei. rewrite !cnt_app.
  rewrite (cnt_none _ old), (cnt_none _ pre).
  - rewrite cnt_all; [lia|].
    eapply Forall_impl; [|exact Hg]. cbn beta. intros a Ha'. lia.
  - eapply Forall_impl; [|exact Hpre]. cbn beta. intros a Ha'. lia.
  - eapply Forall_impl; [|exact Ho]. cbn beta. intros a Ha'. lia.
Qed.

Lemma sleeper_blocked w c s i T : Inv w c s -> In (i, T) (waiters s) -> now s < T ->
  c <= trailing_count w s /\ exists j, In (j, T - w) (adm s).
Proof.
  intros HI Hin HT. destruct (v_sleep _ _ _ HI i T Hin HT) as [H1 H2].
  destruct HI as [[old [Ha Ho]] Hn Hs _ _]. split.
  - rewrite trailing_count_cnt, Ha, cnt_app.
    pose proof (cnt_nonneg (fun a => now s - w <? a) old).
    pose proof (cnt_mono (fun a => T - w <=? a) (fun a => now s - w <? a) (items s)) as Hm.
    assert (cnt (fun a => T - w <=? a) (items s) <= cnt (fun a => now s - w <? a) (items s)) by (apply Hm; intros; lia).
    lia.
  - assert (Hin' : In (T - w) (map snd (adm s))) by (rewrite Ha; apply in_or_app; now right).
    apply in_map_iff in Hin'. destruct Hin' as [[j t] [Hj Hin']]. cbn [snd] in Hj. subst t. now exists j.
Qed.

Lemma refusal_necessary w c s id : 1 <= c -> Inv w c s -> c <= trailing_count w s ->
  exists t, c < window_count w t (adm s ++ [(id, now s)]).
Proof.
  intros Hc HI Hfull. pose proof (decision_exact w c s HI) as Hd.
  destruct HI as [[old [Ha Ho]] Hn Hs Hw _].
  destruct (evict_split (now s - w) (items s)) as [pre [Ei Hpre]].
  pose proof (evict_sorted (now s - w) (items s) Hs) as Hss.
  pose proof (evict_Forall (fun a => a <= now s) (now s - w) (items s) Hn) as Hle.
  destruct (evict (now s - w) (items s)) as [|h r] eqn:E.
  - cbn [length] in Hd. lia.
  - pose proof (evict_head _ _ _ _ E) as Hh.
    exists h. rewrite window_count_cnt, map_app, cnt_app, Ha, Ei, !cnt_app. cbn [map snd].
    pose proof (cnt_nonneg (in_window w h) old). pose proof (cnt_nonneg (in_window w h) pre).
    rewrite (cnt_all (in_window w h) (h :: r)).
    + inversion Hle; subst.
      assert (Hnow : cnt (in_window w h) [now s] = 1).
      { unfold cnt, in_window. cbn [filter]. replace ((h <=? now s) && (now s <? h + w)) with true by lia. reflexivity. }
      lia.
    + unfold sorted in Hss. inversion Hss as [|? ? _ Hr]; subst.
      rewrite Forall_forall in Hle. constructor.
      * unfold in_window. specialize (Hle h (or_introl eq_refl)). cbn beta in Hle. lia.
      * apply Forall_forall. intros a Hin. rewrite Forall_forall in Hr. specialize (Hr a Hin).
        specialize (Hle a (or_intror Hin)). cbn beta in Hle. unfold in_window. lia.
Qed.

(** * Leaving the body (normally, by an exception, by cancellation, by a timeout) has no effect on the limiter *)
Lemma core_attempt w c id s s' : core s = core s' -> core (attempt w c id s) = core (attempt w c id s').
Proof.
  destruct s as [n it ws ad nx ins], s' as [n' it' ws' ad' nx' ins']. unfold core. cbn [now items waiters adm next].
  intros H. inversion H; subst. unfold attempt. cbn [now items waiters adm next inside].
  destruct (Z.of_nat (length (evict (n' - w) it')) <? c); reflexivity.
Qed.

Lemma core_step w c s s' a : is_leave a = false -> core s = core s' -> core (step w c s a) = core (step w c s' a).
Proof.
  intros Ha H. destruct s as [n it ws ad nx ins], s' as [n' it' ws' ad' nx' ins'].
  unfold core in H. cbn [now items waiters adm next] in H. inversion H; subst. clear H.
  destruct a as [ | i | dt | i k | i]; [| | | discriminate |]; cbn [step now items waiters adm next inside].
  - apply core_attempt. reflexivity.
  - destruct (lookup i ws') as [t|]; [|reflexivity]. destruct (t <=? n'); [|reflexivity].
    apply core_attempt. reflexivity.
  - reflexivity.
  - destruct (lookup i ws') as [t|]; reflexivity.
Qed.

Lemma core_leave w c s i k : core (step w c s (Leave i k)) = core s.
Proof. cbn [step]. destruct (existsb (Nat.eqb i) (inside s)); reflexivity. Qed.

Lemma core_strip w c acts : forall s s', core s = core s' ->
  core (fold_left (step w c) acts s) = core (fold_left (step w c) (strip_leaves acts) s').
Proof.
  induction acts as [|a r IH]; intros s s' H; cbn [fold_left strip_leaves filter]; [exact H|].
  destruct (is_leave a) eqn:Ea; cbn [negb].
  - destruct a; try discriminate. apply IH. now rewrite core_leave.
  - cbn [fold_left]. apply IH. now apply core_step.
Qed.

Lemma body_exits_irrelevant w c t0 acts : core (run w c t0 acts) = core (run w c t0 (strip_leaves acts)).
Proof. unfold run. now apply core_strip. Qed.

(** Hypotheses are satisfiable; the statements are not vacuous. *)
Example ex_run :
  let s := run 4 2 0 [Enter; Enter; Enter; Advance 3; Wake 2; Advance 1; Wake 2; Enter; Enter] in
  adm s = [(0%nat, 0); (1%nat, 0); (2%nat, 4); (3%nat, 4)] /\ waiters s = [(4%nat, 8)] /\ items s = [4; 4] /\
  trailing_count 4 s = 2.
Proof. vm_compute. repeat split. Qed.

Example ex_run_exits :   (* both slots taken at 0, both bodies cancelled / timed out at 1: the third entrant still waits until 4 *)
  let s := run 4 2 0 [Enter; Enter; Advance 1; Leave 0 Cancel; Leave 1 Timeout; Advance 1; Enter; Enter; Abandon 2; Enter;
                      Advance 2; Wake 2; Wake 3; Wake 4; Leave 3 Raise; Leave 4 Normal] in
  adm s = [(0%nat, 0); (1%nat, 0); (3%nat, 4); (4%nat, 4)] /\ waiters s = [] /\ items s = [4; 4] /\ inside s = [].
Proof. vm_compute. repeat split. Qed.
