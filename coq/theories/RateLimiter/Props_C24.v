(** C24 — the rate limiter never exceeds its rate and admits as soon as that is possible.
    Property theorems only.  Every statement quantifies over ALL action lists (any number of entrants arriving at any
    times, sleep timers firing late and in any order, arbitrary clock advances, admitted entrants leaving their
    [async with] body at any moment normally / by an exception / by cancellation / by a timeout, sleeping entrants being
    cancelled), every window length [w], every count [c >= 1] and every start time [t0].  Model: RateLimiter/Model.v. *)
From HailV Require Import Common.Prelude RateLimiter.Model RateLimiter.Lemmas.
Open Scope Z_scope.

(** Window bound: no half-open window [t, t + w) ever contains more than [c] admissions — whatever happens to the bodies
    of the admitted entrants ([Leave i Normal/Raise/Cancel/Timeout] are actions of the schedule). *)
Theorem C24_window : forall (w c t0 : Z) (acts : list action) (t : Z),
  1 <= c -> window_count w t (adm (run w c t0 acts)) <= c.
Proof. intros w c t0 acts t Hc. apply (v_window _ _ _ (Inv_run w c t0 acts Hc)). Qed.
Print Assumptions C24_window.

(** The decision of every attempt is exact: what [__aenter__] compares with [count] (the deque after eviction) is precisely
    the number of admissions that share a window with the present instant.  Hence an attempt at time [now] is admitted
    iff fewer than [c] admissions lie in (now - w, now]. *)
Theorem C24_decision_exact : forall (w c t0 : Z) (acts : list action),
  1 <= c ->
  let s := run w c t0 acts in
  Z.of_nat (length (evict (now s - w) (items s))) = trailing_count w s.
Proof. intros w c t0 acts Hc s. apply decision_exact with c. now apply Inv_run. Qed.
Print Assumptions C24_decision_exact.

(** ... and a refusal is forced: when [c] admissions already lie in (now - w, now], admitting one more now would put
    c + 1 admissions into one window. *)
Theorem C24_refusal_necessary : forall (w c t0 : Z) (acts : list action) (id : nat),
  1 <= c ->
  let s := run w c t0 acts in
  c <= trailing_count w s -> exists t, c < window_count w t (adm s ++ [(id, now s)]).
Proof. intros w c t0 acts id Hc s. apply refusal_necessary; [exact Hc | now apply Inv_run]. Qed.
Print Assumptions C24_refusal_necessary.

(** Promptness: a sleeping entrant whose timer [T] is still in the future could not have been admitted at any instant so
    far ([c] admissions share a window with now), and [T] is exactly the instant an admission (the one made at [T - w])
    leaves the window — the first instant at which it can possibly be admitted.  When the timer fires it attempts again
    (C24_decision_exact applies to that attempt). *)
Theorem C24_prompt : forall (w c t0 : Z) (acts : list action) (i : nat) (T : Z),
  1 <= c ->
  let s := run w c t0 acts in
  In (i, T) (waiters s) -> now s < T ->
  c <= trailing_count w s /\ exists j, In (j, T - w) (adm s).
Proof. intros w c t0 acts i T Hc s. apply sleeper_blocked. now apply Inv_run. Qed.
Print Assumptions C24_prompt.

(** What happens to the bodies is irrelevant: the clock, the deque, the sleepers with their timers and the whole admission
    log after any schedule are those of the same schedule with every body exit erased.  An admission is never handed
    back, however its body ends ([__aexit__] does nothing). *)
Theorem C24_body_exits_irrelevant : forall (w c t0 : Z) (acts : list action),
  core (run w c t0 acts) = core (run w c t0 (strip_leaves acts)).
Proof. intros w c t0 acts. apply body_exits_irrelevant. Qed.
Print Assumptions C24_body_exits_irrelevant.
