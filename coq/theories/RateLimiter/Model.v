(** Model of hail/python/hailtop/utils/rate_limiter.py::RateLimiter.__aenter__ (sliding-window limiter) under a
    controlled clock.  Executable definitions only.  Time is an integer number of ticks (the correspondence drives the
    real code with dyadic float times, tick = 1/4 s, so that its float arithmetic is exact).

    One attempt = one iteration of the [while True] loop, which contains no suspension point before its [return] /
    [await asyncio.sleep(...)] and is therefore atomic under asyncio:
        now = time.time()
        while items and items[0] <= now - window: items.popleft()          [evict]
        if len(items) < count: items.append(now); return                     admitted
        await asyncio.sleep(items[0] - (now - window))                       timer at items[0] + window

    Actions (one constructor per harness action):
      Enter        a new entrant (id = number of earlier entrants) makes its first attempt at the current time;
      Wake i       the sleep timer of waiting entrant i fires (only if it is due: timers never fire early; they may fire
                   late and in any order) and entrant i makes another attempt at the current time;
      Advance dt   the clock moves forward by dt >= 0 (negative dt is ignored: the clock is assumed monotone). *)
From HailV Require Import Common.Prelude.
Open Scope Z_scope.

Inductive action := Enter | Wake (i : nat) | Advance (dt : Z).

Record state := mk {
  now     : Z;
  items   : list Z;              (* self._items, oldest leftmost *)
  waiters : list (nat * Z);      (* sleeping entrants with the time their timer is set to *)
  adm     : list (nat * Z);      (* ghost: every admission (entrant, time) in order *)
  next    : nat
}.

Definition init (t0 : Z) : state := mk t0 [] [] [] 0.

Fixpoint evict (lim : Z) (l : list Z) : list Z :=
  match l with
  | [] => []
  | a :: r => if a <=? lim then evict lim r else l
  end.

Definition attempt (w c : Z) (id : nat) (s : state) : state :=
  let it := evict (now s - w) (items s) in
  if Z.of_nat (length it) <? c
  then mk (now s) (it ++ [now s]) (waiters s) (adm s ++ [(id, now s)]) (next s)
  else mk (now s) it (waiters s ++ [(id, hd 0 it + w)]) (adm s) (next s).

Fixpoint lookup (i : nat) (l : list (nat * Z)) : option Z :=
  match l with
  | [] => None
  | (j, t) :: r => if Nat.eqb i j then Some t else lookup i r
  end.

Fixpoint remove_id (i : nat) (l : list (nat * Z)) : list (nat * Z) :=
  match l with
  | [] => []
  | (j, t) :: r => if Nat.eqb i j then r else (j, t) :: remove_id i r
  end.

Definition step (w c : Z) (s : state) (a : action) : state :=
  match a with
  | Enter => attempt w c (next s) (mk (now s) (items s) (waiters s) (adm s) (S (next s)))
  | Wake i =>
      match lookup i (waiters s) with
      | Some t => if t <=? now s
                  then attempt w c i (mk (now s) (items s) (remove_id i (waiters s)) (adm s) (next s))
                  else s
      | None => s
      end
  | Advance dt => mk (now s + Z.max 0 dt) (items s) (waiters s) (adm s) (next s)
  end.

Definition run (w c t0 : Z) (acts : list action) : state := fold_left (step w c) acts (init t0).

(** Number of admissions in the half-open window [t, t + w). *)
Definition in_window (w t a : Z) : bool := (t <=? a) && (a <? t + w).
Definition window_count (w t : Z) (l : list (nat * Z)) : Z :=
  Z.of_nat (length (filter (fun e => in_window w t (snd e)) l)).
(** Number of admissions in the trailing window (now - w, now]: those an admission at [now] would share a window with. *)
Definition trailing_count (w : Z) (s : state) : Z :=
  Z.of_nat (length (filter (fun e => now s - w <? snd e) (adm s))).

(** Observable trace for the correspondence: the state after every action. *)
Fixpoint trace (w c : Z) (s : state) (acts : list action) : list state :=
  match acts with
  | [] => []
  | a :: r => let s' := step w c s a in s' :: trace w c s' r
  end.

(** Compact fingerprint of a trace (correspondence only; the Python side computes the same function from the
    implementation's observations; waiters are listed by entrant id). *)
Fixpoint insert_by_id (e : nat * Z) (l : list (nat * Z)) : list (nat * Z) :=
  match l with
  | [] => [e]
  | x :: r => if Nat.leb (fst x) (fst e) then x :: insert_by_id e r else e :: l
  end.
Definition sort_by_id (l : list (nat * Z)) : list (nat * Z) := fold_right insert_by_id [] l.
Definition enc_pairs (l : list (nat * Z)) : list Z :=
  Z.of_nat (length l) :: flat_map (fun e : nat * Z => [Z.of_nat (fst e); snd e]) l.
Definition enc_state (s : state) : list Z :=
  now s :: Z.of_nat (length (items s)) :: items s ++ enc_pairs (sort_by_id (waiters s))
  ++ Z.of_nat (length (adm s)) :: enc_pairs (skipn (length (adm s) - 1) (adm s)).
  (* adm is append-only: its length and last entry after every action determine the whole log *)
Definition hmix (h x : Z) : Z := Z.land (h * 131 + x + 7) 2305843009213693951.
Definition fingerprint (w c : Z) (acts : list action) : Z :=
  fold_left (fun h s => fold_left hmix (enc_state s) h) (trace w c (init 0) acts) 7.

(** Compact schedule encoding (correspondence only: a list literal with notations costs Coq ~2 ms per action to parse, a
    single numeral nothing).  A schedule of [n] actions is one number in base 2^20, least significant digit first;
    digit = kind + 4 * arg with kind 1 = Enter, 2 = Wake arg, 3 = Advance (arg - 512).  A wrong decoding would show up
    as a disagreement with the implementation, never hide one. *)
Definition decode_action (d : Z) : action :=
  let k := d mod 4 in let a := d / 4 in
  if k =? 1 then Enter else if k =? 2 then Wake (Z.to_nat a) else Advance (a - 512).
Fixpoint decode (n : nat) (z : Z) : list action :=
  match n with
  | O => []
  | S m => decode_action (Z.land z 1048575) :: decode m (Z.shiftr z 20)
  end.
