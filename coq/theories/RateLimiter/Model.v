(** Model of hail/python/hailtop/utils/rate_limiter.py::RateLimiter (__aenter__ and __aexit__; sliding-window limiter) under a
    controlled clock.  Executable definitions only.  Time is an integer number of ticks (the correspondence drives the
    real code with dyadic float times, tick = 1/4 s, so that its float arithmetic is exact).

    One attempt = one iteration of the [while True] loop, which contains no suspension point before its [return] /
    [await asyncio.sleep(...)] and is therefore atomic under asyncio:
        now = time.time()
        while items and items[0] <= now - window: items.popleft()          [evict]
        if len(items) < count: items.append(now); return                     admitted
        await asyncio.sleep(items[0] - (now - window))                       timer at items[0] + window

    Actions (one constructor per harness action):
      Enter        a new entrant (id = number of earlier entrants) makes its first attempt at the current time;
      Wake i       the sleep timer of waiting entrant i fires (only if it is due: timers never fire early; they may fire
                   late and in any order) and entrant i makes another attempt at the current time;
      Advance dt   the clock moves forward by dt >= 0 (negative dt is ignored: the clock is assumed monotone);
      Leave i k    entrant i, which was admitted and is inside its [async with] body, leaves the body in manner k: the
                   body returns (Normal), raises an ordinary exception (Raise), is cancelled (Cancel: task.cancel(), an
                   outer wait_for) or is ended by an expiring asyncio.timeout (Timeout).  [__aexit__] runs:
                       async def __aexit__(self, exc_type, exc_val, exc_tb) -> None: pass        [aexit]
                   i.e. it does NOTHING on every kind of exit — an admission, once made, is never forgotten: the
                   request it guards has been sent.  Ignored when i is not inside a body;
      Abandon i    entrant i is cancelled while it sleeps inside [__aenter__]: [asyncio.sleep] cancels its timer, the
                   CancelledError leaves [__aenter__] (no handler), [__aexit__] is not called; the entrant is gone
                   without ever having been admitted.  Ignored when i is not sleeping. *)
From HailV Require Import Common.Prelude.
Open Scope Z_scope.

Inductive exit_kind := Normal | Raise | Cancel | Timeout.

Inductive action := Enter | Wake (i : nat) | Advance (dt : Z) | Leave (i : nat) (k : exit_kind) | Abandon (i : nat).

Record state := mk {
  now     : Z;
  items   : list Z;              (* self._items, oldest leftmost *)
  waiters : list (nat * Z);      (* sleeping entrants with the time their timer is set to *)
  adm     : list (nat * Z);      (* ghost: every admission (entrant, time) in order *)
  next    : nat;
  inside  : list nat             (* admitted entrants that are still inside their [async with] body, in order of admission *)
}.

Definition init (t0 : Z) : state := mk t0 [] [] [] 0 [].

(** [__aexit__(exc_type, exc_val, exc_tb)]: what it does to [self._items], by kind of exit.  The body of the real method
    is [pass]. *)
Definition aexit (k : exit_kind) (it : list Z) : list Z := it.

Fixpoint evict (lim : Z) (l : list Z) : list Z :=
  match l with
  | [] => []
  | a :: r => if a <=? lim then evict lim r else l
  end.

Definition attempt (w c : Z) (id : nat) (s : state) : state :=
  let it := evict (now s - w) (items s) in
  if Z.of_nat (length it) <? c
  then mk (now s) (it ++ [now s]) (waiters s) (adm s ++ [(id, now s)]) (next s) (inside s ++ [id])
  else mk (now s) it (waiters s ++ [(id, hd 0 it + w)]) (adm s) (next s) (inside s).

Fixpoint lookup (i : nat) (l : list (nat * Z)) : option Z :=
  match l with
  | [] => None
  | (j, t) :: r => if Nat.eqb i j then Some t else lookup i r
  end.

Fixpoint remove_id (i : nat) (l : list (nat * Z)) : list (nat * Z) :=
  match l with
  | [] => []
  | (j, t) :: r => if Nat.eqb i j then r else (j, t) :: remove_id i r
  end.

Fixpoint remove_nat (i : nat) (l : list nat) : list nat :=
  match l with
  | [] => []
  | j :: r => if Nat.eqb i j then r else j :: remove_nat i r
  end.

Definition step (w c : Z) (s : state) (a : action) : state :=
  match a with
  | Enter => attempt w c (next s) (mk (now s) (items s) (waiters s) (adm s) (S (next s)) (inside s))
  | Wake i =>
      match lookup i (waiters s) with
      | Some t => if t <=? now s
                  then attempt w c i (mk (now s) (items s) (remove_id i (waiters s)) (adm s) (next s) (inside s))
                  else s
      | None => s
      end
  | Advance dt => mk (now s + Z.max 0 dt) (items s) (waiters s) (adm s) (next s) (inside s)
  | Leave i k =>
      if existsb (Nat.eqb i) (inside s)
      then mk (now s) (aexit k (items s)) (waiters s) (adm s) (next s) (remove_nat i (inside s))
      else s
  | Abandon i =>
      match lookup i (waiters s) with
      | Some _ => mk (now s) (items s) (remove_id i (waiters s)) (adm s) (next s) (inside s)
      | None => s
      end
  end.

(** A schedule without the body exits ([Leave]); see C24_body_exits_irrelevant. *)
Definition is_leave (a : action) : bool := match a with Leave _ _ => true | _ => false end.
Definition strip_leaves (acts : list action) : list action := filter (fun a => negb (is_leave a)) acts.
(** Everything but [inside]: the limiter's own data, the sleepers and the admission log. *)
Definition core (s : state) : Z * list Z * list (nat * Z) * list (nat * Z) * nat :=
  (now s, items s, waiters s, adm s, next s).

Definition run (w c t0 : Z) (acts : list action) : state := fold_left (step w c) acts (init t0).

(** Number of admissions in the half-open window [t, t + w). *)
Definition in_window (w t a : Z) : bool := (t <=? a) && (a <? t + w).
Definition window_count (w t : Z) (l : list (nat * Z)) : Z :=
  Z.of_nat (length (filter (fun e => in_window w t (snd e)) l)).
(** Number of admissions in the trailing window (now - w, now]: those an admission at [now] would share a window with. *)
Definition trailing_count (w : Z) (s : state) : Z :=
  Z.of_nat (length (filter (fun e => now s - w <? snd e) (adm s))).

(** Observable trace for the correspondence: the state after every action. *)
Fixpoint trace (w c : Z) (s : state) (acts : list action) : list state :=
  match acts with
  | [] => []
  | a :: r => let s' := step w c s a in s' :: trace w c s' r
  end.

(** Compact fingerprint of a trace (correspondence only; the Python side computes the same function from the
    implementation's observations; waiters are listed by entrant id). *)
Fixpoint insert_by_id (e : nat * Z) (l : list (nat * Z)) : list (nat * Z) :=
  match l with
  | [] => [e]
  | x :: r => if Nat.leb (fst x) (fst e) then x :: insert_by_id e r else e :: l
  end.
Definition sort_by_id (l : list (nat * Z)) : list (nat * Z) := fold_right insert_by_id [] l.
Definition enc_pairs (l : list (nat * Z)) : list Z :=
  Z.of_nat (length l) :: flat_map (fun e : nat * Z => [Z.of_nat (fst e); snd e]) l.
Definition enc_state (s : state) : list Z :=
  now s :: Z.of_nat (length (items s)) :: items s ++ enc_pairs (sort_by_id (waiters s))
  ++ Z.of_nat (length (adm s)) :: enc_pairs (skipn (length (adm s) - 1) (adm s))
  ++ Z.of_nat (length (inside s)) :: map Z.of_nat (inside s).
  (* adm is append-only: its length and last entry after every action determine the whole log *)
Definition hmix (h x : Z) : Z := Z.land (h * 131 + x + 7) 2305843009213693951.
Definition fingerprint (w c : Z) (acts : list action) : Z :=
  fold_left (fun h s => fold_left hmix (enc_state s) h) (trace w c (init 0) acts) 7.

(** Compact schedule encoding (correspondence only: a list literal with notations costs Coq ~2 ms per action to parse, a
    single numeral nothing).  A schedule of [n] actions is one number in base 2^20, least significant digit first;
    digit = kind + 4 * arg with kind 1 = Enter, 2 = Wake arg, 3 = Advance (arg - 512), 0 = exit of entrant arg / 8 with
    arg mod 8 = 0 Leave Normal, 1 Leave Raise, 2 Leave Cancel, 3 Leave Timeout, otherwise Abandon.  A wrong decoding would
    show up as a disagreement with the implementation, never hide one. *)
Definition decode_action (d : Z) : action :=
  let k := d mod 4 in let a := d / 4 in
  if k =? 1 then Enter else if k =? 2 then Wake (Z.to_nat a) else if k =? 3 then Advance (a - 512)
  else let i := Z.to_nat (a / 8) in let m := a mod 8 in
       if m =? 0 then Leave i Normal else if m =? 1 then Leave i Raise else if m =? 2 then Leave i Cancel
       else if m =? 3 then Leave i Timeout else Abandon i.
Fixpoint decode (n : nat) (z : Z) : list action :=
  match n with
  | O => []
  | S m => decode_action (Z.land z 1048575) :: decode m (Z.shiftr z 20)
  end.
