(** Model of batch/batch/semaphore.py::FIFOWeightedSemaphore (the worker's CPU semaphore) driven by jobs
    `async with sem(w): <body>`.  Executable definitions only.

    One constructor per harness action:
      Acquire w   a new job (id = number of earlier arrivals) calls [acquire(w)]: either it is granted at once
                  ([not self.queue and self.value >= weight]) or [(event, w)] is appended to the deque;
      Release i   job i, which is inside its [async with] body, leaves it: [release(w_i)] adds the weight back and
                  the [while self.queue] loop grants from the head while the head fits ([drain]);
                  ignored when job i is not inside its body (only a holder can release);
      Settle      the event loop runs until idle: every granted job resumes and enters its body.
    A job granted without waiting never suspends, so it is inside its body at once (it is recorded in [elog]
    immediately); a job granted by a release enters when its wake-up callback runs, i.e. at the next Settle, in
    grant order.  Until the next Settle neither kind can be asked to leave (the harness has not seen it enter).
    [acquire] up to its [await] and [release] contain no suspension point, so under asyncio they are atomic and an
    interleaving of jobs is exactly a list of these actions. *)
From HailV Require Import Common.Prelude.
Open Scope Z_scope.

Inductive action := Acquire (w : Z) | Release (i : nat) | Settle.

Notation entry := (nat * Z)%type (only parsing). (* job id, weight *)

Record state := mk {
  value   : Z;               (* self.value *)
  queue   : list entry;      (* self.queue, head first *)
  granted : list entry;      (* granted (value already taken), not yet resumed *)
  holding : list entry;      (* inside the body *)
  arr     : list Z;          (* ghost: weights in arrival order; the next job id is its length *)
  glog    : list nat;        (* ghost: job ids in the order in which they were granted *)
  woken   : list nat;        (* observable only: jobs granted by a release whose wake-up has not run yet *)
  elog    : list nat         (* observable only: job ids in the order in which they entered their bodies *)
}.

Definition init (cap : Z) : state := mk cap [] [] [] [] [] [] [].

(** The [while self.queue] loop of [release]: (value', newly granted, remaining queue). *)
Fixpoint drain (v : Z) (q : list entry) : Z * list entry * list entry :=
  match q with
  | [] => (v, [], [])
  | (i, w) :: r =>
      if w <=? v
      then let '(v', g, q') := drain (v - w) r in (v', (i, w) :: g, q')
      else (v, [], q)
  end.

Fixpoint lookup (i : nat) (l : list entry) : option Z :=
  match l with
  | [] => None
  | (j, w) :: r => if Nat.eqb i j then Some w else lookup i r
  end.

Fixpoint remove_id (i : nat) (l : list entry) : list entry :=
  match l with
  | [] => []
  | (j, w) :: r => if Nat.eqb i j then r else (j, w) :: remove_id i r
  end.

Definition step (s : state) (a : action) : state :=
  match a with
  | Acquire w =>
      let i := length (arr s) in
      if is_nil (queue s) && (w <=? value s)
      then mk (value s - w) (queue s) (granted s ++ [(i, w)]) (holding s) (arr s ++ [w]) (glog s ++ [i])
              (woken s) (elog s ++ [i])   (* no suspension: the job is in its body within the same step *)
      else mk (value s) (queue s ++ [(i, w)]) (granted s) (holding s) (arr s ++ [w]) (glog s) (woken s) (elog s)
  | Release i =>
      match lookup i (holding s) with
      | None => s
      | Some w =>
          let '(v', g, q') := drain (value s + w) (queue s) in
          mk v' q' (granted s ++ g) (remove_id i (holding s)) (arr s) (glog s ++ map fst g)
             (woken s ++ map fst g) (elog s)
      end
  | Settle => mk (value s) (queue s) [] (holding s ++ granted s) (arr s) (glog s) [] (elog s ++ woken s)
  end.

Definition run (cap : Z) (acts : list action) : state := fold_left step acts (init cap).

Definition held (s : state) : list entry := granted s ++ holding s.
Definition weights_of (acts : list action) : list Z :=
  flat_map (fun a => match a with Acquire w => [w] | _ => [] end) acts.

(** Observable trace for the correspondence: the state seen after every [Settle]. *)
Definition obs : Type := (Z * list entry * list nat * list nat)%type.
Definition observe (s : state) : obs := (value s, queue s, map fst (holding s), elog s).
Fixpoint trace (s : state) (acts : list action) : list obs :=
  match acts with
  | [] => []
  | a :: r => let s' := step s a in
              match a with Settle => observe s' :: trace s' r | _ => trace s' r end
  end.

(** Compact encodings for the correspondence (a list literal with notations costs Coq milliseconds per action to parse,
    one numeral nothing; printing every observation is slow as well).  [decode]: a schedule of [k] actions is one number
    in base 2^20, least significant digit first, digit = kind + 4 * arg with kind 1 = Settle, 2 = Acquire arg,
    3 = Release arg.  [fingerprint]: a hash of the whole trace; the Python side computes the same function from the
    implementation's observations and a differing schedule is re-evaluated in full.  A wrong decoding or hash would show
    up as a disagreement with the implementation, never hide one. *)
Definition decode_action (d : Z) : action :=
  let k := d mod 4 in let a := d / 4 in
  if k =? 2 then Acquire a else if k =? 3 then Release (Z.to_nat a) else Settle.
Fixpoint decode (k : nat) (z : Z) : list action :=
  match k with
  | O => []
  | S m => decode_action (Z.land z 1048575) :: decode m (Z.shiftr z 20)
  end.
Fixpoint insert_nat (x : nat) (l : list nat) : list nat :=
  match l with [] => [x] | y :: r => if Nat.leb y x then y :: insert_nat x r else x :: l end.
Definition enc_obs (seen : nat) (o : obs) : list Z :=
  let '(v, q, h, e) := o in
  v :: Z.of_nat (length q) :: flat_map (fun x : nat * Z => [Z.of_nat (fst x); snd x]) q
  ++ Z.of_nat (length h) :: map Z.of_nat (fold_right insert_nat [] h)
  ++ Z.of_nat (length e) :: map Z.of_nat (skipn seen e).      (* elog is append-only: only the new entries *)
Definition hmix (h x : Z) : Z := Z.land (h * 131 + x + 7) 2305843009213693951.
Definition fingerprint (cap : Z) (acts : list action) : Z :=
  fst (fold_left (fun (acc : Z * nat) (o : obs) =>
                    let '(_, _, _, e) := o in (fold_left hmix (enc_obs (snd acc) o) (fst acc), length e))
                 (trace (init cap) acts) (7, 0%nat)).
