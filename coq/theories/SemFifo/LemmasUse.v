(** C16: the worker's use of the semaphore (SemFifo/Use.v) — accounting invariants by induction over arbitrary action
    lists, holding after every single task step (every await point), with task cancellation anywhere. *)
From HailV Require Import Common.Prelude SemFifo.Model SemFifo.Lemmas SemFifo.Use.
From HailG Require C16.Gen.
Open Scope Z_scope.

Ltac usimpl :=
  cbn [enter_body set_value set_queue set_fresh set_wait set_woken set_body set_ready set_throw set_leaked
       set_bogus set_next set_grants set_releases set_leaks set_elog
       u_value u_queue u_fresh u_wait u_woken u_body u_ready u_throw u_leaked u_bogus u_next u_grants u_releases u_leaks u_elog] in *.

Definition nn (e : nat * Z) : Prop := 0 <= snd e.

Record UNN (s : ustate) : Prop := {
  n_v : 0 <= u_value s;
  n_l : 0 <= u_leaked s;
  n_q : Forall nn (u_queue s);
  n_f : Forall nn (u_fresh s);
  n_w : Forall nn (u_wait s);
  n_k : Forall nn (u_woken s);
  n_b : Forall nn (u_body s)
}.

(** what the semaphore believes is free + what running and granted-but-not-resumed tasks hold + what was taken for dead
    tasks = capacity + what was released without having been acquired *)
Record UInv (cap : Z) (s : ustate) : Prop := {
  i_nn  : UNN s;
  i_sum : u_value s + zsum snd (u_body s) + zsum snd (u_woken s) + u_leaked s = cap + zsum snd (u_bogus s);
  i_cnt : (u_grants s + length (u_bogus s) = u_releases s + length (u_body s) + length (u_woken s) + u_leaks s)%nat
}.

(** * Lists *)
Lemma zsum_filter_split {A} (f : A -> Z) (p : A -> bool) l :
  zsum f (filter p l) + zsum f (filter (fun x => negb (p x)) l) = zsum f l.
Proof. induction l as [|x r IH]; cbn [filter zsum]; [reflexivity|]. destruct (p x); cbn [negb zsum]; lia. Qed.

Lemma length_filter_split {A} (p : A -> bool) (l : list A) :
  (length (filter p l) + length (filter (fun x => negb (p x)) l) = length l)%nat.
Proof. induction l as [|x r IH]; cbn [filter length]; [reflexivity|]. destruct (p x); cbn [negb length]; lia. Qed.

Lemma Forall_filter {A} (P : A -> Prop) (p : A -> bool) l : Forall P l -> Forall P (filter p l).
Proof. intros H. apply Forall_forall. intros x Hx. apply filter_In in Hx. rewrite Forall_forall in H. now apply H. Qed.

Lemma zsum_nonneg (l : list (nat * Z)) : Forall nn l -> 0 <= zsum snd l.
Proof. induction 1 as [|x r Hx _ IH]; cbn [zsum]; [lia|]. unfold nn in Hx. lia. Qed.

Lemma remove_id_length : forall i (l : list (nat * Z)) w, lookup i l = Some w -> S (length (remove_id i l)) = length l.
Proof.
  induction l as [|[j u] r IH]; intros w H; cbn [lookup] in H; [discriminate|].
  cbn [remove_id]. destruct (Nat.eqb i j); [reflexivity|]. cbn [length]. now rewrite (IH _ H).
Qed.

Lemma remove_id_Forall (P : nat * Z -> Prop) i l : Forall P l -> Forall P (remove_id i l).
Proof. intros H. apply Forall_forall. intros e He. apply remove_id_incl in He. rewrite Forall_forall in H. now apply H. Qed.

Lemma lookup_nn i l w : Forall nn l -> lookup i l = Some w -> 0 <= w.
Proof. intros H L. apply lookup_In in L. rewrite Forall_forall in H. apply (H _ L). Qed.

(** * release *)
Lemma do_release_inv cap w s :
  0 <= w -> UNN s ->
  u_value s + w + zsum snd (u_body s) + zsum snd (u_woken s) + u_leaked s = cap + zsum snd (u_bogus s) ->
  (u_grants s + length (u_bogus s) = S (u_releases s) + length (u_body s) + length (u_woken s) + u_leaks s)%nat ->
  UInv cap (do_release w s).
Proof.
  intros Hw [Hv Hl Hq Hf Hwt Hk Hb] Hsum Hcnt. unfold do_release.
  destruct s as [v q fr wt wk bd rd th lk bg nx gr rl ls el]. usimpl.
  destruct (drain (v + w) q) as [[v' g] q'] eqn:D.
  destruct (drain_spec _ _ _ _ _ D) as (Eq & Ev & _ & Hn).
  pose proof (zsum_filter_split snd (fun e : nat * Z => memb (fst e) (ids wt)) g) as Hz.
  pose proof (length_filter_split (fun e : nat * Z => memb (fst e) (ids wt)) g) as Hlen.
  assert (Hg : Forall nn g /\ Forall nn q') by (rewrite Eq in Hq; now apply Forall_app in Hq).
  destruct Hg as [Hg Hq'].
  pose proof (zsum_nonneg _ (Forall_filter nn (fun e => negb (memb (fst e) (ids wt))) g Hg)) as Hdead.
  usimpl.
  constructor; [constructor|..]; usimpl.
  - apply Hn. lia.
  - lia.
  - exact Hq'.
  - exact Hf.
  - now apply Forall_filter.
  - apply Forall_app. split; [exact Hk | now apply Forall_filter].
  - exact Hb.
  - rewrite zsum_app. lia.
  - rewrite app_length. lia.
Qed.

(** * one task step *)
Lemma tick_inv p cap s : UInv cap s -> UInv cap (tick p s).
Proof.
  intros HI. unfold tick. destruct (u_ready s) as [|i rest] eqn:Er; [exact HI|].
  destruct HI as [[Hv Hl Hq Hf Hwt Hk Hb] Hsum Hcnt].
  destruct s as [v q fr wt wk bd rd th lk bg nx gr rl ls el]. usimpl.
  destruct (lookup i fr) as [w|] eqn:Lf.
  { (* first step *)
    pose proof (lookup_nn _ _ _ Hf Lf) as Hw0.
    destruct (memb i th).
    - constructor; [constructor|..]; usimpl; try assumption. now apply remove_id_Forall.
    - destruct (is_nil q && (w <=? v)) eqn:E.
      + apply andb_true_iff in E. destruct E as [_ E].
        constructor; [constructor|..]; usimpl; try assumption.
        * lia.
        * now apply remove_id_Forall.
        * apply Forall_app. split; [exact Hb | constructor; [exact Hw0 | constructor]].
        * rewrite zsum_app. cbn [zsum snd]. lia.
        * rewrite app_length. cbn [length]. lia.
      + constructor; [constructor|..]; usimpl; try assumption.
        * apply Forall_app. split; [exact Hq | constructor; [exact Hw0 | constructor]].
        * now apply remove_id_Forall.
        * apply Forall_app. split; [exact Hwt | constructor; [exact Hw0 | constructor]]. }
  destruct (lookup i wk) as [w|] eqn:Lk.
  { (* granted by a release, resuming *)
    pose proof (lookup_nn _ _ _ Hk Lk) as Hw0.
    pose proof (remove_id_sum _ _ _ Lk) as Hrs. pose proof (remove_id_length _ _ _ Lk) as Hrl.
    destruct (memb i th).
    - destruct p.
      + constructor; [constructor|..]; usimpl; try assumption; try lia. now apply remove_id_Forall.
      + apply do_release_inv; usimpl; try assumption; try lia.
        constructor; usimpl; try assumption. now apply remove_id_Forall.
    - constructor; [constructor|..]; usimpl; try assumption.
      + now apply remove_id_Forall.
      + apply Forall_app. split; [exact Hb | constructor; [exact Hw0 | constructor]].
      + rewrite zsum_app. cbn [zsum snd]. lia.
      + rewrite app_length. cbn [length]. lia. }
  destruct (lookup i wt) as [w|] eqn:Lw.
  { (* still queued: only a cancellation gets here *)
    pose proof (lookup_nn _ _ _ Hwt Lw) as Hw0.
    destruct (memb i th).
    - destruct p.
      + constructor; [constructor|..]; usimpl; try assumption. now apply remove_id_Forall.
      + apply do_release_inv; usimpl; try assumption.
        * constructor; usimpl; try assumption. now apply remove_id_Forall.
        * rewrite zsum_app. cbn [zsum snd]. lia.
        * rewrite app_length. cbn [length]. lia.
    - constructor; [constructor|..]; usimpl; assumption. }
  destruct (lookup i bd) as [w|] eqn:Lb.
  { (* leaving the body *)
    pose proof (lookup_nn _ _ _ Hb Lb) as Hw0.
    pose proof (remove_id_sum _ _ _ Lb) as Hrs. pose proof (remove_id_length _ _ _ Lb) as Hrl.
    apply do_release_inv; usimpl; try assumption; try lia.
    constructor; usimpl; try assumption. now apply remove_id_Forall. }
  constructor; [constructor|..]; usimpl; assumption.
Qed.

Lemma ticks_inv p cap n : forall s, UInv cap s -> UInv cap (ticks p n s).
Proof. induction n as [|n IH]; intros s H; cbn [ticks]; [exact H | apply IH, tick_inv, H]. Qed.

Definition action_ok (a : uaction) : Prop := match a with Spawn w => 0 <= w | _ => True end.

Lemma ustep_inv p cap s a : action_ok a -> UInv cap s -> UInv cap (ustep p s a).
Proof.
  intros Ha HI. destruct a as [w|i|i|]; cbn [ustep].
  - destruct HI as [[Hv Hl Hq Hf Hwt Hk Hb] Hsum Hcnt]. cbn [action_ok] in Ha.
    destruct s as [v q fr wt wk bd rd th lk bg nx gr rl ls el]. usimpl.
    constructor; [constructor|..]; usimpl; try assumption.
    apply Forall_app. split; [exact Hf | constructor; [exact Ha | constructor]].
  - destruct (lookup i (u_body s)); [|exact HI]. destruct (memb i (u_ready s)); [exact HI|].
    destruct HI as [[Hv Hl Hq Hf Hwt Hk Hb] Hsum Hcnt]. destruct s. usimpl. constructor; [constructor|..]; usimpl; assumption.
  - destruct (memb i (u_throw s)); [exact HI|].
    destruct (memb i (u_ready s)).
    + destruct HI as [[Hv Hl Hq Hf Hwt Hk Hb] Hsum Hcnt]. destruct s. usimpl. constructor; [constructor|..]; usimpl; assumption.
    + destruct (memb i (ids (u_wait s) ++ ids (u_woken s) ++ ids (u_body s))); [|exact HI].
      destruct HI as [[Hv Hl Hq Hf Hwt Hk Hb] Hsum Hcnt]. destruct s. usimpl. constructor; [constructor|..]; usimpl; assumption.
  - now apply ticks_inv.
Qed.

Lemma UInv_init cap : 0 <= cap -> UInv cap (uinit cap).
Proof. intros Hc. constructor; [constructor|..]; cbn; try constructor; lia. Qed.

Lemma spawn_weights_cons a r : spawn_weights (a :: r) = match a with Spawn w => [w] | _ => [] end ++ spawn_weights r.
Proof. reflexivity. Qed.

Lemma fold_inv p cap acts : forall s, Forall (fun w => 0 <= w) (spawn_weights acts) -> UInv cap s ->
  UInv cap (fold_left (ustep p) acts s).
Proof.
  induction acts as [|a r IH]; intros s Hw HI; cbn [fold_left]; [exact HI|].
  rewrite spawn_weights_cons in Hw. apply Forall_app in Hw. destruct Hw as [Ha Hr].
  apply IH; [exact Hr|]. apply ustep_inv; [|exact HI].
  destruct a; cbn [action_ok]; [now inversion Ha | exact I..].
Qed.

Lemma urun_inv p cap acts : 0 <= cap -> Forall (fun w => 0 <= w) (spawn_weights acts) -> UInv cap (urun p cap acts).
Proof. intros Hc Hw. unfold urun. apply fold_inv; [exact Hw | now apply UInv_init]. Qed.

(** * With the release guard after the acquire, nothing is ever released that was not acquired *)
Lemma do_release_bogus w s : u_bogus (do_release w s) = u_bogus s.
Proof. unfold do_release. destruct (drain (u_value s + w) (u_queue s)) as [[v' g] q']. destruct s. usimpl. reflexivity. Qed.

Lemma tick_bogus s : u_bogus (tick AcquireThenTry s) = u_bogus s.
Proof.
  unfold tick. destruct (u_ready s) as [|i rest]; [reflexivity|].
  destruct s as [v q fr wt wk bd rd th lk bg nx gr rl ls el]. usimpl.
  destruct (lookup i fr).
  { destruct (memb i th); [reflexivity|]. destruct (is_nil q && (_ <=? v)); reflexivity. }
  destruct (lookup i wk). { destruct (memb i th); reflexivity. }
  destruct (lookup i wt). { destruct (memb i th); reflexivity. }
  destruct (lookup i bd); [|reflexivity]. now rewrite do_release_bogus.
Qed.

Lemma ticks_bogus n : forall s, u_bogus (ticks AcquireThenTry n s) = u_bogus s.
Proof. induction n as [|n IH]; intros s; cbn [ticks]; [reflexivity | now rewrite IH, tick_bogus]. Qed.

Lemma ustep_bogus s a : u_bogus (ustep AcquireThenTry s a) = u_bogus s.
Proof.
  destruct a as [w|i|i|]; cbn [ustep].
  - destruct s. reflexivity.
  - destruct (lookup i (u_body s)); [|reflexivity]. destruct (memb i (u_ready s)); [reflexivity|]. destruct s. reflexivity.
  - destruct (memb i (u_throw s)); [reflexivity|]. destruct (memb i (u_ready s)); [destruct s; reflexivity|].
    destruct (memb i (ids (u_wait s) ++ ids (u_woken s) ++ ids (u_body s))); [destruct s|]; reflexivity.
  - apply ticks_bogus.
Qed.

Lemma urun_bogus cap acts : u_bogus (urun AcquireThenTry cap acts) = [].
Proof.
  unfold urun. assert (H : u_bogus (uinit cap) = []) by reflexivity. revert H. generalize (uinit cap).
  induction acts as [|a r IH]; intros s H; cbn [fold_left]; [exact H|]. apply IH. now rewrite ustep_bogus.
Qed.

(** * Consequences (any number of further task steps [n] after the schedule: the statements hold at every await point) *)
Lemma use_accounting cap acts n :
  0 <= cap -> Forall (fun w => 0 <= w) (spawn_weights acts) ->
  let s := ticks AcquireThenTry n (urun AcquireThenTry cap acts) in
  u_value s + running s + zsum snd (u_woken s) + u_leaked s = cap /\
  0 <= u_value s /\ 0 <= zsum snd (u_woken s) /\ 0 <= u_leaked s /\
  u_bogus s = [] /\
  (u_grants s = u_releases s + length (u_body s) + length (u_woken s) + u_leaks s)%nat.
Proof.
  intros Hc Hw s.
  pose proof (ticks_inv AcquireThenTry cap n _ (urun_inv AcquireThenTry cap acts Hc Hw)) as [[Hv Hl _ _ _ Hk _] Hsum Hcnt].
  assert (Hb : u_bogus s = []) by (unfold s; now rewrite ticks_bogus, urun_bogus).
  fold s in Hv, Hl, Hk, Hsum, Hcnt. rewrite Hb in Hsum, Hcnt. cbn [zsum length] in Hsum, Hcnt.
  pose proof (zsum_nonneg _ Hk). unfold running. repeat split; try assumption; lia.
Qed.

Lemma use_capacity cap acts n :
  0 <= cap -> Forall (fun w => 0 <= w) (spawn_weights acts) ->
  running (ticks AcquireThenTry n (urun AcquireThenTry cap acts)) <= cap.
Proof. intros Hc Hw. destruct (use_accounting cap acts n Hc Hw) as (H1 & H2 & H3 & H4 & _). lia. Qed.

(** The other pattern is unsafe: a waiter that is not at the head is cancelled, its [finally] releases what it never
    acquired, and the waiter at the head is admitted on top of the running job. *)
Lemma in_try_overgrants :
  running (urun AcquireInTry 1 [Spawn 1; Spawn 1; Spawn 1; USettle; Cancel 2; USettle]) = 2.
Proof. vm_compute. reflexivity. Qed.

(** What cancellation costs with the pattern of the source: the entry of a waiter that is cancelled while queued stays in
    the deque; when it is granted nobody is there to give the weight back — capacity is lost, never over-committed. *)
Lemma cancelled_waiter_leaks :
  let s := urun AcquireThenTry 1 [Spawn 1; Spawn 1; USettle; Cancel 1; USettle; Finish 0; USettle] in
  u_value s = 0 /\ u_body s = [] /\ u_wait s = [] /\ u_woken s = [] /\ u_fresh s = [] /\ u_leaked s = 1.
Proof. vm_compute. repeat split. Qed.

(** * The reservation pattern of every use site in the current source (regenerated by the translator) *)
Lemma gen_use_sites : Forall (fun p => p = AcquireThenTry) C16.Gen.use_sites.
Proof. repeat constructor. Qed.

Lemma gen_use_site_pattern p : In p C16.Gen.use_sites -> p = AcquireThenTry.
Proof. intros H. pose proof gen_use_sites as G. rewrite Forall_forall in G. now apply G. Qed.
