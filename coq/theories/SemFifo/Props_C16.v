(** C16 — the worker's FIFO weighted CPU semaphore is safe, FIFO and live.
    Property theorems only; every statement quantifies over ALL action lists (arbitrary interleavings of
    acquire / release / event-loop settling by any number of jobs).  Model: SemFifo/Model.v. *)
From HailV Require Import Common.Prelude SemFifo.Model SemFifo.Lemmas SemFifo.Use SemFifo.LemmasUse.
From HailG Require C16.Gen.
Open Scope Z_scope.

(** Exact accounting: free value + weights granted and not yet released = capacity (no assumption at all). *)
Theorem C16_conservation : forall (cap : Z) (acts : list action),
  value (run cap acts) + zsum snd (held (run cap acts)) = cap.
Proof.
  intros cap acts. pose proof (inv_cons _ _ (Inv_run cap acts)) as H. unfold held. rewrite zsum_app. lia.
Qed.
Print Assumptions C16_conservation.

(** Never more than the capacity is granted at once (weights non-negative, as cpu_in_mcpu is). *)
Theorem C16_capacity : forall (cap : Z) (acts : list action),
  0 <= cap -> nonneg_weights acts ->
  0 <= value (run cap acts) /\ zsum snd (held (run cap acts)) <= cap.
Proof. intros cap acts Hc Hw; split; [now apply value_nonneg | now apply capacity]. Qed.
Print Assumptions C16_capacity.

(** Every entry of the semaphore carries the weight its job arrived with (ids are arrival positions). *)
Theorem C16_weights : forall (cap : Z) (acts : list action) (i : nat) (w : Z),
  In (i, w) (queue (run cap acts) ++ held (run cap acts)) -> nth_error (weights_of acts) i = Some w.
Proof.
  intros cap acts i w H. rewrite <- (arr_run cap acts). apply (inv_w _ _ (Inv_run cap acts)). exact H.
Qed.
Print Assumptions C16_weights.

(** Strict FIFO: the jobs granted so far are exactly the first k arrivals, granted in arrival order, and the
    waiters are exactly the remaining arrivals, queued in arrival order. *)
Theorem C16_fifo : forall (cap : Z) (acts : list action),
  let s := run cap acts in
  let k := length (glog s) in
  glog s = seq 0 k /\ map fst (queue s) = seq k (length (queue s)) /\
  length (weights_of acts) = (k + length (queue s))%nat.
Proof.
  intros cap acts s k. pose proof (Inv_run cap acts) as [_ Hg Hq Hn _ _].
  rewrite arr_run in Hn. repeat split; assumption.
Qed.
Print Assumptions C16_fifo.

(** A job is inside a body (or about to resume into it) only if it was granted: holders are among the first k arrivals,
    waiters are the others. *)
Theorem C16_holders_were_granted : forall (cap : Z) (acts : list action) (i : nat) (w : Z),
  In (i, w) (held (run cap acts)) -> (i < length (glog (run cap acts)))%nat.
Proof.
  intros cap acts i w H. apply (held_granted_run cap acts) in H. cbn [fst] in H.
  rewrite (inv_glog _ _ (Inv_run cap acts)) in H. apply in_seq in H. lia.
Qed.
Print Assumptions C16_holders_were_granted.

(** Grants are never revoked or reordered by later actions. *)
Theorem C16_grant_log_grows : forall (cap : Z) (acts more : list action),
  exists l, glog (run cap (acts ++ more)) = glog (run cap acts) ++ l.
Proof. intros cap acts more. unfold run. rewrite fold_left_app. apply glog_fold. Qed.
Print Assumptions C16_grant_log_grows.

(** No lost wake-up: after ANY action, if a job is at the head of the queue then the free value is strictly
    smaller than its weight (so it is blocked only because it does not fit). *)
Theorem C16_no_lost_wakeup : forall (cap : Z) (acts : list action) (i : nat) (w : Z) (rest : list (nat * Z)),
  queue (run cap acts) = (i, w) :: rest ->
  cap - zsum snd (held (run cap acts)) < w.
Proof.
  intros cap acts i w rest Hq. pose proof (inv_wake _ _ (Inv_run cap acts)) as Hw. rewrite Hq in Hw.
  pose proof (C16_conservation cap acts). lia.
Qed.
Print Assumptions C16_no_lost_wakeup.

(** Liveness corollary: with every weight at most the capacity, nobody waits once all holders have left. *)
Theorem C16_no_deadlock : forall (cap : Z) (acts : list action),
  Forall (fun w => w <= cap) (weights_of acts) ->
  held (run cap acts) = [] -> queue (run cap acts) = [].
Proof. exact no_deadlock. Qed.
Print Assumptions C16_no_deadlock.

(** * The worker's USE of the semaphore (batch/batch/worker/worker.py), with task cancellation at every await point

    Model: SemFifo/Use.v — job task = acquire ; body ; release, driven by Spawn / Finish / Cancel / USettle with asyncio's
    ready queue and cancellation semantics; the reservation pattern of every use site ([C16.Gen.use_sites]) is regenerated
    from worker.py + semaphore.py on every run.  All statements: every capacity, every action list (any number of jobs,
    cancellations anywhere: before the first step, queued at the head or behind others, granted but not resumed, inside the
    body, after the end), and any number [n] of further single task steps, i.e. at every await point. *)

(** Every use site acquires BEFORE entering the release guard. *)
Theorem C16_use_sites_release_only_after_acquire :
  C16.Gen.use_sites <> [] /\ forall p, In p C16.Gen.use_sites -> p = AcquireThenTry.
Proof. split; [discriminate | exact gen_use_site_pattern]. Qed.
Print Assumptions C16_use_sites_release_only_after_acquire.

(** The capacity theorem at the worker: the jobs inside their bodies never weigh more than the capacity. *)
Theorem C16_use_capacity : forall (p : pattern) (cap : Z) (acts : list uaction) (n : nat),
  In p C16.Gen.use_sites -> 0 <= cap -> Forall (fun w => 0 <= w) (spawn_weights acts) ->
  running (ticks p n (urun p cap acts)) <= cap.
Proof. intros p cap acts n Hp. rewrite (gen_use_site_pattern p Hp). apply use_capacity. Qed.
Print Assumptions C16_use_capacity.

(** Grants and releases match: nothing is ever released that was not acquired; free value + weights of running jobs +
    weights granted to jobs that have not resumed yet + weights granted to tasks that died inside acquire = capacity;
    every grant has been released exactly once, or is still held by a running / resuming job, or went to a task that was
    cancelled inside acquire. *)
Theorem C16_use_grants_match_releases : forall (p : pattern) (cap : Z) (acts : list uaction) (n : nat),
  In p C16.Gen.use_sites -> 0 <= cap -> Forall (fun w => 0 <= w) (spawn_weights acts) ->
  let s := ticks p n (urun p cap acts) in
  u_value s + running s + zsum snd (u_woken s) + u_leaked s = cap /\
  0 <= u_value s /\ 0 <= zsum snd (u_woken s) /\ 0 <= u_leaked s /\
  u_bogus s = [] /\
  (u_grants s = u_releases s + length (u_body s) + length (u_woken s) + u_leaks s)%nat.
Proof. intros p cap acts n Hp. rewrite (gen_use_site_pattern p Hp). apply use_accounting. Qed.
Print Assumptions C16_use_grants_match_releases.

(** The model discriminates: with the acquire INSIDE the guarded block a cancelled waiter releases what it never acquired
    and the capacity is exceeded. *)
Theorem C16_use_acquire_inside_guard_unsafe : exists (cap : Z) (acts : list uaction),
  0 <= cap /\ Forall (fun w => 0 <= w) (spawn_weights acts) /\ cap < running (urun AcquireInTry cap acts).
Proof.
  exists 1, [Spawn 1; Spawn 1; Spawn 1; USettle; Cancel 2; USettle]. rewrite in_try_overgrants.
  split; [lia|]. split; [repeat constructor; lia | lia].
Qed.
Print Assumptions C16_use_acquire_inside_guard_unsafe.

(** Limit of the statement (faithful model of the current code): a waiter cancelled while queued leaves its entry in the
    deque; the weight later granted to that entry is never given back.  Cancellation can only LOSE capacity. *)
Theorem C16_use_cancelled_waiter_loses_capacity : exists (cap : Z) (acts : list uaction),
  let s := urun AcquireThenTry cap acts in
  u_body s = [] /\ u_wait s = [] /\ u_woken s = [] /\ u_fresh s = [] /\ u_value s < cap /\ u_leaked s = cap - u_value s.
Proof.
  exists 1, [Spawn 1; Spawn 1; USettle; Cancel 1; USettle; Finish 0; USettle].
  destruct cancelled_waiter_leaks as (Hv & Hb & Hw & Hk & Hf & Hl). cbv zeta. rewrite Hv, Hb, Hw, Hk, Hf, Hl.
  repeat split; lia.
Qed.
Print Assumptions C16_use_cancelled_waiter_loses_capacity.
