(** C16 — the worker's FIFO weighted CPU semaphore is safe, FIFO and live.
    Property theorems only; every statement quantifies over ALL action lists (arbitrary interleavings of
    acquire / release / event-loop settling by any number of jobs).  Model: SemFifo/Model.v. *)
From HailV Require Import Common.Prelude SemFifo.Model SemFifo.Lemmas.
Open Scope Z_scope.

(** Exact accounting: free value + weights granted and not yet released = capacity (no assumption at all). *)
Theorem C16_conservation : forall (cap : Z) (acts : list action),
  value (run cap acts) + zsum snd (held (run cap acts)) = cap.
Proof.
  intros cap acts. pose proof (inv_cons _ _ (Inv_run cap acts)) as H. unfold held. rewrite zsum_app. lia.
Qed.
Print Assumptions C16_conservation.

(** Never more than the capacity is granted at once (weights non-negative, as cpu_in_mcpu is). *)
Theorem C16_capacity : forall (cap : Z) (acts : list action),
  0 <= cap -> nonneg_weights acts ->
  0 <= value (run cap acts) /\ zsum snd (held (run cap acts)) <= cap.
Proof. intros cap acts Hc Hw; split; [now apply value_nonneg | now apply capacity]. Qed.
Print Assumptions C16_capacity.

(** Every entry of the semaphore carries the weight its job arrived with (ids are arrival positions). *)
Theorem C16_weights : forall (cap : Z) (acts : list action) (i : nat) (w : Z),
  In (i, w) (queue (run cap acts) ++ held (run cap acts)) -> nth_error (weights_of acts) i = Some w.
Proof.
  intros cap acts i w H. rewrite <- (arr_run cap acts). apply (inv_w _ _ (Inv_run cap acts)). exact H.
Qed.
Print Assumptions C16_weights.

(** Strict FIFO: the jobs granted so far are exactly the first k arrivals, granted in arrival order, and the
    waiters are exactly the remaining arrivals, queued in arrival order. *)
Theorem C16_fifo : forall (cap : Z) (acts : list action),
  let s := run cap acts in
  let k := length (glog s) in
  glog s = seq 0 k /\ map fst (queue s) = seq k (length (queue s)) /\
  length (weights_of acts) = (k + length (queue s))%nat.
Proof.
  intros cap acts s k. pose proof (Inv_run cap acts) as [_ Hg Hq Hn _ _].
  rewrite arr_run in Hn. repeat split; assumption.
Qed.
Print Assumptions C16_fifo.

(** A job is inside a body (or about to resume into it) only if it was granted: holders are among the first k arrivals,
    waiters are the others. *)
Theorem C16_holders_were_granted : forall (cap : Z) (acts : list action) (i : nat) (w : Z),
  In (i, w) (held (run cap acts)) -> (i < length (glog (run cap acts)))%nat.
Proof.
  intros cap acts i w H. apply (held_granted_run cap acts) in H. cbn [fst] in H.
  rewrite (inv_glog _ _ (Inv_run cap acts)) in H. apply in_seq in H. lia.
Qed.
Print Assumptions C16_holders_were_granted.

(** Grants are never revoked or reordered by later actions. *)
Theorem C16_grant_log_grows : forall (cap : Z) (acts more : list action),
  exists l, glog (run cap (acts ++ more)) = glog (run cap acts) ++ l.
Proof. intros cap acts more. unfold run. rewrite fold_left_app. apply glog_fold. Qed.
Print Assumptions C16_grant_log_grows.

(** No lost wake-up: after ANY action, if a job is at the head of the queue then the free value is strictly
    smaller than its weight (so it is blocked only because it does not fit). *)
Theorem C16_no_lost_wakeup : forall (cap : Z) (acts : list action) (i : nat) (w : Z) (rest : list (nat * Z)),
  queue (run cap acts) = (i, w) :: rest ->
  cap - zsum snd (held (run cap acts)) < w.
Proof.
  intros cap acts i w rest Hq. pose proof (inv_wake _ _ (Inv_run cap acts)) as Hw. rewrite Hq in Hw.
  pose proof (C16_conservation cap acts). lia.
Qed.
Print Assumptions C16_no_lost_wakeup.

(** Liveness corollary: with every weight at most the capacity, nobody waits once all holders have left. *)
Theorem C16_no_deadlock : forall (cap : Z) (acts : list action),
  Forall (fun w => w <= cap) (weights_of acts) ->
  held (run cap acts) = [] -> queue (run cap acts) = [].
Proof. exact no_deadlock. Qed.
Print Assumptions C16_no_deadlock.
