(** C16: invariants of the FIFO weighted semaphore model, by induction over arbitrary action lists. *)
From HailV Require Import Common.Prelude SemFifo.Model.
Open Scope Z_scope.

(** * The release loop *)
Lemma drain_spec : forall q v v' g q',
  drain v q = (v', g, q') ->
  q = g ++ q' /\ v' = v - zsum snd g /\
  match q' with [] => True | (_, w) :: _ => v' < w end /\
  (0 <= v -> 0 <= v').
Proof.
  induction q as [|[i w] r IH]; intros v v' g q' H; cbn [drain] in H.
  - inversion H; subst; cbn [zsum app]; repeat split; lia.
  - destruct (w <=? v) eqn:E.
    + destruct (drain (v - w) r) as [[v1 g1] q1] eqn:D.
      inversion H; subst; clear H.
      destruct (IH _ _ _ _ D) as (Hq & Hv & Hh & Hn).
      cbn [zsum app snd]; repeat split.
      * now rewrite Hq at 1.
      * lia.
      * exact Hh.
      * intros _; apply Hn; lia.
    + inversion H; subst; clear H. cbn [zsum app]; repeat split; try lia.
Qed.

Lemma lookup_In : forall i l w, lookup i l = Some w -> In (i, w) l.
Proof.
  induction l as [|[j u] r IH]; intros w H; cbn [lookup] in H; [discriminate|].
  destruct (Nat.eqb i j) eqn:E.
  - apply Nat.eqb_eq in E; inversion H; subst; now left.
  - right; now apply IH.
Qed.

Lemma remove_id_sum : forall i l w, lookup i l = Some w ->
  zsum snd (remove_id i l) = zsum snd l - w.
Proof.
  induction l as [|[j u] r IH]; intros w H; cbn [lookup] in H; [discriminate|].
  cbn [remove_id]. destruct (Nat.eqb i j).
  - inversion H; subst; cbn [zsum snd]; lia.
  - cbn [zsum snd]; rewrite (IH _ H); lia.
Qed.

Lemma remove_id_incl : forall i l e, In e (remove_id i l) -> In e l.
Proof.
  induction l as [|[j u] r IH]; intros e H; cbn [remove_id] in H; [contradiction|].
  destruct (Nat.eqb i j); [now right|].
  destruct H as [H|H]; [now left | right; now apply IH].
Qed.

Lemma app_eq_len {A} : forall (a c b d : list A), length a = length c -> a ++ b = c ++ d -> a = c /\ b = d.
Proof.
  induction a as [|x a IH]; intros [|y c] b d Hl H; cbn in *; try discriminate.
  - now split.
  - inversion H; subst. destruct (IH c b d) as [-> ->]; [lia | assumption | now split].
Qed.

Lemma seq_split_map (g q : list (nat * Z)) k :
  map fst (g ++ q) = seq k (length (g ++ q)) ->
  map fst g = seq k (length g) /\ map fst q = seq (k + length g) (length q).
Proof.
  rewrite map_app, app_length, seq_app. intros H.
  apply app_eq_len in H; [exact H | now rewrite map_length, seq_length].
Qed.

(** * The invariant *)
Record Inv (cap : Z) (s : state) : Prop := {
  inv_cons  : value s + zsum snd (granted s) + zsum snd (holding s) = cap;
  inv_glog  : glog s = seq 0 (length (glog s));
  inv_queue : map fst (queue s) = seq (length (glog s)) (length (queue s));
  inv_next  : length (arr s) = (length (glog s) + length (queue s))%nat;
  inv_wake  : match queue s with [] => True | (_, w) :: _ => value s < w end;
  inv_w     : forall i w, In (i, w) (queue s ++ granted s ++ holding s) -> nth_error (arr s) i = Some w
}.

Lemma Inv_init cap : Inv cap (init cap).
Proof. constructor; cbn; try lia; try reflexivity; try tauto. Qed.

Lemma nth_error_snoc_old {A} (l : list A) x i v : nth_error l i = Some v -> nth_error (l ++ [x]) i = Some v.
Proof. intros H; rewrite nth_error_app1; [exact H | apply nth_error_Some; congruence]. Qed.

Lemma nth_error_snoc_new {A} (l : list A) x : nth_error (l ++ [x]) (length l) = Some x.
Proof. rewrite nth_error_app2 by lia. now rewrite Nat.sub_diag. Qed.

Lemma seq_snoc a n : seq a n ++ [(a + n)%nat] = seq a (S n).
Proof. now rewrite seq_S. Qed.

Lemma Inv_step cap s a : Inv cap s -> Inv cap (step s a).
Proof.
  intros [Hc Hg Hq Hn Hw Hwt]; destruct a as [w | i | ]; cbn [step].
  - (* Acquire *)
    destruct (is_nil (queue s) && (w <=? value s)) eqn:E.
    + apply andb_true_iff in E; destruct E as [En Ew].
      destruct (queue s) as [|e r] eqn:Q; [|discriminate].
      constructor; cbn [value queue granted holding arr glog woken elog].
      * rewrite zsum_app; cbn [zsum snd]; lia.
      * rewrite app_length; cbn [length]. rewrite Nat.add_1_r, <- seq_snoc, <- Hg.
        cbn [length] in Hn. rewrite Nat.add_0_r in Hn. now rewrite Hn.
      * reflexivity.
      * rewrite !app_length; cbn [length] in *; lia.
      * exact I.
      * intros i u Hin. cbn [app] in Hin. rewrite <- app_assoc in Hin. cbn [app] in Hin.
        apply in_app_or in Hin; destruct Hin as [Hin | [Hin | Hin]].
        -- apply nth_error_snoc_old, Hwt; cbn [app]; apply in_or_app; now left.
        -- inversion Hin; subst; apply nth_error_snoc_new.
        -- apply nth_error_snoc_old, Hwt; cbn [app]; apply in_or_app; now right.
    + constructor; cbn [value queue granted holding arr glog woken elog].
      * exact Hc.
      * exact Hg.
      * rewrite map_app, app_length, Hq; cbn [map fst length].
        rewrite Nat.add_1_r, <- seq_snoc. f_equal. f_equal. lia.
      * rewrite !app_length; cbn [length]; lia.
      * destruct (queue s) as [|[j u] r] eqn:Q; cbn [app].
        -- cbn [is_nil andb] in E. lia.
        -- exact Hw.
      * intros i u Hin. rewrite <- app_assoc in Hin.
        apply in_app_or in Hin; destruct Hin as [Hin | Hin].
        -- apply nth_error_snoc_old, Hwt; apply in_or_app; now left.
        -- cbn [app] in Hin; destruct Hin as [Hin | Hin].
           ++ inversion Hin; subst; apply nth_error_snoc_new.
           ++ apply nth_error_snoc_old, Hwt; apply in_or_app; now right.
  - (* Release *)
    destruct (lookup i (holding s)) as [w|] eqn:L; [|constructor; assumption].
    destruct (drain (value s + w) (queue s)) as [[v' g] q'] eqn:D.
    destruct (drain_spec _ _ _ _ _ D) as (Eq & Ev & Hh & _).
    constructor; cbn [value queue granted holding arr glog woken elog].
    + rewrite zsum_app, (remove_id_sum _ _ _ L); lia.
    + rewrite Eq in Hq. apply seq_split_map in Hq. destruct Hq as [Hq1 _].
      rewrite app_length, map_length, seq_app, <- Hg, Hq1. reflexivity.
    + rewrite Eq in Hq. apply seq_split_map in Hq. destruct Hq as [_ Hq2].
      rewrite app_length, map_length. exact Hq2.
    + rewrite app_length, map_length. rewrite Eq, app_length in Hn. lia.
    + exact Hh.
    + intros j u Hin. apply Hwt. rewrite Eq.
      apply in_app_or in Hin; destruct Hin as [Hin | Hin].
      * apply in_or_app; left; apply in_or_app; now right.
      * apply in_app_or in Hin; destruct Hin as [Hin | Hin].
        -- apply in_app_or in Hin; destruct Hin as [Hin | Hin].
           ++ apply in_or_app; right; apply in_or_app; now left.
           ++ apply in_or_app; left; apply in_or_app; now left.
        -- apply in_or_app; right; apply in_or_app; right. eapply remove_id_incl; eassumption.
  - (* Settle *)
    constructor; cbn [value queue granted holding arr glog woken elog]; try assumption.
    + rewrite zsum_app; cbn [zsum]; lia.
    + intros j u Hin. apply Hwt. cbn [app] in Hin.
      apply in_app_or in Hin; destruct Hin as [Hin | Hin]; [apply in_or_app; now left|].
      apply in_or_app; right. apply in_app_or in Hin. apply in_or_app; tauto.
Qed.

Lemma Inv_fold cap acts : forall s, Inv cap s -> Inv cap (fold_left step acts s).
Proof. induction acts as [|a r IH]; intros s H; cbn [fold_left]; [exact H | apply IH, Inv_step, H]. Qed.

Theorem Inv_run cap acts : Inv cap (run cap acts).
Proof. apply Inv_fold, Inv_init. Qed.

(** * Ghost arrival list = the weights of the Acquire actions, in order *)
Lemma arr_step s a : arr (step s a) = arr s ++ match a with Acquire w => [w] | _ => [] end.
Proof.
  destruct a as [w|i|]; cbn [step].
  - destruct (is_nil (queue s) && (w <=? value s)); reflexivity.
  - destruct (lookup i (holding s)); [|now rewrite app_nil_r].
    destruct (drain _ _) as [[? ?] ?]; cbn [arr]; now rewrite app_nil_r.
  - cbn [arr]; now rewrite app_nil_r.
Qed.

Lemma arr_fold acts : forall s, arr (fold_left step acts s) = arr s ++ weights_of acts.
Proof.
  induction acts as [|a r IH]; intros s; cbn [fold_left weights_of flat_map].
  - now rewrite app_nil_r.
  - rewrite IH, arr_step, <- app_assoc. reflexivity.
Qed.

Lemma arr_run cap acts : arr (run cap acts) = weights_of acts.
Proof. unfold run; now rewrite arr_fold. Qed.

(** * Non-negativity of the free value when weights are non-negative *)
Definition nonneg_weights (acts : list action) : Prop := Forall (fun w => 0 <= w) (weights_of acts).

Lemma value_nonneg_step s a :
  0 <= value s -> Forall (fun e => 0 <= snd e) (holding s) ->
  0 <= value (step s a).
Proof.
  intros Hv Hh; destruct a as [w|i|]; cbn [step].
  - destruct (is_nil (queue s) && (w <=? value s)) eqn:E; cbn [value]; [|exact Hv].
    apply andb_true_iff in E; lia.
  - destruct (lookup i (holding s)) as [w|] eqn:L; [|exact Hv].
    destruct (drain (value s + w) (queue s)) as [[v' g] q'] eqn:D.
    destruct (drain_spec _ _ _ _ _ D) as (_ & _ & _ & Hn). cbn [value].
    apply Hn. apply lookup_In in L. rewrite Forall_forall in Hh. specialize (Hh _ L). cbn [snd] in Hh. lia.
  - exact Hv.
Qed.

Lemma holding_nonneg cap acts :
  nonneg_weights acts -> Forall (fun e => 0 <= snd e) (holding (run cap acts)).
Proof.
  intros H. apply Forall_forall; intros [i w] Hin; cbn [snd].
  pose proof (inv_w _ _ (Inv_run cap acts) i w) as Hw.
  rewrite arr_run in Hw. unfold nonneg_weights in H. rewrite Forall_forall in H.
  apply H. eapply nth_error_In. apply Hw. apply in_or_app; right; apply in_or_app; now right.
Qed.

Lemma weights_of_app a b : weights_of (a ++ b) = weights_of a ++ weights_of b.
Proof. unfold weights_of; now rewrite flat_map_app. Qed.

Lemma run_snoc cap acts a : run cap (acts ++ [a]) = step (run cap acts) a.
Proof. unfold run; now rewrite fold_left_app. Qed.

Lemma value_nonneg cap acts : 0 <= cap -> nonneg_weights acts -> 0 <= value (run cap acts).
Proof.
  intros Hc. induction acts as [|a r IH] using rev_ind; intros H.
  - exact Hc.
  - rewrite run_snoc. unfold nonneg_weights in H. rewrite weights_of_app in H.
    apply Forall_app in H; destruct H as [H1 H2].
    apply value_nonneg_step; [now apply IH | now apply holding_nonneg].
Qed.

(** * Derived statements *)
Lemma capacity cap acts : 0 <= cap -> nonneg_weights acts ->
  zsum snd (held (run cap acts)) <= cap.
Proof.
  intros Hc Hw. pose proof (inv_cons _ _ (Inv_run cap acts)) as H.
  pose proof (value_nonneg cap acts Hc Hw). unfold held; rewrite zsum_app; lia.
Qed.

Lemma queue_bound cap acts : Forall (fun w => w <= cap) (weights_of acts) ->
  Forall (fun e => snd e <= cap) (queue (run cap acts)).
Proof.
  intros H. apply Forall_forall; intros [i w] Hin; cbn [snd].
  pose proof (inv_w _ _ (Inv_run cap acts) i w) as Hw. rewrite arr_run in Hw.
  rewrite Forall_forall in H. apply H. eapply nth_error_In, Hw. apply in_or_app; now left.
Qed.

Lemma no_deadlock cap acts : Forall (fun w => w <= cap) (weights_of acts) ->
  held (run cap acts) = [] -> queue (run cap acts) = [].
Proof.
  intros Hb Hh. pose proof (Inv_run cap acts) as [Hc _ _ _ Hw _].
  pose proof (queue_bound cap acts Hb) as Hq.
  unfold held in Hh. apply app_eq_nil in Hh; destruct Hh as [Hg Hh]. rewrite Hg, Hh in Hc. cbn [zsum] in Hc.
  destruct (queue (run cap acts)) as [|[i w] r]; [reflexivity|].
  inversion Hq; subst; cbn [snd] in *. lia.
Qed.

(** The grant log only ever grows (a grant is never revoked or reordered). *)
Lemma glog_step s a : exists l, glog (step s a) = glog s ++ l.
Proof.
  destruct a as [w|i|]; cbn [step].
  - destruct (is_nil (queue s) && (w <=? value s)); cbn [glog]; [now eexists | exists []; now rewrite app_nil_r].
  - destruct (lookup i (holding s)); [|exists []; now rewrite app_nil_r].
    destruct (drain _ _) as [[? g] ?]; cbn [glog]; now eexists.
  - exists []; cbn [glog]; now rewrite app_nil_r.
Qed.

Lemma glog_fold acts : forall s, exists l, glog (fold_left step acts s) = glog s ++ l.
Proof.
  induction acts as [|a r IH]; intros s; cbn [fold_left].
  - exists []; now rewrite app_nil_r.
  - destruct (IH (step s a)) as [l Hl]. destruct (glog_step s a) as [l0 Hl0].
    exists (l0 ++ l). now rewrite Hl, Hl0, app_assoc.
Qed.

(** Only granted jobs hold: every holder's id is in the grant log. *)
Definition held_granted (s : state) : Prop := forall e, In e (held s) -> In (fst e) (glog s).

Lemma drain_app : forall q v v' g q', drain v q = (v', g, q') -> q = g ++ q'.
Proof. intros q v v' g q' H; now destruct (drain_spec _ _ _ _ _ H). Qed.

Lemma held_granted_step s a : held_granted s -> held_granted (step s a).
Proof.
  unfold held_granted, held; intros H; destruct a as [w|i|]; cbn [step].
  - destruct (is_nil (queue s) && (w <=? value s)); cbn [granted holding glog]; [|exact H].
    intros e He. rewrite <- app_assoc in He. apply in_app_or in He. apply in_or_app.
    destruct He as [He | [He | He]].
    + left; apply H; apply in_or_app; now left.
    + subst e; right; now left.
    + left; apply H; apply in_or_app; now right.
  - destruct (lookup i (holding s)) as [w|]; [|exact H].
    destruct (drain (value s + w) (queue s)) as [[v' g] q'].
    cbn [granted holding glog]. intros e He. apply in_or_app.
    apply in_app_or in He; destruct He as [He | He].
    + apply in_app_or in He; destruct He as [He | He].
      * left; apply H; apply in_or_app; now left.
      * right; now apply in_map.
    + left; apply H; apply in_or_app; right. eapply remove_id_incl; eassumption.
  - cbn [granted holding glog]. intros e He. cbn [app] in He. apply H.
    apply in_app_or in He. apply in_or_app; tauto.
Qed.

Lemma held_granted_run cap acts : held_granted (run cap acts).
Proof.
  unfold run. assert (G : held_granted (init cap)) by (intros e []).
  revert G. generalize (init cap). induction acts as [|a r IH]; intros s G; cbn [fold_left]; [exact G|].
  apply IH, held_granted_step, G.
Qed.

(** Hypotheses of the theorems are satisfiable, and the statements are not vacuous. *)
Example ex_run :
  let acts := [Acquire 2; Acquire 2; Acquire 1; Settle; Release 0; Settle; Release 1; Settle] in
  nonneg_weights acts /\ Forall (fun w => w <= 3) (weights_of acts) /\
  trace (init 3) acts =
    [ (1, [(1%nat, 2); (2%nat, 1)], [0%nat], [0%nat]);
      (0, [],                       [1%nat; 2%nat], [0%nat; 1%nat; 2%nat]);
      (2, [],                       [2%nat], [0%nat; 1%nat; 2%nat]) ].
Proof. cbn. repeat split; repeat constructor; lia. Qed.
