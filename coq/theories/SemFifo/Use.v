(** C16 — how the worker USES its CPU semaphore (batch/batch/worker/worker.py: DockerJob.run, JVMJob.run):
        async with self.worker.cpu_sem(self.cpu_in_mcpu): <body>
    i.e. a job task is  acquire ; body ; release , and the task may be CANCELLED at every await point: before its first
    step, while it is queued in acquire (at the head or behind others), after a release has granted it but before it has
    resumed, inside the body, and after it has finished.  Executable definitions only.

    The reservation pattern is a parameter (regenerated from the source into HailG.C16.Gen.use_sites, fail closed):
      AcquireThenTry   await acquire(w) ; try: body finally: release(w)     — what `async with sem(w):` is, with the context
                       manager of batch/batch/semaphore.py (__aenter__ = await sem.acquire(weight), __aexit__ = sem.release(weight));
      AcquireInTry     try: await acquire(w) ; body finally: release(w)     — the release guard also covers the wait.

    asyncio is modelled as far as this program needs it: a FIFO ready queue of task steps; [Task.cancel()] cancels the future
    the task waits on at once (so a later [event.set()] by [release] wakes nobody) but delivers the CancelledError only when
    the task's step comes up in the ready queue; a task that was cancelled before its first step never runs.

      Spawn w    create_task(job.run()) for a job of weight w (id = number of earlier spawns): its first step is queued;
      Finish i   the body of job i ends (returns or raises): only if i is inside its body and blocked;
      Cancel i   task i .cancel();
      USettle    the loop runs until the ready queue is empty.
    One step ([tick]) of task i, by where it is:
      fresh      cancelled: gone.  Otherwise [acquire]: granted at once ([not queue and value >= w]) and straight into the
                 body, or (event, w) appended to the deque and blocked;
      woken      (entry popped by a release, weight already taken)  cancelled: CancelledError leaves acquire — ThenTry: the
                 weight is never given back (leak); InTry: finally releases it.  Otherwise: into the body;
      wait       (entry still in the deque; only a cancellation resumes it)  ThenTry: gone, the entry stays in the deque;
                 InTry: finally calls release(w) although nothing was acquired;
      body       leaves the body (finished, exception, cancellation): release(w).
    [release]: value += w; the [while self.queue] loop pops and grants from the head while the head fits ([drain]); the
    event of a popped entry wakes its task only if the task is still waiting on it and has not been cancelled. *)
From HailV Require Import Common.Prelude SemFifo.Model.
Open Scope Z_scope.

Inductive pattern := AcquireThenTry | AcquireInTry.
Inductive uaction := Spawn (w : Z) | Finish (i : nat) | Cancel (i : nat) | USettle.

Record ustate := umk {
  u_value : Z;   (* self.value *)
  u_queue : list entry;   (* self.queue, head first; the entry of a task that died while waiting stays in it *)
  u_fresh : list entry;   (* tasks created whose first step has not run yet *)
  u_wait : list entry;   (* tasks blocked in acquire whose entry is still in the deque *)
  u_woken : list entry;   (* tasks whose entry a release has popped (value already taken) and that have not resumed yet *)
  u_body : list entry;   (* tasks inside the body *)
  u_ready : list nat;   (* the event loop's ready queue: tasks with a pending step, FIFO *)
  u_throw : list nat;   (* tasks with a cancellation requested and not yet delivered *)
  u_leaked : Z;   (* ghost: weight taken from value on behalf of tasks that died inside acquire *)
  u_bogus : list entry;   (* ghost: releases executed by tasks that held nothing *)
  u_next : nat;   (* next task id *)
  u_grants : nat;   (* ghost: number of grants so far *)
  u_releases : nat;   (* ghost: number of release() calls so far *)
  u_leaks : nat;   (* ghost: number of grants that went to a dead task *)
  u_elog : list nat   (* observable: order of entry into the bodies *)
}.

Definition set_value (x : Z) (s : ustate) : ustate :=
  match s with umk a_value a_queue a_fresh a_wait a_woken a_body a_ready a_throw a_leaked a_bogus a_next a_grants a_releases a_leaks a_elog => umk x a_queue a_fresh a_wait a_woken a_body a_ready a_throw a_leaked a_bogus a_next a_grants a_releases a_leaks a_elog end.
Definition set_queue (x : list entry) (s : ustate) : ustate :=
  match s with umk a_value a_queue a_fresh a_wait a_woken a_body a_ready a_throw a_leaked a_bogus a_next a_grants a_releases a_leaks a_elog => umk a_value x a_fresh a_wait a_woken a_body a_ready a_throw a_leaked a_bogus a_next a_grants a_releases a_leaks a_elog end.
Definition set_fresh (x : list entry) (s : ustate) : ustate :=
  match s with umk a_value a_queue a_fresh a_wait a_woken a_body a_ready a_throw a_leaked a_bogus a_next a_grants a_releases a_leaks a_elog => umk a_value a_queue x a_wait a_woken a_body a_ready a_throw a_leaked a_bogus a_next a_grants a_releases a_leaks a_elog end.
Definition set_wait (x : list entry) (s : ustate) : ustate :=
  match s with umk a_value a_queue a_fresh a_wait a_woken a_body a_ready a_throw a_leaked a_bogus a_next a_grants a_releases a_leaks a_elog => umk a_value a_queue a_fresh x a_woken a_body a_ready a_throw a_leaked a_bogus a_next a_grants a_releases a_leaks a_elog end.
Definition set_woken (x : list entry) (s : ustate) : ustate :=
  match s with umk a_value a_queue a_fresh a_wait a_woken a_body a_ready a_throw a_leaked a_bogus a_next a_grants a_releases a_leaks a_elog => umk a_value a_queue a_fresh a_wait x a_body a_ready a_throw a_leaked a_bogus a_next a_grants a_releases a_leaks a_elog end.
Definition set_body (x : list entry) (s : ustate) : ustate :=
  match s with umk a_value a_queue a_fresh a_wait a_woken a_body a_ready a_throw a_leaked a_bogus a_next a_grants a_releases a_leaks a_elog => umk a_value a_queue a_fresh a_wait a_woken x a_ready a_throw a_leaked a_bogus a_next a_grants a_releases a_leaks a_elog end.
Definition set_ready (x : list nat) (s : ustate) : ustate :=
  match s with umk a_value a_queue a_fresh a_wait a_woken a_body a_ready a_throw a_leaked a_bogus a_next a_grants a_releases a_leaks a_elog => umk a_value a_queue a_fresh a_wait a_woken a_body x a_throw a_leaked a_bogus a_next a_grants a_releases a_leaks a_elog end.
Definition set_throw (x : list nat) (s : ustate) : ustate :=
  match s with umk a_value a_queue a_fresh a_wait a_woken a_body a_ready a_throw a_leaked a_bogus a_next a_grants a_releases a_leaks a_elog => umk a_value a_queue a_fresh a_wait a_woken a_body a_ready x a_leaked a_bogus a_next a_grants a_releases a_leaks a_elog end.
Definition set_leaked (x : Z) (s : ustate) : ustate :=
  match s with umk a_value a_queue a_fresh a_wait a_woken a_body a_ready a_throw a_leaked a_bogus a_next a_grants a_releases a_leaks a_elog => umk a_value a_queue a_fresh a_wait a_woken a_body a_ready a_throw x a_bogus a_next a_grants a_releases a_leaks a_elog end.
Definition set_bogus (x : list entry) (s : ustate) : ustate :=
  match s with umk a_value a_queue a_fresh a_wait a_woken a_body a_ready a_throw a_leaked a_bogus a_next a_grants a_releases a_leaks a_elog => umk a_value a_queue a_fresh a_wait a_woken a_body a_ready a_throw a_leaked x a_next a_grants a_releases a_leaks a_elog end.
Definition set_next (x : nat) (s : ustate) : ustate :=
  match s with umk a_value a_queue a_fresh a_wait a_woken a_body a_ready a_throw a_leaked a_bogus a_next a_grants a_releases a_leaks a_elog => umk a_value a_queue a_fresh a_wait a_woken a_body a_ready a_throw a_leaked a_bogus x a_grants a_releases a_leaks a_elog end.
Definition set_grants (x : nat) (s : ustate) : ustate :=
  match s with umk a_value a_queue a_fresh a_wait a_woken a_body a_ready a_throw a_leaked a_bogus a_next a_grants a_releases a_leaks a_elog => umk a_value a_queue a_fresh a_wait a_woken a_body a_ready a_throw a_leaked a_bogus a_next x a_releases a_leaks a_elog end.
Definition set_releases (x : nat) (s : ustate) : ustate :=
  match s with umk a_value a_queue a_fresh a_wait a_woken a_body a_ready a_throw a_leaked a_bogus a_next a_grants a_releases a_leaks a_elog => umk a_value a_queue a_fresh a_wait a_woken a_body a_ready a_throw a_leaked a_bogus a_next a_grants x a_leaks a_elog end.
Definition set_leaks (x : nat) (s : ustate) : ustate :=
  match s with umk a_value a_queue a_fresh a_wait a_woken a_body a_ready a_throw a_leaked a_bogus a_next a_grants a_releases a_leaks a_elog => umk a_value a_queue a_fresh a_wait a_woken a_body a_ready a_throw a_leaked a_bogus a_next a_grants a_releases x a_elog end.
Definition set_elog (x : list nat) (s : ustate) : ustate :=
  match s with umk a_value a_queue a_fresh a_wait a_woken a_body a_ready a_throw a_leaked a_bogus a_next a_grants a_releases a_leaks a_elog => umk a_value a_queue a_fresh a_wait a_woken a_body a_ready a_throw a_leaked a_bogus a_next a_grants a_releases a_leaks x end.

Definition uinit (cap : Z) : ustate := umk cap [] [] [] [] [] [] [] 0 [] 0 0 0 0 [].

Definition memb (i : nat) (l : list nat) : bool := existsb (Nat.eqb i) l.
Definition ids (l : list entry) : list nat := map fst l.
Fixpoint drop (i : nat) (l : list nat) : list nat :=
  match l with [] => [] | j :: r => if Nat.eqb i j then drop i r else j :: drop i r end.

(** [release(w)] *)
Definition do_release (w : Z) (s : ustate) : ustate :=
  let '(v', g, q') := drain (u_value s + w) (u_queue s) in
  let alive := fun e : entry => memb (fst e) (ids (u_wait s)) in
  let live := filter alive g in
  let dead := filter (fun e => negb (alive e)) g in
  set_value v' (set_queue q'
  (set_wait (filter (fun e : entry => negb (memb (fst e) (ids live))) (u_wait s))
  (set_woken (u_woken s ++ live)
  (set_ready (u_ready s ++ filter (fun i => negb (memb i (u_throw s))) (ids live))
  (set_leaked (u_leaked s + zsum snd dead)
  (set_grants (u_grants s + length g)%nat
  (set_leaks (u_leaks s + length dead)%nat
  (set_releases (S (u_releases s)) s)))))))).

Definition enter_body (i : nat) (w : Z) (s : ustate) : ustate :=
  set_body (u_body s ++ [(i, w)]) (set_elog (u_elog s ++ [i]) s).

(** one step of the task at the head of the ready queue *)
Definition tick (p : pattern) (s0 : ustate) : ustate :=
  match u_ready s0 with
  | [] => s0
  | i :: rest =>
      let thr := memb i (u_throw s0) in
      let s := set_ready rest (set_throw (drop i (u_throw s0)) s0) in
      match lookup i (u_fresh s) with
      | Some w =>
          let s := set_fresh (remove_id i (u_fresh s)) s in
          if thr then s
          else if is_nil (u_queue s) && (w <=? u_value s)
               then enter_body i w (set_value (u_value s - w) (set_grants (S (u_grants s)) s))
               else set_queue (u_queue s ++ [(i, w)]) (set_wait (u_wait s ++ [(i, w)]) s)
      | None =>
      match lookup i (u_woken s) with
      | Some w =>
          let s := set_woken (remove_id i (u_woken s)) s in
          if thr
          then match p with
               | AcquireThenTry => set_leaked (u_leaked s + w) (set_leaks (S (u_leaks s)) s)
               | AcquireInTry => do_release w s
               end
          else enter_body i w s
      | None =>
      match lookup i (u_wait s) with
      | Some w =>
          if thr
          then let s := set_wait (remove_id i (u_wait s)) s in
               match p with
               | AcquireThenTry => s
               | AcquireInTry => do_release w (set_bogus (u_bogus s ++ [(i, w)]) s)
               end
          else s
      | None =>
      match lookup i (u_body s) with
      | Some w => do_release w (set_body (remove_id i (u_body s)) s)
      | None => s
      end end end end
  end.

Fixpoint ticks (p : pattern) (n : nat) (s : ustate) : ustate :=
  match n with O => s | S m => ticks p m (tick p s) end.

Definition ustep (p : pattern) (s : ustate) (a : uaction) : ustate :=
  match a with
  | Spawn w => set_fresh (u_fresh s ++ [(u_next s, w)]) (set_ready (u_ready s ++ [u_next s]) (set_next (S (u_next s)) s))
  | Finish i =>
      match lookup i (u_body s) with
      | Some _ => if memb i (u_ready s) then s else set_ready (u_ready s ++ [i]) s
      | None => s
      end
  | Cancel i =>
      if memb i (u_throw s) then s
      else if memb i (u_ready s) then set_throw (u_throw s ++ [i]) s
      else if memb i (ids (u_wait s) ++ ids (u_woken s) ++ ids (u_body s))
           then set_throw (u_throw s ++ [i]) (set_ready (u_ready s ++ [i]) s)
           else s
  | USettle => ticks p (length (u_ready s) + u_next s + 1) s
  end.

Definition urun (p : pattern) (cap : Z) (acts : list uaction) : ustate := fold_left (ustep p) acts (uinit cap).

Definition spawn_weights (acts : list uaction) : list Z :=
  flat_map (fun a => match a with Spawn w => [w] | _ => [] end) acts.

(** weight of the jobs that are running (inside their bodies) *)
Definition running (s : ustate) : Z := zsum snd (u_body s).

(** Observable trace for the correspondence: after every [USettle]: value, deque (ids and weights; entries of dead tasks
    included), jobs inside a body, order of entry, length of the ready queue (0 unless the fuel of USettle was too small). *)
Definition uobs : Type := (Z * list entry * list nat * list nat * nat)%type.
Definition uobserve (s : ustate) : uobs :=
  (u_value s, u_queue s, fold_right insert_nat [] (ids (u_body s)), u_elog s, length (u_ready s)).
Fixpoint utrace (p : pattern) (s : ustate) (acts : list uaction) : list uobs :=
  match acts with
  | [] => []
  | a :: r => let s' := ustep p s a in
              match a with USettle => uobserve s' :: utrace p s' r | _ => utrace p s' r end
  end.

(** schedule encoding as for [decode]: digit = kind + 4 * arg, kind 0 = USettle, 1 = Spawn arg, 2 = Finish arg, 3 = Cancel arg *)
Definition udecode_action (d : Z) : uaction :=
  let k := d mod 4 in let a := d / 4 in
  if k =? 1 then Spawn a else if k =? 2 then Finish (Z.to_nat a) else if k =? 3 then Cancel (Z.to_nat a) else USettle.
Fixpoint udecode (k : nat) (z : Z) : list uaction :=
  match k with
  | O => []
  | S m => udecode_action (Z.land z 1048575) :: udecode m (Z.shiftr z 20)
  end.
Definition enc_uobs (seen : nat) (o : uobs) : list Z :=
  let '(v, q, h, e, r) := o in
  v :: Z.of_nat (length q) :: flat_map (fun x : nat * Z => [Z.of_nat (fst x); snd x]) q
  ++ Z.of_nat (length h) :: map Z.of_nat h
  ++ Z.of_nat (length e) :: map Z.of_nat (skipn seen e) ++ [Z.of_nat r].
Definition ufingerprint (p : pattern) (cap : Z) (acts : list uaction) : Z :=
  fst (fold_left (fun (acc : Z * nat) (o : uobs) =>
                    let '(_, _, _, e, _) := o in (fold_left hmix (enc_uobs (snd acc) o) (fst acc), length e))
                 (utrace p (uinit cap) acts) (7, 0%nat)).
