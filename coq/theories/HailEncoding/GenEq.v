(** C33 — the function regenerated from EType.scala (HailG.C33.Gen.etype_of) is the hand model [Engine.etype_of]
    the layout proof is about.  A semantic edit of EType.fromPythonTypeEncoding breaks this lemma. *)
From HailV Require Import Common.Prelude HailValues.Model HailValues.Lemmas HailEncoding.Model HailEncoding.Engine.
From HailG Require C33.Gen.

Lemma generated_etype_of_eq : forall t, C33.Gen.etype_of t = etype_of t.
Proof.
  induction t using ty_nested_ind; cbn [C33.Gen.etype_of etype_of];
    try reflexivity; rewrite ?IHt, ?IHt1, ?IHt2; try reflexivity.
  (* struct / tuple, when the two fixpoints are not syntactically identical *)
  all: f_equal; try f_equal;
    match goal with
    | H : Forall _ _ |- _ => induction H as [|x l Hx Hl IH]; [reflexivity|rewrite Hx, IH; reflexivity]
    end.
Qed.
