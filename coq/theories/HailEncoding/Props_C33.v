(** C33 — property theorems only.
    Python side: HailEncoding.Model (hand model of types.py / byte_reader.py, tied by the correspondence run).
    Engine side: HailG.C33.Gen.etype_of is REGENERATED from EType.scala on every run; the decoders of the encoded types
    (Engine.edecode) are a hand transcription of the Scala decoders — modelled, never executed. *)
From HailV Require Import Common.Prelude HailValues.Model HailValues.Lemmas HailEncoding.Model HailEncoding.LemmasBytes
  HailEncoding.LemmasND HailEncoding.Lemmas HailEncoding.Engine HailEncoding.LemmasEngine HailEncoding.GenEq.
From HailG Require C33.Gen.
Open Scope Z_scope.

(** Decoding what the front end encoded gives back the value and consumes exactly its bytes: for EVERY type, EVERY
    non-missing value the encoding can carry (32/64-bit integers, float bit patterns, Unicode-scalar strings, calls
    within the engine's 29-bit genotype-index bound, containers shorter than 2^31, any nesting, missing elements /
    fields / keys / values anywhere) and EVERY continuation [rest] of the buffer. *)
Theorem C33_roundtrip : forall (t : ty) (v : value) (rest : list Z),
  wf_ty t = true -> wt_enc t v = true -> is_na v = false ->
  decode t (encode t v ++ rest) = Some (v, rest).
Proof. intros t v rest _ Hwt Hna. exact (decode_encode t v rest Hwt Hna). Qed.
Print Assumptions C33_roundtrip.

(** [_from_encoding (_to_encoding v) = v]. *)
Theorem C33_from_to_encoding : forall (t : ty) (v : value),
  wf_ty t = true -> wt_enc t v = true -> is_na v = false -> from_encoding t (to_encoding t v) = Some v.
Proof.
  intros t v _ Hwt Hna. unfold from_encoding, to_encoding.
  pose proof (decode_encode t v [] Hwt Hna) as H. rewrite app_nil_r in H. rewrite H. reflexivity.
Qed.
Print Assumptions C33_from_to_encoding.

(** Layout: the (modelled) engine decoder for the encoded type that EType.fromPythonTypeEncoding — as it reads in the
    Scala source NOW — assigns to [t] consumes exactly the bytes the front end wrote and reads the same data:
    one missing bit per nullable element/field (none for dict entries and n-d array elements, which are required),
    little-endian fixed-width primitives, length-prefixed UTF-8 strings, dicts as unsorted arrays of key/value
    structs, n-d arrays as shape followed by the elements in column-major order, calls as one bit-packed int32. *)
Theorem C33_layout : forall (t : ty) (v : value) (rest : list Z),
  wf_ty t = true -> wt_enc t v = true -> is_na v = false ->
  edecode (C33.Gen.etype_of t) (encode t v ++ rest) = Some (erase t v, rest).
Proof.
  intros t v rest _ Hwt Hna. rewrite generated_etype_of_eq. exact (engine_reads_python_encoding t v rest Hwt Hna).
Qed.
Print Assumptions C33_layout.

(** The column-major element order is a bijection of the element sequence for every shape (including empty
    dimensions and 0-dimensional arrays). *)
Theorem C33_colmajor_inverse : forall (shape : list nat) (data : list value),
  length data = nprod shape -> from_colmajor shape (to_colmajor shape data) = data.
Proof. exact from_to_colmajor. Qed.
Print Assumptions C33_colmajor_inverse.

(** Bit-packed calls: unpacking the packed representation returns the call, for all calls in the engine's range. *)
Theorem C33_call_packing : forall (phased : bool) (alleles : list N),
  call_normal phased alleles = true -> call_ok phased alleles = true ->
  0 <= call_rep phased alleles < two32 /\ call_of_rep (call_rep phased alleles) = Some (VCall phased alleles).
Proof. intros p al Hn Hok. split; [apply call_rep_range; exact Hok|apply call_of_rep_call_rep; assumption]. Qed.
Print Assumptions C33_call_packing.

(** The hypotheses are satisfiable (checked by computation), e.g. a struct holding a dict with missing entries, a set of
    intervals and a 2x3 float array; the bytes begin with the struct's single missing byte. *)
Example C33_example :
  let t := TStruct [([97%N], TDict TStr (TArray (TTuple [TFloat64; TCall; TLocus [71%N]])));
                    ([97%N; 178%N], TSet (TInterval TInt32));
                    ([115%N; 101%N; 108%N; 102%N], TNDArray TInt32 2)] in
  let v := VStruct [VDict [(VStr [107%N; 8364%N], VArray [VNA; VTuple [VFloat FNaN; VCall false [1%N; 12%N]; VLocus [49%N] 5]]);
                           (VNA, VNA)];
                    VSet [VInterval (VInt 1) VNA true false; VNA];
                    VNDArray [2; 3] [VInt 0; VInt 1; VInt 2; VInt 3; VInt 4; VInt (-5)]] in
  wf_ty t = true /\ wt_enc t v = true /\ decode t (encode t v ++ [7]) = Some (v, [7])
  /\ edecode (C33.Gen.etype_of t) (encode t v ++ [7]) = Some (erase t v, [7]).
Proof. vm_compute. repeat split. Qed.
