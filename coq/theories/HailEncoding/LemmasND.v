(** C33 — row-major <-> column-major element order of n-d arrays: [from_colmajor] inverts [to_colmajor]. *)
From HailV Require Import Common.Prelude HailValues.Model HailEncoding.Model.
Open Scope nat_scope.

Section Transpose.
  Context {A : Type}.
  Variable d : A.

  Definition rect (m n : nat) (M : list (list A)) : Prop := length M = m /\ Forall (fun r => length r = n) M.

  Fixpoint zip_cons (r : list A) (T : list (list A)) : list (list A) :=
    match r, T with
    | x :: r', c :: T' => (x :: c) :: zip_cons r' T'
    | _, _ => []
    end.

  Lemma transpose_length n (M : list (list A)) : length (transpose d n M) = n.
  Proof. revert M; induction n as [|n IH]; intro M; cbn [transpose length]; [reflexivity|rewrite IH; reflexivity]. Qed.

  Lemma transpose_rows n (M : list (list A)) : Forall (fun c => length c = length M) (transpose d n M).
  Proof.
    revert M; induction n as [|n IH]; intro M; cbn [transpose]; constructor.
    - apply map_length.
    - specialize (IH (map (@tl A) M)). rewrite map_length in IH. exact IH.
  Qed.

  Lemma transpose_rect m n M : length M = m -> rect n m (transpose d n M).
  Proof. intros <-. split; [apply transpose_length|apply transpose_rows]. Qed.

  Lemma transpose_cons n (r : list A) (M : list (list A)) :
    length r = n -> transpose d n (r :: M) = zip_cons r (transpose d n M).
  Proof.
    revert r M; induction n as [|n IH]; intros r M Hr.
    - destruct r; [reflexivity|discriminate].
    - destruct r as [|x r]; [discriminate|]. cbn [transpose map hd tl zip_cons].
      f_equal. apply IH. cbn in Hr. lia.
  Qed.

  Lemma map_hd_zip_cons r (T : list (list A)) : length r = length T -> map (hd d) (zip_cons r T) = r.
  Proof.
    revert T; induction r as [|x r IH]; intros [|c T] H; try discriminate; [reflexivity|].
    cbn [zip_cons map hd]. f_equal. apply IH. cbn in H. lia.
  Qed.

  Lemma map_tl_zip_cons r (T : list (list A)) : length r = length T -> map (@tl A) (zip_cons r T) = T.
  Proof.
    revert T; induction r as [|x r IH]; intros [|c T] H; try discriminate; [reflexivity|].
    cbn [zip_cons map tl]. f_equal. apply IH. cbn in H. lia.
  Qed.

  Lemma transpose_involutive m n (M : list (list A)) : rect m n M -> transpose d m (transpose d n M) = M.
  Proof.
    revert m; induction M as [|r M IH]; intros m [Hm Hrows].
    - cbn in Hm. subst m. reflexivity.
    - cbn [length] in Hm. subst m. apply Forall_cons_iff in Hrows as [Hr HM].
      rewrite transpose_cons by exact Hr. cbn [transpose].
      rewrite map_hd_zip_cons by (rewrite transpose_length; exact Hr).
      rewrite map_tl_zip_cons by (rewrite transpose_length; exact Hr).
      f_equal. apply IH. split; [reflexivity|exact HM].
  Qed.

  (** chunks and concat *)
  Lemma chunks_rect k s (l : list A) : length l = k * s -> rect k s (chunks k s l).
  Proof.
    revert l; induction k as [|k IH]; intros l Hl; cbn [chunks].
    - split; [reflexivity|constructor].
    - destruct (IH (skipn s l)) as [H1 H2]; [rewrite skipn_length; lia|].
      split; [cbn; rewrite H1; reflexivity|]. constructor; [rewrite firstn_length; lia|exact H2].
  Qed.

  Lemma concat_chunks k s (l : list A) : length l = k * s -> concat (chunks k s l) = l.
  Proof.
    revert l; induction k as [|k IH]; intros l Hl; cbn [chunks concat].
    - destruct l; [reflexivity|discriminate].
    - rewrite IH by (rewrite skipn_length; lia). apply firstn_skipn.
  Qed.

  Lemma chunks_concat k s (M : list (list A)) : rect k s M -> chunks k s (concat M) = M.
  Proof.
    revert k; induction M as [|r M IH]; intros k [Hk Hrows].
    - cbn in Hk. subst k. reflexivity.
    - cbn [length] in Hk. subst k. apply Forall_cons_iff in Hrows as [Hr HM].
      subst s. cbn [concat chunks]. rewrite firstn_app, Nat.sub_diag, firstn_all. cbn [firstn]. rewrite app_nil_r.
      rewrite skipn_app, Nat.sub_diag, skipn_all. cbn [skipn app]. f_equal. apply IH. split; [reflexivity|exact HM].
  Qed.

  Lemma concat_rect_length k s (M : list (list A)) : rect k s M -> length (concat M) = k * s.
  Proof.
    revert k; induction M as [|r M IH]; intros k [Hk Hrows].
    - cbn in *. subst k. reflexivity.
    - cbn [length] in Hk. subst k. apply Forall_cons_iff in Hrows as [Hr HM].
      cbn [concat]. rewrite app_length, (IH (length M)) by (split; [reflexivity|exact HM]). lia.
  Qed.
End Transpose.

Lemma rect_map {A B} (f : list A -> list B) m n n' (M : list (list A)) :
  rect m n M -> (forall r, length r = n -> length (f r) = n') -> rect m n' (map f M).
Proof.
  intros [Hm Hrows] Hf. split; [rewrite map_length; exact Hm|].
  rewrite Forall_map. eapply Forall_impl; [|exact Hrows]. intros r Hr. apply Hf. exact Hr.
Qed.

Lemma to_colmajor_length shape data :
  length data = nprod shape -> length (to_colmajor shape data) = length data.
Proof.
  revert data; induction shape as [|d0 rest IH]; intros data Hl; [reflexivity|].
  cbn [to_colmajor nprod fold_right] in *. fold (nprod rest) in *.
  set (p := nprod rest) in *.
  assert (Hc : rect d0 p (chunks d0 p data)) by (apply chunks_rect; exact Hl).
  assert (Hc' : rect d0 p (map (to_colmajor rest) (chunks d0 p data))).
  { eapply rect_map; [exact Hc|]. intros r Hr. rewrite IH; [exact Hr|]. exact Hr. }
  rewrite (concat_rect_length p d0).
  - lia.
  - apply transpose_rect. destruct Hc' as [H _]. exact H.
Qed.

Theorem from_to_colmajor shape data :
  length data = nprod shape -> from_colmajor shape (to_colmajor shape data) = data.
Proof.
  revert data; induction shape as [|d0 rest IH]; intros data Hl; [reflexivity|].
  cbn [to_colmajor from_colmajor nprod fold_right] in *. fold (nprod rest) in *.
  set (p := nprod rest) in *.
  assert (Hc : rect d0 p (chunks d0 p data)) by (apply chunks_rect; exact Hl).
  assert (Hc' : rect d0 p (map (to_colmajor rest) (chunks d0 p data))).
  { eapply rect_map; [exact Hc|]. intros r Hr. rewrite to_colmajor_length; [exact Hr|]. exact Hr. }
  rewrite (chunks_concat p d0) by (apply transpose_rect; destruct Hc' as [H _]; exact H).
  rewrite (transpose_involutive VNA d0 p) by exact Hc'.
  rewrite map_map.
  rewrite (map_ext_in _ (fun x => x)).
  - rewrite map_id. apply concat_chunks. exact Hl.
  - intros r Hr. apply IH. destruct Hc as [_ Hrows]. rewrite Forall_forall in Hrows. apply Hrows. exact Hr.
Qed.

(** shapes as they appear on the wire ([Z]) *)
Lemma zprod_nprod (shape : list Z) :
  forallb (fun d => (0 <=? d)%Z) shape = true -> zprod shape = Z.of_nat (nprod (map Z.to_nat shape)).
Proof.
  induction shape as [|d0 rest IH]; cbn [forallb]; intro H; [reflexivity|].
  apply andb_true_iff in H as [Hd Hr]. cbn [zprod map nprod fold_right]. fold (zprod rest). fold (nprod (map Z.to_nat rest)).
  rewrite Nat2Z.inj_mul, <- (IH Hr), Z2Nat.id by lia. reflexivity.
Qed.
