(** C33 — the decoder inverts the encoder, for every type and every value the encoding can carry, with any bytes
    following the value left untouched. *)
From HailV Require Import Common.Prelude HailValues.Model HailValues.Lemmas HailEncoding.Model
  HailEncoding.LemmasBytes HailEncoding.LemmasND.
Open Scope Z_scope.

(** ** named versions of the nested local fixpoints *)
Definition enc_fields (F : ty -> value -> list Z) : list (name * ty) -> list value -> list Z :=
  fix go fs vs :=
    match fs, vs with
    | f :: fs', x :: vs' => F (snd f) x ++ go fs' vs'
    | _, _ => []
    end.

Definition dec_fields (F : ty -> list Z -> dres) : list (name * ty) -> list bool -> list Z -> option (list value * list Z) :=
  fix go fs bits bs :=
    match fs, bits with
    | [], _ => Some ([], bs)
    | _ :: _, [] => None
    | _ :: fs', true :: bits' =>
        match go fs' bits' bs with Some (vs, r') => Some (VNA :: vs, r') | None => None end
    | f :: fs', false :: bits' =>
        match F (snd f) bs with
        | Some (v, r1) => match go fs' bits' r1 with Some (vs, r') => Some (v :: vs, r') | None => None end
        | None => None
        end
    end.

Definition wt_fields (W : ty -> value -> bool) : list (name * ty) -> list value -> bool :=
  fix go fs vs :=
    match fs, vs with
    | [], [] => true
    | f :: fs', x :: vs' => W (snd f) x && go fs' vs'
    | _, _ => false
    end.

Definition enc_elts (F : ty -> value -> list Z) : list ty -> list value -> list Z :=
  fix go ts vs :=
    match ts, vs with
    | t' :: ts', x :: vs' => F t' x ++ go ts' vs'
    | _, _ => []
    end.

Definition dec_elts (F : ty -> list Z -> dres) : list ty -> list bool -> list Z -> option (list value * list Z) :=
  fix go ts bits bs :=
    match ts, bits with
    | [], _ => Some ([], bs)
    | _ :: _, [] => None
    | _ :: ts', true :: bits' =>
        match go ts' bits' bs with Some (vs, r') => Some (VNA :: vs, r') | None => None end
    | t' :: ts', false :: bits' =>
        match F t' bs with
        | Some (v, r1) => match go ts' bits' r1 with Some (vs, r') => Some (v :: vs, r') | None => None end
        | None => None
        end
    end.

Definition wt_elts (W : ty -> value -> bool) : list ty -> list value -> bool :=
  fix go ts vs :=
    match ts, vs with
    | [], [] => true
    | t' :: ts', x :: vs' => W t' x && go ts' vs'
    | _, _ => false
    end.

Definition dec_pair (k w : ty) (b : list Z) : option ((value * value) * list Z) :=
  match read_missing 2 b with
  | Some (bits, r1) =>
      match dec_seq (decode k) (firstn 1 bits) r1 with
      | Some ([a], r2) =>
          match dec_seq (decode w) (skipn 1 bits) r2 with
          | Some ([c], r3) => Some ((a, c), r3)
          | _ => None
          end
      | _ => None
      end
  | None => None
  end.

Lemma encode_struct fs vs : encode (TStruct fs) (VStruct vs) = pack_bits (map is_na vs) ++ enc_fields encode fs vs.
Proof. reflexivity. Qed.
Lemma decode_struct fs bs :
  decode (TStruct fs) bs =
  match read_missing (length fs) bs with
  | Some (bits, r) =>
      match dec_fields decode fs bits r with Some (vs, r') => Some (VStruct vs, r') | None => None end
  | None => None
  end.
Proof. reflexivity. Qed.
Lemma wt_enc_struct fs vs : wt_enc (TStruct fs) (VStruct vs) = wt_fields wt_enc fs vs.
Proof. reflexivity. Qed.
Lemma encode_tuple ts vs : encode (TTuple ts) (VTuple vs) = pack_bits (map is_na vs) ++ enc_elts encode ts vs.
Proof. reflexivity. Qed.
Lemma decode_tuple ts bs :
  decode (TTuple ts) bs =
  match read_missing (length ts) bs with
  | Some (bits, r) =>
      match dec_elts decode ts bits r with Some (vs, r') => Some (VTuple vs, r') | None => None end
  | None => None
  end.
Proof. reflexivity. Qed.
Lemma wt_enc_tuple ts vs : wt_enc (TTuple ts) (VTuple vs) = wt_elts wt_enc ts vs.
Proof. reflexivity. Qed.
Lemma decode_dict k w bs :
  decode (TDict k w) bs =
  match read_u 4 bs with
  | Some (u, r) =>
      let len := s32 u in
      if len <? 0 then None else
      match dec_rep (dec_pair k w) (Z.to_nat len) r with
      | Some (kvs, r') => Some (VDict kvs, r')
      | None => None
      end
  | None => None
  end.
Proof. reflexivity. Qed.

Lemma enc_fields_cons F f fs x vs : enc_fields F (f :: fs) (x :: vs) = F (snd f) x ++ enc_fields F fs vs.
Proof. reflexivity. Qed.
Lemma enc_elts_cons F t ts x vs : enc_elts F (t :: ts) (x :: vs) = F t x ++ enc_elts F ts vs.
Proof. reflexivity. Qed.
Lemma dec_fields_true F f fs bits bs :
  dec_fields F (f :: fs) (true :: bits) bs =
  match dec_fields F fs bits bs with Some (vs, r') => Some (VNA :: vs, r') | None => None end.
Proof. reflexivity. Qed.
Lemma dec_fields_false F f fs bits bs :
  dec_fields F (f :: fs) (false :: bits) bs =
  match F (snd f) bs with
  | Some (v, r1) => match dec_fields F fs bits r1 with Some (vs, r') => Some (v :: vs, r') | None => None end
  | None => None
  end.
Proof. reflexivity. Qed.
Lemma dec_elts_true F t ts bits bs :
  dec_elts F (t :: ts) (true :: bits) bs =
  match dec_elts F ts bits bs with Some (vs, r') => Some (VNA :: vs, r') | None => None end.
Proof. reflexivity. Qed.
Lemma dec_elts_false F t ts bits bs :
  dec_elts F (t :: ts) (false :: bits) bs =
  match F t bs with
  | Some (v, r1) => match dec_elts F ts bits r1 with Some (vs, r') => Some (v :: vs, r') | None => None end
  | None => None
  end.
Proof. reflexivity. Qed.

(** ** basic facts *)
Lemma is_na_true v : is_na v = true -> v = VNA.
Proof. destruct v; try discriminate; reflexivity. Qed.

Lemma encode_na t : encode t VNA = [].
Proof. destruct t; reflexivity. Qed.

Definition DR (t : ty) : Prop :=
  forall v rest, wt_enc t v = true -> is_na v = false -> decode t (encode t v ++ rest) = Some (v, rest).

Lemma dec_seq_rt t : DR t ->
  forall l rest, forallb (wt_enc t) l = true ->
  dec_seq (decode t) (map is_na l) (flat_map (encode t) l ++ rest) = Some (l, rest).
Proof.
  intros Ht l; induction l as [|x l IH]; intros rest Hl; [reflexivity|].
  cbn [forallb] in Hl. apply andb_true_iff in Hl as [Hx Hl].
  cbn [map flat_map dec_seq]. destruct (is_na x) eqn:E.
  - rewrite (is_na_true x E), encode_na. cbn [app]. rewrite (IH rest Hl). reflexivity.
  - rewrite <- app_assoc, (Ht x _ Hx E), (IH rest Hl). reflexivity.
Qed.

Lemma dec_seq1 t x rest : DR t -> wt_enc t x = true ->
  dec_seq (decode t) [is_na x] (encode t x ++ rest) = Some ([x], rest).
Proof.
  intros Ht Hx. pose proof (dec_seq_rt t Ht [x] rest) as H. cbn [map flat_map forallb] in H.
  rewrite app_nil_r, andb_true_r in H. apply H. exact Hx.
Qed.

Lemma dec_rep_rt {A} (f : list Z -> option (A * list Z)) (g : A -> list Z) (l : list A) :
  Forall (fun x => forall rest, f (g x ++ rest) = Some (x, rest)) l ->
  forall rest, dec_rep f (length l) (flat_map g l ++ rest) = Some (l, rest).
Proof.
  induction 1 as [|x l Hx Hl IH]; intro rest; [reflexivity|].
  cbn [length flat_map dec_rep]. rewrite <- app_assoc, Hx, IH. reflexivity.
Qed.

Lemma wt_fields_length W fs vs : wt_fields W fs vs = true -> length vs = length fs.
Proof.
  revert vs; induction fs as [|f fs IH]; intros [|x vs] H; try discriminate; [reflexivity|].
  cbn [wt_fields] in H. apply andb_true_iff in H as [_ H]. cbn [length]. f_equal. apply IH. exact H.
Qed.

Lemma wt_elts_length W ts vs : wt_elts W ts vs = true -> length vs = length ts.
Proof.
  revert vs; induction ts as [|t ts IH]; intros [|x vs] H; try discriminate; [reflexivity|].
  cbn [wt_elts] in H. apply andb_true_iff in H as [_ H]. cbn [length]. f_equal. apply IH. exact H.
Qed.

Lemma dec_fields_rt fs : Forall (fun f => DR (snd f)) fs ->
  forall vs rest, wt_fields wt_enc fs vs = true ->
  dec_fields decode fs (map is_na vs) (enc_fields encode fs vs ++ rest) = Some (vs, rest).
Proof.
  induction 1 as [|f fs Hf Hfs IH]; intros vs rest Hwt.
  - destruct vs; [reflexivity|discriminate].
  - destruct vs as [|x vs]; [discriminate|]. cbn [wt_fields] in Hwt. apply andb_true_iff in Hwt as [Hx Hvs].
    rewrite enc_fields_cons. cbn [map]. destruct (is_na x) eqn:E.
    + rewrite (is_na_true x E), encode_na, dec_fields_true. cbn [app]. rewrite (IH vs rest Hvs). reflexivity.
    + rewrite dec_fields_false, <- app_assoc, (Hf x _ Hx E), (IH vs rest Hvs). reflexivity.
Qed.

Lemma dec_elts_rt ts : Forall DR ts ->
  forall vs rest, wt_elts wt_enc ts vs = true ->
  dec_elts decode ts (map is_na vs) (enc_elts encode ts vs ++ rest) = Some (vs, rest).
Proof.
  induction 1 as [|t ts Ht Hts IH]; intros vs rest Hwt.
  - destruct vs; [reflexivity|discriminate].
  - destruct vs as [|x vs]; [discriminate|]. cbn [wt_elts] in Hwt. apply andb_true_iff in Hwt as [Hx Hvs].
    rewrite enc_elts_cons. cbn [map]. destruct (is_na x) eqn:E.
    + rewrite (is_na_true x E), encode_na, dec_elts_true. cbn [app]. rewrite (IH vs rest Hvs). reflexivity.
    + rewrite dec_elts_false, <- app_assoc, (Ht x _ Hx E), (IH vs rest Hvs). reflexivity.
Qed.

(** ** scalars *)
Lemma len_ok_range n : len_ok n = true -> 0 <= Z.of_nat n < two31.
Proof. unfold len_ok. lia. Qed.

Lemma read_len n r : len_ok n = true -> read_u 4 (le_bytes 4 (Z.of_nat n) ++ r) = Some (Z.of_nat n, r).
Proof. intro H. apply len_ok_range in H. apply read_u4. unfold two31, two32 in *. lia. Qed.

Lemma s32_len n : len_ok n = true -> s32 (Z.of_nat n) = Z.of_nat n.
Proof. intro H. apply s32_small. apply len_ok_range. exact H. Qed.

Lemma dec_str_rt s r : str_ok s = true -> dec_str (enc_str s ++ r) = Some (s, r).
Proof.
  unfold str_ok. intro H. apply andb_true_iff in H as [Hsc Hlen].
  unfold dec_str, enc_str. rewrite <- app_assoc.
  assert (Hl : len_ok (length (utf8 s)) = true) by exact Hlen.
  rewrite (read_len _ _ Hl), (s32_len _ Hl).
  destruct (Z.of_nat (length (utf8 s)) <? 0) eqn:E; [lia|].
  rewrite Nat2Z.id, take_app, (utf8_dec_utf8 s Hsc). reflexivity.
Qed.

Lemma dec_bool_rt b r : dec_bool ([b2z b] ++ r) = Some (b, r).
Proof. destruct b; reflexivity. Qed.

Lemma dec_i64_rt d r : 0 <= d < two63 -> dec_i64 (le_bytes 8 d ++ r) = Some (d, r).
Proof.
  intro H. unfold dec_i64. rewrite read_u8 by (unfold two63, two64 in *; lia).
  unfold s64. destruct (d <? two63) eqn:E; [reflexivity|lia].
Qed.

(** ** n-d array element order keeps every element *)
Lemma Forall_chunks {A} (P : A -> Prop) k s (l : list A) : Forall P l -> Forall (Forall P) (chunks k s l).
Proof.
  revert l; induction k as [|k IH]; intros l Hl; cbn [chunks]; constructor.
  - rewrite <- (firstn_skipn s l) in Hl. apply Forall_app in Hl as [H _]. exact H.
  - apply IH. rewrite <- (firstn_skipn s l) in Hl. apply Forall_app in Hl as [_ H]. exact H.
Qed.

Lemma Forall_concat' {A} (P : A -> Prop) (M : list (list A)) : Forall (Forall P) M -> Forall P (concat M).
Proof. induction 1 as [|r M Hr HM IH]; cbn [concat]; [constructor|apply Forall_app; split; assumption]. Qed.

Lemma Forall_transpose {A} (d : A) (P : A -> Prop) n (M : list (list A)) :
  Forall (fun r => length r = n) M -> Forall (Forall P) M -> Forall (Forall P) (transpose d n M).
Proof.
  revert M; induction n as [|n IH]; intros M Hlen HP; cbn [transpose]; constructor.
  - rewrite Forall_map. rewrite Forall_forall in *. intros r Hr.
    specialize (Hlen r Hr). specialize (HP r Hr). destruct r as [|x r]; [discriminate|].
    cbn [hd]. apply Forall_cons_iff in HP as [Hx _]. exact Hx.
  - apply IH.
    + rewrite Forall_map. rewrite Forall_forall in *. intros r Hr. specialize (Hlen r Hr).
      destruct r; [discriminate|]. cbn in *. lia.
    + rewrite Forall_map. rewrite Forall_forall in *. intros r Hr. specialize (HP r Hr).
      destruct r as [|x r]; [constructor|]. cbn [tl]. apply Forall_cons_iff in HP as [_ H]. exact H.
Qed.

Lemma Forall_to_colmajor (P : value -> Prop) shape data :
  length data = nprod shape -> Forall P data -> Forall P (to_colmajor shape data).
Proof.
  revert data; induction shape as [|d0 rest IH]; intros data Hl HP; [exact HP|].
  cbn [to_colmajor nprod fold_right] in *. fold (nprod rest) in *. set (p := nprod rest) in *.
  destruct (chunks_rect d0 p data Hl) as [Hk Hrows].
  apply Forall_concat'. apply Forall_transpose.
  - rewrite Forall_map. eapply Forall_impl; [|exact Hrows]. intros r Hr. cbn beta.
    rewrite to_colmajor_length; exact Hr.
  - rewrite Forall_map. pose proof (Forall_chunks P d0 p data HP) as Hc.
    rewrite Forall_forall in *. intros r Hr. apply IH; [apply Hrows; exact Hr|apply Hc; exact Hr].
Qed.

(** ** the round trip, by nested induction over the type *)
Theorem decode_encode : forall t, DR t.
Proof.
  induction t using ty_nested_ind; intros v rest Hwt Hna.
  - (* int32 *)
    destruct v; try discriminate. cbn [encode decode]. change (int_ok TInt32 z = true) in Hwt. unfold int_ok in Hwt.
    rewrite read_u4 by apply mod32_range. rewrite s32_mod by lia. reflexivity.
  - (* int64 *)
    destruct v; try discriminate. cbn [encode decode]. change (int_ok TInt64 z = true) in Hwt. unfold int_ok in Hwt.
    rewrite read_u8 by apply mod64_range. rewrite s64_mod by lia. reflexivity.
  - (* float32 *)
    destruct v; try discriminate. cbn [encode decode]. change (float_ok TFloat32 f = true) in Hwt.
    rewrite read_u4 by (apply f32_bits_range; exact Hwt). rewrite f32_of_bits_bits by exact Hwt. reflexivity.
  - (* float64 *)
    destruct v; try discriminate. cbn [encode decode]. change (float_ok TFloat64 f = true) in Hwt.
    rewrite read_u8 by (apply f64_bits_range; exact Hwt). rewrite f64_of_bits_bits by exact Hwt. reflexivity.
  - (* bool *)
    destruct v; try discriminate. cbn [encode decode]. rewrite dec_bool_rt. reflexivity.
  - (* str *)
    destruct v; try discriminate. cbn [encode decode]. change (str_ok s = true) in Hwt.
    rewrite dec_str_rt by exact Hwt. reflexivity.
  - (* call *)
    destruct v; try discriminate. cbn [encode decode].
    change (call_normal phased alleles && call_ok phased alleles = true) in Hwt.
    apply andb_true_iff in Hwt as [Hn Hok].
    rewrite read_u4 by (apply call_rep_range; exact Hok). rewrite call_of_rep_call_rep by assumption. reflexivity.
  - (* locus *)
    destruct v; try discriminate. cbn [encode decode].
    change (str_ok contig && int_ok TInt32 pos = true) in Hwt. apply andb_true_iff in Hwt as [Hc Hp].
    unfold int_ok in Hp. rewrite <- app_assoc.
    rewrite (read_missing_pack_n 2 [false; false]) by reflexivity.
    rewrite <- app_assoc, dec_str_rt by exact Hc.
    rewrite read_u4 by apply mod32_range. rewrite s32_mod by lia. reflexivity.
  - (* interval *)
    destruct v as [| | | | | | |s e i_s i_e| | | | | |]; try discriminate.
    change (wt_enc t s && wt_enc t e = true) in Hwt. apply andb_true_iff in Hwt as [Hs He].
    cbn [encode decode]. rewrite <- app_assoc.
    rewrite (read_missing_pack_n 4 [is_na s; is_na e; false; false]) by reflexivity.
    pose proof (dec_seq_rt t IHt [s; e] ([b2z i_s] ++ [b2z i_e] ++ rest)) as Hseq.
    cbn [map flat_map forallb] in Hseq. rewrite app_nil_r, andb_true_r in Hseq.
    repeat rewrite <- app_assoc in Hseq. repeat rewrite <- app_assoc. rewrite Hseq by (rewrite Hs, He; reflexivity).
    rewrite dec_bool_rt, dec_bool_rt. reflexivity.
  - (* array *)
    destruct v as [| | | | | | | |l| | | | |]; try discriminate.
    change (len_ok (length l) && forallb (wt_enc t) l = true) in Hwt. apply andb_true_iff in Hwt as [Hlen Hl].
    cbn [encode decode]. rewrite <- !app_assoc. rewrite (read_len _ _ Hlen), (s32_len _ Hlen).
    destruct (Z.of_nat (length l) <? 0) eqn:E; [lia|]. rewrite Nat2Z.id.
    rewrite (read_missing_pack_n (length l) (map is_na l)) by apply map_length.
    rewrite (dec_seq_rt t IHt l rest Hl). reflexivity.
  - (* set *)
    destruct v as [| | | | | | | | |l| | | |]; try discriminate.
    change (len_ok (length l) && forallb (wt_enc t) l = true) in Hwt. apply andb_true_iff in Hwt as [Hlen Hl].
    cbn [encode decode]. rewrite <- !app_assoc. rewrite (read_len _ _ Hlen), (s32_len _ Hlen).
    destruct (Z.of_nat (length l) <? 0) eqn:E; [lia|]. rewrite Nat2Z.id.
    rewrite (read_missing_pack_n (length l) (map is_na l)) by apply map_length.
    rewrite (dec_seq_rt t IHt l rest Hl). reflexivity.
  - (* dict *)
    destruct v as [| | | | | | | | | |l| | |]; try discriminate.
    change (len_ok (length l) && forallb (fun kv => wt_enc t1 (fst kv) && wt_enc t2 (snd kv)) l = true) in Hwt.
    apply andb_true_iff in Hwt as [Hlen Hl].
    rewrite decode_dict. cbn [encode]. rewrite <- !app_assoc. rewrite (read_len _ _ Hlen). cbn zeta. rewrite (s32_len _ Hlen).
    destruct (Z.of_nat (length l) <? 0) eqn:E; [lia|]. rewrite Nat2Z.id.
    rewrite (dec_rep_rt (dec_pair t1 t2)
               (fun kv => pack_bits [is_na (fst kv); is_na (snd kv)] ++ encode t1 (fst kv) ++ encode t2 (snd kv))); [reflexivity|].
    rewrite forallb_forall in Hl. apply Forall_forall. intros [a b] Hin r. specialize (Hl _ Hin). cbn [fst snd] in *.
    apply andb_true_iff in Hl as [Ha Hb].
    unfold dec_pair. rewrite <- !app_assoc.
    rewrite (read_missing_pack_n 2 [is_na a; is_na b]) by reflexivity. cbn [firstn skipn].
    rewrite (dec_seq1 t1 a _ IHt1 Ha), (dec_seq1 t2 b _ IHt2 Hb). reflexivity.
  - (* struct *)
    destruct v as [| | | | | | | | | | |vs| |]; try discriminate.
    rewrite wt_enc_struct in Hwt. rewrite encode_struct, decode_struct, <- app_assoc.
    rewrite (read_missing_pack_n (length fs) (map is_na vs))
      by (rewrite map_length; apply (wt_fields_length wt_enc); exact Hwt).
    rewrite (dec_fields_rt fs H vs rest Hwt). reflexivity.
  - (* tuple *)
    destruct v as [| | | | | | | | | | | |vs|]; try discriminate.
    rewrite wt_enc_tuple in Hwt. rewrite encode_tuple, decode_tuple, <- app_assoc.
    rewrite (read_missing_pack_n (length ts) (map is_na vs))
      by (rewrite map_length; apply (wt_elts_length wt_enc); exact Hwt).
    rewrite (dec_elts_rt ts H vs rest Hwt). reflexivity.
  - (* ndarray *)
    destruct v as [| | | | | | | | | | | | |shape data]; try discriminate.
    change (Nat.eqb (length shape) n && forallb (fun d => (0 <=? d) && dim_ok d) shape
            && Z.eqb (Z.of_nat (length data)) (zprod shape)
            && forallb (fun x => negb (is_na x) && wt_enc t x) data = true) in Hwt.
    apply andb_true_iff in Hwt as [Hwt Hdata]. apply andb_true_iff in Hwt as [Hwt Hlen].
    apply andb_true_iff in Hwt as [Hnd Hdims]. apply Nat.eqb_eq in Hnd. apply Z.eqb_eq in Hlen.
    assert (Hpos : forallb (fun d => 0 <=? d) shape = true).
    { rewrite forallb_forall in *. intros d Hd. specialize (Hdims d Hd). lia. }
    cbn [encode decode]. rewrite <- app_assoc. subst n.
    rewrite (dec_rep_rt dec_i64 (le_bytes 8)).
    2:{ apply Forall_forall. intros d Hd r. rewrite forallb_forall in Hdims. specialize (Hdims d Hd).
        unfold dim_ok in Hdims. apply dec_i64_rt. lia. }
    rewrite Hpos.
    assert (Hl : length data = nprod (map Z.to_nat shape)).
    { rewrite (zprod_nprod shape Hpos) in Hlen. lia. }
    set (cm := to_colmajor (map Z.to_nat shape) data).
    assert (Hcml : length cm = length data) by (apply to_colmajor_length; exact Hl).
    replace (Z.to_nat (zprod shape)) with (length cm) by (rewrite Hcml; lia).
    rewrite (dec_rep_rt (decode t) (encode t)).
    + subst cm. rewrite from_to_colmajor by exact Hl. reflexivity.
    + subst cm. apply Forall_to_colmajor; [exact Hl|].
      rewrite forallb_forall in Hdata. apply Forall_forall. intros x Hx r. specialize (Hdata x Hx).
      apply andb_true_iff in Hdata as [Hx1 Hx2]. apply IHt; [exact Hx2|]. destruct (is_na x); [discriminate|reflexivity].
Qed.
