(** C33 — MODEL of the engine side (Scala, cannot be executed in this sandbox):
    the encoded types of hail/hail/src/is/hail/types/encoded and what their decoders read from the input buffer
    (hand transcription of _buildDecoder / _buildInplaceDecoder / _buildSkip of EInt32, EInt64, EFloat32, EFloat64,
    EBoolean, EBinary, EArray, EBaseStruct, ENDArrayColumnMajor, EUnsortedSet, EDictAsUnsortedArrayOfPairs, over the
    StreamInputBuffer of BufferSpec.unblockedUncompressed: fixed-width little-endian reads).
    Executable definitions only.  The map from a virtual type to its Python-encoding EType,
    EType.fromPythonTypeEncoding, is REGENERATED from the Scala source (HailG.C33.Gen); [etype_of] below is the hand
    version it is proved equal to. *)
From HailV Require Import Common.Prelude HailValues.Model HailEncoding.Model.
Open Scope Z_scope.

Inductive etype : Type :=
| EInt32 (req : bool) | EInt64 (req : bool) | EFloat32 (req : bool) | EFloat64 (req : bool)
| EBoolean (req : bool) | EBinary (req : bool)
| EArray (elt : etype) (req : bool)
| EUnsortedSet (elt : etype) (req : bool)
| EDictAsUnsortedArrayOfPairs (elt : etype) (req : bool)
| EBaseStruct (fields : list (name * etype)) (req : bool)
| ENDArrayColumnMajor (elt : etype) (ndims : nat) (req : bool).

Definition required (e : etype) : bool :=
  match e with
  | EInt32 r | EInt64 r | EFloat32 r | EFloat64 r | EBoolean r | EBinary r => r
  | EArray _ r | EUnsortedSet _ r | EDictAsUnsortedArrayOfPairs _ r | EBaseStruct _ r | ENDArrayColumnMajor _ _ r => r
  end.

Definition set_required (e : etype) (r : bool) : etype :=
  match e with
  | EInt32 _ => EInt32 r | EInt64 _ => EInt64 r | EFloat32 _ => EFloat32 r | EFloat64 _ => EFloat64 r
  | EBoolean _ => EBoolean r | EBinary _ => EBinary r
  | EArray x _ => EArray x r | EUnsortedSet x _ => EUnsortedSet x r
  | EDictAsUnsortedArrayOfPairs x _ => EDictAsUnsortedArrayOfPairs x r
  | EBaseStruct fs _ => EBaseStruct fs r
  | ENDArrayColumnMajor x n _ => ENDArrayColumnMajor x n r
  end.

(** what a decoder leaves in the region, up to physical layout *)
Inductive evalue : Type :=
| EVInt (z : Z)                         (* Int / Long, signed *)
| EVFloat (bits : Z)                    (* Float / Double, raw bits *)
| EVBool (b : bool)
| EVBinary (bytes : list Z)
| EVArray (l : list (option evalue))    (* None = missing element *)
| EVStruct (l : list (option evalue))   (* None = missing field *)
| EVNDArray (shape : list Z) (data : list evalue).   (* elements in the order read = column major *)

Definition eres : Type := option (evalue * list Z).

(** elements of a container with missing bits, read in index order *)
Fixpoint edec_seq (f : list Z -> eres) (missing : list bool) (bs : list Z) : option (list (option evalue) * list Z) :=
  match missing with
  | [] => Some ([], bs)
  | true :: m' => match edec_seq f m' bs with Some (vs, r) => Some (None :: vs, r) | None => None end
  | false :: m' =>
      match f bs with
      | Some (v, r) => match edec_seq f m' r with Some (vs, r') => Some (Some v :: vs, r') | None => None end
      | None => None
      end
  end.

Fixpoint count_optional (fs : list (name * etype)) : nat :=
  match fs with [] => O | f :: r => ((if required (snd f) then 0 else 1) + count_optional r)%nat end.

(** EArray._buildDecoder: length; if the element type is required [len] elements, else ceil(len/8) missing bytes and
    the present elements *)
Definition edec_array (felt : list Z -> eres) (elt_required : bool) (bs : list Z) : eres :=
  match read_u 4 bs with
  | Some (u, r) =>
      let len := s32 u in
      if len <? 0 then None else
      if elt_required then
        match dec_rep felt (Z.to_nat len) r with
        | Some (vs, r') => Some (EVArray (map Some vs), r')
        | None => None
        end
      else
        match read_missing (Z.to_nat len) r with
        | Some (bits, r1) =>
            match edec_seq felt bits r1 with Some (vs, r2) => Some (EVArray vs, r2) | None => None end
        | None => None
        end
  | None => None
  end.

Fixpoint edecode (e : etype) (bs : list Z) {struct e} : eres :=
  match e with
  | EInt32 _ => match read_u 4 bs with Some (u, r) => Some (EVInt (s32 u), r) | None => None end
  | EInt64 _ => match read_u 8 bs with Some (u, r) => Some (EVInt (s64 u), r) | None => None end
  | EFloat32 _ => match read_u 4 bs with Some (u, r) => Some (EVFloat u, r) | None => None end
  | EFloat64 _ => match read_u 8 bs with Some (u, r) => Some (EVFloat u, r) | None => None end
  | EBoolean _ => match dec_bool bs with Some (b, r) => Some (EVBool b, r) | None => None end
  | EBinary _ =>
      match read_u 4 bs with
      | Some (u, r) =>
          let len := s32 u in
          if len <? 0 then None else
          match take (Z.to_nat len) r with Some (b, r') => Some (EVBinary b, r') | None => None end
      | None => None
      end
  | EArray elt _ => edec_array (edecode elt) (required elt) bs
  | EUnsortedSet elt _ => edec_array (edecode elt) (required elt) bs            (* then sorted: not modelled *)
  | EDictAsUnsortedArrayOfPairs elt _ => edec_array (edecode elt) (required elt) bs   (* then sorted by key *)
  | EBaseStruct fs _ =>
      (* nMissingBytes = packBitsToBytes(number of non-required fields); bit j belongs to the j-th non-required field *)
      match read_missing (count_optional fs) bs with
      | Some (bits, r) =>
          match (fix go (fs : list (name * etype)) (bits : list bool) (bs : list Z)
                   : option (list (option evalue) * list Z) :=
                   match fs with
                   | [] => Some ([], bs)
                   | f :: fs' =>
                       if required (snd f) then
                         match edecode (snd f) bs with
                         | Some (v, r1) =>
                             match go fs' bits r1 with Some (vs, r') => Some (Some v :: vs, r') | None => None end
                         | None => None
                         end
                       else
                         match bits with
                         | [] => None
                         | true :: bits' =>
                             match go fs' bits' bs with Some (vs, r') => Some (None :: vs, r') | None => None end
                         | false :: bits' =>
                             match edecode (snd f) bs with
                             | Some (v, r1) =>
                                 match go fs' bits' r1 with Some (vs, r') => Some (Some v :: vs, r') | None => None end
                             | None => None
                             end
                         end
                   end) fs bits r with
          | Some (vs, r') => Some (EVStruct vs, r')
          | None => None
          end
      | None => None
      end
  | ENDArrayColumnMajor elt nd _ =>
      (* nDims longs, then prod(shape) elements read one after the other into column-major strides *)
      match dec_rep dec_i64 nd bs with
      | Some (shape, r) =>
          if forallb (fun d => 0 <=? d) shape then
            match dec_rep (edecode elt) (Z.to_nat (zprod shape)) r with
            | Some (elems, r') => Some (EVNDArray shape elems, r')
            | None => None
            end
          else None
      | None => None
      end
  end.

(** ** hand version of EType.fromPythonTypeEncoding (the generated one is proved equal to it) *)
Definition s_key := [107; 101; 121]%N.
Definition s_value := [118; 97; 108; 117; 101]%N.
Definition s_contig := [99; 111; 110; 116; 105; 103]%N.
Definition s_position := [112; 111; 115; 105; 116; 105; 111; 110]%N.
Definition s_start := [115; 116; 97; 114; 116]%N.
Definition s_end := [101; 110; 100]%N.
Definition s_includesStart := [105; 110; 99; 108; 117; 100; 101; 115; 83; 116; 97; 114; 116]%N.
Definition s_includesEnd := [105; 110; 99; 108; 117; 100; 101; 115; 69; 110; 100]%N.

(** names of the fields of a TTuple: "0", "1", ... (they do not influence the layout) *)
Fixpoint tuple_names_from (i : N) (n : nat) : list name :=
  match n with O => [] | S n' => dec_of_N i :: tuple_names_from (N.succ i) n' end.

Fixpoint etype_of (t : ty) : etype :=
  match t with
  | TInt32 => EInt32 false
  | TInt64 => EInt64 false
  | TFloat32 => EFloat32 false
  | TFloat64 => EFloat64 false
  | TBool => EBoolean false
  | TStr => EBinary false
  | TCall => EInt32 false
  | TLocus _ => EBaseStruct [(s_contig, EBinary false); (s_position, EInt32 false)] false
  | TInterval p =>
      EBaseStruct [(s_start, etype_of p); (s_end, etype_of p);
                   (s_includesStart, EBoolean false); (s_includesEnd, EBoolean false)] false
  | TDict k v =>
      EDictAsUnsortedArrayOfPairs (set_required (EBaseStruct [(s_key, etype_of k); (s_value, etype_of v)] false) true) false
  | TSet e => EUnsortedSet (etype_of e) false
  | TArray e => EArray (etype_of e) false
  | TStruct fs =>
      EBaseStruct ((fix go (fs : list (name * ty)) : list (name * etype) :=
                      match fs with [] => [] | f :: fs' => (fst f, etype_of (snd f)) :: go fs' end) fs) false
  | TTuple ts =>
      EBaseStruct (combine (tuple_names_from 0%N (length ts))
                           ((fix go (ts : list ty) : list etype :=
                               match ts with [] => [] | t' :: ts' => etype_of t' :: go ts' end) ts)) false
  | TNDArray e nd => ENDArrayColumnMajor (set_required (etype_of e) true) nd false
  end.

(** ** the engine-side reading of a Python value: what the decoder must produce *)
Definition opt_erase (F : value -> evalue) (x : value) : option evalue :=
  if is_na x then None else Some (F x).

Fixpoint erase (t : ty) (v : value) {struct t} : evalue :=
  match t, v with
  | TInt32, VInt z | TInt64, VInt z => EVInt z
  | TFloat32, VFloat f => EVFloat (f32_bits f)
  | TFloat64, VFloat f => EVFloat (f64_bits f)
  | TBool, VBool b => EVBool b
  | TStr, VStr s => EVBinary (utf8 s)
  | TCall, VCall p al => EVInt (s32 (call_rep p al))
  | TLocus _, VLocus c pos => EVStruct [Some (EVBinary (utf8 c)); Some (EVInt pos)]
  | TInterval p, VInterval s e i_s i_e =>
      EVStruct [opt_erase (erase p) s; opt_erase (erase p) e; Some (EVBool i_s); Some (EVBool i_e)]
  | TArray e, VArray l | TSet e, VSet l => EVArray (map (opt_erase (erase e)) l)
  | TDict k w, VDict l =>
      EVArray (map (fun kv => Some (EVStruct [opt_erase (erase k) (fst kv); opt_erase (erase w) (snd kv)])) l)
  | TStruct fs, VStruct vs =>
      EVStruct ((fix go (fs : list (name * ty)) (vs : list value) : list (option evalue) :=
                   match fs, vs with
                   | f :: fs', x :: vs' => opt_erase (erase (snd f)) x :: go fs' vs'
                   | _, _ => []
                   end) fs vs)
  | TTuple ts, VTuple vs =>
      EVStruct ((fix go (ts : list ty) (vs : list value) : list (option evalue) :=
                   match ts, vs with
                   | t' :: ts', x :: vs' => opt_erase (erase t') x :: go ts' vs'
                   | _, _ => []
                   end) ts vs)
  | TNDArray e _, VNDArray shape data => EVNDArray shape (map (erase e) (to_colmajor (map Z.to_nat shape) data))
  | _, _ => EVInt 0
  end.
