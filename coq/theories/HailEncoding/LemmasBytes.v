(** C33 — byte-level facts: little-endian integers, UTF-8, missing bits, bit-packed calls. *)
From HailV Require Import Common.Prelude HailValues.Model HailValues.Lemmas HailEncoding.Model.
Open Scope Z_scope.

(** ** take / read *)
Lemma take_app (a r : list Z) : take (length a) (a ++ r) = Some (a, r).
Proof.
  unfold take. rewrite app_length.
  destruct (length a + length r <? length a)%nat eqn:E; [apply Nat.ltb_lt in E; lia|].
  rewrite firstn_app, Nat.sub_diag, firstn_all, skipn_app, Nat.sub_diag, skipn_all. cbn. rewrite app_nil_r. reflexivity.
Qed.

Lemma take_app_n (n : nat) (a r : list Z) : length a = n -> take n (a ++ r) = Some (a, r).
Proof. intros <-. apply take_app. Qed.

Lemma le_bytes_length n x : length (le_bytes n x) = n.
Proof. revert x; induction n as [|n IH]; intro x; cbn [le_bytes length]; [reflexivity|rewrite IH; reflexivity]. Qed.

Lemma le_val_le_bytes n x : 0 <= x < 256 ^ Z.of_nat n -> le_val (le_bytes n x) = x.
Proof.
  revert x; induction n as [|n IH]; intros x Hx.
  - cbn in *. lia.
  - cbn [le_bytes le_val]. rewrite Nat2Z.inj_succ, Z.pow_succ_r in Hx by lia.
    rewrite IH; [|split; [apply Z.div_pos; lia | apply Z.div_lt_upper_bound; lia]].
    pose proof (Z.div_mod x 256 ltac:(lia)). lia.
Qed.

Lemma read_u_le_bytes n x r : 0 <= x < 256 ^ Z.of_nat n -> read_u n (le_bytes n x ++ r) = Some (x, r).
Proof. intro Hx. unfold read_u. rewrite (take_app_n n) by apply le_bytes_length. rewrite le_val_le_bytes by exact Hx. reflexivity. Qed.

Lemma read_u4 x r : 0 <= x < two32 -> read_u 4 (le_bytes 4 x ++ r) = Some (x, r).
Proof. intro H. apply read_u_le_bytes. exact H. Qed.

Lemma read_u8 x r : 0 <= x < two64 -> read_u 8 (le_bytes 8 x ++ r) = Some (x, r).
Proof. intro H. apply read_u_le_bytes. exact H. Qed.

Lemma s32_mod z : - two31 <= z < two31 -> s32 (z mod two32) = z.
Proof. unfold s32, two31, two32. intro H. destruct (z mod 4294967296 <? 2147483648) eqn:E; lia. Qed.

Lemma s64_mod z : - two63 <= z < two63 -> s64 (z mod two64) = z.
Proof. unfold s64, two63, two64. intro H. destruct (z mod 18446744073709551616 <? 9223372036854775808) eqn:E; lia. Qed.

Lemma mod32_range z : 0 <= z mod two32 < two32.
Proof. apply Z.mod_pos_bound. reflexivity. Qed.
Lemma mod64_range z : 0 <= z mod two64 < two64.
Proof. apply Z.mod_pos_bound. reflexivity. Qed.

Lemma s32_small u : 0 <= u < two31 -> s32 u = u.
Proof. unfold s32. intro H. destruct (u <? two31) eqn:E; lia. Qed.

(** ** UTF-8 *)
Lemma utf8_char_dec c r :
  0 <= c < 1114112 -> utf8_dec (utf8_char c ++ r) = option_map (cons (Z.to_N c)) (utf8_dec r).
Proof.
  intro Hc. unfold utf8_char.
  destruct (c <? 128) eqn:E1.
  { cbn [app utf8_dec]. rewrite E1. reflexivity. }
  destruct (c <? 2048) eqn:E2.
  { cbn [app utf8_dec].
    destruct (192 + c / 64 <? 128) eqn:F1; [lia|]. destruct (192 + c / 64 <? 224) eqn:F2; [|lia].
    do 2 f_equal. f_equal. lia. }
  destruct (c <? 65536) eqn:E3.
  { cbn [app utf8_dec].
    destruct (224 + c / 4096 <? 128) eqn:F1; [lia|]. destruct (224 + c / 4096 <? 224) eqn:F2; [lia|].
    destruct (224 + c / 4096 <? 240) eqn:F3; [|lia].
    do 2 f_equal. f_equal. lia. }
  cbn [app utf8_dec].
  destruct (240 + c / 262144 <? 128) eqn:F1; [lia|]. destruct (240 + c / 262144 <? 224) eqn:F2; [lia|].
  destruct (240 + c / 262144 <? 240) eqn:F3; [lia|].
  do 2 f_equal. f_equal. lia.
Qed.

Lemma scalar_ok_range c : scalar_ok c = true -> 0 <= Z.of_N c < 1114112.
Proof. unfold scalar_ok. intro H. apply andb_true_iff in H as [H _]. lia. Qed.

Lemma utf8_dec_utf8 (s : name) : forallb scalar_ok s = true -> utf8_dec (utf8 s) = Some s.
Proof.
  induction s as [|c s IH]; cbn [forallb]; intro H; [reflexivity|].
  apply andb_true_iff in H as [Hc Hs]. unfold utf8. cbn [flat_map].
  rewrite utf8_char_dec by (apply scalar_ok_range; exact Hc).
  fold (utf8 s). rewrite (IH Hs). cbn [option_map]. rewrite N2Z.id. reflexivity.
Qed.

(** ** missing bits *)
Lemma bits_of_byte_of_bits (c : list bool) : bits_of_byte (length c) (byte_of_bits c) = c.
Proof.
  induction c as [|b c IH]; cbn [length byte_of_bits bits_of_byte]; [reflexivity|].
  assert (Hodd : Z.odd (b2z b + 2 * byte_of_bits c) = b).
  { rewrite Z.odd_add_mul_2. destruct b; reflexivity. }
  assert (Hdiv : (b2z b + 2 * byte_of_bits c) / 2 = byte_of_bits c).
  { destruct b; unfold b2z; lia. }
  rewrite Hodd, Hdiv, IH. reflexivity.
Qed.

Section Ind8.
  Variable A : Type.
  Variable P : list A -> Prop.
  Hypothesis Hshort : forall l, (length l < 8)%nat -> P l.
  Hypothesis Hstep : forall b0 b1 b2 b3 b4 b5 b6 b7 r, P r -> P (b0 :: b1 :: b2 :: b3 :: b4 :: b5 :: b6 :: b7 :: r).

  Lemma list_ind8 : forall l, P l.
  Proof.
    assert (H : forall n l, (length l <= n)%nat -> P l).
    { induction n as [|n IH]; intros l Hl.
      - apply Hshort. lia.
      - destruct l as [|b0 [|b1 [|b2 [|b3 [|b4 [|b5 [|b6 [|b7 r]]]]]]]]; try (apply Hshort; cbn; lia).
        apply Hstep. apply IH. cbn [length] in Hl. lia. }
    intro l. apply (H (length l)). lia.
  Qed.
End Ind8.

Lemma pack_bits_length (bits : list bool) : length (pack_bits bits) = n_missing_bytes (length bits).
Proof.
  induction bits using list_ind8.
  - destruct bits as [|b0 [|b1 [|b2 [|b3 [|b4 [|b5 [|b6 [|b7 r]]]]]]]]; try reflexivity. cbn [length] in H. lia.
  - cbn [pack_bits length n_missing_bytes]. rewrite IHbits. reflexivity.
Qed.

Lemma unpack_pack_bits (bits : list bool) : unpack_bits (length bits) (pack_bits bits) = Some bits.
Proof.
  induction bits using list_ind8.
  - destruct bits as [|b0 [|b1 [|b2 [|b3 [|b4 [|b5 [|b6 [|b7 r]]]]]]]]; try (cbn [length] in H; lia); try reflexivity;
      cbn [length pack_bits unpack_bits]; f_equal;
      match goal with |- bits_of_byte _ (byte_of_bits ?c) = _ => exact (bits_of_byte_of_bits c) end.
  - cbn [length pack_bits unpack_bits]. rewrite IHbits. cbn [option_map]. f_equal.
    change (bits_of_byte 8 (byte_of_bits [b0; b1; b2; b3; b4; b5; b6; b7]) ++ bits = [b0; b1; b2; b3; b4; b5; b6; b7] ++ bits).
    f_equal. exact (bits_of_byte_of_bits [b0; b1; b2; b3; b4; b5; b6; b7]).
Qed.

Lemma read_missing_pack (bits : list bool) (r : list Z) :
  read_missing (length bits) (pack_bits bits ++ r) = Some (bits, r).
Proof.
  unfold read_missing. rewrite (take_app_n _ _ _ (pack_bits_length bits)). rewrite unpack_pack_bits. reflexivity.
Qed.

Lemma read_missing_pack_n (n : nat) (bits : list bool) (r : list Z) :
  length bits = n -> read_missing n (pack_bits bits ++ r) = Some (bits, r).
Proof. intros <-. apply read_missing_pack. Qed.

(** ceil(n/8), as computed by math.ceil(length / 8) and by the engine's packBitsToBytes *)
Lemma n_missing_bytes_div (n : nat) : n_missing_bytes n = Nat.div (n + 7) 8.
Proof.
  assert (H : forall l : list unit, n_missing_bytes (length l) = Nat.div (length l + 7) 8).
  { intro l. induction l using list_ind8.
    - destruct l as [|b0 [|b1 [|b2 [|b3 [|b4 [|b5 [|b6 [|b7 r]]]]]]]]; try reflexivity. cbn [length] in H. lia.
    - cbn [length n_missing_bytes]. rewrite IHl.
      replace (S (S (S (S (S (S (S (S (length l)))))))) + 7)%nat with (length l + 7 + 1 * 8)%nat by lia.
      rewrite Nat.div_add by lia. lia. }
  specialize (H (repeat tt n)). rewrite repeat_length in H. exact H.
Qed.

(** ** calls *)
Lemma tri_even k : 0 <= k -> 2 * (k * (k + 1) / 2) = k * (k + 1).
Proof.
  intro Hk. pose proof (Z.div_mod k 2 ltac:(lia)) as Hd. pose proof (Z.mod_pos_bound k 2 ltac:(lia)) as Hm.
  assert (Hc : k mod 2 = 0 \/ k mod 2 = 1) by lia.
  set (m := k / 2) in *.
  destruct Hc as [Hc|Hc]; rewrite Hc in Hd.
  - replace k with (2 * m) by lia. replace (2 * m * (2 * m + 1)) with ((m * (2 * m + 1)) * 2) by ring.
    rewrite Z.div_mul by lia. ring.
  - replace k with (2 * m + 1) by lia. replace ((2 * m + 1) * (2 * m + 1 + 1)) with (((2 * m + 1) * (m + 1)) * 2) by ring.
    rewrite Z.div_mul by lia. ring.
Qed.

Lemma sqrt_gt_index j k :
  0 <= j <= k -> (Z.sqrt (8 * gt_index j k + 1) - 1) / 2 = k.
Proof.
  intros [Hj Hk]. unfold gt_index. pose proof (tri_even k ltac:(lia)) as HT. set (T := k * (k + 1) / 2) in *.
  assert (Hn : 8 * (T + j) + 1 = (2 * k + 1) * (2 * k + 1) + 8 * j) by nia.
  set (n := 8 * (T + j) + 1) in *.
  assert (Hlo : 2 * k + 1 <= Z.sqrt n).
  { apply Z.sqrt_le_square; nia. }
  assert (Hhi : Z.sqrt n < 2 * k + 3).
  { apply Z.sqrt_lt_square; nia. }
  assert (Hc : Z.sqrt n = 2 * k + 1 \/ Z.sqrt n = 2 * k + 2) by lia.
  destruct Hc as [-> | ->]; lia.
Qed.

Lemma gt_index_nonneg j k : 0 <= j -> 0 <= k -> 0 <= gt_index j k.
Proof. intros Hj Hk. unfold gt_index. assert (0 <= k * (k + 1) / 2) by (apply Z.div_pos; nia). lia. Qed.

Lemma call_rep_range p al :
  call_ok p al = true -> 0 <= call_rep p al < two32.
Proof.
  unfold call_ok, call_rep, two29, two32.
  destruct al as [|a0 [|a1 [|a2 al]]]; intro H.
  - destruct p; lia.
  - destruct p; lia.
  - apply andb_true_iff in H as [Hk Hg].
    destruct p.
    + pose proof (gt_index_nonneg (Z.of_N a0) (Z.of_N a0 + Z.of_N a1) ltac:(lia) ltac:(lia)). lia.
    + pose proof (gt_index_nonneg (Z.of_N a0) (Z.of_N a1) ltac:(lia) ltac:(lia)). lia.
  - discriminate.
Qed.

Lemma odd_ph_plus (p : bool) (m : Z) : Z.odd ((if p then 1 else 0) + 2 * m) = p.
Proof. rewrite Z.odd_add_mul_2. destruct p; reflexivity. Qed.

Lemma call_of_rep_call_rep p al :
  call_normal p al = true -> call_ok p al = true -> call_of_rep (call_rep p al) = Some (VCall p al).
Proof.
  intros Hn Hok. unfold call_of_rep.
  destruct al as [|a0 [|a1 [|a2 al]]]; [| | |discriminate].
  - (* ploidy 0 *)
    cbn [call_rep]. set (ph := if p then 1 else 0).
    assert (Hph : ph = 0 \/ ph = 1) by (subst ph; destruct p; lia).
    replace ((ph / 2) mod 4) with 0 by (destruct Hph as [-> | ->]; reflexivity).
    cbn [Z.eqb]. f_equal. unfold mk_call. f_equal. subst ph. destruct p; reflexivity.
  - (* ploidy 1 *)
    cbn [call_rep call_ok] in *. set (ph := if p then 1 else 0). set (a := Z.of_N a0) in *.
    assert (Hph : ph = 0 \/ ph = 1) by (subst ph; destruct p; lia).
    assert (Ha : 0 <= a) by (subst a; lia).
    replace (((2 + ph + 8 * a) / 2) mod 4) with 1 by (destruct Hph as [-> | ->]; lia).
    cbn [Z.eqb Pos.eqb].
    replace ((2 + ph + 8 * a) / 8) with a by (destruct Hph as [-> | ->]; lia).
    replace (2 + ph + 8 * a) with (ph + 2 * (1 + 4 * a)) by ring. subst ph. rewrite odd_ph_plus.
    subst a. rewrite N2Z.id. reflexivity.
  - (* ploidy 2 *)
    cbn [call_rep call_ok call_normal] in *. set (ph := if p then 1 else 0).
    assert (Hph : ph = 0 \/ ph = 1) by (subst ph; destruct p; lia).
    assert (Hg_eq : (if p then gt_index (Z.of_N a0) (Z.of_N a0 + Z.of_N a1) else gt_index (Z.of_N a0) (Z.of_N a1))
                    = gt_index (Z.of_N a0) (if p then Z.of_N a0 + Z.of_N a1 else Z.of_N a1)) by (destruct p; reflexivity).
    rewrite Hg_eq. clear Hg_eq.
    apply andb_true_iff in Hok as [Hk65 Hg].
    set (k := if p then Z.of_N a0 + Z.of_N a1 else Z.of_N a1) in *.
    assert (Hjk : 0 <= Z.of_N a0 <= k).
    { subst k. destruct p; cbn [orb] in Hn; lia. }
    set (j := Z.of_N a0) in *.
    pose proof (gt_index_nonneg j k ltac:(lia) ltac:(lia)) as Hg0. set (g := gt_index j k) in *.
    replace (((4 + ph + 8 * g) / 2) mod 4) with 2 by (destruct Hph as [-> | ->]; lia).
    cbn [Z.eqb Pos.eqb].
    replace ((4 + ph + 8 * g) / 8) with g by (destruct Hph as [-> | ->]; lia).
    replace (4 + ph + 8 * g) with (ph + 2 * (2 + 4 * g)) by ring. subst ph. rewrite odd_ph_plus.
    subst g. rewrite (sqrt_gt_index j k Hjk).
    replace (gt_index j k - k * (k + 1) / 2) with j by (unfold gt_index; lia).
    replace ((j <=? 65535) && (k <=? 65535)) with true by lia.
    f_equal. subst j k. destruct p.
    + replace (Z.of_N a0 + Z.of_N a1 - Z.of_N a0) with (Z.of_N a1) by lia. rewrite !N2Z.id. reflexivity.
    + rewrite !N2Z.id. unfold mk_call. cbn [negb andb]. cbn [orb] in Hn.
      destruct (a1 <? a0)%N eqn:E; [lia|reflexivity].
Qed.

(** ** floats *)
Lemma f32_bits_range f : float_ok TFloat32 f = true -> 0 <= f32_bits f < two32.
Proof. unfold float_ok, f32_bits, two32. destruct f; intro H; lia. Qed.

Lemma f64_bits_range f : float_ok TFloat64 f = true -> 0 <= f64_bits f < two64.
Proof. unfold float_ok, f64_bits, two64. destruct f; intro H; lia. Qed.

Lemma f32_of_bits_bits f : float_ok TFloat32 f = true -> f32_of_bits (f32_bits f) = f.
Proof.
  unfold float_ok, f32_bits, f32_of_bits. destruct f as [b| | |]; intro H; try reflexivity.
  destruct ((b / two23) mod 256 =? 255) eqn:E; [lia|reflexivity].
Qed.

Lemma f64_of_bits_bits f : float_ok TFloat64 f = true -> f64_of_bits (f64_bits f) = f.
Proof.
  unfold float_ok, f64_bits, f64_of_bits. destruct f as [b| | |]; intro H; try reflexivity.
  destruct ((b / two52) mod 2048 =? 2047) eqn:E; [lia|reflexivity].
Qed.
