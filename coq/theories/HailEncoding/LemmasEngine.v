(** C33 — the bytes the Python front end writes are exactly what the (modelled) engine decoder of
    EType.fromPythonTypeEncoding(t) reads, and it reads the same data. *)
From HailV Require Import Common.Prelude HailValues.Model HailValues.Lemmas HailEncoding.Model
  HailEncoding.LemmasBytes HailEncoding.LemmasND HailEncoding.Lemmas HailEncoding.Engine.
Open Scope Z_scope.

(** ** named versions of the local fixpoints of Engine.v *)
Definition edec_fields (F : etype -> list Z -> eres)
  : list (name * etype) -> list bool -> list Z -> option (list (option evalue) * list Z) :=
  fix go fs bits bs :=
    match fs with
    | [] => Some ([], bs)
    | f :: fs' =>
        if required (snd f) then
          match F (snd f) bs with
          | Some (v, r1) => match go fs' bits r1 with Some (vs, r') => Some (Some v :: vs, r') | None => None end
          | None => None
          end
        else
          match bits with
          | [] => None
          | true :: bits' => match go fs' bits' bs with Some (vs, r') => Some (None :: vs, r') | None => None end
          | false :: bits' =>
              match F (snd f) bs with
              | Some (v, r1) => match go fs' bits' r1 with Some (vs, r') => Some (Some v :: vs, r') | None => None end
              | None => None
              end
          end
    end.

Definition etype_fields (F : ty -> etype) : list (name * ty) -> list (name * etype) :=
  fix go fs := match fs with [] => [] | f :: fs' => (fst f, F (snd f)) :: go fs' end.

Definition etype_elts (F : ty -> etype) : list ty -> list etype :=
  fix go ts := match ts with [] => [] | t' :: ts' => F t' :: go ts' end.

Definition erase_fields (F : ty -> value -> evalue) : list (name * ty) -> list value -> list (option evalue) :=
  fix go fs vs :=
    match fs, vs with
    | f :: fs', x :: vs' => opt_erase (F (snd f)) x :: go fs' vs'
    | _, _ => []
    end.

Definition erase_elts (F : ty -> value -> evalue) : list ty -> list value -> list (option evalue) :=
  fix go ts vs :=
    match ts, vs with
    | t' :: ts', x :: vs' => opt_erase (F t') x :: go ts' vs'
    | _, _ => []
    end.

Lemma edecode_struct fs req bs :
  edecode (EBaseStruct fs req) bs =
  match read_missing (count_optional fs) bs with
  | Some (bits, r) =>
      match edec_fields edecode fs bits r with Some (vs, r') => Some (EVStruct vs, r') | None => None end
  | None => None
  end.
Proof. reflexivity. Qed.
Lemma edecode_dict elt req bs :
  edecode (EDictAsUnsortedArrayOfPairs elt req) bs = edec_array (edecode elt) (required elt) bs.
Proof. reflexivity. Qed.
Lemma etype_of_struct fs : etype_of (TStruct fs) = EBaseStruct (etype_fields etype_of fs) false.
Proof. reflexivity. Qed.
Lemma etype_of_tuple ts :
  etype_of (TTuple ts) = EBaseStruct (combine (tuple_names_from 0%N (length ts)) (etype_elts etype_of ts)) false.
Proof. reflexivity. Qed.
Lemma erase_struct fs vs : erase (TStruct fs) (VStruct vs) = EVStruct (erase_fields erase fs vs).
Proof. reflexivity. Qed.
Lemma erase_tuple ts vs : erase (TTuple ts) (VTuple vs) = EVStruct (erase_elts erase ts vs).
Proof. reflexivity. Qed.

Lemma edec_fields_opt_true F f fs bits bs : required (snd f) = false ->
  edec_fields F (f :: fs) (true :: bits) bs =
  match edec_fields F fs bits bs with Some (vs, r') => Some (None :: vs, r') | None => None end.
Proof. intro H. cbn [edec_fields]. rewrite H. reflexivity. Qed.
Lemma edec_fields_opt_false F f fs bits bs : required (snd f) = false ->
  edec_fields F (f :: fs) (false :: bits) bs =
  match F (snd f) bs with
  | Some (v, r1) => match edec_fields F fs bits r1 with Some (vs, r') => Some (Some v :: vs, r') | None => None end
  | None => None
  end.
Proof. intro H. cbn [edec_fields]. rewrite H. reflexivity. Qed.

(** ** facts about the encoded types *)
Lemma required_etype_of t : required (etype_of t) = false.
Proof. destruct t; reflexivity. Qed.

Lemma edecode_set_required E r bs : edecode (set_required E r) bs = edecode E bs.
Proof. destruct E; reflexivity. Qed.

Definition EL (t : ty) : Prop :=
  forall v rest, wt_enc t v = true -> is_na v = false ->
                 edecode (etype_of t) (encode t v ++ rest) = Some (erase t v, rest).

Lemma edec_seq_rt t : EL t ->
  forall l rest, forallb (wt_enc t) l = true ->
  edec_seq (edecode (etype_of t)) (map is_na l) (flat_map (encode t) l ++ rest)
  = Some (map (opt_erase (erase t)) l, rest).
Proof.
  intros Ht l; induction l as [|x l IH]; intros rest Hl; [reflexivity|].
  cbn [forallb] in Hl. apply andb_true_iff in Hl as [Hx Hl].
  cbn [map flat_map edec_seq]. unfold opt_erase at 1. destruct (is_na x) eqn:E.
  - rewrite (is_na_true x E), encode_na. cbn [app]. rewrite (IH rest Hl). reflexivity.
  - rewrite <- app_assoc, (Ht x _ Hx E), (IH rest Hl). reflexivity.
Qed.

Lemma dec_rep_rt2 {A B} (f : list Z -> option (B * list Z)) (g : A -> list Z) (h : A -> B) (l : list A) :
  Forall (fun x => forall rest, f (g x ++ rest) = Some (h x, rest)) l ->
  forall rest, dec_rep f (length l) (flat_map g l ++ rest) = Some (map h l, rest).
Proof.
  induction 1 as [|x l Hx Hl IH]; intro rest; [reflexivity|].
  cbn [length flat_map dec_rep map]. rewrite <- app_assoc, Hx, IH. reflexivity.
Qed.

(** struct fields: every field of a Python-encoded struct is optional, one missing bit per field *)
Lemma count_optional_fields fs : count_optional (etype_fields etype_of fs) = length fs.
Proof.
  induction fs as [|f fs IH]; [reflexivity|]. cbn [etype_fields count_optional snd length].
  rewrite required_etype_of, IH. reflexivity.
Qed.

Lemma edec_fields_rt fs : Forall (fun f => EL (snd f)) fs ->
  forall vs rest, wt_fields wt_enc fs vs = true ->
  edec_fields edecode (etype_fields etype_of fs) (map is_na vs) (enc_fields encode fs vs ++ rest)
  = Some (erase_fields erase fs vs, rest).
Proof.
  induction 1 as [|f fs Hf Hfs IH]; intros vs rest Hwt.
  - destruct vs; [reflexivity|discriminate].
  - destruct vs as [|x vs]; [discriminate|]. cbn [wt_fields] in Hwt. apply andb_true_iff in Hwt as [Hx Hvs].
    rewrite enc_fields_cons. cbn [map etype_fields erase_fields]. unfold opt_erase at 1. destruct (is_na x) eqn:E.
    + rewrite (is_na_true x E), encode_na, edec_fields_opt_true by apply required_etype_of.
      cbn [app]. rewrite (IH vs rest Hvs). reflexivity.
    + rewrite edec_fields_opt_false by apply required_etype_of. cbn [snd].
      rewrite <- app_assoc, (Hf x _ Hx E), (IH vs rest Hvs). reflexivity.
Qed.

(** tuple fields *)
Lemma count_optional_elts names ts : length names = length ts ->
  count_optional (combine names (etype_elts etype_of ts)) = length ts.
Proof.
  revert names; induction ts as [|t ts IH]; intros [|n names] H; try discriminate; [reflexivity|].
  cbn [etype_elts combine count_optional snd length]. rewrite required_etype_of, IH by (cbn in H; lia). reflexivity.
Qed.

Lemma tuple_names_length i n : length (tuple_names_from i n) = n.
Proof. revert i; induction n as [|n IH]; intro i; cbn [tuple_names_from length]; [reflexivity|rewrite IH; reflexivity]. Qed.

Lemma edec_elts_rt ts : Forall EL ts ->
  forall names vs rest, length names = length ts -> wt_elts wt_enc ts vs = true ->
  edec_fields edecode (combine names (etype_elts etype_of ts)) (map is_na vs) (enc_elts encode ts vs ++ rest)
  = Some (erase_elts erase ts vs, rest).
Proof.
  induction 1 as [|t ts Ht Hts IH]; intros names vs rest Hn Hwt.
  - destruct vs; [|discriminate]. destruct names; reflexivity.
  - destruct vs as [|x vs]; [discriminate|]. destruct names as [|n names]; [discriminate|].
    cbn [wt_elts] in Hwt. apply andb_true_iff in Hwt as [Hx Hvs].
    rewrite enc_elts_cons. cbn [map etype_elts combine erase_elts]. unfold opt_erase at 1. destruct (is_na x) eqn:E.
    + rewrite (is_na_true x E), encode_na, edec_fields_opt_true by apply required_etype_of.
      cbn [app]. rewrite (IH names vs rest) by (cbn in Hn; lia || exact Hvs). reflexivity.
    + rewrite edec_fields_opt_false by apply required_etype_of. cbn [snd].
      rewrite <- app_assoc, (Ht x _ Hx E), (IH names vs rest) by (cbn in Hn; lia || exact Hvs). reflexivity.
Qed.

Lemma ebool_rt req b r : edecode (EBoolean req) (b2z b :: r) = Some (EVBool b, r).
Proof. cbn [edecode]. change (b2z b :: r) with ([b2z b] ++ r). rewrite dec_bool_rt. reflexivity. Qed.

Lemma ebinary_rt req s r : str_ok s = true -> edecode (EBinary req) (enc_str s ++ r) = Some (EVBinary (utf8 s), r).
Proof.
  unfold str_ok. intro H. apply andb_true_iff in H as [_ Hlen].
  assert (Hl : len_ok (length (utf8 s)) = true) by exact Hlen.
  cbn [edecode]. unfold enc_str. rewrite <- app_assoc, (read_len _ _ Hl). cbn zeta. rewrite (s32_len _ Hl).
  destruct (Z.of_nat (length (utf8 s)) <? 0) eqn:E; [lia|]. rewrite Nat2Z.id, take_app. reflexivity.
Qed.

Lemma earray_rt t : EL t -> forall l rest,
  len_ok (length l) = true -> forallb (wt_enc t) l = true ->
  edec_array (edecode (etype_of t)) (required (etype_of t))
    (le_bytes 4 (Z.of_nat (length l)) ++ pack_bits (map is_na l) ++ flat_map (encode t) l ++ rest)
  = Some (EVArray (map (opt_erase (erase t)) l), rest).
Proof.
  intros Ht l rest Hlen Hl.
  unfold edec_array. rewrite (read_len _ _ Hlen). cbn zeta. rewrite (s32_len _ Hlen).
  destruct (Z.of_nat (length l) <? 0) eqn:E; [lia|]. rewrite Nat2Z.id, required_etype_of.
  rewrite (read_missing_pack_n (length l) (map is_na l)) by apply map_length.
  rewrite (edec_seq_rt t Ht l rest Hl). reflexivity.
Qed.

(** ** the layout theorem, by nested induction over the type *)
Theorem engine_reads_python_encoding : forall t, EL t.
Proof.
  induction t using ty_nested_ind; intros v rest Hwt Hna.
  - (* int32 *)
    destruct v; try discriminate. cbn [encode etype_of edecode erase]. change (int_ok TInt32 z = true) in Hwt.
    unfold int_ok in Hwt. rewrite read_u4 by apply mod32_range. rewrite s32_mod by lia. reflexivity.
  - (* int64 *)
    destruct v; try discriminate. cbn [encode etype_of edecode erase]. change (int_ok TInt64 z = true) in Hwt.
    unfold int_ok in Hwt. rewrite read_u8 by apply mod64_range. rewrite s64_mod by lia. reflexivity.
  - (* float32 *)
    destruct v; try discriminate. cbn [encode etype_of edecode erase]. change (float_ok TFloat32 f = true) in Hwt.
    rewrite read_u4 by (apply f32_bits_range; exact Hwt). reflexivity.
  - (* float64 *)
    destruct v; try discriminate. cbn [encode etype_of edecode erase]. change (float_ok TFloat64 f = true) in Hwt.
    rewrite read_u8 by (apply f64_bits_range; exact Hwt). reflexivity.
  - (* bool *)
    destruct v; try discriminate. cbn [encode etype_of erase]. apply ebool_rt.
  - (* str *)
    destruct v; try discriminate. cbn [encode etype_of erase]. apply ebinary_rt. exact Hwt.
  - (* call *)
    destruct v; try discriminate. cbn [encode etype_of edecode erase].
    change (call_normal phased alleles && call_ok phased alleles = true) in Hwt.
    apply andb_true_iff in Hwt as [Hn Hok].
    rewrite read_u4 by (apply call_rep_range; exact Hok). reflexivity.
  - (* locus *)
    destruct v; try discriminate. cbn [encode erase].
    change (str_ok contig && int_ok TInt32 pos = true) in Hwt. apply andb_true_iff in Hwt as [Hc Hp].
    unfold int_ok in Hp. cbn [etype_of]. rewrite edecode_struct. cbn [count_optional snd required Nat.add].
    rewrite <- app_assoc. rewrite (read_missing_pack_n 2 [false; false]) by reflexivity.
    rewrite edec_fields_opt_false by reflexivity. cbn [snd].
    rewrite <- app_assoc, ebinary_rt by exact Hc.
    rewrite edec_fields_opt_false by reflexivity. cbn [snd edecode].
    rewrite read_u4 by apply mod32_range. rewrite s32_mod by lia. reflexivity.
  - (* interval *)
    destruct v as [| | | | | | |s e i_s i_e| | | | | |]; try discriminate.
    change (wt_enc t s && wt_enc t e = true) in Hwt. apply andb_true_iff in Hwt as [Hs He].
    cbn [encode erase etype_of]. rewrite edecode_struct. cbn [count_optional snd required].
    rewrite !required_etype_of. cbn [Nat.add]. repeat rewrite <- app_assoc.
    rewrite (read_missing_pack_n 4 [is_na s; is_na e; false; false]) by reflexivity.
    unfold opt_erase.
    destruct (is_na s) eqn:Es; destruct (is_na e) eqn:Ee;
      try rewrite (is_na_true s Es); try rewrite (is_na_true e Ee); rewrite ?encode_na; cbn [app].
    + rewrite edec_fields_opt_true by apply required_etype_of. rewrite edec_fields_opt_true by apply required_etype_of.
      rewrite edec_fields_opt_false by reflexivity. cbn [snd]. rewrite ebool_rt.
      rewrite edec_fields_opt_false by reflexivity. cbn [snd]. rewrite ebool_rt. reflexivity.
    + rewrite edec_fields_opt_true by apply required_etype_of. rewrite edec_fields_opt_false by apply required_etype_of.
      cbn [snd]. rewrite (IHt e _ He Ee).
      rewrite edec_fields_opt_false by reflexivity. cbn [snd]. rewrite ebool_rt.
      rewrite edec_fields_opt_false by reflexivity. cbn [snd]. rewrite ebool_rt. reflexivity.
    + rewrite edec_fields_opt_false by apply required_etype_of. cbn [snd]. rewrite (IHt s _ Hs Es).
      rewrite edec_fields_opt_true by apply required_etype_of.
      rewrite edec_fields_opt_false by reflexivity. cbn [snd]. rewrite ebool_rt.
      rewrite edec_fields_opt_false by reflexivity. cbn [snd]. rewrite ebool_rt. reflexivity.
    + rewrite edec_fields_opt_false by apply required_etype_of. cbn [snd]. rewrite (IHt s _ Hs Es).
      rewrite edec_fields_opt_false by apply required_etype_of. cbn [snd]. rewrite (IHt e _ He Ee).
      rewrite edec_fields_opt_false by reflexivity. cbn [snd]. rewrite ebool_rt.
      rewrite edec_fields_opt_false by reflexivity. cbn [snd]. rewrite ebool_rt. reflexivity.
  - (* array *)
    destruct v as [| | | | | | | |l| | | | |]; try discriminate.
    change (len_ok (length l) && forallb (wt_enc t) l = true) in Hwt. apply andb_true_iff in Hwt as [Hlen Hl].
    cbn [encode etype_of edecode erase]. repeat rewrite <- app_assoc.
    exact (earray_rt t IHt l rest Hlen Hl).
  - (* set *)
    destruct v as [| | | | | | | | |l| | | |]; try discriminate.
    change (len_ok (length l) && forallb (wt_enc t) l = true) in Hwt. apply andb_true_iff in Hwt as [Hlen Hl].
    cbn [encode etype_of edecode erase]. repeat rewrite <- app_assoc.
    exact (earray_rt t IHt l rest Hlen Hl).
  - (* dict *)
    destruct v as [| | | | | | | | | |l| | |]; try discriminate.
    change (len_ok (length l) && forallb (fun kv => wt_enc t1 (fst kv) && wt_enc t2 (snd kv)) l = true) in Hwt.
    apply andb_true_iff in Hwt as [Hlen Hl].
    cbn [encode etype_of set_required erase]. rewrite edecode_dict. cbn [required]. unfold edec_array.
    repeat rewrite <- app_assoc.
    rewrite (read_len _ _ Hlen). cbn zeta. rewrite (s32_len _ Hlen).
    destruct (Z.of_nat (length l) <? 0) eqn:E; [lia|]. rewrite Nat2Z.id.
    rewrite (dec_rep_rt2 _
               (fun kv => pack_bits [is_na (fst kv); is_na (snd kv)] ++ encode t1 (fst kv) ++ encode t2 (snd kv))
               (fun kv => EVStruct [opt_erase (erase t1) (fst kv); opt_erase (erase t2) (snd kv)])).
    { rewrite map_map. reflexivity. }
    rewrite forallb_forall in Hl. apply Forall_forall. intros [a b] Hin r. specialize (Hl _ Hin). cbn [fst snd] in *.
    apply andb_true_iff in Hl as [Ha Hb].
    rewrite edecode_struct. cbn [count_optional snd]. rewrite !required_etype_of. cbn [Nat.add].
    repeat rewrite <- app_assoc. rewrite (read_missing_pack_n 2 [is_na a; is_na b]) by reflexivity.
    unfold opt_erase.
    destruct (is_na a) eqn:Ea; destruct (is_na b) eqn:Eb;
      try rewrite (is_na_true a Ea); try rewrite (is_na_true b Eb); rewrite ?encode_na; cbn [app].
    + rewrite edec_fields_opt_true by apply required_etype_of. rewrite edec_fields_opt_true by apply required_etype_of.
      reflexivity.
    + rewrite edec_fields_opt_true by apply required_etype_of. rewrite edec_fields_opt_false by apply required_etype_of.
      cbn [snd]. rewrite (IHt2 b _ Hb Eb). reflexivity.
    + rewrite edec_fields_opt_false by apply required_etype_of. cbn [snd]. rewrite (IHt1 a _ Ha Ea).
      rewrite edec_fields_opt_true by apply required_etype_of. reflexivity.
    + rewrite edec_fields_opt_false by apply required_etype_of. cbn [snd]. rewrite (IHt1 a _ Ha Ea).
      rewrite edec_fields_opt_false by apply required_etype_of. cbn [snd]. rewrite (IHt2 b _ Hb Eb). reflexivity.
  - (* struct *)
    destruct v as [| | | | | | | | | | |vs| |]; try discriminate.
    rewrite wt_enc_struct in Hwt. rewrite encode_struct, etype_of_struct, erase_struct, edecode_struct, <- app_assoc.
    rewrite count_optional_fields.
    rewrite (read_missing_pack_n (length fs) (map is_na vs))
      by (rewrite map_length; apply (wt_fields_length wt_enc); exact Hwt).
    rewrite (edec_fields_rt fs H vs rest Hwt). reflexivity.
  - (* tuple *)
    destruct v as [| | | | | | | | | | | |vs|]; try discriminate.
    rewrite wt_enc_tuple in Hwt. rewrite encode_tuple, etype_of_tuple, erase_tuple, edecode_struct, <- app_assoc.
    rewrite count_optional_elts by apply tuple_names_length.
    rewrite (read_missing_pack_n (length ts) (map is_na vs))
      by (rewrite map_length; apply (wt_elts_length wt_enc); exact Hwt).
    rewrite (edec_elts_rt ts H _ vs rest (tuple_names_length _ _) Hwt). reflexivity.
  - (* ndarray *)
    destruct v as [| | | | | | | | | | | | |shape data]; try discriminate.
    change (Nat.eqb (length shape) n && forallb (fun d => (0 <=? d) && dim_ok d) shape
            && Z.eqb (Z.of_nat (length data)) (zprod shape)
            && forallb (fun x => negb (is_na x) && wt_enc t x) data = true) in Hwt.
    apply andb_true_iff in Hwt as [Hwt Hdata]. apply andb_true_iff in Hwt as [Hwt Hlen].
    apply andb_true_iff in Hwt as [Hnd Hdims]. apply Nat.eqb_eq in Hnd. apply Z.eqb_eq in Hlen.
    assert (Hpos : forallb (fun d => 0 <=? d) shape = true).
    { rewrite forallb_forall in *. intros d Hd. specialize (Hdims d Hd). lia. }
    cbn [encode etype_of edecode erase]. rewrite <- app_assoc. subst n.
    rewrite (dec_rep_rt dec_i64 (le_bytes 8)).
    2:{ apply Forall_forall. intros d Hd r. rewrite forallb_forall in Hdims. specialize (Hdims d Hd).
        unfold dim_ok in Hdims. apply dec_i64_rt. lia. }
    rewrite Hpos.
    assert (Hl : length data = nprod (map Z.to_nat shape)).
    { rewrite (zprod_nprod shape Hpos) in Hlen. lia. }
    set (cm := to_colmajor (map Z.to_nat shape) data).
    assert (Hcml : length cm = length data) by (apply to_colmajor_length; exact Hl).
    replace (Z.to_nat (zprod shape)) with (length cm) by (rewrite Hcml; lia).
    rewrite (dec_rep_rt2 _ (encode t) (erase t)); [reflexivity|].
    subst cm. apply Forall_to_colmajor; [exact Hl|].
    rewrite forallb_forall in Hdata. apply Forall_forall. intros x Hx r. specialize (Hdata x Hx).
    apply andb_true_iff in Hdata as [Hx1 Hx2]. rewrite edecode_set_required. apply IHt; [exact Hx2|].
    destruct (is_na x); [discriminate|reflexivity].
Qed.
