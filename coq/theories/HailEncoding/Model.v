(** C33 — model of the binary value encoding of the Python front end:
    HailType._to_encoding / _from_encoding = _convert_to_encoding / _convert_from_encoding over
    hail/python/hail/utils/byte_reader.py (ByteWriter / ByteReader), in hail/python/hail/expr/types.py.
    Executable definitions only.  Bytes are integers 0..255 ([Z]); a buffer is a [list Z].

    The model follows the code as it executes today:
    - tndarray: the test [self.element_type in _numeric_types] compares a type INSTANCE with a set of CLASSES and is
      always false, so the element-wise branch runs: [np.nditer(value, order='F')] on the way out and
      [np.ndarray(..., order="F")] on the way in, i.e. column-major for every memory order of the numpy array;
    - struct.pack('=i'/'=q'/'=f'/'=d') is native order, modelled as little-endian (x86-64 / aarch64);
    - the float square root of allele_pair_sqrt is modelled by the exact integer square root. *)
From HailV Require Import Common.Prelude HailValues.Model.
Open Scope Z_scope.

Definition two8 := 256.
Definition two23 := 8388608.
Definition two29 := 536870912.
Definition two31 := 2147483648.
Definition two32 := 4294967296.
Definition two52 := 4503599627370496.
Definition two63 := 9223372036854775808.
Definition two64 := 18446744073709551616.

(** ** fixed-width little-endian integers *)
Fixpoint le_bytes (n : nat) (x : Z) : list Z :=
  match n with O => [] | S n' => x mod 256 :: le_bytes n' (x / 256) end.

Fixpoint le_val (bs : list Z) : Z :=
  match bs with [] => 0 | b :: r => b + 256 * le_val r end.

Definition take (n : nat) (bs : list Z) : option (list Z * list Z) :=
  if (length bs <? n)%nat then None else Some (firstn n bs, skipn n bs).

Definition read_u (n : nat) (bs : list Z) : option (Z * list Z) :=
  match take n bs with Some (a, r) => Some (le_val a, r) | None => None end.

Definition s32 (u : Z) : Z := if u <? two31 then u else u - two32.
Definition s64 (u : Z) : Z := if u <? two63 then u else u - two64.

(** ** UTF-8 ([str.encode('utf-8')] / [bytes.decode('utf-8')] on well-formed input) *)
Definition utf8_char (c : Z) : list Z :=
  if c <? 128 then [c]
  else if c <? 2048 then [192 + c / 64; 128 + c mod 64]
  else if c <? 65536 then [224 + c / 4096; 128 + (c / 64) mod 64; 128 + c mod 64]
  else [240 + c / 262144; 128 + (c / 4096) mod 64; 128 + (c / 64) mod 64; 128 + c mod 64].

Definition utf8 (s : name) : list Z := flat_map (fun c => utf8_char (Z.of_N c)) s.

Fixpoint utf8_dec (bs : list Z) : option name :=
  match bs with
  | [] => Some []
  | b0 :: r =>
    if b0 <? 128 then option_map (cons (Z.to_N b0)) (utf8_dec r)
    else if b0 <? 224 then
      match r with
      | b1 :: r1 => option_map (cons (Z.to_N ((b0 - 192) * 64 + (b1 - 128)))) (utf8_dec r1)
      | _ => None
      end
    else if b0 <? 240 then
      match r with
      | b1 :: b2 :: r2 => option_map (cons (Z.to_N ((b0 - 224) * 4096 + (b1 - 128) * 64 + (b2 - 128)))) (utf8_dec r2)
      | _ => None
      end
    else
      match r with
      | b1 :: b2 :: b3 :: r3 =>
        option_map (cons (Z.to_N ((b0 - 240) * 262144 + (b1 - 128) * 4096 + (b2 - 128) * 64 + (b3 - 128)))) (utf8_dec r3)
      | _ => None
      end
  end.

(** Unicode scalar values: what str.encode('utf-8') accepts *)
Definition scalar_ok (c : N) : bool :=
  let z := Z.of_N c in (z <? 1114112) && negb ((55296 <=? z) && (z <=? 57343)).

(** ** floats: bit patterns *)
Definition f32_bits (f : fl) : Z :=
  match f with FFin b => b | FNaN => 2143289344 | FPInf => 2139095040 | FNInf => 4286578688 end.
Definition f64_bits (f : fl) : Z :=
  match f with
  | FFin b => b | FNaN => 9221120237041090560 | FPInf => 9218868437227405312 | FNInf => 18442240474082181120
  end.

Definition f32_of_bits (b : Z) : fl :=
  if (b / two23) mod 256 =? 255 then
    (if b mod two23 =? 0 then (if b <? two31 then FPInf else FNInf) else FNaN)
  else FFin b.
Definition f64_of_bits (b : Z) : fl :=
  if (b / two52) mod 2048 =? 2047 then
    (if b mod two52 =? 0 then (if b <? two63 then FPInf else FNInf) else FNaN)
  else FFin b.

(** ** calls (bit-packed, as the engine's Call.scala) *)
Definition gt_index (j k : Z) : Z := k * (k + 1) / 2 + j.

Definition call_rep (phased : bool) (alleles : list N) : Z :=
  let ph := if phased then 1 else 0 in
  match alleles with
  | [] => ph
  | [a] => 2 + ph + 8 * Z.of_N a
  | [a0; a1] =>
      4 + ph + 8 * (if phased then gt_index (Z.of_N a0) (Z.of_N a0 + Z.of_N a1) else gt_index (Z.of_N a0) (Z.of_N a1))
  | _ => 0
  end.

Definition call_of_rep (u : Z) : option value :=
  let ploidy := (u / 2) mod 4 in
  let phased := Z.odd u in
  let rep := u / 8 in
  if ploidy =? 0 then Some (mk_call phased [])
  else if ploidy =? 1 then Some (mk_call phased [Z.to_N rep])
  else if ploidy =? 2 then
    let k := (Z.sqrt (8 * rep + 1) - 1) / 2 in
    let j := rep - k * (k + 1) / 2 in
    if (j <=? 65535) && (k <=? 65535) then          (* asserts of allele_pair *)
      Some (mk_call phased (if phased then [Z.to_N j; Z.to_N (k - j)] else [Z.to_N j; Z.to_N k]))
    else None
  else None.                                         (* ValueError("Unsupported Ploidy") *)

(** ** missing bits: one bit per element/field, least significant bit first, padded to whole bytes *)
Definition b2z (b : bool) : Z := if b then 1 else 0.

Fixpoint byte_of_bits (bits : list bool) : Z :=
  match bits with [] => 0 | b :: r => b2z b + 2 * byte_of_bits r end.

Fixpoint bits_of_byte (n : nat) (z : Z) : list bool :=
  match n with O => [] | S n' => Z.odd z :: bits_of_byte n' (z / 2) end.

Fixpoint pack_bits (bits : list bool) : list Z :=
  match bits with
  | [] => []
  | b0 :: b1 :: b2 :: b3 :: b4 :: b5 :: b6 :: b7 :: r => byte_of_bits [b0; b1; b2; b3; b4; b5; b6; b7] :: pack_bits r
  | short => [byte_of_bits short]
  end.

Fixpoint unpack_bits (n : nat) (bytes : list Z) : option (list bool) :=
  match n with
  | O => Some []
  | S (S (S (S (S (S (S (S n'))))))) =>
      match bytes with
      | b :: r => option_map (app (bits_of_byte 8 b)) (unpack_bits n' r)
      | [] => None
      end
  | k => match bytes with b :: _ => Some (bits_of_byte k b) | [] => None end
  end.

(** ceil(n / 8) *)
Fixpoint n_missing_bytes (n : nat) : nat :=
  match n with
  | O => O
  | S (S (S (S (S (S (S (S n'))))))) => S (n_missing_bytes n')
  | _ => 1%nat
  end.

Definition read_missing (n : nat) (bs : list Z) : option (list bool * list Z) :=
  match take (n_missing_bytes n) bs with
  | Some (mb, r) => match unpack_bits n mb with Some bits => Some (bits, r) | None => None end
  | None => None
  end.

(** ** n-d arrays: logical row-major element sequence <-> column-major element sequence *)
Fixpoint transpose {A} (d : A) (ncols : nat) (rows : list (list A)) : list (list A) :=
  match ncols with
  | O => []
  | S c => map (hd d) rows :: transpose d c (map (@tl A) rows)
  end.

Fixpoint chunks {A} (nchunks size : nat) (l : list A) : list (list A) :=
  match nchunks with
  | O => []
  | S k => firstn size l :: chunks k size (skipn size l)
  end.

Definition nprod (l : list nat) : nat := fold_right Nat.mul 1%nat l.

Fixpoint to_colmajor (shape : list nat) (data : list value) : list value :=
  match shape with
  | [] => data
  | d0 :: rest =>
      let p := nprod rest in
      concat (transpose VNA p (map (to_colmajor rest) (chunks d0 p data)))
  end.

Fixpoint from_colmajor (shape : list nat) (l : list value) : list value :=
  match shape with
  | [] => l
  | d0 :: rest =>
      let p := nprod rest in
      concat (map (from_colmajor rest) (transpose VNA d0 (chunks p d0 l)))
  end.

(** ** encoder: [_convert_to_encoding]; a missing value contributes no bytes (its bit is set in the enclosing container) *)
Definition enc_str (s : name) : list Z := let bs := utf8 s in le_bytes 4 (Z.of_nat (length bs)) ++ bs.

Fixpoint encode (t : ty) (v : value) {struct t} : list Z :=
  match v with
  | VNA => []
  | _ =>
    match t, v with
    | TInt32, VInt z => le_bytes 4 (z mod two32)
    | TInt64, VInt z => le_bytes 8 (z mod two64)
    | TFloat32, VFloat f => le_bytes 4 (f32_bits f)
    | TFloat64, VFloat f => le_bytes 8 (f64_bits f)
    | TBool, VBool b => [b2z b]
    | TStr, VStr s => enc_str s
    | TCall, VCall p al => le_bytes 4 (call_rep p al)
    | TLocus _, VLocus c pos =>                       (* tlocus.struct_repr = struct{contig: str, pos: int32} *)
        pack_bits [false; false] ++ enc_str c ++ le_bytes 4 (pos mod two32)
    | TInterval p, VInterval s e i_s i_e =>           (* struct{start, end, includes_start, includes_end} *)
        pack_bits [is_na s; is_na e; false; false] ++ encode p s ++ encode p e ++ [b2z i_s] ++ [b2z i_e]
    | TArray e, VArray l | TSet e, VSet l =>
        le_bytes 4 (Z.of_nat (length l)) ++ pack_bits (map is_na l) ++ flat_map (encode e) l
    | TDict k w, VDict l =>                            (* length, then one struct{key, value} per item: no array-level missing bits *)
        le_bytes 4 (Z.of_nat (length l))
        ++ flat_map (fun kv => pack_bits [is_na (fst kv); is_na (snd kv)] ++ encode k (fst kv) ++ encode w (snd kv)) l
    | TStruct fs, VStruct vs =>
        pack_bits (map is_na vs)
        ++ (fix go (fs : list (name * ty)) (vs : list value) : list Z :=
              match fs, vs with
              | f :: fs', x :: vs' => encode (snd f) x ++ go fs' vs'
              | _, _ => []
              end) fs vs
    | TTuple ts, VTuple vs =>
        pack_bits (map is_na vs)
        ++ (fix go (ts : list ty) (vs : list value) : list Z :=
              match ts, vs with
              | t' :: ts', x :: vs' => encode t' x ++ go ts' vs'
              | _, _ => []
              end) ts vs
    | TNDArray e _, VNDArray shape data =>
        flat_map (le_bytes 8) shape ++ flat_map (encode e) (to_colmajor (map Z.to_nat shape) data)
    | _, _ => []
    end
  end.

(** ** decoder: [_convert_from_encoding] *)
Definition dres : Type := option (value * list Z).

(** decode the present elements of a container given its missing bits *)
Fixpoint dec_seq (f : list Z -> dres) (missing : list bool) (bs : list Z) : option (list value * list Z) :=
  match missing with
  | [] => Some ([], bs)
  | true :: m' =>
      match dec_seq f m' bs with Some (vs, r) => Some (VNA :: vs, r) | None => None end
  | false :: m' =>
      match f bs with
      | Some (v, r) => match dec_seq f m' r with Some (vs, r') => Some (v :: vs, r') | None => None end
      | None => None
      end
  end.

Fixpoint dec_rep {A} (f : list Z -> option (A * list Z)) (n : nat) (bs : list Z) : option (list A * list Z) :=
  match n with
  | O => Some ([], bs)
  | S n' =>
      match f bs with
      | Some (x, r) => match dec_rep f n' r with Some (xs, r') => Some (x :: xs, r') | None => None end
      | None => None
      end
  end.

Definition dec_str (bs : list Z) : option (name * list Z) :=
  match read_u 4 bs with
  | Some (u, r) =>
      let len := s32 u in
      if len <? 0 then None else
      match take (Z.to_nat len) r with
      | Some (sb, r') => match utf8_dec sb with Some s => Some (s, r') | None => None end
      | None => None
      end
  | None => None
  end.

Definition dec_bool (bs : list Z) : option (bool * list Z) :=
  match bs with b :: r => Some (negb (b =? 0), r) | [] => None end.

Definition dec_i64 (bs : list Z) : option (Z * list Z) :=
  match read_u 8 bs with Some (u, r) => Some (s64 u, r) | None => None end.

Fixpoint decode (t : ty) (bs : list Z) {struct t} : dres :=
  match t with
  | TInt32 => match read_u 4 bs with Some (u, r) => Some (VInt (s32 u), r) | None => None end
  | TInt64 => match read_u 8 bs with Some (u, r) => Some (VInt (s64 u), r) | None => None end
  | TFloat32 => match read_u 4 bs with Some (u, r) => Some (VFloat (f32_of_bits u), r) | None => None end
  | TFloat64 => match read_u 8 bs with Some (u, r) => Some (VFloat (f64_of_bits u), r) | None => None end
  | TBool => match dec_bool bs with Some (b, r) => Some (VBool b, r) | None => None end
  | TStr => match dec_str bs with Some (s, r) => Some (VStr s, r) | None => None end
  | TCall =>
      match read_u 4 bs with
      | Some (u, r) => match call_of_rep u with Some c => Some (c, r) | None => None end
      | None => None
      end
  | TLocus _ =>
      match read_missing 2 bs with
      | Some ([false; false], r) =>                   (* Locus(...) asserts a str contig and an int position *)
          match dec_str r with
          | Some (c, r1) =>
              match read_u 4 r1 with Some (u, r2) => Some (VLocus c (s32 u), r2) | None => None end
          | None => None
          end
      | _ => None
      end
  | TInterval p =>
      match read_missing 4 bs with
      | Some ([ms; me; false; false], r) =>           (* Interval(...) type-checks both flags as bool *)
          match dec_seq (decode p) [ms; me] r with
          | Some ([s; e], r1) =>
              match dec_bool r1 with
              | Some (i_s, r2) =>
                  match dec_bool r2 with Some (i_e, r3) => Some (VInterval s e i_s i_e, r3) | None => None end
              | None => None
              end
          | _ => None
          end
      | _ => None
      end
  | TArray e =>
      match read_u 4 bs with
      | Some (u, r) =>
          let len := s32 u in
          if len <? 0 then None else
          match read_missing (Z.to_nat len) r with
          | Some (bits, r1) =>
              match dec_seq (decode e) bits r1 with Some (vs, r2) => Some (VArray vs, r2) | None => None end
          | None => None
          end
      | None => None
      end
  | TSet e =>
      match read_u 4 bs with
      | Some (u, r) =>
          let len := s32 u in
          if len <? 0 then None else
          match read_missing (Z.to_nat len) r with
          | Some (bits, r1) =>
              match dec_seq (decode e) bits r1 with Some (vs, r2) => Some (VSet vs, r2) | None => None end
          | None => None
          end
      | None => None
      end
  | TDict k w =>
      match read_u 4 bs with
      | Some (u, r) =>
          let len := s32 u in
          if len <? 0 then None else
          match dec_rep (fun b =>
                           match read_missing 2 b with
                           | Some (bits, r1) =>
                               match dec_seq (decode k) (firstn 1 bits) r1 with
                               | Some ([a], r2) =>
                                   match dec_seq (decode w) (skipn 1 bits) r2 with
                                   | Some ([c], r3) => Some ((a, c), r3)
                                   | _ => None
                                   end
                               | _ => None
                               end
                           | None => None
                           end) (Z.to_nat len) r with
          | Some (kvs, r') => Some (VDict kvs, r')
          | None => None
          end
      | None => None
      end
  | TStruct fs =>
      match read_missing (length fs) bs with
      | Some (bits, r) =>
          match (fix go (fs : list (name * ty)) (bits : list bool) (bs : list Z) : option (list value * list Z) :=
                   match fs, bits with
                   | [], _ => Some ([], bs)
                   | _ :: _, [] => None
                   | _ :: fs', true :: bits' =>
                       match go fs' bits' bs with Some (vs, r') => Some (VNA :: vs, r') | None => None end
                   | f :: fs', false :: bits' =>
                       match decode (snd f) bs with
                       | Some (v, r1) =>
                           match go fs' bits' r1 with Some (vs, r') => Some (v :: vs, r') | None => None end
                       | None => None
                       end
                   end) fs bits r with
          | Some (vs, r') => Some (VStruct vs, r')
          | None => None
          end
      | None => None
      end
  | TTuple ts =>
      match read_missing (length ts) bs with
      | Some (bits, r) =>
          match (fix go (ts : list ty) (bits : list bool) (bs : list Z) : option (list value * list Z) :=
                   match ts, bits with
                   | [], _ => Some ([], bs)
                   | _ :: _, [] => None
                   | _ :: ts', true :: bits' =>
                       match go ts' bits' bs with Some (vs, r') => Some (VNA :: vs, r') | None => None end
                   | t' :: ts', false :: bits' =>
                       match decode t' bs with
                       | Some (v, r1) =>
                           match go ts' bits' r1 with Some (vs, r') => Some (v :: vs, r') | None => None end
                       | None => None
                       end
                   end) ts bits r with
          | Some (vs, r') => Some (VTuple vs, r')
          | None => None
          end
      | None => None
      end
  | TNDArray e nd =>
      match dec_rep dec_i64 nd bs with
      | Some (shape, r) =>
          if forallb (fun d => 0 <=? d) shape then
            match dec_rep (decode e) (Z.to_nat (zprod shape)) r with
            | Some (elems, r') => Some (VNDArray shape (from_colmajor (map Z.to_nat shape) elems), r')
            | None => None
            end
          else None
      | None => None
      end
  end.

(** [_to_encoding] / [_from_encoding] of a non-missing top-level value *)
Definition to_encoding (t : ty) (v : value) : list Z := encode t v.
Definition from_encoding (t : ty) (bs : list Z) : option value :=
  match decode t bs with Some (v, _) => Some v | None => None end.

(** ** the domain: values the encoding can carry *)
Definition int_ok (t : ty) (z : Z) : bool :=
  match t with
  | TInt64 => (- two63 <=? z) && (z <? two63)
  | _ => (- two31 <=? z) && (z <? two31)
  end.

Definition float_ok (t : ty) (f : fl) : bool :=
  match f with
  | FFin b =>
      match t with
      | TFloat32 => (0 <=? b) && (b <? two32) && negb ((b / two23) mod 256 =? 255)
      | _ => (0 <=? b) && (b <? two64) && negb ((b / two52) mod 2048 =? 2047)
      end
  | _ => true
  end.

Definition str_ok (s : name) : bool := forallb scalar_ok s && (Z.of_nat (length (utf8 s)) <? two31).

Definition call_ok (phased : bool) (alleles : list N) : bool :=
  match alleles with
  | [] => true
  | [a] => Z.of_N a <? two29
  | [a0; a1] =>
      let j := Z.of_N a0 in
      let k := if phased then Z.of_N a0 + Z.of_N a1 else Z.of_N a1 in
      (k <=? 65535) && (gt_index j k <? two29)
  | _ => false
  end.

(** container lengths fit the 32-bit length prefix, array dimensions the 64-bit one *)
Definition len_ok (n : nat) : bool := Z.of_nat n <? two31.
Definition dim_ok (d : Z) : bool := d <? two63.

Definition wt_enc : ty -> value -> bool := wt int_ok float_ok str_ok call_ok len_ok dim_ok.
