(** C29 — post-login redirect validation (auth/auth/auth.py::validate_next_page_url).  Executable definitions only.

    Strings are lists of code points ([list N]).
    [py_netloc] models CPython 3.12 urllib.parse.urlsplit(...).netloc (tied to the running interpreter by the
    correspondence); [browser] is a transcription of the WHATWG URL basic parser (https://url.spec.whatwg.org/) restricted
    to what determines the host of the parsed URL, for the base URL https://auth.<domain>/oauth2callback (special scheme,
    has a host).  The browser side cannot be validated against a browser here: it is modelled, not verified. *)
From HailV Require Import Common.Prelude.
Open Scope N_scope.

Definition str := list N.

(** ---------------------------------------------------------------- code point classes *)
Definition is_c0_or_space (c : N) : bool := c <=? 32.
Definition is_tab_nl (c : N) : bool := (c =? 9) || (c =? 10) || (c =? 13).
Definition is_upper (c : N) : bool := (65 <=? c) && (c <=? 90).
Definition is_lower (c : N) : bool := (97 <=? c) && (c <=? 122).
Definition is_alpha (c : N) : bool := is_upper c || is_lower c.
Definition is_digit (c : N) : bool := (48 <=? c) && (c <=? 57).
Definition is_scheme_char (c : N) : bool := is_alpha c || is_digit c || (c =? 43) || (c =? 45) || (c =? 46).   (* + - . *)
Definition to_lower (c : N) : N := if is_upper c then c + 32 else c.

Definition SLASH : N := 47.   Definition BACKSLASH : N := 92.   Definition QUESTION : N := 63.   Definition HASH : N := 35.
Definition COLON : N := 58.   Definition AT : N := 64.           Definition LBRACKET : N := 91.   Definition RBRACKET : N := 93.
Definition PERCENT : N := 37. Definition DOT : N := 46.          Definition PIPE : N := 124.

Fixpoint str_eqb (a b : str) : bool :=
  match a, b with
  | [], [] => true
  | x :: a', y :: b' => (x =? y) && str_eqb a' b'
  | _, _ => false
  end.

Fixpoint drop_while (p : N -> bool) (l : str) : str :=
  match l with [] => [] | c :: r => if p c then drop_while p r else l end.

Fixpoint take_while (p : N -> bool) (l : str) : str :=
  match l with [] => [] | c :: r => if p c then c :: take_while p r else [] end.

(** ---------------------------------------------------------------- CPython 3.12 urlsplit: netloc *)

(** url.lstrip(C0 control or space), then every tab / LF / CR removed *)
Definition py_clean (s : str) : str := filter (fun c => negb (is_tab_nl c)) (drop_while is_c0_or_space s).

(** `i = url.find(':')`: the text before the first colon and the text after it *)
Fixpoint split_colon (l : str) : option (str * str) :=
  match l with
  | [] => None
  | c :: r => if c =? COLON then Some ([], r)
              else match split_colon r with Some (p, q) => Some (c :: p, q) | None => None end
  end.

(** if i > 0 and url[0].isascii() and url[0].isalpha() and all(c in scheme_chars for c in url[:i]): url = url[i+1:] *)
Definition py_after_scheme (u : str) : str :=
  match split_colon u with
  | Some (c :: p, q) => if is_alpha c && forallb is_scheme_char (c :: p) then q else u
  | _ => u
  end.

Definition is_py_delim (c : N) : bool := (c =? SLASH) || (c =? QUESTION) || (c =? HASH).

(** netloc as urlsplit computes it; [None] stands for the cases in which CPython raises ValueError or the netloc contains
    brackets / non-ASCII characters (extra checks apply there; such a netloc can never equal a plain host name) *)
Definition py_netloc (s : str) : option str :=
  let u := py_after_scheme (py_clean s) in
  match u with
  | a :: b :: r =>
      if (a =? SLASH) && (b =? SLASH) then
        let n := take_while (fun c => negb (is_py_delim c)) r in
        if existsb (fun c => (c =? LBRACKET) || (c =? RBRACKET) || (127 <? c)) n then None else Some n
      else Some []
  | _ => Some []
  end.

(** validate_next_page_url: non-empty, and urlparse(next_page).netloc is one of the deployment's hosts *)
Definition accepts (allowed : list str) (s : str) : bool :=
  match s with
  | [] => false
  | _ => match py_netloc s with Some n => existsb (str_eqb n) allowed | None => false end
  end.

(** ---------------------------------------------------------------- WHATWG URL parser (host only) *)

Inductive bhost :=
| BFail                 (* parsing fails: no navigation *)
| BHost (h : str)       (* URL with this host *)
| BBase                 (* relative reference: the base URL's host (the auth service itself) *)
| BNoHost               (* URL without a host (opaque path, path-only non-special URL) *)
| BOther.               (* host needs IDNA / percent-decoding / IP address parsing: outside the model *)

Fixpoint strip_trailing (l : str) : str :=
  match l with
  | [] => []
  | c :: r => match strip_trailing r with
              | [] => if is_c0_or_space c then [] else [c]
              | r' => c :: r'
              end
  end.

(** "remove any leading and trailing C0 control or space", "remove all ASCII tab or newline" *)
Definition br_clean (s : str) : str :=
  filter (fun c => negb (is_tab_nl c)) (strip_trailing (drop_while is_c0_or_space s)).

(** scheme start state + scheme state: ASCII alpha, then alphanumerics + - . up to a ':' *)
Definition br_scheme (u : str) : option (str * str) :=
  match u with
  | c :: r =>
      if is_alpha c then
        match drop_while is_scheme_char r with
        | d :: q => if d =? COLON then Some (map to_lower (c :: take_while is_scheme_char r), q) else None
        | [] => None
        end
      else None
  | [] => None
  end.

Definition s_http : str := [104; 116; 116; 112].
Definition s_https : str := [104; 116; 116; 112; 115].
Definition s_ftp : str := [102; 116; 112].
Definition s_ws : str := [119; 115].
Definition s_wss : str := [119; 115; 115].
Definition s_file : str := [102; 105; 108; 101].
Definition s_localhost : str := [108; 111; 99; 97; 108; 104; 111; 115; 116].
Definition s_xn : str := [120; 110; 45; 45].

Definition is_special (sch : str) : bool :=
  str_eqb sch s_http || str_eqb sch s_https || str_eqb sch s_ftp || str_eqb sch s_ws || str_eqb sch s_wss || str_eqb sch s_file.

Definition is_slash (c : N) : bool := (c =? SLASH) || (c =? BACKSLASH).

Definition is_auth_delim (special : bool) (c : N) : bool := is_py_delim c || (special && (c =? BACKSLASH)).

(** the part after the last '@' (None if there is no '@') *)
Fixpoint after_last_at (l : str) : option str :=
  match l with
  | [] => None
  | c :: r => match after_last_at r with
              | Some x => Some x
              | None => if c =? AT then Some r else None
              end
  end.

(** split "host:port" at the first ':' outside brackets *)
Fixpoint split_port (inside : bool) (l : str) : str * option str :=
  match l with
  | [] => ([], None)
  | c :: r =>
      if (c =? COLON) && negb inside then ([], Some r)
      else let inside' := if c =? LBRACKET then true else if c =? RBRACKET then false else inside in
           let '(h, p) := split_port inside' r in (c :: h, p)
  end.

Definition forbidden_host (c : N) : bool :=
  (c =? 0) || (c =? 9) || (c =? 10) || (c =? 13) || (c =? 32) || (c =? HASH) || (c =? SLASH) || (c =? COLON) || (c =? 60) || (c =? 62)
  || (c =? QUESTION) || (c =? AT) || (c =? LBRACKET) || (c =? BACKSLASH) || (c =? RBRACKET) || (c =? 94) || (c =? PIPE).

Definition forbidden_domain (c : N) : bool := forbidden_host c || (c <=? 31) || (c =? PERCENT) || (c =? 127).

Fixpoint split_dots (cur : str) (l : str) : list str :=
  match l with
  | [] => [rev cur]
  | c :: r => if c =? DOT then rev cur :: split_dots [] r else split_dots (c :: cur) r
  end.

Definition starts_with (p l : str) : bool := str_eqb p (firstn (length p) l).

Definition last_label (labels : list str) : str :=
  match rev labels with
  | [] => []
  | [] :: x :: _ => x       (* a trailing dot: the label before it *)
  | x :: _ => x
  end.

Definition ends_in_number (labels : list str) : bool :=
  let l := last_label labels in
  negb (is_nil l) && (forallb is_digit l || starts_with [48; 120] l || starts_with [48; 88] l).

Definition port_ok (p : option str) : bool :=
  match p with
  | None => true
  | Some ds => forallb is_digit ds && (fold_left (fun acc d => N.min 100000 (acc * 10 + (d - 48))) ds 0 <=? 65535)
  end.

(** host parser *)
Definition host_parse (special : bool) (h : str) : bhost :=
  match h with
  | [] => BFail
  | c :: _ =>
      if c =? LBRACKET then BOther
      else if negb special then
        if existsb forbidden_host h then BFail
        else if existsb (fun c => (126 <? c) || (c <=? 32) || (c =? PERCENT)) h then BOther
        else BHost h
      else if existsb (fun c => (127 <? c) || (c =? PERCENT)) h then BOther
      else let low := map to_lower h in
           if existsb forbidden_domain low then BFail
           else let labels := split_dots [] low in
                if ends_in_number labels then BOther
                else if existsb (starts_with s_xn) labels then BOther
                else BHost low
  end.

(** authority state + host state + port state *)
Definition authority (special : bool) (r : str) : bhost :=
  let seg := take_while (fun c => negb (is_auth_delim special c)) r in
  let '(hostport, at_seen) := match after_last_at seg with Some x => (x, true) | None => (seg, false) end in
  if at_seen && is_nil hostport then BFail
  else let '(h, p) := split_port false hostport in
       match h with
       | [] => if special || at_seen || (match p with Some _ => true | None => false end) then BFail else BHost []
       | _ => if port_ok p then host_parse special h else BFail
       end.

(** special authority ignore slashes state *)
Definition ignore_slashes (r : str) : bhost := authority true (drop_while is_slash r).

(** relative state / relative slash state (the URL takes the base's special scheme) *)
Definition relative (r : str) : bhost :=
  match r with
  | a :: b :: r' => if is_slash a && is_slash b then ignore_slashes r' else BBase
  | _ => BBase
  end.

Definition is_drive_letter (seg : str) : bool :=
  match seg with [a; b] => is_alpha a && ((b =? COLON) || (b =? PIPE)) | _ => false end.

(** file state / file slash state / file host state *)
Definition file_state (r : str) : bhost :=
  match r with
  | a :: b :: r' =>
      if is_slash a && is_slash b then
        let seg := take_while (fun c => negb (is_slash c || (c =? QUESTION) || (c =? HASH))) r' in
        if is_drive_letter seg then BNoHost
        else match seg with
             | [] => BHost []
             | _ => match host_parse true seg with
                    | BHost h => if str_eqb h s_localhost then BHost [] else BHost h
                    | x => x
                    end
             end
      else BNoHost
  | _ => BNoHost
  end.

(** the parser, for the base URL https://auth.<domain>/... *)
Definition browser (s : str) : bhost :=
  let u := br_clean s in
  match br_scheme u with
  | None => relative u
  | Some (sch, rest) =>
      if str_eqb sch s_file then file_state rest
      else if is_special sch then
        if str_eqb sch s_https then
          (* special relative or authority state *)
          match rest with
          | a :: b :: r' => if (a =? SLASH) && (b =? SLASH) then ignore_slashes r' else relative rest
          | _ => relative rest
          end
        else
          (* special authority slashes state *)
          match rest with
          | a :: b :: r' => if (a =? SLASH) && (b =? SLASH) then ignore_slashes r' else ignore_slashes rest
          | _ => ignore_slashes rest
          end
      else
        (* path or authority state / opaque path *)
        match rest with
        | a :: b :: r' => if (a =? SLASH) && (b =? SLASH) then authority false r' else BNoHost
        | _ => BNoHost
        end
  end.

(** ---------------------------------------------------------------- well-formed host names of the deployment *)

Definition is_host_char (c : N) : bool := is_lower c || is_digit c || (c =? 45) || (c =? DOT).

(** lower-case letters, digits, '-' and '.', starting with a letter or digit, last label not numeric, no punycode label,
    not "localhost" *)
Definition wf_domain (d : str) : bool :=
  match d with
  | [] => false
  | c :: _ => (is_lower c || is_digit c) && forallb is_host_char d
              && negb (ends_in_number (split_dots [] d)) && negb (existsb (starts_with s_xn) (split_dots [] d))
              && negb (str_eqb d s_localhost)
  end.
