(** C29 — proofs: an accepted next-page URL is parsed by the WHATWG parser to exactly the accepted host. *)
From HailV Require Import Common.Prelude Redirect.Model.
Open Scope N_scope.

Ltac cls := unfold is_host_char, is_scheme_char, to_lower, is_alpha, is_lower, is_upper, is_digit, is_c0_or_space, is_tab_nl, is_auth_delim,
                   is_py_delim, is_slash, forbidden_domain, forbidden_host,
                   SLASH, BACKSLASH, QUESTION, HASH, COLON, AT, LBRACKET, RBRACKET, PERCENT, DOT, PIPE in *.

(** ---------------------------------------------------------------- strings *)

Lemma str_eqb_eq a b : str_eqb a b = true -> a = b.
Proof.
  revert b. induction a as [|x a IH]; intros [|y b]; cbn [str_eqb]; try discriminate; auto.
  intros H. apply andb_true_iff in H. destruct H as [H1 H2]. apply N.eqb_eq in H1. f_equal; auto.
Qed.

Lemma str_eqb_refl a : str_eqb a a = true.
Proof. induction a as [|x a IH]; cbn [str_eqb]; auto. rewrite N.eqb_refl. exact IH. Qed.

Lemma take_while_app_stop p (d rest : str) :
  forallb p d = true -> (rest = [] \/ exists c r, rest = c :: r /\ p c = false) -> take_while p (d ++ rest) = d.
Proof.
  intros Hd Hr. induction d as [|x d IH]; cbn [app take_while].
  - destruct Hr as [->|(c & r & -> & Hc)]; cbn [take_while]; [reflexivity | rewrite Hc; reflexivity].
  - cbn [forallb] in Hd. apply andb_true_iff in Hd. destruct Hd as [Hx Hd]. rewrite Hx. f_equal. auto.
Qed.

Lemma take_while_spec p (l d : str) :
  take_while p l = d -> exists rest, l = d ++ rest /\ forallb p d = true /\ (rest = [] \/ exists c r, rest = c :: r /\ p c = false).
Proof.
  revert d. induction l as [|x l IH]; cbn [take_while]; intros d H.
  - subst d. exists []. auto.
  - destruct (p x) eqn:E.
    + destruct d as [|y d]; [discriminate|]. injection H as <- H. destruct (IH d H) as (rest & -> & Hd & Hr).
      exists rest. cbn [app forallb]. rewrite E. auto.
    + subst d. exists (x :: l). cbn. split; [reflexivity|]. split; [reflexivity|]. right. eauto.
Qed.

Lemma drop_while_head p (l : str) c r : l = c :: r -> p c = false -> drop_while p l = l.
Proof. intros -> H. cbn [drop_while]. rewrite H. reflexivity. Qed.

Lemma drop_while_app_all p (a b : str) : forallb p a = true -> drop_while p (a ++ b) = drop_while p b.
Proof.
  induction a as [|x a IH]; cbn [app forallb drop_while]; auto. intros H. apply andb_true_iff in H. destruct H as [-> H]. auto.
Qed.

(** ---------------------------------------------------------------- trailing strip commutes with tab/newline removal *)

Definition ntn (c : N) : bool := negb (is_tab_nl c).

Lemma ntn_of_not_c0 c : is_c0_or_space c = false -> ntn c = true.
Proof. unfold ntn. cls. lia. Qed.

Lemma strip_nonempty_has_visible r x r' : strip_trailing r = x :: r' -> exists y, In y (x :: r') /\ is_c0_or_space y = false.
Proof.
  revert x r'. induction r as [|c r IH]; cbn [strip_trailing]; intros x r' H; [discriminate|].
  destruct (strip_trailing r) as [|z r''] eqn:E.
  - destruct (is_c0_or_space c) eqn:Ec; [discriminate|]. injection H as <- <-. exists c. cbn; auto.
  - injection H as <- <-. destruct (IH z r'' eq_refl) as (y & Hy & Hv). exists y. cbn [In] in *. auto.
Qed.

Lemma filter_strip_comm x : filter ntn (strip_trailing x) = strip_trailing (filter ntn x).
Proof.
  induction x as [|c r IH]; [reflexivity|].
  change (strip_trailing (c :: r)) with (match strip_trailing r with [] => if is_c0_or_space c then [] else [c] | r' => c :: r' end).
  change (filter ntn (c :: r)) with (if ntn c then c :: filter ntn r else filter ntn r).
  destruct (strip_trailing r) as [|z r'] eqn:E.
  - cbn [filter] in IH. destruct (ntn c) eqn:Ec.
    + cbn [strip_trailing]. rewrite <- IH. destruct (is_c0_or_space c); cbn [filter]; [reflexivity | rewrite Ec; reflexivity].
    + rewrite <- IH. assert (is_c0_or_space c = true) as -> by (unfold ntn in Ec; cls; lia). reflexivity.
  - destruct (strip_nonempty_has_visible r z r' E) as (y & Hy & Hv).
    assert (Hne : filter ntn (z :: r') <> []).
    { intros Hnil. assert (In y (filter ntn (z :: r'))) by (apply filter_In; split; auto using ntn_of_not_c0). rewrite Hnil in H. contradiction. }
    change (filter ntn (c :: z :: r')) with (if ntn c then c :: filter ntn (z :: r') else filter ntn (z :: r')).
    remember (filter ntn (z :: r')) as fz eqn:Efz. destruct (ntn c) eqn:Ec.
    + cbn [strip_trailing]. rewrite <- IH. destruct fz; [congruence | reflexivity].
    + exact IH.
Qed.

Lemma br_clean_py_clean s : br_clean s = strip_trailing (py_clean s).
Proof. unfold br_clean, py_clean. apply filter_strip_comm. Qed.

Lemma strip_all_visible d : forallb (fun c => negb (is_c0_or_space c)) d = true -> strip_trailing d = d.
Proof.
  induction d as [|c d IH]; cbn [forallb strip_trailing]; auto. intros H. apply andb_true_iff in H. destruct H as [Hc Hd].
  rewrite (IH Hd). destruct d; [|reflexivity]. destruct (is_c0_or_space c); [discriminate | reflexivity].
Qed.

Lemma strip_cons_visible c r : is_c0_or_space c = false -> strip_trailing (c :: r) = c :: strip_trailing r.
Proof. intros H. cbn [strip_trailing]. destruct (strip_trailing r); [rewrite H|]; reflexivity. Qed.

Lemma strip_app_nonempty a b : strip_trailing b <> [] -> strip_trailing (a ++ b) = a ++ strip_trailing b.
Proof.
  intros Hb. induction a as [|x a IH]; cbn [app]; auto. cbn [strip_trailing]. rewrite IH.
  destruct (a ++ strip_trailing b) eqn:E; [|reflexivity]. destruct a; cbn in E; [contradiction | discriminate].
Qed.

(** ---------------------------------------------------------------- host characters *)

Lemma host_char_facts c : is_host_char c = true ->
  is_py_delim c = false /\ is_slash c = false /\ (c =? AT) = false /\ (c =? COLON) = false /\ (c =? LBRACKET) = false /\
  (c =? RBRACKET) = false /\ (c =? PIPE) = false /\ forbidden_host c = false /\ forbidden_domain c = false /\ to_lower c = c /\
  is_c0_or_space c = false /\ ((126 <? c) || (c <=? 32) || (c =? PERCENT)) = false /\ ((127 <? c) || (c =? PERCENT)) = false /\
  (c =? QUESTION) = false /\ (c =? HASH) = false /\ (c =? BACKSLASH) = false.
Proof.
  cls. intros H. repeat split; try lia.
  destruct ((65 <=? c) && (c <=? 90)) eqn:E; [lia | reflexivity].
Qed.

Section HostChars.
  Variable d : str.
  Hypothesis Hd : forallb is_host_char d = true.

  Lemma hc_forall (P : N -> bool) : (forall c, is_host_char c = true -> P c = true) -> forallb P d = true.
  Proof. intros H. rewrite forallb_forall in *. auto. Qed.

  Lemma hc_exists (P : N -> bool) : (forall c, is_host_char c = true -> P c = false) -> existsb P d = false.
  Proof.
    intros H. destruct (existsb P d) eqn:E; [|reflexivity]. apply existsb_exists in E. destruct E as (c & Hin & Hc).
    rewrite forallb_forall in Hd. rewrite (H c (Hd c Hin)) in Hc. discriminate.
  Qed.

  Lemma hc_lower : map to_lower d = d.
  Proof.
    rewrite forallb_forall in Hd. rewrite <- (map_id d) at 2. apply map_ext_in. intros c Hc. apply host_char_facts; auto.
  Qed.

  Lemma hc_no_at : after_last_at d = None.
  Proof.
    clear -Hd. induction d as [|c r IH]; cbn [after_last_at]; auto. cbn [forallb] in Hd. apply andb_true_iff in Hd. destruct Hd as [Hc Hr].
    rewrite (IH Hr). destruct (host_char_facts c Hc) as (_ & _ & -> & _). reflexivity.
  Qed.

  Lemma hc_split_port b : split_port b d = (d, None).
  Proof.
    clear -Hd. revert b. induction d as [|c r IH]; intros b; cbn [split_port]; auto. cbn [forallb] in Hd. apply andb_true_iff in Hd.
    destruct Hd as [Hc Hr]. destruct (host_char_facts c Hc) as (_ & _ & _ & -> & -> & -> & _). cbn [andb]. rewrite (IH Hr). reflexivity.
  Qed.
End HostChars.

(** ---------------------------------------------------------------- the host name reaches the host parser unchanged *)

Definition delim_tail (rest : str) : Prop := rest = [] \/ exists c r, rest = c :: r /\ is_py_delim c = true.

Lemma wf_domain_facts d : wf_domain d = true ->
  exists c r, d = c :: r /\ (is_lower c || is_digit c) = true /\ forallb is_host_char d = true /\
    ends_in_number (split_dots [] d) = false /\ existsb (starts_with s_xn) (split_dots [] d) = false /\ str_eqb d s_localhost = false.
Proof.
  unfold wf_domain. destruct d as [|c r]; [discriminate|]. intros H.
  repeat (apply andb_true_iff in H; destruct H as [H ?]). exists c, r. repeat split; auto.
  - destruct (ends_in_number _); [discriminate | reflexivity].
  - destruct (existsb _ _); [discriminate | reflexivity].
  - destruct (str_eqb _ _); [discriminate | reflexivity].
Qed.

Lemma host_parse_wf special d : wf_domain d = true -> host_parse special d = BHost d.
Proof.
  intros Hwf. destruct (wf_domain_facts d Hwf) as (c & r & -> & Hc & Hd & Hnum & Hxn & _).
  unfold host_parse.
  assert (Hc' : is_host_char c = true) by (cbn [forallb] in Hd; apply andb_true_iff in Hd; tauto).
  destruct (host_char_facts c Hc') as (_ & _ & _ & _ & -> & _).
  destruct special; cbn [negb].
  - rewrite (hc_exists _ Hd (fun c => (127 <? c) || (c =? PERCENT))) by (intros; apply host_char_facts; auto).
    rewrite (hc_lower _ Hd).
    rewrite (hc_exists _ Hd forbidden_domain) by (intros; apply host_char_facts; auto).
    rewrite Hnum, Hxn. reflexivity.
  - rewrite (hc_exists _ Hd forbidden_host) by (intros; apply host_char_facts; auto).
    rewrite (hc_exists _ Hd (fun c => (126 <? c) || (c <=? 32) || (c =? PERCENT))) by (intros; apply host_char_facts; auto).
    reflexivity.
Qed.

Lemma authority_wf special d rest : wf_domain d = true -> delim_tail rest -> authority special (d ++ rest) = BHost d.
Proof.
  intros Hwf Hrest. destruct (wf_domain_facts d Hwf) as (c & r & E & Hc & Hd & _).
  unfold authority.
  assert (Hseg : take_while (fun c => negb (is_auth_delim special c)) (d ++ rest) = d).
  { apply take_while_app_stop.
    - apply hc_forall; auto. intros x Hx. destruct (host_char_facts x Hx) as (H1 & _ & _ & _ & _ & _ & _ & _ & _ & _ & _ & _ & _ & _ & _ & H16).
      unfold is_auth_delim. rewrite H1, H16. destruct special; reflexivity.
    - destruct Hrest as [->|(x & r' & -> & Hx)]; [left; reflexivity|]. right. exists x, r'. split; auto.
      unfold is_auth_delim. rewrite Hx. reflexivity. }
  rewrite Hseg, (hc_no_at _ Hd). cbn [andb]. rewrite (hc_split_port _ Hd). subst d.
  cbn [port_ok]. apply host_parse_wf. exact Hwf.
Qed.

Lemma ignore_slashes_wf d rest : wf_domain d = true -> delim_tail rest -> ignore_slashes (d ++ rest) = BHost d.
Proof.
  intros Hwf Hrest. unfold ignore_slashes. destruct (wf_domain_facts d Hwf) as (c & r & E & Hc & Hd & _).
  rewrite (drop_while_head is_slash (d ++ rest) c (r ++ rest)).
  - apply authority_wf; auto.
  - rewrite E. reflexivity.
  - assert (Hc' : is_host_char c = true) by (rewrite E in Hd; cbn [forallb] in Hd; apply andb_true_iff in Hd; tauto).
    apply host_char_facts; auto.
Qed.

Lemma file_state_wf d rest : wf_domain d = true -> delim_tail rest -> file_state (SLASH :: SLASH :: d ++ rest) = BHost d.
Proof.
  intros Hwf Hrest. destruct (wf_domain_facts d Hwf) as (c & r & E & Hc & Hd & _ & _ & Hloc).
  unfold file_state. change (is_slash SLASH && is_slash SLASH) with true. cbn iota.
  assert (Hseg : take_while (fun c => negb (is_slash c || (c =? QUESTION) || (c =? HASH))) (d ++ rest) = d).
  { apply take_while_app_stop.
    - apply hc_forall; auto. intros x Hx.
      destruct (host_char_facts x Hx) as (_ & -> & _ & _ & _ & _ & _ & _ & _ & _ & _ & _ & _ & -> & -> & _). reflexivity.
    - destruct Hrest as [->|(x & r' & -> & Hx)]; [left; reflexivity|]. right. exists x, r'. split; auto. cls. lia. }
  rewrite Hseg.
  assert (Hdl : is_drive_letter d = false).
  { unfold is_drive_letter. destruct d as [|a [|b [|? ?]]]; auto. cbn [forallb] in Hd.
    repeat (apply andb_true_iff in Hd; destruct Hd as [? Hd]).
    destruct (host_char_facts b) as (_ & _ & _ & -> & _ & _ & -> & _); auto. rewrite andb_false_r. reflexivity. }
  rewrite Hdl. rewrite (host_parse_wf true d Hwf). rewrite Hloc. subst d. reflexivity.
Qed.

(** ---------------------------------------------------------------- the scheme: CPython and WHATWG agree *)

Lemma split_colon_spec l p q : split_colon l = Some (p, q) -> l = p ++ COLON :: q.
Proof.
  revert p q. induction l as [|c r IH]; cbn [split_colon]; intros p q H; [discriminate|].
  destruct (c =? COLON) eqn:E.
  - injection H as <- <-. apply N.eqb_eq in E. subst. reflexivity.
  - destruct (split_colon r) as [[p' q']|]; [|discriminate]. injection H as <- <-. cbn [app]. f_equal. auto.
Qed.

Lemma scheme_char_not_colon c : is_scheme_char c = true -> (c =? COLON) = false.
Proof. cls. lia. Qed.

Lemma br_scheme_of_py c p rest :
  is_alpha c = true -> forallb is_scheme_char (c :: p) = true ->
  br_scheme ((c :: p) ++ COLON :: rest) = Some (map to_lower (c :: p), rest).
Proof.
  intros Ha Hs. cbn [forallb] in Hs. apply andb_true_iff in Hs. destruct Hs as [_ Hp].
  unfold br_scheme. cbn [app]. rewrite Ha. rewrite (drop_while_app_all is_scheme_char p (COLON :: rest) Hp).
  cbn [drop_while]. change (is_scheme_char COLON) with false. cbn iota. rewrite N.eqb_refl.
  rewrite (take_while_app_stop is_scheme_char p (COLON :: rest) Hp); [reflexivity|]. right. exists COLON, rest. split; reflexivity.
Qed.

(** ---------------------------------------------------------------- main lemma *)

Lemma browser_of_clean s pre d rest :
  wf_domain d = true -> delim_tail rest ->
  br_clean s = pre ++ SLASH :: SLASH :: d ++ rest ->
  (pre = [] \/ exists c p, pre = (c :: p) ++ [COLON] /\ is_alpha c = true /\ forallb is_scheme_char (c :: p) = true) ->
  browser s = BHost d.
Proof.
  intros Hwf Hrest Hclean Hpre. unfold browser. rewrite Hclean.
  destruct Hpre as [->|(c & p & -> & Ha & Hs)].
  - cbn [app]. unfold br_scheme. change (is_alpha SLASH) with false. cbn iota.
    unfold relative. change (is_slash SLASH && is_slash SLASH) with true. cbn iota. apply ignore_slashes_wf; auto.
  - rewrite <- app_assoc. cbn [app]. change (c :: p ++ COLON :: SLASH :: SLASH :: d ++ rest) with ((c :: p) ++ COLON :: SLASH :: SLASH :: d ++ rest).
    rewrite (br_scheme_of_py c p _ Ha Hs).
    destruct (str_eqb (map to_lower (c :: p)) s_file); [apply file_state_wf; auto|].
    destruct (is_special (map to_lower (c :: p))).
    + destruct (str_eqb (map to_lower (c :: p)) s_https); change ((SLASH =? SLASH) && (SLASH =? SLASH)) with true; cbn iota;
        apply ignore_slashes_wf; auto.
    + change ((SLASH =? SLASH) && (SLASH =? SLASH)) with true. cbn iota. apply authority_wf; auto.
Qed.

Lemma strip_tail d rest : wf_domain d = true -> delim_tail rest ->
  exists rest', strip_trailing (d ++ rest) = d ++ rest' /\ delim_tail rest'.
Proof.
  intros Hwf Hrest. destruct (wf_domain_facts d Hwf) as (c & r & E & _ & Hd & _).
  assert (Hvis : forallb (fun c => negb (is_c0_or_space c)) d = true).
  { apply hc_forall; auto. intros x Hx. destruct (host_char_facts x Hx) as (_ & _ & _ & _ & _ & _ & _ & _ & _ & _ & -> & _). reflexivity. }
  destruct Hrest as [->|(x & r' & -> & Hx)].
  - exists []. rewrite app_nil_r. split; [apply strip_all_visible; auto | left; reflexivity].
  - assert (Hxv : is_c0_or_space x = false) by (cls; lia).
    exists (x :: strip_trailing r'). split; [|right; eauto].
    rewrite strip_app_nonempty; rewrite (strip_cons_visible x r' Hxv); [reflexivity | discriminate].
Qed.

Lemma py_netloc_browser s d : py_netloc s = Some d -> wf_domain d = true -> browser s = BHost d.
Proof.
  intros Hpy Hwf. unfold py_netloc in Hpy.
  destruct (wf_domain_facts d Hwf) as (c0 & r0 & Ed & _).
  set (v := py_clean s) in *.
  assert (Hshape : exists pre rest, v = pre ++ SLASH :: SLASH :: d ++ rest /\ delim_tail rest /\
            (pre = [] \/ exists c p, pre = (c :: p) ++ [COLON] /\ is_alpha c = true /\ forallb is_scheme_char (c :: p) = true)).
  { assert (Hu : forall u, match u with
                           | a :: b :: r => if (a =? SLASH) && (b =? SLASH)
                                            then let n := take_while (fun c => negb (is_py_delim c)) r in
                                                 if existsb (fun c => (c =? LBRACKET) || (c =? RBRACKET) || (127 <? c)) n then None else Some n
                                            else Some []
                           | _ => Some []
                           end = Some d -> exists rest, u = SLASH :: SLASH :: d ++ rest /\ delim_tail rest).
    { intros u H. destruct u as [|a [|b r]]; try (injection H as <-; discriminate).
      destruct ((a =? SLASH) && (b =? SLASH)) eqn:Eab; [|injection H as <-; discriminate].
      apply andb_true_iff in Eab. destruct Eab as [Ea Eb]. apply N.eqb_eq in Ea, Eb. subst a b.
      cbv zeta in H. destruct (existsb _ _); [discriminate|]. injection H as H.
      destruct (take_while_spec _ _ _ H) as (rest & -> & _ & Hr). exists rest. split; [reflexivity|].
      destruct Hr as [->|(x & r' & -> & Hx)]; [left; reflexivity|]. right. exists x, r'. split; auto.
      destruct (is_py_delim x); [reflexivity | discriminate]. }
    unfold py_after_scheme in Hpy. destruct (split_colon v) as [[[|c p] q]|] eqn:Esc.
    - destruct (Hu v Hpy) as (rest & Hv & Hr). exists [], rest. cbn [app]. auto.
    - destruct (is_alpha c && forallb is_scheme_char (c :: p)) eqn:Esch.
      + destruct (Hu q Hpy) as (rest & Hq & Hr). apply split_colon_spec in Esc. exists ((c :: p) ++ [COLON]), rest.
        split; [rewrite Esc, Hq, <- app_assoc; reflexivity|]. split; auto. right. exists c, p.
        apply andb_true_iff in Esch. tauto.
      + destruct (Hu v Hpy) as (rest & Hv & Hr). exists [], rest. cbn [app]. auto.
    - destruct (Hu v Hpy) as (rest & Hv & Hr). exists [], rest. cbn [app]. auto. }
  destruct Hshape as (pre & rest & Hv & Hrest & Hpre).
  destruct (strip_tail d rest Hwf Hrest) as (rest' & Hstrip & Hrest').
  apply (browser_of_clean s pre d rest'); auto.
  rewrite br_clean_py_clean. fold v. rewrite Hv.
  change (pre ++ SLASH :: SLASH :: d ++ rest) with (pre ++ [SLASH; SLASH] ++ d ++ rest). rewrite app_assoc.
  rewrite strip_app_nonempty; rewrite Hstrip; [rewrite <- app_assoc; reflexivity|].
  rewrite Ed. discriminate.
Qed.

Lemma accepted_same_host allowed s :
  forallb wf_domain allowed = true -> accepts allowed s = true ->
  exists d, In d allowed /\ py_netloc s = Some d /\ browser s = BHost d.
Proof.
  intros Hall Hacc. unfold accepts in Hacc. destruct s as [|x s']; [discriminate|].
  destruct (py_netloc (x :: s')) as [n|] eqn:Epy; [|discriminate].
  apply existsb_exists in Hacc. destruct Hacc as (d & Hin & Heq). apply str_eqb_eq in Heq. subst n.
  exists d. split; auto. split; auto. apply py_netloc_browser; auto.
  rewrite forallb_forall in Hall. auto.
Qed.

(** nothing but the exact host name is accepted: no userinfo, no port, no backslash, no upper case *)
Lemma accepted_netloc_plain allowed s :
  forallb wf_domain allowed = true -> accepts allowed s = true ->
  exists d, py_netloc s = Some d /\ forallb is_host_char d = true.
Proof.
  intros Hall Hacc. destruct (accepted_same_host allowed s Hall Hacc) as (d & Hin & Hpy & _).
  exists d. split; auto. rewrite forallb_forall in Hall. destruct (wf_domain_facts d (Hall d Hin)) as (c & r & _ & _ & Hd & _). exact Hd.
Qed.

(** the hypotheses are satisfiable, and the classical bypass attempts are rejected or harmless *)
Definition batch_host : str := [98;97;116;99;104;46;104;97;105;108;46;105;115].                 (* batch.hail.is *)
Definition ex_ok : str := [104;116;116;112;115;58;47;47] ++ batch_host ++ [47;120].            (* https://batch.hail.is/x *)
Definition ex_backslash : str := [47;47] ++ batch_host ++ [92;64;101;118;105;108;46;99;111;109]. (* //batch.hail.is\@evil.com *)
Definition ex_tab : str := [9;47;47] ++ batch_host.                                                (* \t//batch.hail.is *)

Example ex_wf : wf_domain batch_host = true. Proof. vm_compute. reflexivity. Qed.
Example ex_ok_accepted : accepts [batch_host] ex_ok = true /\ browser ex_ok = BHost batch_host. Proof. vm_compute. auto. Qed.
Example ex_backslash_rejected : accepts [batch_host] ex_backslash = false. Proof. vm_compute. reflexivity. Qed.
Example ex_tab_accepted : accepts [batch_host] ex_tab = true /\ browser ex_tab = BHost batch_host. Proof. vm_compute. auto. Qed.
