(** C29 — property theorems only.  [accepts] / [py_netloc] model validate_next_page_url / CPython's urlsplit (tied to the
    real code by harness/props/C29.py); [browser] is the transcription of the WHATWG URL parser. *)
From HailV Require Import Common.Prelude Redirect.Model Redirect.Lemmas.

(** For ALL strings: whenever validate_next_page_url accepts a next-page URL, the browser's URL parser (base URL: the auth
    service) yields a URL whose host is exactly the accepted deployment host. *)
Theorem C29_same_host : forall (allowed : list str) (s : str),
  forallb wf_domain allowed = true -> accepts allowed s = true ->
  exists d, In d allowed /\ py_netloc s = Some d /\ browser s = BHost d.
Proof. exact accepted_same_host. Qed.
Print Assumptions C29_same_host.

(** The accepted netloc is a bare host name: lower-case letters, digits, '-' and '.' only — no userinfo, port, backslash,
    bracket, percent sign, control or non-ASCII character can be part of it. *)
Theorem C29_accepted_netloc_plain : forall (allowed : list str) (s : str),
  forallb wf_domain allowed = true -> accepts allowed s = true ->
  exists d, py_netloc s = Some d /\ forallb is_host_char d = true.
Proof. exact accepted_netloc_plain. Qed.
Print Assumptions C29_accepted_netloc_plain.

(** Core of the argument, independent of the allowed list. *)
Theorem C29_netloc_is_browser_host : forall (s d : str),
  py_netloc s = Some d -> wf_domain d = true -> browser s = BHost d.
Proof. exact py_netloc_browser. Qed.
Print Assumptions C29_netloc_is_browser_host.
