(** C38 — proofs, part 1: the even genome partitioning arithmetic.
    [generated_eq_model] ties the translation of the current Python source to the hand model; everything else is
    proved about the hand model for ALL contig lengths and interval sizes. *)
From HailV Require Import Common.Prelude Combiner.Model.
From HailG Require C38.Gen.
Open Scope Z_scope.

(** The translation of combine.py::calc_parts (as it is in $VERIF_REPO now) is the hand model. *)
Lemma generated_eq_model L size : C38.Gen.calc_parts L size = calc_parts L size.
Proof. reflexivity. Qed.

Lemma cdiv_bounds a b : 0 < b -> b * (cdiv a b - 1) < a <= b * cdiv a b.
Proof. unfold cdiv; intros Hb. lia. Qed.

Lemma sizes_ok L size : 1 <= L -> 1 <= size ->
  let np := cdiv L size in let rs := cdiv L np in 1 <= np /\ 1 <= rs <= size.
Proof.
  intros HL Hs np rs.
  pose proof (cdiv_bounds L size ltac:(lia)) as [H1 H2]. fold np in H1, H2.
  assert (Hnp : 1 <= np) by nia.
  pose proof (cdiv_bounds L np ltac:(lia)) as [H3 H4]. fold rs in H3, H4.
  split; [exact Hnp|]. split; nia.
Qed.

Section Loop.
  Variables L rs : Z.
  Hypothesis Hrs : 1 <= rs.

  Let cond := (fun '((intervals, n) : list (Z * Z) * Z) => (n <=? L)).
  Let body := (fun '((intervals, n) : list (Z * Z) * Z) =>
                 let start := n in
                 let end_ := (Z.min ((n + rs) - 1) L) in
                 let intervals := (intervals ++ [(start, end_)]) in
                 let n := (end_ + 1) in
                 (intervals, n)).

  Lemma loop_spec : forall (fuel : nat) (n : Z) (acc : list (Z * Z)),
    1 <= n <= L + 1 -> L + 1 - n < Z.of_nat fuel ->
    exists tail, while_loop fuel cond body (acc, n) = Some (acc ++ tail, L + 1)
                 /\ chain n L tail /\ Forall (fun iv => 1 <= iv_len iv <= rs) tail.
  Proof.
    induction fuel as [|fuel IH]; intros n acc Hn Hf; [lia|].
    cbn [while_loop]. unfold cond at 1.
    destruct (n <=? L) eqn:Hc.
    - apply Z.leb_le in Hc.
      unfold body at 2. cbv zeta.
      set (e := Z.min (n + rs - 1) L).
      assert (He : n <= e <= L) by (unfold e; lia).
      destruct (IH (e + 1) (acc ++ [(n, e)]) ltac:(lia) ltac:(lia)) as [tail [Hw [Hch Hall]]].
      exists ((n, e) :: tail). split; [|split].
      + rewrite Hw. rewrite <- app_assoc. reflexivity.
      + cbn [chain]. repeat split; try lia. exact Hch.
      + constructor; [|exact Hall]. unfold iv_len; cbn [fst snd]. unfold e. lia.
    - apply Z.leb_gt in Hc. assert (n = L + 1) by lia. subst n.
      exists []. rewrite app_nil_r. split; [reflexivity|]. split; [cbn [chain]; reflexivity | constructor].
  Qed.
End Loop.

(** calc_parts terminates (within its fuel) and its intervals tile 1..L in order, each of 1..size bases. *)
Theorem calc_parts_chain L size : 1 <= L -> 1 <= size ->
  exists ivs, calc_parts L size = Some ivs /\ chain 1 L ivs /\ Forall (fun iv => 1 <= iv_len iv <= size) ivs.
Proof.
  intros HL Hs. destruct (sizes_ok L size HL Hs) as [Hnp [Hrs1 Hrs2]].
  unfold calc_parts. cbv zeta.
  set (rs := cdiv L (cdiv L size)) in *.
  destruct (loop_spec L rs Hrs1 (loop_fuel L) 1 [] ltac:(lia) ltac:(unfold loop_fuel; lia)) as [tail [Hw [Hch Hall]]].
  cbv zeta in Hw. rewrite Hw. exists tail. cbn [app]. split; [reflexivity|]. split; [exact Hch|].
  eapply Forall_impl; [|exact Hall]. cbv beta. intros iv H. lia.
Qed.

Lemma chain_cover : forall l a b, chain a b l -> forall p,
  n_covering p l = if (a <=? p) && (p <=? b) then 1%nat else 0%nat.
Proof.
  induction l as [|[s e] r IH]; intros a b Hc p; cbn [chain] in Hc.
  - subst a. unfold n_covering; cbn [filter length].
    destruct ((b + 1 <=? p) && (p <=? b)) eqn:E; [lia | reflexivity].
  - destruct Hc as [-> [H1 [H2 Hc]]].
    unfold n_covering in *; cbn [filter].
    specialize (IH _ _ Hc p).
    unfold covers at 1; cbn [fst snd].
    destruct ((a <=? p) && (p <=? e)) eqn:E1; cbn [length]; rewrite IH;
      destruct ((e + 1 <=? p) && (p <=? b)) eqn:E2; destruct ((a <=? p) && (p <=? b)) eqn:E3; lia.
Qed.

Lemma chain_last : forall l a b, chain a b l -> a <= b + 1.
Proof.
  induction l as [|[s e] r IH]; intros a b Hc; cbn [chain] in Hc; [lia|].
  destruct Hc as [-> [H1 [H2 Hc]]]. lia.
Qed.

(** The arithmetic before fixes/C38.diff violates both halves of the statement (documented, by computation). *)
Example unfixed_drops_last_base :
  exists ivs, calc_parts_unfixed 5 3 = Some ivs /\ n_covering 5 ivs = 0%nat.
Proof. eexists; split; [vm_compute; reflexivity | vm_compute; reflexivity]. Qed.

Example unfixed_interval_too_long :
  exists ivs iv, calc_parts_unfixed 10 5 = Some ivs /\ In iv ivs /\ iv_len iv = 6.
Proof. exists [(1, 6); (7, 10)], (1, 6). split; [vm_compute; reflexivity|]. split; [left; reflexivity | reflexivity]. Qed.

Example unfixed_length_one_uncovered :
  calc_parts_unfixed 1 1 = Some [].
Proof. vm_compute; reflexivity. Qed.

(** The two property statements, about the GENERATED definition. *)
Lemma gen_partition_cover : forall L size : Z, 1 <= L -> 1 <= size ->
  exists ivs, C38.Gen.calc_parts L size = Some ivs /\ chain 1 L ivs /\
              (forall p, 1 <= p <= L -> n_covering p ivs = 1%nat) /\
              (forall p, p < 1 \/ L < p -> n_covering p ivs = 0%nat).
Proof.
  intros L size HL Hs. rewrite generated_eq_model.
  destruct (calc_parts_chain L size HL Hs) as [ivs [E [Hc _]]].
  exists ivs. split; [exact E|]. split; [exact Hc|]. split; intros p Hp; rewrite (chain_cover _ _ _ Hc p).
  - destruct ((1 <=? p) && (p <=? L)) eqn:E1; [reflexivity | lia].
  - destruct ((1 <=? p) && (p <=? L)) eqn:E1; [lia | reflexivity].
Qed.

Lemma gen_partition_len : forall L size ivs, 1 <= L -> 1 <= size ->
  C38.Gen.calc_parts L size = Some ivs -> Forall (fun iv => 1 <= iv_len iv <= size) ivs.
Proof.
  intros L size ivs HL Hs E. rewrite generated_eq_model in E.
  destruct (calc_parts_chain L size HL Hs) as [ivs' [E' [_ Hall]]]. congruence.
Qed.

Example partition_hypotheses_satisfiable :
  C38.Gen.calc_parts 10 3 = Some [(1, 3); (4, 6); (7, 9); (10, 10)].
Proof. vm_compute. reflexivity. Qed.
