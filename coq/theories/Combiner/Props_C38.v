(** C38 — property theorems only.

    Partitioning: stated about the definition GENERATED from the current combine.py (HailG.C38.Gen.calc_parts).
    Merge plan: stated about the hand model Combiner.Model (tied to the real module by the correspondence run),
    for every input identity type [A], every binning function [bin_of] (the float floor(log(n, b))), every list
    of GVCFs [gv] and VDSes [vd] (provenance, sample count), every branch factor >= 2 and batch size >= 1, and
    every schedule [evs] of steps and save/load resumes with re-parameterisation. *)
From HailV Require Import Common.Prelude Combiner.Model Combiner.Lemmas Combiner.LemmasPlan.
From Coq Require Import Permutation.
From HailG Require C38.Gen.
Open Scope Z_scope.

(** Every base of the contig is covered by exactly one interval, and nothing outside 1..L is covered:
    the intervals tile 1..L in order ([chain]). *)
Theorem C38_partition_cover : forall L size : Z, 1 <= L -> 1 <= size ->
  exists ivs, C38.Gen.calc_parts L size = Some ivs /\ chain 1 L ivs /\
              (forall p, 1 <= p <= L -> n_covering p ivs = 1%nat) /\
              (forall p, p < 1 \/ L < p -> n_covering p ivs = 0%nat).
Proof. exact gen_partition_cover. Qed.
Print Assumptions C38_partition_cover.

(** No interval is longer than requested (and none is empty). *)
Theorem C38_partition_len : forall L size ivs, 1 <= L -> 1 <= size ->
  C38.Gen.calc_parts L size = Some ivs -> Forall (fun iv => 1 <= iv_len iv <= size) ivs.
Proof. exact gen_partition_len. Qed.
Print Assumptions C38_partition_len.

(** Termination: after at most 2*#gvcfs + #vdses steps - interleaved with any number of resumes - the plan is finished;
    in particular the uninterrupted run() loop stops. *)
Theorem C38_terminates : forall (A : Type) (bin_of : Z -> Z -> Z) (gv : list A) (vd : list (list A * Z)) (b g : Z)
    (evs : list event),
  2 <= b -> 1 <= g -> Forall ev_ok evs -> (2 * length gv + length vd <= n_steps evs)%nat ->
  finished (exec bin_of evs (init bin_of gv vd b g)) = true /\
  finished (run bin_of (2 * length gv + length vd) (init bin_of gv vd b g)) = true.
Proof.
  intros A bin_of gv vd b g evs Hb Hg Hok Hn. split.
  - apply plan_terminates; assumption.
  - apply run_terminates; assumption.
Qed.
Print Assumptions C38_terminates.

(** Each input is used exactly once: at every point of every schedule the inputs still pending in the plan together with
    the written output are a permutation of the given inputs; a final dataset exists exactly when the plan is finished,
    there is exactly one, and it is built from exactly the inputs. *)
Theorem C38_each_input_once : forall (A : Type) (bin_of : Z -> Z -> Z) (gv : list A) (vd : list (list A * Z)) (b g : Z)
    (evs : list event),
  2 <= b -> 1 <= g -> (gv <> [] \/ vd <> []) -> Forall ev_ok evs ->
  let s := exec bin_of evs (init bin_of gv vd b g) in
  let inputs := gv ++ concat (map fst vd) in
  Permutation (pending s ++ concat (outs s)) inputs /\
  (finished s = true -> exists p, outs s = [p] /\ Permutation p inputs) /\
  (finished s = false -> outs s = []).
Proof.
  intros A bin_of gv vd b g evs Hb Hg Hne Hok. exact (plan_each_input_once bin_of gv vd b g Hb Hg evs Hne Hok).
Qed.
Print Assumptions C38_each_input_once.

(** Resume equivalence: two arbitrary schedules (e.g. the uninterrupted run and a run stopped after any steps and resumed
    from the saved plan, possibly with a new branch factor / batch size) both end with one dataset built from the same inputs. *)
Theorem C38_resume_equiv : forall (A : Type) (bin_of : Z -> Z -> Z) (gv : list A) (vd : list (list A * Z)) (b g : Z)
    (evs1 evs2 : list event),
  2 <= b -> 1 <= g -> (gv <> [] \/ vd <> []) -> Forall ev_ok evs1 -> Forall ev_ok evs2 ->
  let s1 := exec bin_of evs1 (init bin_of gv vd b g) in
  let s2 := exec bin_of evs2 (init bin_of gv vd b g) in
  finished s1 = true -> finished s2 = true ->
  exists p1 p2, outs s1 = [p1] /\ outs s2 = [p2] /\ Permutation p1 p2.
Proof.
  intros A bin_of gv vd b g evs1 evs2 Hb Hg Hne H1 H2.
  exact (plan_resume_equiv bin_of gv vd b g Hb Hg evs1 evs2 Hne H1 H2).
Qed.
Print Assumptions C38_resume_equiv.

(** Model faithfulness: in every reachable plan the bins are strictly ascending by key and no bin is empty, so the head of
    the model's bin list is [min(self._vdses)] and [not self._vdses] is [bins = []]. *)
Theorem C38_bins_sorted : forall (A : Type) (bin_of : Z -> Z -> Z) (gv : list A) (vd : list (list A * Z)) (b g : Z)
    (evs : list event),
  2 <= b -> 1 <= g -> Forall ev_ok evs ->
  let s := exec bin_of evs (init bin_of gv vd b g) in
  asc (keys (bins s)) /\ Forall (fun kl => snd kl <> []) (bins s).
Proof. intros A bin_of gv vd b g evs Hb Hg Hok. exact (bins_sorted bin_of gv vd b g evs Hb Hg Hok). Qed.
Print Assumptions C38_bins_sorted.
