(** C38 — executable models (definitions only).

    Part 1: the arithmetic of [calculate_even_genome_partitioning.calc_parts]
            (hail/python/hail/vds/combiner/combine.py).  The definition that the theorems are about is
            REGENERATED from the Python source (HailG.C38.Gen); [calc_parts] below is the hand model it is
            proved equal to, [calc_parts_unfixed] documents the arithmetic before fixes/C38.diff.
    Part 2: the merge plan of [VariantDatasetCombiner] (variant_dataset_combiner.py): state, [step]
            ([_step_gvcfs]/[_step_vdses]), [reload] (= load (save s)), schedules of steps and resumes.
            Datasets are represented by their provenance (the list of inputs they were built from) and
            their sample count.  The float computation [floor(log(n, b))] is the Section variable
            [bin_of]; no theorem assumes anything about it. *)
From HailV Require Import Common.Prelude.
Open Scope Z_scope.

(* ------------------------------------------------------------------------------------------- *)
(** * Part 1: even genome partitioning *)

(** [math.ceil(a / b)] on Python ints, b > 0 (exact; the float division is correctly rounded and cannot
    reach the next integer for a < 2^53 — stated as an assumption of the tie). *)
Definition cdiv (a b : Z) : Z := - ((- a) / b).

(** Python [while cond: body] over a loop state, with explicit fuel; [None] = did not finish within fuel. *)
Fixpoint while_loop {St : Type} (fuel : nat) (cond : St -> bool) (body : St -> St) (s : St) : option St :=
  match fuel with
  | O => None
  | S f => if cond s then while_loop f cond body (body s) else Some s
  end.

Definition loop_fuel (contig_length : Z) : nat := S (Z.to_nat contig_length).

(** Hand model of the FIXED calc_parts: intervals are inclusive [(start, end)] pairs of 1-based positions. *)
Definition calc_parts (contig_length interval_size : Z) : option (list (Z * Z)) :=
  let n_parts := (cdiv contig_length interval_size) in
  let real_size := (cdiv contig_length n_parts) in
  let n := 1 in
  let intervals := [] in
  match while_loop (loop_fuel contig_length)
          (fun '(intervals, n) => (n <=? contig_length))
          (fun '(intervals, n) =>
             let start := n in
             let end_ := (Z.min ((n + real_size) - 1) contig_length) in
             let intervals := (intervals ++ [(start, end_)]) in
             let n := (end_ + 1) in
             (intervals, n))
          (intervals, n) with
  | None => None
  | Some (intervals, n) => Some intervals
  end.

(** The arithmetic as it stands in /repo before the fix (loop guard [n < L], end bound [n + real_size]). *)
Definition calc_parts_unfixed (contig_length interval_size : Z) : option (list (Z * Z)) :=
  let n_parts := (cdiv contig_length interval_size) in
  let real_size := (cdiv contig_length n_parts) in
  match while_loop (loop_fuel contig_length)
          (fun '(intervals, n) => (n <? contig_length))
          (fun '(intervals, n) =>
             let end_ := (Z.min (n + real_size) contig_length) in
             (intervals ++ [(n, end_)], end_ + 1))
          ([], 1) with
  | None => None
  | Some (intervals, n) => Some intervals
  end.

(** Specification vocabulary. *)
Definition covers (p : Z) (iv : Z * Z) : bool := (fst iv <=? p) && (p <=? snd iv).
Definition n_covering (p : Z) (ivs : list (Z * Z)) : nat := length (filter (covers p) ivs).
Definition iv_len (iv : Z * Z) : Z := snd iv - fst iv + 1.

(** [chain a b l]: the intervals of [l], in order, tile the positions a..b (each non-empty, adjacent). *)
Fixpoint chain (a b : Z) (l : list (Z * Z)) : Prop :=
  match l with
  | [] => a = b + 1
  | (s, e) :: r => s = a /\ a <= e /\ e <= b /\ chain (e + 1) b r
  end.

(* ------------------------------------------------------------------------------------------- *)
(** * Part 2: the combiner plan *)

Inductive event : Type := EStep | EResume (b g : Z).

Section Combiner.
  Context {A : Type}.                      (* identity of an input (GVCF path / input VDS path) *)
  Variable bin_of : Z -> Z -> Z.           (* floor(log(n_samples, branch_factor)) as the floats compute it *)

  (** VDSMetadata(path, n_samples): the path is represented by the provenance of what was written there. *)
  Definition md : Type := (list A * Z)%type.
  Definition bins_t : Type := list (Z * list md).    (* the dict _vdses, keys ascending *)

  Record state : Type := mk {
    gvcfs : list A;          (* _gvcfs (and, zipped, _gvcf_sample_names) *)
    bins : bins_t;           (* _vdses *)
    bf : Z;                  (* _branch_factor *)
    gbs : Z;                 (* _gvcf_batch_size *)
    job : Z;                 (* _job_id *)
    outs : list (list A)     (* provenance of every dataset written to _output_path by _write_final *)
  }.

  Definition finished (s : state) : bool := is_nil (gvcfs s) && is_nil (bins s).

  (** self._vdses[k].append(m) on the defaultdict *)
  Fixpoint insert_bin (k : Z) (m : md) (bs : bins_t) : bins_t :=
    match bs with
    | [] => [(k, [m])]
    | (k', l) :: r =>
        if k <? k' then (k, [m]) :: bs
        else if k =? k' then (k', l ++ [m]) :: r
        else (k', l) :: insert_bin k m r
    end.

  Definition natural_bin (b : Z) (m : md) : Z := Z.max 1 (bin_of (snd m) b).

  Definition add_all (b : Z) (ms : list md) (bs : bins_t) : bins_t :=
    fold_left (fun bs m => insert_bin (natural_bin b m) m bs) ms bs.

  (** for start in range(0, len(vcfs), step): vcfs[start:start+step] *)
  Fixpoint chunks (fuel : nat) (b : nat) (l : list A) : list (list A) :=
    match fuel with
    | O => []
    | S f => match l with [] => [] | _ => firstn b l :: chunks f b (skipn b l) end
    end.

  Definition step_gvcfs (s : state) : state :=
    let k := Z.to_nat (gbs s * bf s) in
    let files := firstn k (gvcfs s) in
    let rest := skipn k (gvcfs s) in
    let merged : list md :=
      map (fun c => (c, Z.of_nat (length c))) (chunks (length files) (Z.to_nat (bf s)) files) in
    if is_nil rest && is_nil (bins s) && (Nat.eqb (length merged) 1)
    then mk rest (bins s) (bf s) (gbs s) (job s) (outs s ++ map fst merged)
    else mk rest (add_all (bf s) merged (bins s)) (bf s) (gbs s) (job s) (outs s).

  Definition lastn {B} (n : nat) (l : list B) : list B := skipn (length l - n) l.

  (** the [while self._num_vdses > 0 and remaining > 0] loop of _step_vdses *)
  Fixpoint take_more (b : Z) (bs : bins_t) (files : list md) : list md * bins_t :=
    match bs with
    | [] => (files, [])
    | (k, l) :: rest =>
        let remaining := b - Z.of_nat (length files) in
        if remaining <=? 0 then (files, bs)
        else if Z.of_nat (length l) <=? remaining then take_more b rest (l ++ files)
        else (lastn (Z.to_nat remaining) l ++ files,
              (k, firstn (length l - Z.to_nat remaining) l) :: rest)
    end.

  Definition merge_md (files : list md) : md := (concat (map fst files), zsum snd files).

  Definition step_vdses (s : state) : state :=
    match bins s with
    | [] => s
    | (k0, l0) :: rest0 =>
        let b := Z.to_nat (bf s) in
        let files0 := firstn b l0 in
        let bins1 := if Nat.eqb (length files0) (length l0) then rest0 else (k0, skipn b l0) :: rest0 in
        let '(files, bins2) := take_more (bf s) bins1 files0 in
        let new := merge_md files in
        if is_nil (gvcfs s) && is_nil bins2
        then mk (gvcfs s) bins2 (bf s) (gbs s) (job s) (outs s ++ [fst new])
        else
          let nb := bin_of (snd new) (bf s) in
          let nb := if nb <=? k0 then k0 + 1 else nb in
          mk (gvcfs s) (insert_bin nb new bins2) (bf s) (gbs s) (job s) (outs s)
    end.

  Definition step (s : state) : state :=
    if finished s then s
    else
      let s' := if negb (is_nil (gvcfs s)) then step_gvcfs s else step_vdses s in
      if finished s' then s' else mk (gvcfs s') (bins s') (bf s') (gbs s') (job s' + 1) (outs s').

  (** to_dict: [md for i in sorted(self._vdses, reverse=True) for md in self._vdses[i]] *)
  Definition flatten (bs : bins_t) : list md := concat (map snd (rev bs)).

  (** load(save(s)): the constructor re-bins every dataset by its sample count; _job_id restarts at 1. *)
  Definition reload (s : state) : state :=
    mk (gvcfs s) (add_all (bf s) (flatten (bins s)) []) (bf s) (gbs s) 1 (outs s).

  (** new_combiner(..., branch_factor=b, gvcf_batch_size=g) on an existing plan overrides both after loading *)
  Definition resume (b g : Z) (s : state) : state :=
    let s' := reload s in mk (gvcfs s') (bins s') b g (job s') (outs s').

  (** VariantDatasetCombiner(gvcfs=.., vdses=.., branch_factor=b, gvcf_batch_size=g) *)
  Definition init (gv : list A) (vd : list md) (b g : Z) : state :=
    mk gv (add_all b vd []) b g 1 [].

  Definition apply_event (s : state) (e : event) : state :=
    match e with EStep => step s | EResume b g => resume b g s end.

  Definition exec (evs : list event) (s : state) : state := fold_left apply_event evs s.

  (** run(): [while not finished: save(); step()] — [n] iterations *)
  Fixpoint run (n : nat) (s : state) : state :=
    match n with O => s | S n' => run n' (step s) end.

  (** measures and observations *)
  Definition n_vdses (bs : bins_t) : nat := length (concat (map snd bs)).
  Definition mu (s : state) : nat := 2 * length (gvcfs s) + n_vdses (bins s).
  Definition pending (s : state) : list A :=
    gvcfs s ++ concat (map fst (concat (map snd (bins s)))).
  Definition n_steps (evs : list event) : nat :=
    length (filter (fun e => match e with EStep => true | _ => false end) evs).

  (** the whole observable plan, used by the correspondence *)
  Definition observe (s : state) :=
    (gvcfs s, bins s, (bf s, gbs s, job s), outs s, finished s).
  Definition trace (evs : list event) (s : state) :=
    map observe (snd (fold_left (fun '(s, acc) e => let s' := apply_event s e in (s', acc ++ [s'])) evs (s, [s]))).
End Combiner.

Arguments mk {A}.
