(** C38 — proofs, part 2: the merge plan.  Everything is proved for an arbitrary binning function [bin_of]
    (the float [floor(log(n, b))]), arbitrary input identities [A], and arbitrary schedules of steps and resumes. *)
From HailV Require Import Common.Prelude Combiner.Model.
From Coq Require Import Permutation.
Open Scope Z_scope.

Section Plan.
  Context {A : Type}.
  Variable bin_of : Z -> Z -> Z.

  Notation md := (@md A).
  Notation bins_t := (@bins_t A).
  Notation state := (@state A).

  Definition provs (l : list md) : list A := concat (map fst l).
  Definition all_mds (bs : bins_t) : list md := concat (map snd bs).
  Definition wf_bins (bs : bins_t) : Prop := Forall (fun kl => snd kl <> []) bs.
  Definition valid (s : state) : Prop := 2 <= bf s /\ 1 <= gbs s /\ wf_bins (bins s).
  Definition ev_ok (e : event) : Prop := match e with EStep => True | EResume b g => 2 <= b /\ 1 <= g end.
  Definition total (s : state) : list A := pending s ++ concat (outs s).

  Lemma pending_eq s : pending s = gvcfs s ++ provs (all_mds (bins s)).
  Proof. reflexivity. Qed.

  Lemma mu_eq s : mu s = (2 * length (gvcfs s) + length (all_mds (bins s)))%nat.
  Proof. reflexivity. Qed.

  (* ---------------------------------------------------------------- generic list facts *)
  Lemma provs_app l1 l2 : provs (l1 ++ l2) = provs l1 ++ provs l2.
  Proof. unfold provs. rewrite map_app, concat_app. reflexivity. Qed.

  Lemma provs_perm l1 l2 : Permutation l1 l2 -> Permutation (provs l1) (provs l2).
  Proof.
    intros H. unfold provs. rewrite <- !flat_map_concat_map. apply Permutation_flat_map. exact H.
  Qed.

  Lemma concat_rev_perm {B} (L : list (list B)) : Permutation (concat (rev L)) (concat L).
  Proof.
    induction L as [|x L IH]; cbn [rev concat]; [constructor|].
    rewrite concat_app. cbn [concat]. rewrite app_nil_r.
    etransitivity; [apply Permutation_app_comm|]. apply Permutation_app_head. exact IH.
  Qed.

  Lemma is_nil_true {B} (l : list B) : is_nil l = true <-> l = [].
  Proof. destruct l; cbn; split; congruence. Qed.

  Lemma is_nil_false {B} (l : list B) : is_nil l = false <-> l <> [].
  Proof. destruct l; cbn; split; congruence. Qed.

  Lemma wf_all_mds_nil bs : wf_bins bs -> all_mds bs = [] -> bs = [].
  Proof.
    intros Hwf H. destruct bs as [|[k l] r]; [reflexivity|].
    inversion Hwf as [|? ? Hl _]; subst. cbn in Hl, H. destruct l; [congruence | discriminate].
  Qed.

  Lemma finished_mu s : wf_bins (bins s) -> (finished s = true <-> mu s = 0%nat).
  Proof.
    intros Hwf. unfold finished. rewrite mu_eq. rewrite andb_true_iff, !is_nil_true. split.
    - intros [-> ->]. reflexivity.
    - intros H. assert (H1 : length (gvcfs s) = 0%nat) by lia. assert (H2 : length (all_mds (bins s)) = 0%nat) by lia.
      apply length_zero_iff_nil in H1, H2. split; [exact H1|]. apply wf_all_mds_nil; assumption.
  Qed.

  (* ---------------------------------------------------------------- insert_bin / add_all *)
  Lemma insert_bin_perm k m bs : Permutation (all_mds (insert_bin k m bs)) (m :: all_mds bs).
  Proof.
    induction bs as [|[k' l] r IH]; cbn [insert_bin].
    - reflexivity.
    - destruct (k <? k'); [reflexivity|]. destruct (k =? k').
      + unfold all_mds; cbn [map concat snd]. rewrite <- app_assoc. cbn [app].
        symmetry. apply Permutation_middle.
      + unfold all_mds in *; cbn [map concat snd].
        etransitivity; [apply Permutation_app_head; exact IH|].
        symmetry. apply Permutation_middle.
  Qed.

  Lemma insert_bin_wf k m bs : wf_bins bs -> wf_bins (insert_bin k m bs).
  Proof.
    unfold wf_bins. induction bs as [|[k' l] r IH]; intros H; cbn [insert_bin].
    - constructor; [cbn; discriminate | constructor].
    - inversion H as [|? ? Hl Hr]; subst.
      destruct (k <? k'); [constructor; [cbn; discriminate | exact H]|].
      destruct (k =? k').
      + constructor; [|exact Hr]. cbn [snd]. destruct l; cbn; discriminate.
      + constructor; [exact Hl | apply IH; exact Hr].
  Qed.

  Lemma add_all_perm b ms : forall bs, Permutation (all_mds (add_all bin_of b ms bs)) (ms ++ all_mds bs).
  Proof.
    unfold add_all. induction ms as [|m ms IH]; intros bs; cbn [fold_left app]; [reflexivity|].
    etransitivity; [apply IH|].
    etransitivity; [apply Permutation_app_head; apply insert_bin_perm|].
    symmetry. apply Permutation_middle.
  Qed.

  Lemma add_all_wf b ms : forall bs, wf_bins bs -> wf_bins (add_all bin_of b ms bs).
  Proof.
    unfold add_all. induction ms as [|m ms IH]; intros bs H; cbn [fold_left]; [exact H|].
    apply IH. apply insert_bin_wf. exact H.
  Qed.

  (* ---------------------------------------------------------------- chunks *)
  Lemma chunks_spec (b : nat) : (1 <= b)%nat -> forall fuel (l : list A), (length l <= fuel)%nat ->
    concat (chunks fuel b l) = l /\ (length (chunks fuel b l) <= length l)%nat /\ (l <> [] -> chunks fuel b l <> []).
  Proof.
    intros Hb. induction fuel as [|fuel IH]; intros l Hl.
    - destruct l; [|cbn in Hl; lia]. cbn. repeat split; [lia | congruence].
    - destruct l as [|x l']; [cbn; repeat split; [lia | congruence]|].
      cbn [chunks]. set (l := x :: l') in *.
      assert (Hsk : (length (skipn b l) <= fuel)%nat).
      { rewrite skipn_length. unfold l in *. cbn [length] in *. lia. }
      destruct (IH (skipn b l) Hsk) as [H1 [H2 _]].
      cbn [concat length]. rewrite H1, firstn_skipn. split; [reflexivity|]. split; [|discriminate].
      rewrite skipn_length in H2. unfold l in *. cbn [length] in *. lia.
  Qed.

  (* ---------------------------------------------------------------- _step_gvcfs *)
  Definition step_post (s s' : state) : Prop :=
    valid s' /\ Permutation (total s') (total s) /\ (mu s' < mu s)%nat /\ bf s' = bf s /\ gbs s' = gbs s /\
    ((finished s' = true /\ exists p, outs s' = outs s ++ [p]) \/ (finished s' = false /\ outs s' = outs s)).

  Lemma step_gvcfs_post s : valid s -> gvcfs s <> [] -> step_post s (step_gvcfs bin_of s).
  Proof.
    intros [Hb [Hg Hwf]] Hne. unfold step_gvcfs. cbv zeta.
    set (k := Z.to_nat (gbs s * bf s)).
    set (files := firstn k (gvcfs s)). set (rest := skipn k (gvcfs s)).
    set (ch := chunks (length files) (Z.to_nat (bf s)) files).
    remember (map (fun c : list A => (c, Z.of_nat (length c))) ch) as merged eqn:Emerged.
    assert (Hk : (1 <= k)%nat) by (unfold k; nia).
    assert (Hsplit : gvcfs s = files ++ rest) by (symmetry; apply firstn_skipn).
    assert (Hfne : files <> []).
    { unfold files. destruct (gvcfs s); [congruence|]. destruct k; [lia|]. cbn; discriminate. }
    destruct (chunks_spec (Z.to_nat (bf s)) ltac:(lia) (length files) files ltac:(lia)) as [Hcat [Hlen Hchne]].
    fold ch in Hcat, Hlen, Hchne. specialize (Hchne Hfne).
    assert (Hprov : provs merged = files).
    { unfold provs. rewrite Emerged, map_map. cbn [fst]. rewrite map_id. exact Hcat. }
    assert (Hmlen : length merged = length ch) by (rewrite Emerged; apply map_length).
    assert (Hflen : (1 <= length files)%nat) by (destruct files; [congruence | cbn; lia]).
    assert (Hglen : length (gvcfs s) = (length files + length rest)%nat) by (rewrite Hsplit, app_length; reflexivity).
    match goal with |- context [if ?c then _ else _] => destruct c eqn:Hfin end.
    - (* the single merged dataset is the final output *)
      apply andb_true_iff in Hfin as [Hfin H1]. apply andb_true_iff in Hfin as [Hr Hbins].
      apply is_nil_true in Hr, Hbins. apply Nat.eqb_eq in H1.
      destruct merged as [|m [|? ?]]; try (cbn in H1; lia).
      assert (Hm : fst m = files) by (rewrite <- Hprov; unfold provs; cbn; rewrite app_nil_r; reflexivity).
      split; [|split; [|split; [|split; [|split]]]]; cbn [gvcfs bins bf gbs job outs].
      + unfold valid; cbn [gvcfs bins bf gbs job outs]. auto.
      + unfold total, pending; cbn [gvcfs bins bf gbs job outs].
        rewrite Hsplit, Hr, Hbins, concat_app. cbn [map concat fst app]. rewrite Hm, !app_nil_r.
        apply Permutation_app_comm.
      + rewrite !mu_eq; cbn [gvcfs bins bf gbs job outs]. rewrite Hr, Hbins, Hglen. cbn. lia.
      + reflexivity.
      + reflexivity.
      + left. split; [unfold finished; cbn [gvcfs bins]; rewrite Hr, Hbins; reflexivity|].
        exists (fst m). reflexivity.
    - (* the merged datasets are filed in their bins *)
      assert (Hperm := add_all_perm (bf s) merged (bins s)).
      assert (Hmne : merged <> []) by (intros E; rewrite E in Hmlen; destruct ch; [congruence | discriminate]).
      assert (Hne' : add_all bin_of (bf s) merged (bins s) <> []).
      { intros E. rewrite E in Hperm. apply Permutation_nil in Hperm. destruct merged; [congruence | discriminate]. }
      split; [|split; [|split; [|split; [|split]]]]; cbn [gvcfs bins bf gbs job outs].
      + unfold valid; cbn [gvcfs bins bf gbs job outs]. repeat split; auto. apply add_all_wf; exact Hwf.
      + unfold total. rewrite !pending_eq; cbn [gvcfs bins bf gbs job outs].
        apply Permutation_app_tail.
        rewrite Hsplit.
        etransitivity; [apply Permutation_app_head; apply provs_perm; exact Hperm|].
        rewrite provs_app, Hprov.
        rewrite <- app_assoc. apply Permutation_app_swap_app.
      + rewrite !mu_eq; cbn [gvcfs bins bf gbs job outs].
        rewrite (Permutation_length Hperm), app_length. unfold Model.md in *. lia.
      + reflexivity.
      + reflexivity.
      + right. split; [|reflexivity].
        unfold finished; cbn [gvcfs bins]. apply andb_false_iff. right. apply is_nil_false. exact Hne'.
  Qed.

  (* ---------------------------------------------------------------- _step_vdses *)
  Lemma lastn_firstn {B} n (l : list B) : Permutation (lastn n l ++ firstn (length l - n) l) l.
  Proof. unfold lastn. etransitivity; [apply Permutation_app_comm|]. rewrite firstn_skipn. reflexivity. Qed.

  Lemma take_more_spec b : forall bs files files' bs',
    take_more b bs files = (files', bs') ->
    Permutation (files' ++ all_mds bs') (files ++ all_mds bs) /\
    (wf_bins bs -> wf_bins bs') /\
    (bs' <> [] -> b <= Z.of_nat (length files')).
  Proof.
    induction bs as [|[k l] rest IH]; intros files files' bs' H; cbn [take_more] in H.
    - inversion H; subst. repeat split; [reflexivity | trivial | congruence].
    - destruct (b - Z.of_nat (length files) <=? 0) eqn:E0.
      + inversion H; subst. repeat split; [reflexivity | trivial | lia].
      + destruct (Z.of_nat (length l) <=? b - Z.of_nat (length files)) eqn:E1.
        * destruct (IH _ _ _ H) as [P [W Hb]]. split; [|split].
          -- etransitivity; [exact P|]. unfold all_mds; cbn [map concat snd].
             rewrite <- app_assoc. apply Permutation_app_swap_app.
          -- intros Hwf. apply W. inversion Hwf; assumption.
          -- exact Hb.
        * inversion H; subst; clear H.
          set (r := Z.to_nat (b - Z.of_nat (length files))) in *.
          assert (Hr : (r < length l)%nat) by (unfold r; lia).
          split; [|split].
          -- unfold all_mds; cbn [map concat snd]. fold (all_mds rest).
             rewrite <- app_assoc.
             etransitivity; [apply Permutation_app_swap_app|].
             apply Permutation_app_head. rewrite app_assoc. apply Permutation_app_tail.
             apply lastn_firstn.
          -- intros Hwf. inversion Hwf as [|? ? Hl Hrest]; subst. constructor; [|exact Hrest].
             cbn [snd]. intros E. apply (f_equal (@length _)) in E. rewrite firstn_length in E. cbn in E. lia.
          -- intros _. rewrite app_length. unfold lastn. rewrite skipn_length. unfold r. lia.
  Qed.

  Lemma provs_merge files : provs [merge_md files] = provs files.
  Proof. unfold provs, merge_md; cbn [map fst concat]. apply app_nil_r. Qed.

  Lemma step_vdses_post s : valid s -> gvcfs s = [] -> bins s <> [] -> step_post s (step_vdses bin_of s).
  Proof.
    intros [Hb [Hg Hwf]] Hgv Hbne. unfold step_vdses.
    destruct (bins s) as [|[k0 l0] rest0] eqn:Ebins; [congruence|]. cbv zeta.
    inversion Hwf as [|? ? Hl0 Hrest0]; subst. cbn [snd] in Hl0.
    set (B := Z.to_nat (bf s)).
    set (files0 := firstn B l0).
    remember (if Nat.eqb (length files0) (length l0) then rest0 else (k0, skipn B l0) :: rest0) as bins1 eqn:Ebins1.
    assert (H1 : files0 ++ all_mds bins1 = all_mds ((k0, l0) :: rest0) /\ wf_bins bins1).
    { rewrite Ebins1. destruct (Nat.eqb (length files0) (length l0)) eqn:E.
      - apply Nat.eqb_eq in E. unfold files0 in *. rewrite firstn_length in E.
        rewrite firstn_all2 by lia. split; [reflexivity | exact Hrest0].
      - apply Nat.eqb_neq in E. unfold files0 in *. rewrite firstn_length in E.
        split.
        + unfold all_mds; cbn [map concat snd]. rewrite app_assoc, firstn_skipn. reflexivity.
        + constructor; [|exact Hrest0]. cbn [snd]. intros E'. apply (f_equal (@length _)) in E'.
          rewrite skipn_length in E'. cbn in E'. lia. }
    destruct H1 as [Hsplit Hwf1].
    assert (Hall1 : (1 <= length (all_mds ((k0, l0) :: rest0)))%nat).
    { unfold all_mds; cbn [map concat snd]. rewrite app_length. destruct l0; [congruence | cbn [length]; lia]. }
    assert (Hf0 : (1 <= length files0)%nat).
    { unfold files0. rewrite firstn_length. destruct l0; [congruence|]. cbn [length]. unfold B. lia. }
    destruct (take_more (bf s) bins1 files0) as [files bins2] eqn:Etm.
    destruct (take_more_spec _ _ _ _ _ Etm) as [P [W Hfull]]. specialize (W Hwf1).
    rewrite Hsplit in P.
    assert (Hlen := Permutation_length P). rewrite !app_length in Hlen.
    assert (PP : Permutation (provs files ++ provs (all_mds bins2)) (provs (all_mds ((k0, l0) :: rest0)))).
    { rewrite <- provs_app. apply provs_perm. exact P. }
    match goal with |- context [if ?c then _ else _] => destruct c eqn:Hfin end.
    - apply andb_true_iff in Hfin as [_ H2]. apply is_nil_true in H2. subst bins2.
      split; [|split; [|split; [|split; [|split]]]]; cbn [gvcfs bins bf gbs job outs].
      + unfold valid; cbn [gvcfs bins bf gbs job outs]. repeat split; auto.
      + unfold total. rewrite !pending_eq; cbn [gvcfs bins bf gbs job outs]. rewrite Ebins, Hgv.
        cbn [app]. rewrite concat_app. cbn [concat merge_md fst]. rewrite app_nil_r.
        fold (provs files). cbn [all_mds map concat provs] in PP |- *. rewrite app_nil_r in PP.
        cbn [app]. etransitivity; [apply Permutation_app_comm|]. apply Permutation_app_tail. exact PP.
      + rewrite !mu_eq; cbn [gvcfs bins bf gbs job outs]. rewrite Ebins, Hgv.
        change (all_mds (@nil (Z * list md))) with (@nil md) in *. cbn [length] in *. unfold Model.md in *. lia.
      + reflexivity.
      + reflexivity.
      + left. split; [unfold finished; cbn [gvcfs bins]; rewrite Hgv; reflexivity|]. eexists; reflexivity.
    - assert (Hb2 : bins2 <> []).
      { apply andb_false_iff in Hfin as [H|H]; [rewrite Hgv in H; discriminate | apply is_nil_false; exact H]. }
      specialize (Hfull Hb2).
      set (new := merge_md files).
      match goal with |- context [insert_bin ?x new bins2] => set (nb := x) end.
      assert (Pi := insert_bin_perm nb new bins2).
      assert (Hne' : insert_bin nb new bins2 <> []).
      { intros E. rewrite E in Pi. apply Permutation_nil in Pi. discriminate. }
      split; [|split; [|split; [|split; [|split]]]]; cbn [gvcfs bins bf gbs job outs].
      + unfold valid; cbn [gvcfs bins bf gbs job outs]. repeat split; auto. apply insert_bin_wf; exact W.
      + unfold total. rewrite !pending_eq; cbn [gvcfs bins bf gbs job outs]. rewrite Ebins.
        apply Permutation_app_tail. apply Permutation_app_head.
        etransitivity; [apply provs_perm; exact Pi|].
        change (new :: all_mds bins2) with ([new] ++ all_mds bins2).
        rewrite provs_app. unfold new. rewrite provs_merge. exact PP.
      + rewrite !mu_eq; cbn [gvcfs bins bf gbs job outs]. rewrite Ebins.
        rewrite (Permutation_length Pi). cbn [length]. unfold Model.md in *. lia.
      + reflexivity.
      + reflexivity.
      + right. split; [|reflexivity].
        unfold finished; cbn [gvcfs bins]. apply andb_false_iff. right. apply is_nil_false. exact Hne'.
  Qed.

  (* ---------------------------------------------------------------- step *)
  Lemma step_post_step (s : state) : valid s -> finished s = false -> step_post s (step bin_of s).
  Proof.
    intros Hv Hf. unfold step. rewrite Hf.
    assert (Hp : step_post s (if negb (is_nil (gvcfs s)) then step_gvcfs bin_of s else step_vdses bin_of s)).
    { destruct (is_nil (gvcfs s)) eqn:E; cbn [negb].
      - apply is_nil_true in E. apply step_vdses_post; auto.
        unfold finished in Hf. rewrite E in Hf. cbn [is_nil andb] in Hf. apply is_nil_false. exact Hf.
      - apply step_gvcfs_post; auto. apply is_nil_false; exact E. }
    match goal with |- context [if finished ?x then _ else _] => set (s' := x) in * end.
    destruct (finished s') eqn:Ef; [exact Hp|]. exact Hp.
  Qed.

  Lemma step_finished (s : state) : finished s = true -> step bin_of s = s.
  Proof. intros H. unfold step. rewrite H. reflexivity. Qed.

  (* ---------------------------------------------------------------- save / load *)
  Lemma flatten_perm bs : Permutation (flatten bs) (all_mds bs).
  Proof. unfold flatten, all_mds. rewrite map_rev. apply concat_rev_perm. Qed.

  Lemma bool_eq_iff (a b : bool) : (a = true <-> b = true) -> a = b.
  Proof. destruct a, b; intros [H1 H2]; try reflexivity; [symmetry; apply H1 | apply H2]; reflexivity. Qed.

  Lemma resume_post b g (s : state) : valid s -> 2 <= b -> 1 <= g ->
    valid (resume bin_of b g s) /\ Permutation (total (resume bin_of b g s)) (total s) /\
    mu (resume bin_of b g s) = mu s /\ outs (resume bin_of b g s) = outs s /\
    finished (resume bin_of b g s) = finished s.
  Proof.
    intros [Hb [Hg Hwf]] Hb' Hg'.
    assert (Hwf' : wf_bins (add_all bin_of (bf s) (flatten (bins s)) [])) by (apply add_all_wf; constructor).
    assert (P : Permutation (all_mds (add_all bin_of (bf s) (flatten (bins s)) [])) (all_mds (bins s))).
    { etransitivity; [apply add_all_perm|]. cbn [all_mds map concat]. rewrite app_nil_r. apply flatten_perm. }
    assert (Hmu : mu (resume bin_of b g s) = mu s).
    { rewrite !mu_eq. unfold resume, reload; cbn [gvcfs bins bf gbs job outs]. rewrite (Permutation_length P). reflexivity. }
    assert (Hv : valid (resume bin_of b g s)).
    { unfold valid, resume, reload; cbn [gvcfs bins bf gbs job outs]. auto. }
    split; [exact Hv|]. split; [|split; [exact Hmu|split; [reflexivity|]]].
    - unfold total. rewrite !pending_eq. unfold resume, reload; cbn [gvcfs bins bf gbs job outs].
      apply Permutation_app_tail. apply Permutation_app_head. apply provs_perm. exact P.
    - apply bool_eq_iff. rewrite (finished_mu _ Hwf). destruct Hv as [_ [_ Hw]]. rewrite (finished_mu _ Hw).
      rewrite Hmu. reflexivity.
  Qed.

  (* ---------------------------------------------------------------- schedules *)
  Definition Inv (inputs : list A) (s : state) : Prop :=
    valid s /\ Permutation (total s) inputs /\ (if finished s then exists p, outs s = [p] else outs s = []).

  Lemma inv_event inputs e (s : state) : ev_ok e -> Inv inputs s -> Inv inputs (apply_event bin_of s e).
  Proof.
    intros He [Hv [Hp Ho]]. destruct e as [|b g]; cbn [apply_event].
    - destruct (finished s) eqn:Hf.
      + rewrite (step_finished _ Hf). unfold Inv. rewrite Hf. auto.
      + destruct (step_post_step s Hv Hf) as (V & P & _ & _ & _ & D).
        split; [exact V|]. split; [etransitivity; eassumption|].
        destruct D as [[F [p Hp']] | [F Hp']]; rewrite F.
        * exists p. rewrite Hp', Ho. reflexivity.
        * rewrite Hp'. exact Ho.
    - destruct He as [Hb Hg]. destruct (resume_post b g s Hv Hb Hg) as (V & P & _ & O & F).
      split; [exact V|]. split; [etransitivity; eassumption|]. rewrite F, O. exact Ho.
  Qed.

  Lemma mu_event e (s : state) : ev_ok e -> valid s ->
    valid (apply_event bin_of s e) /\
    match e with
    | EStep => (mu (apply_event bin_of s e) <= mu s - 1)%nat
    | EResume _ _ => mu (apply_event bin_of s e) = mu s
    end.
  Proof.
    intros He Hv. destruct e as [|b g]; cbn [apply_event].
    - destruct (finished s) eqn:Hf.
      + rewrite (step_finished _ Hf). split; [exact Hv|].
        destruct Hv as [_ [_ Hw]]. apply (finished_mu _ Hw) in Hf. lia.
      + destruct (step_post_step s Hv Hf) as (V & _ & M & _). split; [exact V | lia].
    - destruct He as [Hb Hg]. destruct (resume_post b g s Hv Hb Hg) as (V & _ & M & _). auto.
  Qed.

  Lemma exec_cons e evs (s : state) : exec bin_of (e :: evs) s = exec bin_of evs (apply_event bin_of s e).
  Proof. reflexivity. Qed.

  Lemma exec_inv inputs : forall evs s, Forall ev_ok evs -> Inv inputs s -> Inv inputs (exec bin_of evs s).
  Proof.
    induction evs as [|e evs IH]; intros s Hok Hi; [exact Hi|].
    inversion Hok; subst. rewrite exec_cons. apply IH; [assumption|]. apply inv_event; assumption.
  Qed.

  Lemma exec_finished : forall evs s, Forall ev_ok evs -> valid s -> (mu s <= n_steps evs)%nat ->
    finished (exec bin_of evs s) = true.
  Proof.
    induction evs as [|e evs IH]; intros s Hok Hv Hmu.
    - change (n_steps []) with 0%nat in Hmu. destruct Hv as [_ [_ Hw]]. change (exec bin_of [] s) with s.
      apply (finished_mu _ Hw). lia.
    - inversion Hok as [|? ? He Hok']; subst. rewrite exec_cons.
      destruct (mu_event e s He Hv) as [V M]. apply IH; [exact Hok' | exact V|].
      destruct e; unfold n_steps in *; cbn [filter length] in Hmu; lia.
  Qed.

  Lemma run_exec : forall n (s : state), run bin_of n s = exec bin_of (repeat EStep n) s.
  Proof. induction n as [|n IH]; intros s; [reflexivity|]. cbn [run repeat]. rewrite exec_cons. apply IH. Qed.

  Lemma repeat_step_ok n : Forall ev_ok (repeat EStep n) /\ n_steps (repeat EStep n) = n.
  Proof.
    induction n as [|n [IH1 IH2]]; [split; [constructor | reflexivity]|].
    split; [constructor; [exact I | exact IH1]|]. unfold n_steps in *. cbn [repeat filter length]. lia.
  Qed.

  (* ---------------------------------------------------------------- the initial plan *)
  Section Init.
    Variables (gv : list A) (vd : list md) (b g : Z).
    Hypothesis Hb : 2 <= b.
    Hypothesis Hg : 1 <= g.

    Definition inputs : list A := gv ++ provs vd.

    Lemma init_valid : valid (init bin_of gv vd b g).
    Proof. unfold valid, init; cbn [gvcfs bins bf gbs job outs]. repeat split; auto. apply add_all_wf; constructor. Qed.

    Lemma init_perm : Permutation (all_mds (bins (init bin_of gv vd b g))) vd.
    Proof. unfold init; cbn [bins]. etransitivity; [apply add_all_perm|]. cbn [all_mds map concat]. rewrite app_nil_r. reflexivity. Qed.

    Lemma init_mu : mu (init bin_of gv vd b g) = (2 * length gv + length vd)%nat.
    Proof. rewrite mu_eq. rewrite (Permutation_length init_perm). reflexivity. Qed.

    Lemma init_inv : (gv <> [] \/ vd <> []) -> Inv inputs (init bin_of gv vd b g).
    Proof.
      intros Hne. split; [exact init_valid|]. split.
      - unfold total. rewrite pending_eq. cbn [init gvcfs outs concat]. rewrite app_nil_r.
        apply Permutation_app_head. apply provs_perm. exact init_perm.
      - assert (Hf : finished (init bin_of gv vd b g) = false).
        { destruct (finished (init bin_of gv vd b g)) eqn:E; [|reflexivity]. exfalso.
          destruct init_valid as [_ [_ Hw]]. apply (finished_mu _ Hw) in E. rewrite init_mu in E.
          destruct Hne as [H|H]; [destruct gv | destruct vd]; cbn [length] in E; try congruence; lia. }
        rewrite Hf. reflexivity.
    Qed.

    (** Termination: any schedule with at least 2*#gvcfs + #vdses steps (and any number of resumes) ends finished. *)
    Theorem plan_terminates evs : Forall ev_ok evs -> (2 * length gv + length vd <= n_steps evs)%nat ->
      finished (exec bin_of evs (init bin_of gv vd b g)) = true.
    Proof. intros Hok Hn. apply exec_finished; [exact Hok | exact init_valid | rewrite init_mu; exact Hn]. Qed.

    Theorem run_terminates : finished (run bin_of (2 * length gv + length vd) (init bin_of gv vd b g)) = true.
    Proof.
      rewrite run_exec. destruct (repeat_step_ok (2 * length gv + length vd)) as [H1 H2].
      apply plan_terminates; [exact H1 | rewrite H2; lia].
    Qed.

    (** Each input exactly once, at every point of every schedule; one final dataset exactly when finished. *)
    Theorem plan_each_input_once evs : (gv <> [] \/ vd <> []) -> Forall ev_ok evs ->
      let s := exec bin_of evs (init bin_of gv vd b g) in
      Permutation (pending s ++ concat (outs s)) inputs /\
      (finished s = true -> exists p, outs s = [p] /\ Permutation p inputs) /\
      (finished s = false -> outs s = []).
    Proof.
      intros Hne Hok s. destruct (exec_inv inputs evs _ Hok (init_inv Hne)) as [Hv [Hp Ho]]. fold s in Hv, Hp, Ho.
      split; [exact Hp|]. split; intros Hf; rewrite Hf in Ho; [|exact Ho].
      destruct Ho as [p Ho]. exists p. split; [exact Ho|].
      unfold total in Hp. rewrite Ho in Hp. cbn [concat] in Hp. rewrite app_nil_r in Hp.
      unfold finished in Hf. apply andb_true_iff in Hf as [H1 H2]. apply is_nil_true in H1, H2.
      unfold pending in Hp. rewrite H1, H2 in Hp. cbn in Hp. exact Hp.
    Qed.

    (** Resume equivalence: whatever the save/resume points and re-parameterisations, the final dataset is built
        from the same inputs as that of any other schedule (in particular the uninterrupted run). *)
    Theorem plan_resume_equiv evs1 evs2 : (gv <> [] \/ vd <> []) -> Forall ev_ok evs1 -> Forall ev_ok evs2 ->
      let s1 := exec bin_of evs1 (init bin_of gv vd b g) in
      let s2 := exec bin_of evs2 (init bin_of gv vd b g) in
      finished s1 = true -> finished s2 = true ->
      exists p1 p2, outs s1 = [p1] /\ outs s2 = [p2] /\ Permutation p1 p2.
    Proof.
      intros Hne H1 H2 s1 s2 F1 F2.
      destruct (plan_each_input_once evs1 Hne H1) as [_ [A1 _]]. destruct (plan_each_input_once evs2 Hne H2) as [_ [A2 _]].
      destruct (A1 F1) as [p1 [O1 P1]]. destruct (A2 F2) as [p2 [O2 P2]].
      exists p1, p2. split; [exact O1|]. split; [exact O2|]. etransitivity; [exact P1 | symmetry; exact P2].
    Qed.
  End Init.

  (* ---------------------------------------------------------------- model faithfulness: bins stay sorted *)
  Definition keys (bs : bins_t) : list Z := map fst bs.
  Fixpoint asc (l : list Z) : Prop :=
    match l with [] => True | x :: r => (forall y, In y r -> x < y) /\ asc r end.

  Lemma insert_bin_keys k m bs y : In y (keys (insert_bin k m bs)) <-> y = k \/ In y (keys bs).
  Proof.
    induction bs as [|[k' l] r IH]; cbn [insert_bin keys map fst In].
    - intuition.
    - destruct (k <? k') eqn:E1; [cbn [keys map fst In]; intuition|].
      destruct (k =? k') eqn:E2; cbn [keys map fst In] in *.
      + apply Z.eqb_eq in E2. subst. intuition.
      + rewrite IH. intuition.
  Qed.

  Lemma insert_bin_asc k m bs : asc (keys bs) -> asc (keys (insert_bin k m bs)).
  Proof.
    induction bs as [|[k' l] r IH]; intros H; cbn [insert_bin].
    - cbn. split; [intros y []| exact I].
    - cbn [keys map fst asc] in H. destruct H as [H1 H2].
      destruct (k <? k') eqn:E1.
      + apply Z.ltb_lt in E1. cbn [keys map fst asc]. split; [|split; assumption].
        intros y [<- | Hy]; [exact E1 | specialize (H1 y Hy); lia].
      + apply Z.ltb_ge in E1. destruct (k =? k') eqn:E2.
        * cbn [keys map fst asc]. split; assumption.
        * apply Z.eqb_neq in E2. cbn [keys map fst asc]. split; [|apply IH; exact H2].
          intros y Hy. apply insert_bin_keys in Hy. destruct Hy as [-> | Hy]; [lia | apply H1; exact Hy].
  Qed.

  Lemma add_all_asc b ms : forall bs, asc (keys bs) -> asc (keys (add_all bin_of b ms bs)).
  Proof.
    unfold add_all. induction ms as [|m ms IH]; intros bs H; cbn [fold_left]; [exact H|].
    apply IH. apply insert_bin_asc. exact H.
  Qed.

  Lemma asc_tail x l : asc (x :: l) -> asc l.
  Proof. cbn. tauto. Qed.

  Lemma take_more_asc b : forall bs files files' bs',
    take_more b bs files = (files', bs') -> asc (keys bs) -> asc (keys bs').
  Proof.
    induction bs as [|[k l] rest IH]; intros files files' bs' H Hs; cbn [take_more] in H.
    - inversion H; subst. exact Hs.
    - destruct (b - Z.of_nat (length files) <=? 0); [inversion H; subst; exact Hs|].
      destruct (Z.of_nat (length l) <=? b - Z.of_nat (length files)).
      + eapply IH; [exact H|]. eapply asc_tail. exact Hs.
      + inversion H; subst. exact Hs.
  Qed.

  Lemma step_asc (s : state) : asc (keys (bins s)) -> asc (keys (bins (step bin_of s))).
  Proof.
    intros Hs. unfold step. destruct (finished s); [exact Hs|].
    assert (H : asc (keys (bins (if negb (is_nil (gvcfs s)) then step_gvcfs bin_of s else step_vdses bin_of s)))).
    { destruct (negb (is_nil (gvcfs s))).
      - unfold step_gvcfs. cbv zeta.
        match goal with |- context [if ?c then _ else _] => destruct c end; cbn [bins]; [exact Hs|].
        apply add_all_asc; exact Hs.
      - unfold step_vdses. destruct (bins s) as [|[k0 l0] rest0] eqn:E; [rewrite E; exact Hs|]. cbv zeta.
        match goal with |- context [take_more ?b ?bs ?f] => destruct (take_more b bs f) as [files bins2] eqn:Etm end.
        assert (H2 : asc (keys bins2)).
        { eapply take_more_asc; [exact Etm|].
          match goal with |- context [if ?c then _ else _] => destruct c end; [eapply asc_tail; exact Hs | exact Hs]. }
        match goal with |- context [if ?c then _ else _] => destruct c end; cbn [bins]; [exact H2|].
        apply insert_bin_asc; exact H2. }
    match goal with |- context [if finished ?x then _ else _] => destruct (finished x) end; exact H.
  Qed.

  Theorem bins_sorted gv vd b g evs : 2 <= b -> 1 <= g -> Forall ev_ok evs ->
    let s := exec bin_of evs (init bin_of gv vd b g) in
    asc (keys (bins s)) /\ Forall (fun kl => snd kl <> []) (bins s).
  Proof.
    intros Hb Hg Hok s. split.
    - subst s. assert (H0 : asc (keys (bins (init bin_of gv vd b g)))) by (cbn [init bins]; apply add_all_asc; exact I).
      revert H0. generalize (init bin_of gv vd b g). clear Hok.
      induction evs as [|e evs' IH]; intros s0 H0; [exact H0|].
      rewrite exec_cons. apply IH. destruct e; cbn [apply_event]; [apply step_asc; exact H0|].
      unfold resume, reload; cbn [bins]. apply add_all_asc; exact I.
    - assert (Hv : valid s).
      { subst s. assert (H0 := init_valid gv vd b g Hb Hg). revert H0. generalize (init bin_of gv vd b g).
        induction evs as [|e evs' IH]; intros s0 H0; [exact H0|].
        inversion Hok; subst. rewrite exec_cons. apply IH; [assumption|]. apply mu_event; assumption. }
      destruct Hv as [_ [_ Hw]]. exact Hw.
  Qed.
End Plan.

(** The hypotheses are satisfiable, and the theorems have content on a concrete plan. *)
Example plan_example :
  let binf := fun n b : Z => Z.log2 n / Z.log2 b in
  let s := run binf 7 (init binf [1; 2; 3; 4; 5] [([6], 4); ([7], 9)] 2 1) in
  finished s = true /\ outs s = [[7; 6; 1; 2; 3; 4; 5]].
Proof. vm_compute. split; reflexivity. Qed.
