(** C35 — print pass: equations for [pr], and the invariants used in the correctness proof. *)
From HailV Require Import Common.Prelude CSE.Model CSE.Basics CSE.EvalLemmas.

(** *** the print pass as explicit mutually defined pieces *)
Definition pr_child (sts : list (N * site)) (h : head) (d mbd : nat) (ctx : ctxt) (k : nat) (c : node) (bs : bstack)
  : node * bstack :=
  let mbd' := child_mbd h k d mbd in
  let ctx' := child_ctx h k d ctx in
  let bd := bind_depth c mbd' ctx' in
  match lift_target bs bd (nid c) with
  | Some name =>
    if is_visited bs bd (nid c) then (cref name, bs)
    else let '(B, bs'') := pr sts c (S d) mbd' ctx' true (bs_upd bs bd (f_mark (nid c))) in
         (cref name, bs_upd bs'' bd (f_addlet name B))
  | None => pr sts c (S d) mbd' ctx' false bs
  end.

Fixpoint prs (sts : list (N * site)) (h : head) (d mbd : nat) (ctx : ctxt) (k : nat) (cs : list node) (bs : bstack)
  : list node * bstack :=
  match cs with
  | [] => ([], bs)
  | c :: r =>
    let '(t, bs') := pr_child sts h d mbd ctx k c bs in
    let '(ts, bs'') := prs sts h d mbd ctx (S k) r bs' in
    (t :: ts, bs'')
  end.

Definition pr_ins (sts : list (N * site)) (i : N) (d : nat) (lifted : bool) : option (list (N * N)) :=
  if lifted then None else insert_site sts i d.

Lemma pr_eq sts i s h cs d mbd ctx lifted bs :
  pr sts (Node i s h cs) d mbd ctx lifted bs =
  let ins := pr_ins sts i d lifted in
  let bs1 := match ins with
             | Some tbl => bs_set bs {| bdepth := d; bnode := i; btable := tbl; bvis := []; blets := [] |}
             | None => bs end in
  let '(ts, bs2) := prs sts h d mbd ctx 0 cs bs1 in
  let T := Node i s h ts in
  match ins with
  | Some _ => match bs_get bs2 d with
              | Some F => (wrap_lets (blets F) T, bs_del bs2 d)
              | None => (T, bs2)
              end
  | None => (T, bs2)
  end.
Proof.
  cbn [pr]. unfold pr_ins.
  match goal with |- (let '(ts, bs2) := ?f 0%nat cs ?b in _) = _ =>
    assert (E : forall k bs0, f k cs bs0 = prs sts h d mbd ctx k cs bs0) end.
  { induction cs as [|c r IH]; intros k bs0; [reflexivity|].
    cbn [prs]. unfold pr_child.
    match goal with |- (let '(t, bs') := ?X in _) = _ => destruct X as [t bs'] end.
    rewrite IH. reflexivity. }
  rewrite E. reflexivity.
Qed.

Definition uvar (v : var) : Prop := match v with U _ => True | C _ => False end.

Definition names (F : bframe) : list N := map fst (blets F).

Section Inv.
  Variable R : node.
  Variable sts : list (N * site).

  Definition in_table (tbl : list (N * N)) : Prop := exists i s, In (i, s) sts /\ tbl = stable s.
  Definition name_node (n : N) (Y : node) : Prop :=
    subterm Y R /\ exists tbl, in_table tbl /\ lookup tbl (nid Y) = Some n.
  (* [e] gives every cse name in [vs] the value of the node it stands for *)
  Definition good (e : env) (vs : list var) : Prop :=
    forall n Y, In (C n) vs -> name_node n Y -> e (C n) = eval Y e.

  (* a frame at depth [dG] with table [tbl] is on the stack and has seen node id [i] *)
  Definition has_frame (bs : bstack) (dG : nat) (tbl : list (N * N)) (i : N) : Prop :=
    exists G, In G bs /\ bdepth G = dG /\ btable G = tbl /\ In i (bvis G).

  (* position of a node in the traversal *)
  Record pos := { p_mbd : nat; p_ctx : ctxt; p_fv : list var; p_sz : nat }.

  (* the cse name [m] stands for a node [D] below the position, bound in the frame at depth [dG] *)
  Definition cwit (bs : bstack) (p : pos) (m : N) (dG : nat) : Prop :=
    exists tbl D, has_frame bs dG tbl (nid D) /\ subterm D R /\ (size D < p_sz p)%nat /\
                  lookup tbl (nid D) = Some m /\ dG = bind_depth D (p_mbd p) (p_ctx p) /\ incl (fv D) (p_fv p).

  (* free variables of a rendered piece are free variables of the node, or cse names with a witness *)
  Definition fv_ok (bs : bstack) (p : pos) (T : node) : Prop :=
    forall v, In v (fv T) -> In v (p_fv p) \/ exists m dG, v = C m /\ cwit bs p m dG.

  (* facts about one let [(n, B)] appended to the frame at depth [k] whose earlier lets have names [pre] *)
  Definition let_ok (bs : bstack) (p : pos) (k : nat) (pre : list N) (n : N) (B : node) : Prop :=
    exists tbl D, has_frame bs k tbl (nid D) /\ subterm D R /\ (size D < p_sz p)%nat /\
                  lookup tbl (nid D) = Some n /\ k = bind_depth D (p_mbd p) (p_ctx p) /\ incl (fv D) (p_fv p) /\
                  (forall v, In v (fv B) ->
                     In v (fv D) \/ exists m dG, v = C m /\ cwit bs p m dG /\ (dG < k \/ (dG = k /\ In m pre))%nat) /\
                  (forall e, good e (fv B) -> eval B e = eval D e).

  Fixpoint lets_ok (bs : bstack) (p : pos) (k : nat) (pre : list N) (l : list (N * node)) : Prop :=
    match l with
    | [] => True
    | (n, B) :: l' => let_ok bs p k pre n B /\ lets_ok bs p k (pre ++ [n]) l'
    end.

  (* frame [F'] is frame [F] after some more traversal below position [p] *)
  Definition fext (bs' : bstack) (p : pos) (F F' : bframe) : Prop :=
    bdepth F' = bdepth F /\ bnode F' = bnode F /\ btable F' = btable F /\ incl (bvis F) (bvis F') /\
    exists l, blets F' = blets F ++ l /\ lets_ok bs' p (bdepth F) (names F) l.

  Definition sext (p : pos) (bs bs' : bstack) : Prop := Forall2 (fext bs' p) bs bs'.

  (* state invariant; [P]: (frame depth, node id) of the lifted nodes whose let body is being rendered *)
  Definition frame_ok (F : bframe) : Prop := exists s, In (bnode F, s) sts /\ btable F = stable s.
  Definition names_ok (P : list (nat * N)) (F : bframe) : Prop :=
    NoDup (names F) /\
    forall n, In n (names F) -> exists i, lookup (btable F) i = Some n /\ In i (bvis F) /\ ~ In (bdepth F, i) P.
  Definition vis_ok (P : list (nat * N)) (F : bframe) : Prop :=
    forall i, In i (bvis F) -> (exists n, lookup (btable F) i = Some n /\ In n (names F)) \/ In (bdepth F, i) P.

  Record inv (bs : bstack) (d sz szP : nat) (P : list (nat * N)) : Prop := {
    i_lt : forall F, In F bs -> (bdepth F < d)%nat;
    i_nd : NoDup (map bdepth bs);
    i_fr : forall F, In F bs -> frame_ok F;
    i_anc : forall F Y, In F bs -> subterm Y R -> nid Y = bnode F -> (sz < size Y)%nat;
    i_P : forall k i Y, In (k, i) P -> subterm Y R -> nid Y = i -> (szP <= size Y)%nat;
    i_Plt : forall k i, In (k, i) P -> (k < d)%nat;
    i_vis : forall F, In F bs -> vis_ok P F;
    i_names : forall F, In F bs -> names_ok P F
  }.
End Inv.
