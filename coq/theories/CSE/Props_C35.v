(** C35 — property theorems only.  The model (CSE/Model.v) is tied to hail/python/hail/ir/renderer.py by the
    correspondence run of harness/props/C35.py (real CSERenderer output read back and compared structurally). *)
From HailV Require Import Common.Prelude CSE.Model CSE.Basics CSE.PrintDefs CSE.PrintLemmas4 CSE.PrintCorrect CSE.Analysis CSE.Main
  CSE.ErrLemmas CSE.ErrStrict CSE.ErrPrint CSE.ErrMain.

(** For EVERY expression DAG of the modelled IR (literals, arithmetic, comparison, If, Let, Ref, MakeStruct/GetField,
    MakeArray/ArrayLen/ToArray/ToStream, StreamMap/StreamFilter/StreamFold with binders; arbitrary sharing, shadowing,
    free variables) and every environment, the IR with shared subexpressions lifted into let-bindings evaluates to the
    same value as the fully inlined IR (the tree itself: [eval] ignores identities).  [eval] is the TOTAL semantics (a failing
    operation yields a junk value); the semantics with errors is treated by the last three theorems. *)
Theorem C35_semantics_preserved : forall d : node, consistent d -> wf_node d = true ->
  forall rho : env, eval (cse d) rho = eval d rho.
Proof. exact cse_preserves_meaning. Qed.
Print Assumptions C35_semantics_preserved.

(** Every variable that occurs free in the rendered IR — in particular every variable used by a lifted binding at the
    place where the binding was put, and every reference to a lifted binding — is a free variable of the input:
    nothing escapes its binder and no [__cse_] reference is left unbound. *)
Theorem C35_bindings_well_scoped : forall d : node, consistent d -> wf_node d = true ->
  forall v : var, In v (fv (cse d)) -> In v (fv d).
Proof. exact cse_well_scoped. Qed.
Print Assumptions C35_bindings_well_scoped.

(** The analysis pass never hands out the same [__cse_n] twice, over all binding sites (no hypothesis at all). *)
Theorem C35_binding_names_distinct : forall d : node,
  NoDup (concat (map (fun e : N * site => map snd (stable (snd e))) (analyse d))).
Proof. exact analyse_names_distinct. Qed.
Print Assumptions C35_binding_names_distinct.

(** The print pass alone is correct for ANY table of binding sites whose names are pairwise distinct (whatever the
    analysis decided to lift, and wherever): meaning and scoping of the node being printed are preserved. *)
Theorem C35_print_pass_correct_for_any_sites : forall (d : node) (sts : list (N * site)),
  consistent d -> wf_node d = true ->
  NoDup (concat (map (fun e : N * site => map snd (stable (snd e))) sts)) ->
  forall T bs', pr sts d 0 0 [] false [] = (T, bs') ->
    bs' = [] /\ (forall v, In v (fv T) -> In v (fv d)) /\ (forall rho, eval T rho = eval d rho).
Proof. exact print_any_sites. Qed.
Print Assumptions C35_print_pass_correct_for_any_sites.

(** Semantics WITH ERRORS ([evalE]: a result is a value or [Err]; integer [//] and [%] by zero and out-of-bounds array indexing
    fail; [Let] is strict, [If] evaluates only the branch taken, a loop evaluates its body once per element, every other node
    evaluates all its children).  The full statement
        forall d, consistent d -> wf_node d = true -> forall rho, evalE (cse d) rho = evalE d rho
    is FALSE for the renderer as it is ([C35_error_semantics_refuted]): only [If] branches stop a let from being lifted, loop
    bodies do not, so a loop-invariant failing expression used twice in the body of a loop that runs zero times is evaluated
    by the rendered IR and not by the inlined IR.  What holds, for EVERY DAG and environment: if every loop-invariant
    subexpression of a loop body is free of operations that can fail ([loops_ok]; arities as the front end builds them), the
    rendered IR fails exactly when the inlined IR fails and otherwise gives the same value — every let is put at a node below
    which all its uses sit in strict positions (no untaken branch in between), so it is evaluated only if a use is. *)
Theorem C35_error_semantics_preserved_partial : forall d : node,
  consistent d -> wf_node d = true -> wf_arity d = true -> loops_ok d = true ->
  forall rho : env, evalE (cse d) rho = evalE d rho.
Proof. exact cse_preserves_errors. Qed.
Print Assumptions C35_error_semantics_preserved_partial.

Theorem C35_error_semantics_refuted :
  exists (d : node) (rho : env),
    consistent d /\ wf_node d = true /\ wf_arity d = true /\ loops_ok d = false /\
    evalE d rho = Val (VArr []) /\ evalE (cse d) rho = Err.
Proof. exact error_semantics_refuted. Qed.
Print Assumptions C35_error_semantics_refuted.

(** The semantics with errors is the total value of [eval] plus an error flag (no hypothesis): the first theorem of this file
    and [C35_error_semantics_preserved_partial] speak about the same values. *)
Theorem C35_error_semantics_is_value_plus_flag : forall (t : node) (rho : env),
  evalE t rho = if errsE t rho (fun _ => false) then Err else Val (eval t rho).
Proof. exact evalE_value_plus_flag. Qed.
Print Assumptions C35_error_semantics_is_value_plus_flag.
