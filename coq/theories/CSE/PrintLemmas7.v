(** C35 — print pass, part 7: all children of a node. *)
From HailV Require Import Common.Prelude CSE.Model CSE.Basics CSE.EvalLemmas CSE.PrintDefs
  CSE.PrintLemmas1 CSE.PrintLemmas2 CSE.PrintLemmas3 CSE.PrintLemmas4 CSE.PrintLemmas5 CSE.PrintLemmas6.

Lemma nth_error_mid {A} (pre : list A) c r : nth_error (pre ++ c :: r) (length pre) = Some c.
Proof. induction pre; cbn; auto. Qed.

Lemma fv_node_nonref i s h cs : is_ref h = false -> fv (Node i s h cs) = fv_children h 0 cs.
Proof. intro H; rewrite fv_node; destruct h; try reflexivity; discriminate H. Qed.
Lemma eval_crel_nonref i s j s' h ts es e e' :
  is_ref h = false -> crel h 0 ts es e e' -> eval (Node i s h ts) e = eval (Node j s' h es) e'.
Proof. intros H Hc; apply eval_crel; destruct h; try exact Hc; discriminate H. Qed.

Section Print7.
  Variable R : node.
  Variable sts : list (N * site).
  Hypothesis Hcons : forall Y Z, subterm Y R -> subterm Z R -> nid Y = nid Z -> Y = Z.
  Hypothesis Hnames : NoDup (concat (map (fun e : N * site => map snd (stable (snd e))) sts)).
  Hypothesis Hfu : forall Y, subterm Y R -> forall v, In v (fv Y) -> uvar v.

  Lemma child_step h d mbd ctx k c bs sz szP P t bs' :
    pr_spec R sts c -> inv R sts bs (S d) sz szP P -> subterm c R -> (size c <= sz)%nat -> (size c < szP)%nat ->
    pr_child sts h d mbd ctx k c bs = (t, bs') ->
    child_post R sts h d mbd ctx k c bs sz szP P t bs'.
  Proof.
    intros IH Hi Hc Hs1 Hs2 E. unfold pr_child in E.
    destruct (lift_target bs (bind_depth c (child_mbd h k d mbd) (child_ctx h k d ctx)) (nid c)) as [name|] eqn:El.
    - destruct (lift_target_Some _ _ _ _ El) as [F [Hg Hl]].
      unfold is_visited in E. rewrite Hg in E.
      destruct (memN (nid c) (bvis F)) eqn:Ev.
      + inversion E; subst. apply memN_In in Ev. eapply child_visited; eauto.
      + destruct (pr sts c (S d) (child_mbd h k d mbd) (child_ctx h k d ctx) true
                    (bs_upd bs (bind_depth c (child_mbd h k d mbd) (child_ctx h k d ctx)) (f_mark (nid c)))) as [B bs''] eqn:Ep.
        inversion E; subst. eapply child_lifted; eauto.
        intro Hin. apply memN_In in Hin. congruence.
    - eapply child_inline; eauto. lia.
  Qed.

  Section Loop.
    Variables (i : N) (s : bool) (h : head) (cs : list node) (d mbd : nat) (ctx : ctxt).
    Hypothesis Hnr : is_ref h = false.
    Let X := Node i s h cs.
    Let pp := ppos i s h cs mbd ctx.

    Definition cfact (bs' : bstack) (k : nat) (c t : node) : Prop :=
      (forall v, In v (fv t) -> ~ In v (binds h k) -> In v (p_fv pp) \/ exists m dG, v = C m /\ cwit R bs' pp m dG) /\
      (forall m, In (C m) (fv t) -> exists D, name_node R sts m D /\ forall y, In y (fv D) -> ~ In y (binds h k)) /\
      (forall e, good R sts e (fv t) -> eval t e = eval c e).

    Fixpoint cfacts (bs' : bstack) (k : nat) (cl tl : list node) : Prop :=
      match cl, tl with
      | [], [] => True
      | c :: cl', t :: tl' => cfact bs' k c t /\ cfacts bs' (S k) cl' tl'
      | _, _ => False
      end.

    Lemma cfact_grow bs bs' k c t : grow bs bs' -> cfact bs k c t -> cfact bs' k c t.
    Proof.
      intros Hg [H1 [H2 H3]]. split; [|split; assumption].
      intros v Hv Hb. destruct (H1 v Hv Hb) as [Ha|[m [dG [E W]]]]; [left; exact Ha|].
      right; exists m, dG; split; [exact E | eapply cwit_grow; eauto].
    Qed.
    Lemma cfacts_grow bs bs' cl : forall k tl, grow bs bs' -> cfacts bs k cl tl -> cfacts bs' k cl tl.
    Proof.
      induction cl as [|c cl IH]; intros k [|t tl] Hg H; cbn in *; try tauto.
      destruct H as [H1 H2]; split; [eapply cfact_grow; eauto | apply IH; assumption].
    Qed.

    Lemma child_fact k c bs sz szP P t bs' :
      nth_error cs k = Some c -> child_post R sts h d mbd ctx k c bs sz szP P t bs' -> subterm c R -> cfact bs' k c t.
    Proof.
      intros Hn [A1 [A2 [A3 A4]]] Hc.
      assert (Hd : forall F, In F bs' -> (bdepth F <= d)%nat).
      { intros F HF. pose proof (i_lt _ _ _ _ _ _ _ A2 F HF). lia. }
      split; [|split].
      - intros v Hv Hb. eapply fv_ok_up; eauto.
      - intros m Hm. destruct (A3 (C m) Hm) as [Ha|[m' [dG [E W]]]].
        + exfalso. apply (Hfu c Hc (C m) Ha).
        + inversion E; subst m'.
          destruct (cwit_unbound R i s h cs d mbd ctx Hnr bs' k c m dG Hn Hd W) as [tbl [D [W1 [W2 [W3 W4]]]]].
          exists D. split; [|exact W4]. split; [exact W2|]. exists tbl. split; [|exact W3].
          destruct W1 as [G [HG [_ [Et _]]]]. rewrite <- Et. eapply frame_in_table; eauto.
      - exact A4.
    Qed.

    Lemma loop cl : forall pre k bs ts bs' P,
      cs = pre ++ cl -> length pre = k ->
      Forall (pr_spec R sts) cl -> (forall c, In c cl -> subterm c R) ->
      inv R sts bs (S d) (size X - 1) (size X) P ->
      prs sts h d mbd ctx k cl bs = (ts, bs') ->
      sext R sts pp bs bs' /\ inv R sts bs' (S d) (size X - 1) (size X) P /\ cfacts bs' k cl ts.
    Proof.
      induction cl as [|c cl IH]; intros pre k bs ts bs' P Ecs Hk HF Hsub Hi E; cbn [prs] in E.
      - inversion E; subst. split; [apply sext_refl | split; [exact Hi | exact I]].
      - destruct (pr_child sts h d mbd ctx k c bs) as [t bs1] eqn:E1.
        destruct (prs sts h d mbd ctx (S k) cl bs1) as [ts' bs2] eqn:E2.
        inversion E; subst ts bs'. clear E.
        inversion HF as [|? ? Hc HF']; subst.
        assert (Hn : nth_error cs (length pre) = Some c) by (rewrite Ecs; apply nth_error_mid).
        assert (Hsz : (size c < size X)%nat).
        { apply size_child. rewrite Ecs. apply in_or_app; right; left; reflexivity. }
        assert (Hcs : subterm c R) by (apply Hsub; left; reflexivity).
        pose proof (child_step h d mbd ctx (length pre) c bs (size X - 1) (size X) P t bs1 Hc Hi Hcs ltac:(lia) Hsz E1) as CP.
        pose proof (child_fact _ _ _ _ _ _ _ _ Hn CP Hcs) as CF.
        destruct CP as [A1 [A2 [A3 A4]]].
        assert (Hd : forall F, In F bs -> (bdepth F <= d)%nat).
        { intros F HF0. pose proof (i_lt _ _ _ _ _ _ _ Hi F HF0). lia. }
        pose proof (sext_up R sts i s h cs d mbd ctx Hnr (length pre) c bs bs1 Hn Hd A1) as U1.
        destruct (IH (pre ++ [c]) (S (length pre)) bs1 ts' bs2 P) as [B1 [B2 B3]]; auto.
        + rewrite <- app_assoc. exact Ecs.
        + rewrite app_length; cbn; lia.
        + intros c' Hc'; apply Hsub; right; exact Hc'.
        + split; [eapply sext_trans; eauto | split; [exact B2|]].
          cbn [cfacts]. split; [|exact B3]. eapply cfact_grow; [|exact CF]. eapply sext_grow; eauto.
    Qed.

    (** semantics of the rebuilt node *)
    Hypothesis Hbu : forall k v, In v (binds h k) -> uvar v.

    Lemma crel_of_cfacts bs' e cl : forall k tl,
      cfacts bs' k cl tl -> good R sts e (fv_children h k tl) -> crel h k tl cl e e.
    Proof.
      induction cl as [|c cl IH]; intros k [|t tl] H Hg; cbn [cfacts crel] in *; try tauto.
      destruct H as [[F1 [F2 F3]] H2]. split.
      - intros vs Hl. apply F3. intros m Y Hm HY.
        assert (Hcb : ~ In (C m) (binds h k)) by (intro Hb; apply (Hbu k (C m) Hb)).
        rewrite upds_notin by exact Hcb.
        rewrite (Hg m Y); [|cbn [fv_children]; apply in_or_app; left; apply In_removes; tauto | exact HY].
        destruct (F2 m Hm) as [D [HD Hu]].
        assert (Y = D) by (eapply name_node_uniq; eauto). subst Y.
        apply eval_ext. intros v Hv. symmetry. apply upds_notin. apply Hu; exact Hv.
      - apply IH; [exact H2|]. intros m Y Hm HY. apply Hg; [|exact HY].
        cbn [fv_children]. apply in_or_app; right; exact Hm.
    Qed.

    Lemma node_sem bs' ts e :
      cfacts bs' 0 cs ts -> good R sts e (fv (Node i s h ts)) -> eval (Node i s h ts) e = eval X e.
    Proof.
      intros H Hg. apply eval_crel_nonref; [exact Hnr|].
      eapply crel_of_cfacts; eauto. rewrite fv_node_nonref in Hg by exact Hnr. exact Hg.
    Qed.

    Lemma cfacts_fv bs' tl : forall cl k, cfacts bs' k cl tl ->
      forall v, In v (fv_children h k tl) -> In v (p_fv pp) \/ exists m dG, v = C m /\ cwit R bs' pp m dG.
    Proof.
      induction tl as [|t tl IH]; intros [|c cl] k H v Hv; cbn [cfacts fv_children] in *; try tauto; try (destruct Hv).
      destruct H as [[F1 _] H2]. apply in_app_or in Hv. destruct Hv as [Hv|Hv].
      - apply In_removes in Hv. apply F1; tauto.
      - eapply IH; eauto.
    Qed.

    Lemma node_fv bs' ts : cfacts bs' 0 cs ts -> fv_ok R bs' pp (Node i s h ts).
    Proof.
      intros H v Hv. rewrite fv_node_nonref in Hv by exact Hnr.
      eapply cfacts_fv; eauto.
    Qed.
  End Loop.
End Print7.
