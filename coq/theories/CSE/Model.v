(** C35 — executable model of hail/python/hail/ir/renderer.py (CSEAnalysisPass + CSEPrintPass) for value IR without
    aggregation contexts, and a total big-step evaluator.  Definitions only.

    A DAG is a tree whose nodes carry the identity ([nid]) of the Python object they came from: the same object reached
    along two paths gives two copies of the same labelled subtree, so the tree itself (ids ignored) is the fully inlined IR. *)
From HailV Require Import Common.Prelude.

Inductive var := U (n : N) | C (n : N).   (* U n: a program variable; C n: the renderer's [__cse_n] *)
Inductive binop := Add | Sub | Mul | Div | Mod.   (* Div: `//` (floor division), Mod: `%` (floor modulus) *)
Inductive unop := Neg | Not.
Inductive cmpop := Lt | Le | Gt | Ge | Eq | Ne.

Inductive head :=
| HI32 (z : Z) | HTrue | HFalse
| HBin (o : binop) | HUn (o : unop) | HCmp (o : cmpop)
| HIf | HLet (x : var) | HRef (x : var)
| HMakeStruct (fs : list N) | HGetField (f : N)
| HMakeArray | HArrayLen | HCastToArray | HToArray | HToStream
| HStreamMap (x : var) | HStreamFilter (x : var) | HStreamFold (a x : var)
| HIdx (neg : bool).   (* [HIdx false]: ArrayRef (0 <= i < n); [HIdx true]: Apply indexArray (-n <= i < n) *)

(* [nstrm]: the object's [is_stream] (streams are never bound in a let) *)
Inductive node := Node (id : N) (strm : bool) (h : head) (cs : list node).

Definition nid (t : node) : N := match t with Node i _ _ _ => i end.
Definition nstrm (t : node) : bool := match t with Node _ s _ _ => s end.
Definition nhead (t : node) : head := match t with Node _ _ h _ => h end.
Definition nchildren (t : node) : list node := match t with Node _ _ _ cs => cs end.

Definition var_eqb (a b : var) : bool :=
  match a, b with U x, U y => N.eqb x y | C x, C y => N.eqb x y | _, _ => false end.
Definition memv (x : var) (l : list var) : bool := existsb (var_eqb x) l.
Definition memN (x : N) (l : list N) : bool := existsb (N.eqb x) l.

(** *** binding metadata (base_ir.py / ir.py: renderable_bindings, renderable_new_block) *)
Definition binds (h : head) (i : nat) : list var :=
  match h, i with
  | HLet x, 1%nat => [x]
  | HStreamMap x, 1%nat => [x]
  | HStreamFilter x, 1%nat => [x]
  | HStreamFold a x, 2%nat => [a; x]
  | _, _ => []
  end.

Definition new_block (h : head) (i : nat) : bool :=
  match h, i with HIf, 1%nat => true | HIf, 2%nat => true | _, _ => false end.

Definition is_ref (h : head) : bool := match h with HRef _ => true | _ => false end.

Definition removes (xs l : list var) : list var := filter (fun v => negb (memv v xs)) l.

(** IR.free_vars *)
Fixpoint fv (t : node) : list var :=
  match t with
  | Node _ _ h cs =>
    match h with
    | HRef x => [x]
    | _ => (fix go (i : nat) (cs : list node) : list var :=
              match cs with [] => [] | c :: r => removes (binds h i) (fv c) ++ go (S i) r end) 0%nat cs
    end
  end.

(** *** binding depth (StackFrame.bind_depth) *)
Definition ctxt := list (var * nat).
Fixpoint ctx_get (ctx : ctxt) (v : var) : nat :=
  match ctx with [] => 0%nat | (k, d) :: r => if var_eqb k v then d else ctx_get r v end.

Definition bind_depth (t : node) (mbd : nat) (ctx : ctxt) : nat :=
  fold_right (fun v acc => Nat.max (ctx_get ctx v) acc) mbd (fv t).

Definition child_mbd (h : head) (i d mbd : nat) : nat := if new_block h i then S d else mbd.
Definition child_ctx (h : head) (i d : nat) (ctx : ctxt) : ctxt := map (fun v => (v, S d)) (binds h i) ++ ctx.

(** *** association lists keyed by N *)
Fixpoint lookup {A} (l : list (N * A)) (k : N) : option A :=
  match l with [] => None | (k', v) :: r => if N.eqb k' k then Some v else lookup r k end.
Fixpoint assoc_set {A} (l : list (N * A)) (k : N) (v : A) : list (N * A) :=
  match l with [] => [(k, v)] | (k', v') :: r => if N.eqb k' k then (k, v) :: r else (k', v') :: assoc_set r k v end.

(** *** analysis pass *)
Record aframe := { avis : list N; alift : list (N * N) }.
Record site := { sdepth : nat; stable : list (N * N) }.
Record astate := { afr : list aframe; asites : list (N * site); acnt : N }.

Definition aframe0 : aframe := {| avis := []; alift := [] |}.

Fixpoint upd_nth {A} (n : nat) (f : A -> A) (l : list A) : list A :=
  match l, n with
  | [], _ => []
  | x :: r, O => f x :: r
  | x :: r, S n' => x :: upd_nth n' f r
  end.

Definition a_seen (st : astate) (bd : nat) (i : N) : astate :=
  (* second (or later) sighting of node [i] whose binding frame is [bd] *)
  let fr := nth bd (afr st) aframe0 in
  match lookup (alift fr) i with
  | Some _ => st
  | None => let u := (acnt st + 1)%N in
            {| afr := upd_nth bd (fun f => {| avis := avis f; alift := alift f ++ [(i, u)] |}) (afr st);
               asites := asites st; acnt := u |}
  end.

Definition a_push (st : astate) : astate :=
  {| afr := afr st ++ [aframe0]; asites := asites st; acnt := acnt st |}.

Definition a_visit (st : astate) (bd : nat) (i : N) : astate :=
  {| afr := upd_nth bd (fun f => {| avis := i :: avis f; alift := alift f |}) (afr st);
     asites := asites st; acnt := acnt st |}.

Definition a_pop (st : astate) (i : N) : astate :=
  let fr := last (afr st) aframe0 in
  let rest := removelast (afr st) in
  {| afr := rest;
     asites := match alift fr with [] => asites st
               | _ => assoc_set (asites st) i {| sdepth := length rest; stable := alift fr |} end;
     acnt := acnt st |}.

(* precondition: the frame of X is already on the stack (length (afr st) = S d) *)
Fixpoint an_node (X : node) (d mbd : nat) (ctx : ctxt) (st : astate) : astate :=
  match X with
  | Node i strm h cs =>
    let st1 :=
      (fix an_children (k : nat) (cs : list node) (st : astate) : astate :=
         match cs with
         | [] => st
         | c :: r =>
           let mbd' := child_mbd h k d mbd in
           let ctx' := child_ctx h k d ctx in
           let bd := bind_depth c mbd' ctx' in
           let st' :=
             if (bd <? length (afr st))%nat && memN (nid c) (avis (nth bd (afr st) aframe0))
             then a_seen st bd (nid c)
             else if is_ref (nhead c) then st
             else an_node c (S d) mbd' ctx' (a_push st) in
           an_children (S k) r st'
         end) 0%nat cs st in
    let st2 := if strm then st1 else a_visit st1 (bind_depth X mbd ctx) i in
    a_pop st2 i
  end.

Definition analyse (root : node) : list (N * site) :=
  asites (an_node root 0 0 [] {| afr := [aframe0]; asites := []; acnt := 0 |}).

(** *** print pass (with the repair of fixes/C35.diff: a binding frame is registered only when its node is entered,
        and a node that is itself being bound in a let above never inserts lets) *)
Record bframe := { bdepth : nat; bnode : N; btable : list (N * N); bvis : list N; blets : list (N * node) }.
Definition bstack := list bframe.

Definition bs_get (bs : bstack) (d : nat) : option bframe := find (fun F => Nat.eqb (bdepth F) d) bs.
Definition bs_del (bs : bstack) (d : nat) : bstack := filter (fun F => negb (Nat.eqb (bdepth F) d)) bs.
Definition bs_set (bs : bstack) (F : bframe) : bstack := F :: bs_del bs (bdepth F).
Definition bs_upd (bs : bstack) (d : nat) (f : bframe -> bframe) : bstack :=
  map (fun F => if Nat.eqb (bdepth F) d then f F else F) bs.

Definition f_mark (i : N) (F : bframe) : bframe :=
  {| bdepth := bdepth F; bnode := bnode F; btable := btable F; bvis := i :: bvis F; blets := blets F |}.
Definition f_addlet (n : N) (B : node) (F : bframe) : bframe :=
  {| bdepth := bdepth F; bnode := bnode F; btable := btable F; bvis := bvis F; blets := blets F ++ [(n, B)] |}.

Definition cref (n : N) : node := Node 0 false (HRef (C n)) [].
Definition clet (n : N) (B body : node) : node := Node 0 false (HLet (C n)) [B; body].
Definition wrap_lets (lets : list (N * node)) (body : node) : node :=
  fold_right (fun nb acc => clet (fst nb) (snd nb) acc) body lets.

Definition insert_site (sts : list (N * site)) (i : N) (d : nat) : option (list (N * N)) :=
  match lookup sts i with
  | Some s => if Nat.eqb (sdepth s) d then match stable s with [] => None | _ => Some (stable s) end else None
  | None => None
  end.

(* is child [i] (binding depth [bd]) bound by a let of the frame at depth [bd]? *)
Definition lift_target (bs : bstack) (bd : nat) (i : N) : option N :=
  match bs_get bs bd with Some F => lookup (btable F) i | None => None end.
Definition is_visited (bs : bstack) (bd : nat) (i : N) : bool :=
  match bs_get bs bd with Some F => memN i (bvis F) | None => false end.

Fixpoint pr (sts : list (N * site)) (X : node) (d mbd : nat) (ctx : ctxt) (lifted : bool) (bs : bstack) : node * bstack :=
  match X with
  | Node i strm h cs =>
    let ins := if lifted then None else insert_site sts i d in
    let bs1 := match ins with
              | Some tbl => bs_set bs {| bdepth := d; bnode := i; btable := tbl; bvis := []; blets := [] |}
              | None => bs end in
    let '(ts, bs2) :=
      (fix prs (k : nat) (cs : list node) (bs : bstack) : list node * bstack :=
         match cs with
         | [] => ([], bs)
         | c :: r =>
           let mbd' := child_mbd h k d mbd in
           let ctx' := child_ctx h k d ctx in
           let bd := bind_depth c mbd' ctx' in
           let '(t, bs') :=
             match lift_target bs bd (nid c) with
             | Some name =>
               if is_visited bs bd (nid c) then (cref name, bs)
               else let '(B, S'') := pr sts c (S d) mbd' ctx' true (bs_upd bs bd (f_mark (nid c))) in
                    (cref name, bs_upd S'' bd (f_addlet name B))
             | None => pr sts c (S d) mbd' ctx' false bs
             end in
           let '(ts, S'') := prs (S k) r bs' in
           (t :: ts, S'')
         end) 0%nat cs bs1 in
    let T := Node i strm h ts in
    match ins with
    | Some _ => match bs_get bs2 d with
                | Some F => (wrap_lets (blets F) T, bs_del bs2 d)
                | None => (T, bs2)
                end
    | None => (T, bs2)
    end
  end.

Definition cse (root : node) : node := fst (pr (analyse root) root 0 0 [] false []).

(** *** values and evaluation.
    [eval] is total: ill-typed applications and FAILING operations (integer division / modulus by zero, array index out of
    bounds) give [VJunk]; int32 arithmetic wraps.  The semantics with errors is [evalE] below. *)
Inductive value := VInt (z : Z) | VBool (b : bool) | VArr (l : list value) | VStruct (l : list (N * value)) | VJunk.

Definition env := var -> value.
Definition upd (e : env) (x : var) (v : value) : env := fun y => if var_eqb x y then v else e y.

Definition wrap32 (z : Z) : Z := ((z + 2147483648) mod 4294967296 - 2147483648)%Z.

Definition do_bin (o : binop) (a b : value) : value :=
  match a, b with
  | VInt x, VInt y =>
      match o with
      | Add => VInt (wrap32 (x + y)) | Sub => VInt (wrap32 (x - y)) | Mul => VInt (wrap32 (x * y))
      | Div => if (y =? 0)%Z then VJunk else VInt (wrap32 (x / y))
      | Mod => if (y =? 0)%Z then VJunk else VInt (wrap32 (x mod y))
      end
  | _, _ => VJunk
  end.
Definition do_un (o : unop) (a : value) : value :=
  match o, a with
  | Neg, VInt x => VInt (wrap32 (- x))
  | Not, VBool b => VBool (negb b)
  | _, _ => VJunk
  end.
Definition do_cmp (o : cmpop) (a b : value) : value :=
  match a, b with
  | VInt x, VInt y => VBool (match o with Lt => x <? y | Le => x <=? y | Gt => x >? y | Ge => x >=? y
                                        | Eq => x =? y | Ne => negb (x =? y) end)%Z
  | _, _ => VJunk
  end.
Fixpoint get_field (l : list (N * value)) (f : N) : value :=
  match l with [] => VJunk | (g, v) :: r => if N.eqb g f then v else get_field r f end.
Definition is_vtrue (v : value) : bool := match v with VBool true => true | _ => false end.
Definition as_arr (v : value) : value := match v with VArr _ => v | _ => VJunk end.

(* position of index [z] in an array of length [n] ([neg]: negative indices count from the end), if in bounds *)
Definition idx_pos (neg : bool) (n z : Z) : option Z :=
  if ((0 <=? z) && (z <? n))%Z then Some z
  else if neg && ((- n <=? z) && (z <? 0))%Z then Some (n + z)%Z
  else None.
Definition do_idx (neg : bool) (a i : value) : value :=
  match a, i with
  | VArr l, VInt z => match idx_pos neg (Z.of_nat (length l)) z with Some p => nth (Z.to_nat p) l VJunk | None => VJunk end
  | _, _ => VJunk
  end.

(** the operations that can FAIL at run time, and when they do *)
Definition bin_fails (o : binop) (a b : value) : bool :=
  match o, a, b with
  | Div, VInt _, VInt y | Mod, VInt _, VInt y => (y =? 0)%Z
  | _, _, _ => false
  end.
Definition idx_fails (neg : bool) (a i : value) : bool :=
  match a, i with
  | VArr l, VInt z => match idx_pos neg (Z.of_nat (length l)) z with Some _ => false | None => true end
  | _, _ => false
  end.
Definition op_fails (h : head) (vs : list value) : bool :=
  match h, vs with
  | HBin o, [a; b] => bin_fails o a b
  | HIdx neg, [a; i] => idx_fails neg a i
  | _, _ => false
  end.

(** result of a head without binders / branches applied to the values of its children *)
Definition apply_op (h : head) (vs : list value) : value :=
  match h, vs with
  | HI32 z, [] => VInt (wrap32 z)
  | HTrue, [] => VBool true
  | HFalse, [] => VBool false
  | HBin o, [a; b] => do_bin o a b
  | HUn o, [a] => do_un o a
  | HCmp o, [a; b] => do_cmp o a b
  | HMakeStruct fs, _ => VStruct (combine fs vs)
  | HGetField f, [a] => match a with VStruct l => get_field l f | _ => VJunk end
  | HMakeArray, _ => VArr vs
  | HArrayLen, [a] => match a with VArr l => VInt (wrap32 (Z.of_nat (length l))) | _ => VJunk end
  | HCastToArray, [a] => as_arr a
  | HToArray, [a] => as_arr a
  | HToStream, [a] => as_arr a
  | HIdx neg, [a; i] => do_idx neg a i
  | _, _ => VJunk
  end.

Fixpoint eval (t : node) (e : env) : value :=
  match t with
  | Node _ _ h cs =>
    match h, cs with
    | HRef x, _ => e x
    | HIf, [c; a; b] => match eval c e with VBool true => eval a e | VBool false => eval b e | _ => VJunk end
    | HLet x, [a; b] => eval b (upd e x (eval a e))
    | HStreamMap x, [a; b] =>
        match eval a e with VArr l => VArr (map (fun v => eval b (upd e x v)) l) | _ => VJunk end
    | HStreamFilter x, [a; b] =>
        match eval a e with VArr l => VArr (filter (fun v => is_vtrue (eval b (upd e x v))) l) | _ => VJunk end
    | HStreamFold ac x, [a; z; b] =>
        match eval a e with
        | VArr l => fold_left (fun acc v => eval b (upd (upd e ac acc) x v)) l (eval z e)
        | _ => VJunk
        end
    | _, _ => apply_op h (map (fun c => eval c e) cs)
    end
  end.

(** *** semantics with errors: a result is a value or [Err].  [Let] is strict (the bound expression is evaluated first, and
    its failure is the failure of the whole), [If] evaluates its condition and then ONLY the branch taken, a loop evaluates
    its body once per element (none for an empty stream), every other node evaluates all its children, then fails if its own
    operation does. *)
Inductive result := Val (v : value) | Err.

Fixpoint evalE (t : node) (e : env) : result :=
  match t with
  | Node _ _ h cs =>
    match h, cs with
    | HRef x, _ => Val (e x)
    | HIf, [c; a; b] =>
        match evalE c e with
        | Err => Err
        | Val (VBool true) => evalE a e
        | Val (VBool false) => evalE b e
        | Val _ => Val VJunk
        end
    | HLet x, [a; b] => match evalE a e with Err => Err | Val v => evalE b (upd e x v) end
    | HStreamMap x, [a; b] =>
        match evalE a e with
        | Err => Err
        | Val (VArr l) =>
            match (fix go (l : list value) : option (list value) :=
                     match l with
                     | [] => Some []
                     | v :: r => match evalE b (upd e x v) with
                                 | Err => None
                                 | Val w => match go r with None => None | Some ws => Some (w :: ws) end
                                 end
                     end) l with
            | None => Err
            | Some ws => Val (VArr ws)
            end
        | Val _ => Val VJunk
        end
    | HStreamFilter x, [a; b] =>
        match evalE a e with
        | Err => Err
        | Val (VArr l) =>
            match (fix go (l : list value) : option (list value) :=
                     match l with
                     | [] => Some []
                     | v :: r => match evalE b (upd e x v) with
                                 | Err => None
                                 | Val w => match go r with
                                            | None => None
                                            | Some ws => Some (if is_vtrue w then v :: ws else ws)
                                            end
                                 end
                     end) l with
            | None => Err
            | Some ws => Val (VArr ws)
            end
        | Val _ => Val VJunk
        end
    | HStreamFold ac x, [a; z; b] =>
        match evalE a e with
        | Err => Err
        | Val va =>
            match evalE z e with
            | Err => Err
            | Val vz =>
                match va with
                | VArr l =>
                    (fix go (l : list value) (acc : value) : result :=
                       match l with
                       | [] => Val acc
                       | v :: r => match evalE b (upd (upd e ac acc) x v) with Err => Err | Val acc' => go r acc' end
                       end) l vz
                | _ => Val VJunk
                end
            end
        end
    | HIf, _ | HLet _, _ | HStreamMap _, _ | HStreamFilter _, _ | HStreamFold _ _, _ => Val VJunk   (* wrong arity *)
    | _, _ =>
        match (fix go (cs : list node) : option (list value) :=
                 match cs with
                 | [] => Some []
                 | c :: r => match evalE c e with
                             | Err => None
                             | Val v => match go r with None => None | Some vs => Some (v :: vs) end
                             end
                 end) cs with
        | None => Err
        | Some vs => if op_fails h vs then Err else Val (apply_op h vs)
        end
    end
  end.

(** the same semantics split into the value (computed by [eval]) and an error flag; [ee x] is the flag of the binding of
    [x] (a reference to a variable whose bound expression failed fails).  Executable, used in the proofs. *)
Definition benv := var -> bool.
Definition updb (ee : benv) (x : var) (b : bool) : benv := fun y => if var_eqb x y then b else ee y.

Fixpoint errsE (t : node) (e : env) (ee : benv) : bool :=
  match t with
  | Node _ _ h cs =>
    match h, cs with
    | HRef x, _ => ee x
    | HIf, [c; a; b] =>
        errsE c e ee || match eval c e with VBool true => errsE a e ee | VBool false => errsE b e ee | _ => false end
    | HLet x, [a; b] => errsE a e ee || errsE b (upd e x (eval a e)) (updb ee x false)
    | HStreamMap x, [a; b] =>
        errsE a e ee || match eval a e with
                        | VArr l => existsb (fun v => errsE b (upd e x v) (updb ee x false)) l
                        | _ => false
                        end
    | HStreamFilter x, [a; b] =>
        errsE a e ee || match eval a e with
                        | VArr l => existsb (fun v => errsE b (upd e x v) (updb ee x false)) l
                        | _ => false
                        end
    | HStreamFold ac x, [a; z; b] =>
        errsE a e ee || errsE z e ee ||
        match eval a e with
        | VArr l =>
            (fix go (l : list value) (acc : value) : bool :=
               match l with
               | [] => false
               | v :: r => errsE b (upd (upd e ac acc) x v) (updb (updb ee ac false) x false)
                           || go r (eval b (upd (upd e ac acc) x v))
               end) l (eval z e)
        | _ => false
        end
    | HIf, _ | HLet _, _ | HStreamMap _, _ | HStreamFilter _, _ | HStreamFold _ _, _ => false   (* wrong arity *)
    | _, _ => existsb (fun c => errsE c e ee) cs || op_fails h (map (fun c => eval c e) cs)
    end
  end.

(** *** side conditions of the error-semantics theorem *)
Definition arity_ok (h : head) (n : nat) : bool :=
  match h with
  | HIf | HStreamFold _ _ => Nat.eqb n 3
  | HLet _ | HStreamMap _ | HStreamFilter _ => Nat.eqb n 2
  | _ => true
  end.
Fixpoint wf_arity (t : node) : bool :=
  match t with Node _ _ h cs => arity_ok h (length cs) && forallb wf_arity cs end.

Definition can_fail (h : head) : bool := match h with HBin Div | HBin Mod | HIdx _ => true | _ => false end.
Fixpoint pure (t : node) : bool := match t with Node _ _ h cs => negb (can_fail h) && forallb pure cs end.

(* child [k] of [h] is a loop body: evaluated once per element, possibly never *)
Definition loop_body (h : head) (k : nat) : bool :=
  match h, k with
  | HStreamMap _, 1%nat | HStreamFilter _, 1%nat | HStreamFold _ _, 2%nat => true
  | _, _ => false
  end.

Fixpoint subterms (t : node) : list node := match t with Node _ _ _ cs => t :: flat_map subterms cs end.
Definition inclb (a b : list var) : bool := forallb (fun v => memv v b) a.

(* the renderer lifts a shared subexpression to the outermost place where its variables are bound, across loop bodies (only
   [If] branches stop it): [loops_ok] says that every subexpression of a loop body that is loop-invariant (all its free
   variables are free in the body and none is bound by the loop) contains no operation that can fail *)
Fixpoint loops_ok (t : node) : bool :=
  match t with
  | Node _ _ h cs =>
    forallb loops_ok cs &&
    (fix go (k : nat) (cs : list node) : bool :=
       match cs with
       | [] => true
       | c :: r =>
         (if loop_body h k
          then forallb (fun D => pure D || negb (inclb (fv D) (removes (binds h k) (fv c)))) (subterms c)
          else true) && go (S k) r
       end) 0%nat cs
  end.

(** input well-formedness: program variables only (no [__cse_] names), references are leaves *)
Definition head_vars (h : head) : list var :=
  match h with
  | HLet x | HRef x | HStreamMap x | HStreamFilter x => [x]
  | HStreamFold a x => [a; x]
  | _ => []
  end.
Definition is_uvar (v : var) : bool := match v with U _ => true | C _ => false end.

Fixpoint wf_node (t : node) : bool :=
  match t with
  | Node _ _ h cs =>
    forallb is_uvar (head_vars h) && (if is_ref h then is_nil cs else true) && forallb wf_node cs
  end.

(** strip identities (for comparison with the IR text read back) *)
Fixpoint strip (t : node) : node :=
  match t with Node _ _ h cs => Node 0 false h (map strip cs) end.
