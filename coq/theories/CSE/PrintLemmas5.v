(** C35 — print pass, part 5: invariant across marking a node visited and appending its let. *)
From HailV Require Import Common.Prelude CSE.Model CSE.Basics CSE.EvalLemmas CSE.PrintDefs
  CSE.PrintLemmas1 CSE.PrintLemmas2 CSE.PrintLemmas3 CSE.PrintLemmas4.

Lemma NoDup_app_snoc {A} (l : list A) x : NoDup l -> ~ In x l -> NoDup (l ++ [x]).
Proof.
  induction l as [|y l IH]; cbn; intros Hnd Hni; [constructor; [tauto | constructor]|].
  inversion Hnd as [|? ? Hy Hnd']; subst. constructor.
  - intro H; apply in_app_or in H; destruct H as [H|[H|[]]]; [exact (Hy H) | subst; tauto].
  - apply IH; tauto.
Qed.

Section Print5.
  Variable R : node.
  Variable sts : list (N * site).
  Hypothesis Hcons : forall Y Z, subterm Y R -> subterm Z R -> nid Y = nid Z -> Y = Z.
  Hypothesis Hnames : NoDup (concat (map (fun e : N * site => map snd (stable (snd e))) sts)).

  Lemma frame_table_inj F i j n : frame_ok sts F -> lookup (btable F) i = Some n -> lookup (btable F) j = Some n -> i = j.
  Proof.
    intros [s0 [H1 H2]] Hi Hj. rewrite H2 in *. eapply lookup_inj; [|exact Hi|exact Hj].
    apply (NoDup_concat_each (fun e : N * site => map snd (stable (snd e))) sts (bnode F, s0)); assumption.
  Qed.

  Lemma inv_mark bs d sz szP P F c bd :
    inv R sts bs (S d) sz szP P -> subterm c R -> (size c <= sz)%nat -> (size c <= szP)%nat ->
    bs_get bs bd = Some F -> ~ In (nid c) (bvis F) ->
    inv R sts (bs_upd bs bd (f_mark (nid c))) (S d) (size c) (size c) ((bd, nid c) :: P).
  Proof.
    intros Hi Hc Hs1 Hs2 Hg Hnv. destruct (bs_get_In _ _ _ Hg) as [HF Hd].
    destruct Hi as [A1 A2 A3 A4 A5 A6 A7 A8].
    assert (Hin : forall F', In F' (bs_upd bs bd (f_mark (nid c))) ->
              exists F0, In F0 bs /\ bdepth F' = bdepth F0 /\ bnode F' = bnode F0 /\ btable F' = btable F0 /\
                         blets F' = blets F0 /\
                         ((bdepth F0 = bd /\ bvis F' = nid c :: bvis F0) \/ (bdepth F0 <> bd /\ bvis F' = bvis F0))).
    { intros F' HF'. apply bs_upd_In in HF'. destruct HF' as [F0 [H0 E]]. exists F0. split; [exact H0|].
      destruct (Nat.eqb (bdepth F0) bd) eqn:Eb; subst F'.
      - apply Nat.eqb_eq in Eb. cbn. repeat split; auto.
      - apply Nat.eqb_neq in Eb. repeat split; auto. }
    constructor.
    - intros F' HF'. destruct (Hin F' HF') as [F0 [H0 [E1 _]]]. rewrite E1; apply A1; exact H0.
    - rewrite bs_upd_depths; [exact A2 | intro; reflexivity].
    - intros F' HF'. destruct (Hin F' HF') as [F0 [H0 [_ [E2 [E3 _]]]]]. destruct (A3 F0 H0) as [s0 [G1 G2]].
      exists s0; split; congruence.
    - intros F' Y HF' HY E. destruct (Hin F' HF') as [F0 [H0 [_ [E2 _]]]].
      assert (sz < size Y)%nat by (eapply A4; [exact H0 | exact HY | congruence]). lia.
    - intros k i Y [Hk|Hk] HY E.
      + inversion Hk; subst. assert (Y = c) by (apply Hcons; [assumption | assumption | congruence]). subst; lia.
      + specialize (A5 k i Y Hk HY E). lia.
    - intros k i [Hk|Hk]; [inversion Hk; subst; apply A1; exact HF | apply A6 with i; exact Hk].
    - intros F' HF' i Hi. destruct (Hin F' HF') as [F0 [H0 [E1 [_ [E3 [E4 [[Eb Ev]|[Eb Ev]]]]]]]]; rewrite Ev in Hi.
      + destruct Hi as [Hi|Hi].
        * subst i. right. left. congruence.
        * destruct (A7 F0 H0 i Hi) as [[n [L1 L2]]|Hp].
          -- left. exists n. unfold names in *. rewrite E3, E4. auto.
          -- right. right. rewrite E1. exact Hp.
      + destruct (A7 F0 H0 i Hi) as [[n [L1 L2]]|Hp].
        * left. exists n. unfold names in *. rewrite E3, E4. auto.
        * right. right. rewrite E1. exact Hp.
    - intros F' HF'. destruct (Hin F' HF') as [F0 [H0 [E1 [_ [E3 [E4 Hv]]]]]].
      destruct (A8 F0 H0) as [N1 N2]. unfold names_ok, names in *. rewrite E4. split; [exact N1|].
      intros n Hn. destruct (N2 n Hn) as [i0 [L1 [L2 L3]]]. exists i0. rewrite E3, E1. split; [exact L1|]. split.
      + destruct Hv as [[_ Ev]|[_ Ev]]; rewrite Ev; [right|]; exact L2.
      + intros [Hp|Hp]; [|exact (L3 Hp)].
        assert (Eq : bdepth F0 = bd /\ i0 = nid c) by (inversion Hp; split; congruence).
        destruct Eq as [Eq1 Eq2]. subst i0.
        assert (F0 = F).
        { pose proof (bs_get_unique bs bd F0 A2 H0 Eq1) as G. congruence. }
        subst F0. exact (Hnv L2).
  Qed.

  Lemma inv_addlet bs d s1 s2 P bd ic name B F :
    inv R sts bs (S d) s1 s2 ((bd, ic) :: P) ->
    In F bs -> bdepth F = bd -> lookup (btable F) ic = Some name -> In ic (bvis F) -> ~ In (bd, ic) P ->
    let bs3 := bs_upd bs bd (f_addlet name B) in
    (forall F3, In F3 bs3 -> vis_ok P F3) /\ (forall F3, In F3 bs3 -> names_ok P F3).
  Proof.
    intros [A1 A2 A3 A4 A5 A6 A7 A8] HF Hd Hl Hv Hnp bs3.
    assert (Hin : forall F3, In F3 bs3 ->
              exists F0, In F0 bs /\ bdepth F3 = bdepth F0 /\ btable F3 = btable F0 /\ bvis F3 = bvis F0 /\
                         ((F0 = F /\ blets F3 = blets F ++ [(name, B)]) \/ (bdepth F0 <> bd /\ blets F3 = blets F0))).
    { intros F3 H3. apply bs_upd_In in H3. destruct H3 as [F0 [H0 E]]. exists F0. split; [exact H0|].
      destruct (Nat.eqb (bdepth F0) bd) eqn:Eb; subst F3.
      - apply Nat.eqb_eq in Eb. cbn. repeat split; auto. left.
        assert (F0 = F).
        { pose proof (bs_get_unique bs bd F0 A2 H0 Eb) as G1. pose proof (bs_get_unique bs bd F A2 HF Hd) as G2. congruence. }
        subst; auto.
      - apply Nat.eqb_neq in Eb. repeat split; auto. }
    split.
    - intros F3 H3 i Hi. destruct (Hin F3 H3) as [F0 [H0 [E1 [E2 [E3 Hc]]]]]. rewrite E3 in Hi.
      destruct (A7 F0 H0 i Hi) as [[n [L1 L2]]|Hp].
      + left. exists n. rewrite E2. split; [exact L1|]. unfold names in *.
        destruct Hc as [[E0 El]|[_ El]]; rewrite El; [subst F0; rewrite map_app; apply in_or_app; left|]; exact L2.
      + destruct Hp as [Hp|Hp].
        * inversion Hp; subst. destruct Hc as [[E0 El]|[Eb _]]; [|congruence]. subst F0.
          left. exists name. rewrite E2. split; [exact Hl|]. unfold names. rewrite El, map_app. apply in_or_app; right; left; reflexivity.
        * right. rewrite E1. exact Hp.
    - intros F3 H3. destruct (Hin F3 H3) as [F0 [H0 [E1 [E2 [E3 Hc]]]]].
      destruct (A8 F0 H0) as [N1 N2]. unfold names_ok, names in *.
      destruct Hc as [[E0 El]|[Eb El]]; rewrite El.
      + subst F0. rewrite map_app. cbn [map fst]. split.
        * apply NoDup_app_snoc; [exact N1|]. intro Hn. destruct (N2 name Hn) as [i0 [L1 [L2 L3]]].
          assert (i0 = ic) by (eapply frame_table_inj; [apply A3; exact HF | exact L1 | exact Hl]).
          subst i0. apply L3. left. congruence.
        * intros n Hn. apply in_app_or in Hn. destruct Hn as [Hn|[Hn|[]]].
          -- destruct (N2 n Hn) as [i0 [L1 [L2 L3]]]. exists i0. rewrite E2, E3, E1. repeat split; auto.
             intro Hp; apply L3; right; exact Hp.
          -- subst n. exists ic. rewrite E2, E3, E1. repeat split; auto. rewrite Hd; exact Hnp.
      + split; [exact N1|]. intros n Hn. destruct (N2 n Hn) as [i0 [L1 [L2 L3]]]. exists i0. rewrite E2, E3, E1.
        repeat split; auto. intro Hp; apply L3; right; exact Hp.
  Qed.
End Print5.
