(** C35 — print pass: correctness for every node, every table of binding sites with pairwise distinct names. *)
From HailV Require Import Common.Prelude CSE.Model CSE.Basics CSE.EvalLemmas CSE.PrintDefs
  CSE.PrintLemmas1 CSE.PrintLemmas2 CSE.PrintLemmas3 CSE.PrintLemmas4 CSE.PrintLemmas5 CSE.PrintLemmas6 CSE.PrintLemmas7
  CSE.PrintLemmas8 CSE.PrintLemmas9.

Section PrintCorrect.
  Variable R : node.
  Variable sts : list (N * site).
  Hypothesis Hcons : forall Y Z, subterm Y R -> subterm Z R -> nid Y = nid Z -> Y = Z.
  Hypothesis Hnames : NoDup (concat (map (fun e : N * site => map snd (stable (snd e))) sts)).
  Hypothesis Hfu : forall Y, subterm Y R -> forall v, In v (fv Y) -> uvar v.
  Hypothesis Hbu : forall Y, subterm Y R -> forall k v, In v (binds (nhead Y) k) -> uvar v.
  Hypothesis Href : forall Y, subterm Y R -> is_ref (nhead Y) = true -> nchildren Y = [].

  Lemma completion X d mbd ctx bs P s0 T F0' bs'' :
    subterm X R -> inv R sts bs d (size X) (size X) P -> In (nid X, s0) sts ->
    sext R sts (npos X mbd ctx) ({| bdepth := d; bnode := nid X; btable := stable s0; bvis := []; blets := [] |} :: bs) (F0' :: bs'') ->
    inv R sts (F0' :: bs'') (S d) (size X - 1) (size X) P ->
    fv_ok R (F0' :: bs'') (npos X mbd ctx) T ->
    (forall e, good R sts e (fv T) -> eval T e = eval X e) ->
    pr_post R sts X d mbd ctx bs P (wrap_lets (blets F0') T) bs''.
  Proof.
    intros HX Hi Hs A1 A2 A3 A4.
    set (pp := npos X mbd ctx) in *. set (bs2 := F0' :: bs'') in *.
    inversion A1 as [|F0 F0x bsx bsy HF0 HR]; subst.
    destruct HF0 as [D1 [D2 [D3 [D4 [l [D5 D6]]]]]]. cbn in D1, D2, D3, D5, D6.
    assert (Hlt : forall F, In F bs -> (bdepth F < d)%nat) by (apply (i_lt _ _ _ _ _ _ _ Hi)).
    pose proof (Forall2_fext_shrink R sts Hcons Hfu F0' bs'' d D1 pp bs bs'' HR Hlt) as HR'.
    destruct (Forall2_fext_skel _ _ _ _ _ _ HR') as [Hm Hsk].
    assert (HF0in : In F0' bs2) by (left; reflexivity).
    assert (Hown : names F0' = map fst l) by (unfold names; rewrite D5; reflexivity).
    assert (Hnd : NoDup (map fst l)) by (rewrite <- Hown; apply (i_names _ _ _ _ _ _ _ A2 F0' HF0in)).
    assert (Hvis : forall i, In i (bvis F0') -> exists n, lookup (btable F0') i = Some n /\ In n (map fst l)).
    { intros i Hiv. destruct (i_vis _ _ _ _ _ _ _ A2 F0' HF0in i Hiv) as [[n [L1 L2]]|Hp].
      - exists n. rewrite <- Hown. auto.
      - exfalso. pose proof (i_Plt _ _ _ _ _ _ _ Hi _ _ Hp). lia. }
    assert (Htab : forall dG tbl i, has_frame bs2 dG tbl i -> in_table sts tbl).
    { intros dG tbl i [G [HG [_ [Et _]]]]. rewrite <- Et. eapply frame_in_table; eauto. }
    assert (Hout : forall m dG, cwit R bs2 pp m dG -> (dG < d)%nat -> ~ In m (map fst l)).
    { intros m dG [tbl [D [[G [HG [G1 [G2 G3]]]] [W2 [W3 [W4 _]]]]]] Hdl Hin.
      rewrite <- Hown in Hin. destruct (proj2 (i_names _ _ _ _ _ _ _ A2 F0' HF0in) m Hin) as [i0 [L1 _]].
      destruct HG as [HG|HG]; [subst G; lia|].
      destruct (i_fr _ _ _ _ _ _ _ A2 G (or_intror HG)) as [sG [X1 X2]].
      rewrite D3 in L1. rewrite <- G2, X2 in W4.
      assert (bnode G = nid X) by (eapply (sites_inj sts Hnames); eauto).
      destruct (Hsk G HG) as [G0 [HG0 [_ [E2 _]]]].
      pose proof (i_anc _ _ _ _ _ _ _ Hi G0 X HG0 HX ltac:(congruence)). lia. }
    assert (HTfv : forall v, In v (fv T) -> In v (p_fv pp) \/
               exists m dG, v = C m /\ cwit R bs2 pp m dG /\ (dG < d \/ (dG = d /\ In m ([] ++ map fst l)))%nat).
    { intros v Hv. destruct (A3 v Hv) as [Ha|[m [dG [E W]]]]; [left; exact Ha|].
      right. exists m, dG. split; [exact E|]. split; [exact W|].
      destruct W as [tbl [D [[G [HG [G1 [G2 G3]]]] [W2 [W3 [W4 _]]]]]].
      pose proof (i_lt _ _ _ _ _ _ _ A2 G HG) as Hl1.
      destruct (Nat.eq_dec dG d) as [Eq|Ne]; [right|left; lia]. split; [exact Eq|]. cbn [app].
      assert (G = F0').
      { pose proof (bs_get_unique bs2 d G (i_nd _ _ _ _ _ _ _ A2) HG ltac:(lia)).
        pose proof (bs_get_unique bs2 d F0' (i_nd _ _ _ _ _ _ _ A2) HF0in D1). congruence. }
      subst G. destruct (Hvis _ G3) as [n [L1 L2]]. rewrite G2 in L1. assert (n = m) by congruence. subst; exact L2. }
    split; [exact HR' | split; [|split]].
    - eapply inv_restore; [exact Hi | exact HR' | eapply inv_tail; exact A2].
    - intros v Hv. rewrite D5 in Hv. cbn [app] in Hv.
      destruct (wrap_fv R sts bs2 pp d T (map fst l) Hout l [] D6 HTfv v Hv) as [Ha|[m [dG [E [W O]]]]]; [left; exact Ha|].
      right. exists m, dG. split; [exact E|]. destruct O as [O|[_ []]].
      apply (cwit_shrink R F0' bs'' d D1); [exact W | lia].
    - intros e Hg. rewrite D5. cbn [app].
      apply (wrap_sem R sts Hcons Hnames Hfu bs2 pp d T X (map fst l) HX Hout Htab l [] e); auto.
      + cbn [app]. apply incl_refl.
      + intros n [].
      + intros m dG Hmm W Hdl Y HY. apply Hg; [|exact HY]. rewrite D5; exact Hmm.
      + intros m Hmm. destruct (HTfv (C m) Hmm) as [Ha|[m' [dG [E [W O]]]]].
        * exfalso. exact (Hfu X HX _ Ha).
        * inversion E; subst m'. exists dG. split; [exact W|]. destruct O as [O|[_ O]]; auto.
  Qed.

  Lemma body X : forall i s h cs, X = Node i s h cs -> subterm X R -> Forall (pr_spec R sts) cs ->
    forall d mbd ctx bs1 P ts bs2,
      inv R sts bs1 (S d) (size X - 1) (size X) P ->
      prs sts h d mbd ctx 0 cs bs1 = (ts, bs2) ->
      sext R sts (npos X mbd ctx) bs1 bs2 /\ inv R sts bs2 (S d) (size X - 1) (size X) P /\
      fv_ok R bs2 (npos X mbd ctx) (Node i s h ts) /\
      (forall e, good R sts e (fv (Node i s h ts)) -> eval (Node i s h ts) e = eval X e).
  Proof.
    intros i s h cs EX HX IH d mbd ctx bs1 P ts bs2 Hi E. subst X.
    destruct (is_ref h) eqn:Hr.
    - pose proof (Href _ HX Hr) as Ec. cbn in Ec. subst cs. cbn in E. inversion E; subst.
      split; [apply sext_refl | split; [exact Hi | split]].
      + intros v Hv. left. exact Hv.
      + intros e _. reflexivity.
    - assert (Hsub : forall c, In c cs -> subterm c R).
      { intros c Hc. eapply subterm_trans; [apply subterm_child; exact Hc | exact HX]. }
      destruct (loop R sts Hcons Hnames Hfu i s h cs d mbd ctx Hr cs [] 0%nat bs1 ts bs2 P eq_refl eq_refl IH Hsub Hi E)
        as [A1 [A2 A3]].
      split; [exact A1 | split; [exact A2 | split]].
      + eapply node_fv; eauto.
      + intros e Hg. eapply node_sem; eauto; intros k v Hv; exact (Hbu _ HX k v Hv).
  Qed.

  Theorem pr_correct : forall X, pr_spec R sts X.
  Proof.
    induction X as [i s h cs IH] using node_ind'.
    intros d mbd ctx lifted bs P T bs' HX Hi E. rewrite pr_eq in E. cbv zeta in E.
    set (X := Node i s h cs) in *.
    destruct (pr_ins sts i d lifted) as [tbl|] eqn:Eins.
    - (* binding site *)
      assert (Hs : exists s0, In (i, s0) sts /\ tbl = stable s0).
      { unfold pr_ins in Eins. destruct lifted; [discriminate|]. unfold insert_site in Eins.
        destruct (lookup sts i) as [s0|] eqn:El; [|discriminate]. exists s0. split; [apply lookup_In; exact El|].
        destruct (Nat.eqb (sdepth s0) d); [|discriminate]. destruct (stable s0); [discriminate|]. congruence. }
      destruct Hs as [s0 [Hs0 Et]]. subst tbl.
      assert (Ebs1 : bs_set bs {| bdepth := d; bnode := i; btable := stable s0; bvis := []; blets := [] |} =
                     {| bdepth := d; bnode := i; btable := stable s0; bvis := []; blets := [] |} :: bs).
      { unfold bs_set. cbn [bdepth]. f_equal. apply bs_del_id. intros F HF.
        pose proof (i_lt _ _ _ _ _ _ _ Hi F HF). lia. }
      rewrite Ebs1 in E.
      destruct (prs sts h d mbd ctx 0 cs _) as [ts bs2] eqn:Ep.
      pose proof (inv_push R sts Hcons Hfu bs d X P s0 Hi HX Hs0) as Hi1.
      destruct (body X i s h cs eq_refl HX IH d mbd ctx _ P ts bs2 Hi1 Ep) as [A1 [A2 [A3 A4]]].
      inversion A1 as [|F0 F0' bsx bs'' HF0 HR]; subst.
      assert (D1 : bdepth F0' = d) by (destruct HF0 as [D1 _]; exact D1).
      assert (Eg : bs_get (F0' :: bs'') d = Some F0').
      { unfold bs_get. cbn [find]. rewrite D1, Nat.eqb_refl. reflexivity. }
      rewrite Eg in E.
      assert (Ed : bs_del (F0' :: bs'') d = bs'').
      { unfold bs_del. cbn [filter]. rewrite D1, Nat.eqb_refl. cbn [negb]. apply bs_del_id.
        intros F HF. destruct (Forall2_fext_skel _ _ _ _ _ _ HR) as [_ Hsk].
        destruct (Hsk F HF) as [G [HG [E1 _]]]. pose proof (i_lt _ _ _ _ _ _ _ Hi G HG). lia. }
      rewrite Ed in E. inversion E; subst T bs'.
      eapply completion; eauto.
    - (* no lets inserted here *)
      destruct (prs sts h d mbd ctx 0 cs bs) as [ts bs2] eqn:Ep. inversion E; subst T bs'.
      assert (Hi1 : inv R sts bs (S d) (size X - 1) (size X) P) by (eapply inv_mono; eauto; lia).
      destruct (body X i s h cs eq_refl HX IH d mbd ctx bs P ts bs2 Hi1 Ep) as [A1 [A2 [A3 A4]]].
      split; [exact A1 | split; [|split; [exact A3 | exact A4]]].
      eapply inv_restore; eauto.
  Qed.
End PrintCorrect.
