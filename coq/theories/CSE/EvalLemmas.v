(** C35 — the evaluator respects semantic equality of children (under the bindings of the head) and depends only on
    the free variables of a term. *)
From HailV Require Import Common.Prelude CSE.Model CSE.Basics.

Fixpoint upds (xs : list var) (vs : list value) (e : env) : env :=
  match xs, vs with x :: xs', v :: vs' => upds xs' vs' (upd e x v) | _, _ => e end.

(* children [ts] evaluated in [e] agree with children [es] evaluated in [e'], under every instantiation of the
   variables the head binds in them *)
Fixpoint crel (h : head) (i : nat) (ts es : list node) (e e' : env) : Prop :=
  match ts, es with
  | [], [] => True
  | t :: ts', u :: es' =>
      (forall vs, length vs = length (binds h i) ->
                  eval t (upds (binds h i) vs e) = eval u (upds (binds h i) vs e'))
      /\ crel h (S i) ts' es' e e'
  | _, _ => False
  end.

Lemma crel_map h ts : forall es i e e',
  (forall k, binds h k = []) -> crel h i ts es e e' ->
  map (fun c => eval c e) ts = map (fun c => eval c e') es.
Proof.
  induction ts as [|t ts IH]; intros [|u es] i e e' Hb H; cbn in *; try tauto.
  destruct H as [H1 H2]. f_equal.
  - specialize (H1 []); rewrite Hb in H1; cbn in H1; apply H1; reflexivity.
  - eapply IH; eauto.
Qed.

Lemma fold_left_ext_val (f g : value -> value -> value) l : forall a,
  (forall a v, f a v = g a v) -> fold_left f l a = fold_left g l a.
Proof. induction l as [|x l IH]; intros a H; cbn; [reflexivity | rewrite H; apply IH; exact H]. Qed.

Lemma filter_ext_val (f g : value -> bool) l : (forall v, f v = g v) -> filter f l = filter g l.
Proof. intro H; induction l as [|x l IH]; cbn; [reflexivity | rewrite H, IH; reflexivity]. Qed.

Ltac crel_split H :=
  repeat match type of H with
         | _ /\ _ => let H1 := fresh "Hc" in destruct H as [H1 H]
         end.

Lemma crel_length h ts : forall es i e e', crel h i ts es e e' -> length ts = length es.
Proof.
  induction ts as [|t ts IH]; intros [|u es] i e e' H; cbn in *; try tauto.
  destruct H as [_ H]; f_equal; eapply IH; exact H.
Qed.

(* arity-indexed access to the facts packed in [crel] *)
Lemma crel_0 h t ts u es e e' : crel h 0 (t :: ts) (u :: es) e e' ->
  forall vs, length vs = length (binds h 0) -> eval t (upds (binds h 0) vs e) = eval u (upds (binds h 0) vs e').
Proof. cbn; tauto. Qed.
Lemma crel_1 h t0 t ts u0 u es e e' : crel h 0 (t0 :: t :: ts) (u0 :: u :: es) e e' ->
  forall vs, length vs = length (binds h 1) -> eval t (upds (binds h 1) vs e) = eval u (upds (binds h 1) vs e').
Proof. cbn; tauto. Qed.
Lemma crel_2 h t0 t1 t ts u0 u1 u es e e' : crel h 0 (t0 :: t1 :: t :: ts) (u0 :: u1 :: u :: es) e e' ->
  forall vs, length vs = length (binds h 2) -> eval t (upds (binds h 2) vs e) = eval u (upds (binds h 2) vs e').
Proof. cbn; tauto. Qed.

Ltac shapes ts es H :=
  let HL := fresh "HL" in
  pose proof (crel_length _ _ _ _ _ _ H) as HL;
  destruct ts as [|?t [|?t [|?t [|?t ts]]]], es as [|?u [|?u [|?u [|?u es]]]]; cbn in HL; try discriminate HL; clear HL.

Lemma eval_crel i s j s' h ts es e e' :
  match h with HRef x => e x = e' x | _ => crel h 0 ts es e e' end ->
  eval (Node i s h ts) e = eval (Node j s' h es) e'.
Proof.
  intro H. destruct h;
    try (cbn [eval]; f_equal; eapply crel_map; [|exact H]; intro k; reflexivity).
  - (* If *) shapes ts es H; try reflexivity.
    pose proof (crel_0 _ _ _ _ _ _ _ H [] eq_refl) as E0; pose proof (crel_1 _ _ _ _ _ _ _ _ _ H [] eq_refl) as E1.
    pose proof (crel_2 _ _ _ _ _ _ _ _ _ _ _ H [] eq_refl) as E2.
    cbn in E0, E1, E2. cbn [eval]. rewrite E0, E1, E2; reflexivity.
  - (* Let *) shapes ts es H; try reflexivity.
    pose proof (crel_0 _ _ _ _ _ _ _ H [] eq_refl) as E0. cbn in E0. cbn [eval]. rewrite E0.
    pose proof (crel_1 _ _ _ _ _ _ _ _ _ H [eval u e'] eq_refl) as E1. cbn in E1. exact E1.
  - (* Ref *) cbn [eval]; exact H.
  - (* StreamMap *) shapes ts es H; try reflexivity.
    pose proof (crel_0 _ _ _ _ _ _ _ H [] eq_refl) as E0. cbn in E0. cbn [eval]. rewrite E0.
    destruct (eval u e'); try reflexivity. f_equal. apply map_ext. intro v.
    pose proof (crel_1 _ _ _ _ _ _ _ _ _ H [v] eq_refl) as E1. cbn in E1. exact E1.
  - (* StreamFilter *) shapes ts es H; try reflexivity.
    pose proof (crel_0 _ _ _ _ _ _ _ H [] eq_refl) as E0. cbn in E0. cbn [eval]. rewrite E0.
    destruct (eval u e'); try reflexivity. f_equal. apply filter_ext_val. intro v.
    pose proof (crel_1 _ _ _ _ _ _ _ _ _ H [v] eq_refl) as E1. cbn in E1. rewrite E1; reflexivity.
  - (* StreamFold *) shapes ts es H; try reflexivity.
    pose proof (crel_0 _ _ _ _ _ _ _ H [] eq_refl) as E0; pose proof (crel_1 _ _ _ _ _ _ _ _ _ H [] eq_refl) as E1.
    cbn in E0, E1. cbn [eval]. rewrite E0, E1.
    destruct (eval u e'); try reflexivity. apply fold_left_ext_val. intros acc v.
    pose proof (crel_2 _ _ _ _ _ _ _ _ _ _ _ H [acc; v] eq_refl) as E2. cbn in E2. exact E2.
Qed.

Lemma upds_agree xs : forall vs e e' v,
  length vs = length xs -> (~ In v xs -> e v = e' v) -> upds xs vs e v = upds xs vs e' v.
Proof.
  induction xs as [|x xs IH]; intros [|w vs] e e' v Hl H; cbn in *; try discriminate.
  - apply H; tauto.
  - apply IH; [lia|]. intro Hy; unfold upd; destruct (var_eqb x v) eqn:E; [reflexivity|].
    apply H; apply var_eqb_neq in E; tauto.
Qed.
Lemma upds_notin xs : forall vs e v, ~ In v xs -> upds xs vs e v = e v.
Proof.
  induction xs as [|x xs IH]; intros [|w vs] e v H; cbn in *; try reflexivity.
  rewrite IH by tauto. unfold upd; destruct (var_eqb x v) eqn:E; [apply var_eqb_eq in E; subst; tauto | reflexivity].
Qed.

Lemma crel_refl_fv h cs : forall i e e',
  Forall (fun c => forall e e', (forall v, In v (fv c) -> e v = e' v) -> eval c e = eval c e') cs ->
  (forall v, In v (fv_children h i cs) -> e v = e' v) ->
  crel h i cs cs e e'.
Proof.
  induction cs as [|c cs IH]; intros i e e' HF H; cbn [crel]; [exact I|].
  inversion HF as [|? ? Hc HF']; subst. split.
  - intros vs Hl. apply Hc. intros v Hv. apply upds_agree; [exact Hl|].
    intro Hni. apply H. cbn [fv_children]. apply in_or_app; left. apply In_removes; tauto.
  - apply IH; [exact HF'|]. intros v Hv. apply H. cbn [fv_children]. apply in_or_app; right; exact Hv.
Qed.

(** coincidence: evaluation depends only on the free variables *)
Lemma eval_ext t : forall e e', (forall v, In v (fv t) -> e v = e' v) -> eval t e = eval t e'.
Proof.
  induction t as [i s h cs IH] using node_ind'; intros e e' H.
  apply eval_crel. rewrite fv_node in H.
  destruct h; try (apply crel_refl_fv; assumption).
  apply H; left; reflexivity.
Qed.
