(** C35 — print pass, part 2: moving facts from the position of a child to the position of its parent. *)
From HailV Require Import Common.Prelude CSE.Model CSE.Basics CSE.EvalLemmas CSE.PrintDefs CSE.PrintLemmas1.

Lemma bind_depth_incl D c m ctx : incl (fv D) (fv c) -> (bind_depth D m ctx <= bind_depth c m ctx)%nat.
Proof.
  intro H. apply bind_depth_le; [apply bind_depth_ge_mbd|].
  intros v Hv; apply bind_depth_ge_var; apply H; exact Hv.
Qed.

Lemma bind_depth_ctx_ext D m ctx ctx' :
  (forall v, In v (fv D) -> ctx_get ctx' v = ctx_get ctx v) -> bind_depth D m ctx' = bind_depth D m ctx.
Proof.
  unfold bind_depth. induction (fv D) as [|w l IH]; cbn; intro H; [reflexivity|].
  rewrite H by (left; reflexivity). rewrite IH; [reflexivity|]. intros v Hv; apply H; right; exact Hv.
Qed.

Section Up.
  Variable R : node.
  Variable sts : list (N * site).
  Variables (i : N) (s : bool) (h : head) (cs : list node) (d mbd : nat) (ctx : ctxt).
  Hypothesis Hnr : is_ref h = false.

  Definition ppos : pos := {| p_mbd := mbd; p_ctx := ctx; p_fv := fv (Node i s h cs); p_sz := size (Node i s h cs) |}.
  Definition cpos (k : nat) (c : node) : pos :=
    {| p_mbd := child_mbd h k d mbd; p_ctx := child_ctx h k d ctx; p_fv := fv c; p_sz := S (size c) |}.

  Lemma fv_child_parent k c v : nth_error cs k = Some c -> In v (fv c) -> ~ In v (binds h k) -> In v (fv (Node i s h cs)).
  Proof.
    intros Hn Hv Hb. rewrite fv_node.
    assert (In v (fv_children h 0 cs)) by (apply In_fv_children; exists k, c; cbn; tauto).
    destruct h; try assumption. discriminate Hnr.
  Qed.

  (* the three facts that make a witness movable: not under a new block, no variable bound by the parent *)
  Lemma movable k c D dG :
    nth_error cs k = Some c -> incl (fv D) (fv c) -> dG = bind_depth D (child_mbd h k d mbd) (child_ctx h k d ctx) ->
    (dG <= d)%nat ->
    child_mbd h k d mbd = mbd /\ (forall y, In y (fv D) -> ~ In y (binds h k)) /\
    dG = bind_depth D mbd ctx /\ incl (fv D) (fv (Node i s h cs)).
  Proof.
    intros Hn Hi E Hle.
    assert (H1 : child_mbd h k d mbd = mbd).
    { unfold child_mbd in *. destruct (new_block h k) eqn:Enb; [|reflexivity].
      pose proof (bind_depth_ge_mbd D (S d) (child_ctx h k d ctx)) as G.
      remember (bind_depth D (S d) (child_ctx h k d ctx)) as X. lia. }
    assert (H2 : forall y, In y (fv D) -> ~ In y (binds h k)).
    { intros y Hy Hb. pose proof (bind_depth_ge_var D (child_mbd h k d mbd) (child_ctx h k d ctx) y Hy) as G.
      unfold child_ctx in G at 1. rewrite ctx_get_app_in in G by exact Hb.
      remember (bind_depth D (child_mbd h k d mbd) (child_ctx h k d ctx)) as X. lia. }
    repeat split; auto.
    - rewrite E, H1. apply bind_depth_ctx_ext. intros v Hv. unfold child_ctx. apply ctx_get_app_notin. apply H2; exact Hv.
    - intros y Hy. eapply fv_child_parent; eauto.
  Qed.

  Lemma size_nth k c : nth_error cs k = Some c -> (S (size c) <= size (Node i s h cs))%nat.
  Proof. intro H. apply nth_error_In in H. pose proof (size_child i s h cs c H). lia. Qed.

  Lemma cwit_up bs k c m dG :
    nth_error cs k = Some c -> cwit R bs (cpos k c) m dG -> (dG <= d)%nat -> cwit R bs ppos m dG.
  Proof.
    intros Hn [tbl [D [H1 [H2 [H3 [H4 [H5 H6]]]]]]] Hle. cbn [p_sz p_mbd p_ctx p_fv cpos ppos] in *.
    destruct (movable k c D dG Hn H6 H5 Hle) as [_ [_ [E I]]].
    exists tbl, D. cbn [p_sz p_mbd p_ctx p_fv cpos ppos]. repeat split; auto. pose proof (size_nth k c Hn). lia.
  Qed.

  Lemma let_ok_up bs k c j pre n B :
    nth_error cs k = Some c -> let_ok R sts bs (cpos k c) j pre n B -> (j <= d)%nat -> let_ok R sts bs ppos j pre n B.
  Proof.
    intros Hn [tbl [D [H1 [H2 [H3 [H4 [H5 [H6 [H7 H8]]]]]]]]] Hle. cbn [p_sz p_mbd p_ctx p_fv cpos ppos] in *.
    destruct (movable k c D j Hn H6 H5 Hle) as [_ [_ [E I]]].
    exists tbl, D. cbn [p_sz p_mbd p_ctx p_fv cpos ppos]. repeat split; auto.
    - pose proof (size_nth k c Hn). lia.
    - intros v Hv. destruct (H7 v Hv) as [Ha|[m [dG [Ev [W O]]]]]; [left; exact Ha|].
      right; exists m, dG. repeat split; [exact Ev | | exact O]. eapply cwit_up; eauto. lia.
  Qed.

  Lemma lets_ok_up bs k c j l : forall pre,
    nth_error cs k = Some c -> lets_ok R sts bs (cpos k c) j pre l -> (j <= d)%nat -> lets_ok R sts bs ppos j pre l.
  Proof.
    induction l as [|[n B] l IH]; intros pre Hn H Hle; cbn in *; [exact I|].
    destruct H as [H1 H2]. split; [eapply let_ok_up; eauto | apply IH; assumption].
  Qed.

  Lemma Forall2_fext_up X k c a b :
    nth_error cs k = Some c -> (forall F, In F a -> (bdepth F <= d)%nat) ->
    Forall2 (fext R sts X (cpos k c)) a b -> Forall2 (fext R sts X ppos) a b.
  Proof.
    intros Hn Hd H. induction H as [|F F' a b HF HR IH]; constructor.
    - destruct HF as [H1 [H2 [H3 [H4 [l [H5 H6]]]]]]. repeat split; auto. exists l; split; [exact H5|].
      eapply lets_ok_up; eauto. apply Hd; left; reflexivity.
    - apply IH. intros G HG; apply Hd; right; exact HG.
  Qed.

  Lemma sext_up k c bs bs' :
    nth_error cs k = Some c -> (forall F, In F bs -> (bdepth F <= d)%nat) ->
    sext R sts (cpos k c) bs bs' -> sext R sts ppos bs bs'.
  Proof. intros; eapply Forall2_fext_up; eauto. Qed.

  (* free variables of a rendered child, seen from the parent *)
  Lemma fv_ok_up bs k c t :
    nth_error cs k = Some c -> (forall F, In F bs -> (bdepth F <= d)%nat) ->
    fv_ok R bs (cpos k c) t ->
    forall v, In v (fv t) -> ~ In v (binds h k) ->
      In v (p_fv ppos) \/ exists m dG, v = C m /\ cwit R bs ppos m dG.
  Proof.
    intros Hn Hd H v Hv Hb. destruct (H v Hv) as [Ha|[m [dG [E W]]]].
    - left. cbn [p_sz p_mbd p_ctx p_fv cpos ppos] in *. eapply fv_child_parent; eauto.
    - right. exists m, dG. split; [exact E|]. eapply cwit_up; eauto.
      destruct W as [tbl [D [[G [HG [E1 _]]] _]]]. rewrite <- E1. apply Hd; exact HG.
  Qed.

  (* ... and the variables of the nodes named in it are not bound by the parent *)
  Lemma cwit_unbound bs k c m dG :
    nth_error cs k = Some c -> (forall F, In F bs -> (bdepth F <= d)%nat) -> cwit R bs (cpos k c) m dG ->
    exists tbl D, has_frame bs dG tbl (nid D) /\ subterm D R /\ lookup tbl (nid D) = Some m /\
                  forall y, In y (fv D) -> ~ In y (binds h k).
  Proof.
    intros Hn Hd [tbl [D [H1 [H2 [H3 [H4 [H5 H6]]]]]]]. cbn [p_sz p_mbd p_ctx p_fv cpos ppos] in *.
    assert (Hle : (dG <= d)%nat) by (destruct H1 as [G [HG [E1 _]]]; rewrite <- E1; apply Hd; exact HG).
    destruct (movable k c D dG Hn H6 H5 Hle) as [_ [Hu _]].
    exists tbl, D; auto.
  Qed.
End Up.
