(** C35 — the two passes together, semantics WITH ERRORS: for a DAG whose loop-invariant loop-body subexpressions cannot fail,
    [cse] preserves the result including failure; without that side condition it does not (witness). *)
From HailV Require Import Common.Prelude CSE.Model CSE.Basics CSE.EvalLemmas CSE.PrintDefs
  CSE.PrintLemmas1 CSE.PrintLemmas4 CSE.PrintCorrect CSE.Analysis CSE.Main CSE.ErrLemmas CSE.ErrStrict CSE.ErrPrint.

(** *** the boolean side conditions, as facts about subterms *)
Lemma wf_arity_subterm R Y : subterm Y R -> wf_arity R = true -> wf_arity Y = true.
Proof.
  induction 1 as [|t i s h cs c Hin Hs IH]; intro H; [exact H|].
  apply IH. cbn [wf_arity] in H. apply andb_true_iff in H. destruct H as [_ H].
  rewrite forallb_forall in H. apply H; exact Hin.
Qed.

Fixpoint loops_ok_children (h : head) (k : nat) (cs : list node) : bool :=
  match cs with
  | [] => true
  | c :: r =>
    (if loop_body h k
     then forallb (fun D => pure D || negb (inclb (fv D) (removes (binds h k) (fv c)))) (subterms c)
     else true) && loops_ok_children h (S k) r
  end.

Lemma loops_ok_eq i s h cs : loops_ok (Node i s h cs) = forallb loops_ok cs && loops_ok_children h 0 cs.
Proof.
  cbn [loops_ok]. f_equal. generalize 0%nat.
  induction cs as [|c cs IH]; intro n; cbn [loops_ok_children]; [reflexivity | rewrite <- IH; reflexivity].
Qed.

Lemma loops_ok_subterm R Y : subterm Y R -> loops_ok R = true -> loops_ok Y = true.
Proof.
  induction 1 as [|t i s h cs c Hin Hs IH]; intro H; [exact H|].
  apply IH. rewrite loops_ok_eq in H. apply andb_true_iff in H. destruct H as [H _].
  rewrite forallb_forall in H. apply H; exact Hin.
Qed.

Lemma loops_ok_children_nth h cs : forall k0 k c,
  loops_ok_children h k0 cs = true -> nth_error cs k = Some c -> loop_body h (k0 + k) = true ->
  forallb (fun D => pure D || negb (inclb (fv D) (removes (binds h (k0 + k)) (fv c)))) (subterms c) = true.
Proof.
  induction cs as [|c0 cs IH]; intros k0 k c H Hn Hl; [destruct k; discriminate Hn|].
  cbn [loops_ok_children] in H. apply andb_true_iff in H. destruct H as [H1 H2].
  destruct k as [|k]; cbn in Hn.
  - inversion Hn; subst. rewrite Nat.add_0_r in *. rewrite Hl in H1. exact H1.
  - rewrite Nat.add_succ_r in *. apply (IH (S k0) k c H2 Hn Hl).
Qed.

Lemma subterm_In_subterms D : forall c, subterm D c -> In D (subterms c).
Proof.
  intros c H. induction H as [t|t i s h cs c Hin Hs IH]; [destruct t; left; reflexivity|].
  cbn [subterms]. right. apply in_flat_map. exists c; auto.
Qed.

Lemma inclb_true a b : incl a b -> inclb a b = true.
Proof. intro H. unfold inclb. apply forallb_forall. intros v Hv. apply memv_In. apply H; exact Hv. Qed.

Lemma evalE_value_plus_flag (t : node) (rho : env) :
  evalE t rho = if errsE t rho (fun _ => false) then Err else Val (eval t rho).
Proof. apply evalE_split. intro v; reflexivity. Qed.

Section TopE.
  Variable R : node.
  Hypothesis Hcons : consistent R.
  Hypothesis Hwf : wf_node R = true.
  Hypothesis Har : wf_arity R = true.
  Hypothesis Hlo : loops_ok R = true.

  Lemma top_arity : forall Y, subterm Y R -> arity_ok (nhead Y) (length (nchildren Y)) = true.
  Proof.
    intros Y HY. pose proof (wf_arity_subterm R Y HY Har) as H. destruct Y as [i s h cs]. cbn [nhead nchildren].
    cbn [wf_arity] in H. apply andb_true_iff in H. tauto.
  Qed.

  Lemma top_loops : forall i s h cs k c, subterm (Node i s h cs) R -> nth_error cs k = Some c -> loop_body h k = true ->
    forall D, subterm D c -> incl (fv D) (fv c) -> (forall y, In y (fv D) -> ~ In y (binds h k)) -> pure D = true.
  Proof.
    intros i s h cs k c HY Hn Hl D HD Hi Hb.
    pose proof (loops_ok_subterm R _ HY Hlo) as H. rewrite loops_ok_eq in H. apply andb_true_iff in H. destruct H as [_ H].
    pose proof (loops_ok_children_nth h cs 0 k c H Hn Hl) as Hf. cbn [Nat.add] in Hf.
    rewrite forallb_forall in Hf. specialize (Hf D (subterm_In_subterms D c HD)).
    rewrite inclb_true in Hf; [cbn in Hf; rewrite orb_false_r in Hf; exact Hf|].
    intros v Hv. apply In_removes. split; [apply Hi; exact Hv | apply Hb; exact Hv].
  Qed.

  Lemma top_post2 sts : NoDup (concat (map (fun e : N * site => map snd (stable (snd e))) sts)) ->
    forall T bs', pr sts R 0 0 [] false [] = (T, bs') ->
    forall e ee, uclean ee -> errsE T e ee = errsE R e ee.
  Proof.
    intros Hnd T bs' E e ee Hu.
    assert (Hi : inv R sts [] 0 (size R) (size R) []).
    { constructor.
      - intros F [].
      - constructor.
      - intros F [].
      - intros F Y [].
      - intros k i Y [].
      - intros k i [].
      - intros F [].
      - intros F []. }
    destruct (top_post R Hcons Hwf sts Hnd T bs' E) as [_ [Hfv _]].
    assert (Hp : posok 0 0 []) by (split; [lia | intro v; cbn; lia]).
    destruct (pr_correct2 R sts Hcons Hnd (top_fu R Hwf) (top_bu R Hwf) (top_ref R Hwf) top_arity top_loops R
                0%nat 0%nat [] false [] [] T bs' (st_refl R) Hi Hp) as [_ S2]; [intros F [] | intros F [] | exact E |].
    apply S2; [exact Hu | |]; intros n Y Hn _; exfalso; exact (top_fu R Hwf R (st_refl R) _ (Hfv _ Hn)).
  Qed.

  Theorem cse_preserves_errors : forall e, evalE (cse R) e = evalE R e.
  Proof.
    intro e. set (ee0 := fun _ : var => false).
    assert (Hc : clean ee0) by (intro v; reflexivity).
    rewrite (evalE_split (cse R) e ee0 Hc), (evalE_split R e ee0 Hc).
    rewrite (cse_preserves_meaning R Hcons Hwf e).
    assert (E : errsE (cse R) e ee0 = errsE R e ee0).
    { unfold cse. destruct (pr (analyse R) R 0 0 [] false []) as [T bs'] eqn:Ep. cbn [fst].
      apply (top_post2 _ (analyse_names_distinct R) T bs' Ep). intros v _. reflexivity. }
    rewrite E. reflexivity.
  Qed.
End TopE.

(** *** without the side condition on loops the statement is false: a failing expression shared inside the body of a map
    over an EMPTY array is bound in a let outside the loop *)
Definition refute_shared : node := Node 2 false (HBin Div) [Node 3 false (HI32 1) []; Node 4 false (HI32 0) []].
Definition refute_dag : node :=
  Node 1 false HToArray
    [Node 8 true (HStreamMap (U 0))
       [Node 6 true HToStream [Node 7 false HMakeArray []];
        Node 5 false (HBin Add) [refute_shared; refute_shared]]].

Example refute_consistent : consistent refute_dag.
Proof.
  intros Y Z HY HZ E. unfold refute_dag, refute_shared in *.
  enum_subterms; cbn in E; try reflexivity; try discriminate E.
Qed.

Lemma error_semantics_refuted :
  exists (d : node) (rho : env),
    consistent d /\ wf_node d = true /\ wf_arity d = true /\ loops_ok d = false /\
    evalE d rho = Val (VArr []) /\ evalE (cse d) rho = Err.
Proof.
  exists refute_dag, (fun _ => VJunk). split; [exact refute_consistent|]. vm_compute. repeat split.
Qed.

(** the hypotheses of [cse_preserves_errors] are satisfiable by a DAG that shares a FAILING expression under a guard (and in
    a loop body, depending on the loop variable): [map (x => if x == 0 then 0 else (12 // x) + (12 // x)) [0; 3]] *)
Definition guard_q : node := Node 2 false (HBin Div) [Node 3 false (HI32 12) []; Node 4 false (HRef (U 0)) []].
Definition guard_dag : node :=
  Node 1 false HToArray
    [Node 5 true (HStreamMap (U 0))
       [Node 6 true HToStream [Node 7 false HMakeArray [Node 8 false (HI32 0) []; Node 9 false (HI32 3) []]];
        Node 10 false HIf
          [Node 11 false (HCmp Eq) [Node 4 false (HRef (U 0)) []; Node 8 false (HI32 0) []];
           Node 8 false (HI32 0) [];
           Node 12 false (HBin Add) [guard_q; guard_q]]]].

Example guard_consistent : consistent guard_dag.
Proof.
  intros Y Z HY HZ E. unfold guard_dag, guard_q in *.
  enum_subterms; cbn in E; try reflexivity; try discriminate E.
Qed.
Example guard_side_conditions :
  wf_node guard_dag = true /\ wf_arity guard_dag = true /\ loops_ok guard_dag = true /\
  evalE (cse guard_dag) (fun _ => VJunk) = Val (VArr [VInt 0; VInt 8]).
Proof. vm_compute. repeat split. Qed.
