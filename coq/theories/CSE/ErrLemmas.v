(** C35 — the semantics with errors: [evalE] splits into the total value [eval] and the error flag [errsE]; congruence and
    coincidence of [errsE]; a failing child in a strict position makes its parent fail; terms without failing operations
    do not fail. *)
From HailV Require Import Common.Prelude CSE.Model CSE.Basics CSE.EvalLemmas.

Fixpoint updsb (xs : list var) (ee : benv) : benv :=
  match xs with [] => ee | x :: r => updsb r (updb ee x false) end.

Lemma updsb_notin xs : forall ee v, ~ In v xs -> updsb xs ee v = ee v.
Proof.
  induction xs as [|x xs IH]; intros ee v H; cbn in *; [reflexivity|].
  rewrite IH by tauto. unfold updb. destruct (var_eqb x v) eqn:E; [apply var_eqb_eq in E; subst; tauto | reflexivity].
Qed.
Lemma updsb_in xs : forall ee v, In v xs -> updsb xs ee v = false.
Proof.
  induction xs as [|x xs IH]; intros ee v H; cbn in *; [tauto|].
  destruct (in_dec var_eq_dec v xs) as [Hi|Hn]; [apply IH; exact Hi|].
  rewrite updsb_notin by exact Hn. destruct H as [H|H]; [|contradiction]. subst. unfold updb. rewrite var_eqb_refl. reflexivity.
Qed.
Lemma updsb_agree xs ee ee' v : (~ In v xs -> ee v = ee' v) -> updsb xs ee v = updsb xs ee' v.
Proof.
  intro H. destruct (in_dec var_eq_dec v xs) as [Hi|Hn].
  - rewrite !updsb_in by exact Hi. reflexivity.
  - rewrite !updsb_notin by exact Hn. apply H; exact Hn.
Qed.
Lemma updsb_false xs ee : (forall v, ee v = false) -> forall v, updsb xs ee v = false.
Proof.
  intros H v. destruct (in_dec var_eq_dec v xs) as [Hi|Hn]; [apply updsb_in; exact Hi | rewrite updsb_notin by exact Hn; apply H].
Qed.

(** *** congruence *)
Fixpoint ecrel (h : head) (i : nat) (ts es : list node) (e e' : env) (ee ee' : benv) : Prop :=
  match ts, es with
  | [], [] => True
  | t :: ts', u :: es' =>
      (forall vs, length vs = length (binds h i) ->
                  errsE t (upds (binds h i) vs e) (updsb (binds h i) ee) = errsE u (upds (binds h i) vs e') (updsb (binds h i) ee'))
      /\ ecrel h (S i) ts' es' e e' ee ee'
  | _, _ => False
  end.

Lemma ecrel_existsb h ts : forall es i e e' ee ee',
  (forall k, binds h k = []) -> ecrel h i ts es e e' ee ee' ->
  existsb (fun c => errsE c e ee) ts = existsb (fun c => errsE c e' ee') es.
Proof.
  induction ts as [|t ts IH]; intros [|u es] i e e' ee ee' Hb H; cbn in *; try tauto.
  destruct H as [H1 H2]. f_equal.
  - specialize (H1 []); rewrite Hb in H1; cbn in H1; apply H1; reflexivity.
  - eapply IH; eauto.
Qed.

Lemma ecrel_existsb' h ts es i e e' ee ee' :
  ecrel h i ts es e e' ee ee' -> (forall k, binds h k = []) ->
  existsb (fun c => errsE c e ee) ts = existsb (fun c => errsE c e' ee') es.
Proof. intros H Hb. eapply ecrel_existsb; eauto. Qed.
Lemma crel_map' h ts es i e e' :
  crel h i ts es e e' -> (forall k, binds h k = []) -> map (fun c => eval c e) ts = map (fun c => eval c e') es.
Proof. intros H Hb. eapply crel_map; eauto. Qed.

Lemma ecrel_0 h t ts u es e e' ee ee' : ecrel h 0 (t :: ts) (u :: es) e e' ee ee' ->
  forall vs, length vs = length (binds h 0) ->
    errsE t (upds (binds h 0) vs e) (updsb (binds h 0) ee) = errsE u (upds (binds h 0) vs e') (updsb (binds h 0) ee').
Proof. cbn; tauto. Qed.
Lemma ecrel_1 h t0 t ts u0 u es e e' ee ee' : ecrel h 0 (t0 :: t :: ts) (u0 :: u :: es) e e' ee ee' ->
  forall vs, length vs = length (binds h 1) ->
    errsE t (upds (binds h 1) vs e) (updsb (binds h 1) ee) = errsE u (upds (binds h 1) vs e') (updsb (binds h 1) ee').
Proof. cbn; tauto. Qed.
Lemma ecrel_2 h t0 t1 t ts u0 u1 u es e e' ee ee' : ecrel h 0 (t0 :: t1 :: t :: ts) (u0 :: u1 :: u :: es) e e' ee ee' ->
  forall vs, length vs = length (binds h 2) ->
    errsE t (upds (binds h 2) vs e) (updsb (binds h 2) ee) = errsE u (upds (binds h 2) vs e') (updsb (binds h 2) ee').
Proof. cbn; tauto. Qed.

Lemma existsb_ext_val (f g : value -> bool) l : (forall v, f v = g v) -> existsb f l = existsb g l.
Proof. intro H; induction l as [|x l IH]; cbn; [reflexivity | rewrite H, IH; reflexivity]. Qed.

Lemma errsE_crel i s j s' h ts es e e' ee ee' :
  match h with HRef x => ee x = ee' x | _ => crel h 0 ts es e e' /\ ecrel h 0 ts es e e' ee ee' end ->
  errsE (Node i s h ts) e ee = errsE (Node j s' h es) e' ee'.
Proof.
  intro H. destruct h;
    try (destruct H as [H He]; cbn [errsE];
         rewrite (ecrel_existsb' _ _ _ _ _ _ _ _ He (fun k => eq_refl)), (crel_map' _ _ _ _ _ _ H (fun k => eq_refl)); reflexivity).
  - (* If *) destruct H as [H He]. shapes ts es H;
      try reflexivity.
    pose proof (crel_0 _ _ _ _ _ _ _ H [] eq_refl) as E0. cbn in E0.
    pose proof (ecrel_0 _ _ _ _ _ _ _ _ _ He [] eq_refl) as X0; pose proof (ecrel_1 _ _ _ _ _ _ _ _ _ _ _ He [] eq_refl) as X1.
    pose proof (ecrel_2 _ _ _ _ _ _ _ _ _ _ _ _ _ He [] eq_refl) as X2.
    cbn in X0, X1, X2. cbn [errsE]. rewrite E0, X0, X1, X2; reflexivity.
  - (* Let *) destruct H as [H He]. shapes ts es H;
      try reflexivity.
    pose proof (crel_0 _ _ _ _ _ _ _ H [] eq_refl) as E0. cbn in E0.
    pose proof (ecrel_0 _ _ _ _ _ _ _ _ _ He [] eq_refl) as X0. cbn in X0.
    pose proof (ecrel_1 _ _ _ _ _ _ _ _ _ _ _ He [eval u e'] eq_refl) as X1. cbn in X1.
    cbn [errsE]. rewrite E0, X0, X1. reflexivity.
  - (* Ref *) cbn [errsE]; exact H.
  - (* StreamMap *) destruct H as [H He]. shapes ts es H;
      try reflexivity.
    pose proof (crel_0 _ _ _ _ _ _ _ H [] eq_refl) as E0. cbn in E0.
    pose proof (ecrel_0 _ _ _ _ _ _ _ _ _ He [] eq_refl) as X0. cbn in X0.
    cbn [errsE]. rewrite E0, X0. f_equal. destruct (eval u e'); try reflexivity.
    apply existsb_ext_val. intro v.
    pose proof (ecrel_1 _ _ _ _ _ _ _ _ _ _ _ He [v] eq_refl) as X1. cbn in X1. exact X1.
  - (* StreamFilter *) destruct H as [H He]. shapes ts es H;
      try reflexivity.
    pose proof (crel_0 _ _ _ _ _ _ _ H [] eq_refl) as E0. cbn in E0.
    pose proof (ecrel_0 _ _ _ _ _ _ _ _ _ He [] eq_refl) as X0. cbn in X0.
    cbn [errsE]. rewrite E0, X0. f_equal. destruct (eval u e'); try reflexivity.
    apply existsb_ext_val. intro v.
    pose proof (ecrel_1 _ _ _ _ _ _ _ _ _ _ _ He [v] eq_refl) as X1. cbn in X1. exact X1.
  - (* StreamFold *) destruct H as [H He]. shapes ts es H;
      try reflexivity.
    pose proof (crel_0 _ _ _ _ _ _ _ H [] eq_refl) as E0; pose proof (crel_1 _ _ _ _ _ _ _ _ _ H [] eq_refl) as E1.
    cbn in E0, E1.
    pose proof (ecrel_0 _ _ _ _ _ _ _ _ _ He [] eq_refl) as X0; pose proof (ecrel_1 _ _ _ _ _ _ _ _ _ _ _ He [] eq_refl) as X1.
    cbn in X0, X1.
    cbn [errsE]. rewrite E0, E1, X0, X1. clear E0 E1 X0 X1. f_equal. destruct (eval u e') as [| |l| |]; try reflexivity.
    generalize (eval u0 e'). induction l as [|v l IH]; intro acc; [reflexivity|].
    pose proof (crel_2 _ _ _ _ _ _ _ _ _ _ _ H [acc; v] eq_refl) as E2. cbn in E2.
    pose proof (ecrel_2 _ _ _ _ _ _ _ _ _ _ _ _ _ He [acc; v] eq_refl) as X2. cbn in X2.
    rewrite X2, E2, IH. reflexivity.
Qed.

(** *** coincidence *)
Lemma ecrel_refl_fv h cs : forall i e e' ee ee',
  Forall (fun c => forall e e' ee ee', (forall v, In v (fv c) -> e v = e' v /\ ee v = ee' v) -> errsE c e ee = errsE c e' ee') cs ->
  (forall v, In v (fv_children h i cs) -> e v = e' v /\ ee v = ee' v) ->
  ecrel h i cs cs e e' ee ee'.
Proof.
  induction cs as [|c cs IH]; intros i e e' ee ee' HF H; cbn [ecrel]; [exact I|].
  inversion HF as [|? ? Hc HF']; subst. split.
  - intros vs Hl. apply Hc. intros v Hv. split.
    + apply upds_agree; [exact Hl|]. intro Hni. apply H. cbn [fv_children]. apply in_or_app; left. apply In_removes; tauto.
    + apply updsb_agree. intro Hni. apply H. cbn [fv_children]. apply in_or_app; left. apply In_removes; tauto.
  - apply IH; [exact HF'|]. intros v Hv. apply H. cbn [fv_children]. apply in_or_app; right; exact Hv.
Qed.

Lemma errsE_ext t : forall e e' ee ee',
  (forall v, In v (fv t) -> e v = e' v /\ ee v = ee' v) -> errsE t e ee = errsE t e' ee'.
Proof.
  induction t as [i s h cs IH] using node_ind'; intros e e' ee ee' H.
  apply errsE_crel. rewrite fv_node in H.
  assert (Hev : Forall (fun c => forall e e', (forall v, In v (fv c) -> e v = e' v) -> eval c e = eval c e') cs).
  { apply Forall_forall. intros c _ e1 e2 H12. apply eval_ext; exact H12. }
  destruct h; try (split; [apply crel_refl_fv; [exact Hev | intros v Hv; apply H; exact Hv] | apply ecrel_refl_fv; assumption]).
  apply H; left; reflexivity.
Qed.

(** *** the error semantics is the total value plus the error flag *)
Definition clean (ee : benv) : Prop := forall v, ee v = false.

Lemma clean_updb ee x : clean ee -> clean (updb ee x false).
Proof. intros H v. unfold updb. destruct (var_eqb x v); [reflexivity | apply H]. Qed.

Definition split_ok (c : node) : Prop :=
  forall e ee, clean ee -> evalE c e = if errsE c e ee then Err else Val (eval c e).

Lemma children_split cs e ee : Forall split_ok cs -> clean ee ->
  (fix go (cs : list node) : option (list value) :=
     match cs with
     | [] => Some []
     | c :: r => match evalE c e with
                 | Err => None
                 | Val v => match go r with None => None | Some vs => Some (v :: vs) end
                 end
     end) cs = if existsb (fun c => errsE c e ee) cs then None else Some (map (fun c => eval c e) cs).
Proof.
  intros HF Hc. induction cs as [|c r IH]; [reflexivity|].
  inversion HF as [|? ? H1 H2]; subst. cbn [existsb map]. rewrite (H1 e ee Hc), (IH H2).
  destruct (errsE c e ee); [reflexivity|]. cbn [orb]. destruct (existsb (fun c0 => errsE c0 e ee) r); reflexivity.
Qed.

Lemma default_split h cs e ee : Forall split_ok cs -> clean ee ->
  match (fix go (cs : list node) : option (list value) :=
           match cs with
           | [] => Some []
           | c :: r => match evalE c e with
                       | Err => None
                       | Val v => match go r with None => None | Some vs => Some (v :: vs) end
                       end
           end) cs with
  | None => Err
  | Some vs => if op_fails h vs then Err else Val (apply_op h vs)
  end =
  if existsb (fun c => errsE c e ee) cs || op_fails h (map (fun c => eval c e) cs)
  then Err else Val (apply_op h (map (fun c => eval c e) cs)).
Proof.
  intros HF Hc. rewrite (children_split cs e ee HF Hc).
  destruct (existsb (fun c => errsE c e ee) cs); [reflexivity|]. cbn [orb].
  destruct (op_fails h (map (fun c => eval c e) cs)); reflexivity.
Qed.

Lemma evalE_split t : split_ok t.
Proof.
  induction t as [i s h cs IH] using node_ind'. intros e ee Hc.
  pose proof (default_split h cs e ee IH Hc) as Hdef.
  destruct h; try (cbn [evalE errsE eval]; exact Hdef).
  - (* If *)
    destruct cs as [|c [|a [|b [|x cs]]]]; try reflexivity.
    inversion IH as [|? ? Hc0 IH1]; subst. inversion IH1 as [|? ? Ha IH2]; subst. inversion IH2 as [|? ? Hb _]; subst.
    cbn [evalE errsE eval]. rewrite (Hc0 e ee Hc), (Ha e ee Hc), (Hb e ee Hc).
    destruct (errsE c e ee); [reflexivity|]. cbn [orb].
    destruct (eval c e) as [| [|] | | |]; try reflexivity.
  - (* Let *)
    destruct cs as [|a [|b [|y cs]]]; try reflexivity.
    inversion IH as [|? ? Ha IH1]; subst. inversion IH1 as [|? ? Hb _]; subst.
    cbn [evalE errsE eval]. rewrite (Ha e ee Hc).
    destruct (errsE a e ee); [reflexivity|]. cbn [orb].
    apply Hb. apply clean_updb; exact Hc.
  - (* Ref *) cbn [evalE errsE eval]. rewrite Hc. reflexivity.
  - (* StreamMap *)
    destruct cs as [|a [|b [|y cs]]]; try reflexivity.
    inversion IH as [|? ? Ha IH1]; subst. inversion IH1 as [|? ? Hb _]; subst.
    cbn [evalE errsE eval]. rewrite (Ha e ee Hc).
    destruct (errsE a e ee); [reflexivity|]. cbn [orb].
    destruct (eval a e) as [| |l| |]; try reflexivity.
    induction l as [|v l IHl]; [reflexivity|].
    cbn [existsb map]. rewrite (Hb (upd e x v) (updb ee x false) (clean_updb _ _ Hc)).
    destruct (errsE b (upd e x v) (updb ee x false)); [reflexivity|]. cbn [orb].
    destruct (existsb (fun v0 => errsE b (upd e x v0) (updb ee x false)) l).
    + match goal with H : match ?g with None => Err | Some ws => _ end = Err |- _ => destruct g; [discriminate H | reflexivity] end.
    + match goal with H : match ?g with None => Err | Some ws => _ end = Val _ |- _ =>
        destruct g as [ws|]; [inversion H; subst; reflexivity | discriminate H] end.
  - (* StreamFilter *)
    destruct cs as [|a [|b [|y cs]]]; try reflexivity.
    inversion IH as [|? ? Ha IH1]; subst. inversion IH1 as [|? ? Hb _]; subst.
    cbn [evalE errsE eval]. rewrite (Ha e ee Hc).
    destruct (errsE a e ee); [reflexivity|]. cbn [orb].
    destruct (eval a e) as [| |l| |]; try reflexivity.
    induction l as [|v l IHl]; [reflexivity|].
    cbn [existsb filter]. rewrite (Hb (upd e x v) (updb ee x false) (clean_updb _ _ Hc)).
    destruct (errsE b (upd e x v) (updb ee x false)); [reflexivity|]. cbn [orb].
    destruct (existsb (fun v0 => errsE b (upd e x v0) (updb ee x false)) l).
    + match goal with H : match ?g with None => Err | Some ws => _ end = Err |- _ => destruct g; [discriminate H | reflexivity] end.
    + match goal with H : match ?g with None => Err | Some ws => _ end = Val _ |- _ =>
        destruct g as [ws|]; [inversion H; subst | discriminate H] end.
      destruct (is_vtrue (eval b (upd e x v))); reflexivity.
  - (* StreamFold *)
    destruct cs as [|a0 [|z [|b [|y cs]]]]; try reflexivity.
    inversion IH as [|? ? Ha IH1]; subst. inversion IH1 as [|? ? Hz IH2]; subst. inversion IH2 as [|? ? Hb _]; subst.
    cbn [evalE errsE eval]. rewrite (Ha e ee Hc), (Hz e ee Hc).
    destruct (errsE a0 e ee); [reflexivity|]. cbn [orb].
    destruct (errsE z e ee); [reflexivity|]. cbn [orb].
    destruct (eval a0 e) as [| |l| |]; try reflexivity.
    generalize (eval z e). induction l as [|v l IHl]; intro acc; [reflexivity|].
    cbn [fold_left].
    rewrite (Hb (upd (upd e a acc) x v) (updb (updb ee a false) x false) (clean_updb _ _ (clean_updb _ _ Hc))).
    destruct (errsE b (upd (upd e a acc) x v) (updb (updb ee a false) x false)); [reflexivity|]. cbn [orb].
    apply IHl.
Qed.

(** *** a failing child in a strict position makes the parent fail *)
Lemma errsE_strict_child i s h cs k c e ee :
  nth_error cs k = Some c -> arity_ok h (length cs) = true -> is_ref h = false ->
  new_block h k = false -> loop_body h k = false ->
  (forall vs, length vs = length (binds h k) -> errsE c (upds (binds h k) vs e) (updsb (binds h k) ee) = true) ->
  errsE (Node i s h cs) e ee = true.
Proof.
  intros Hn Har Hr Hnb Hlb H.
  assert (Hdef : (forall j, binds h j = []) ->
                 existsb (fun c => errsE c e ee) cs || op_fails h (map (fun c => eval c e) cs) = true).
  { intro Hb. apply orb_true_iff; left. apply existsb_exists. exists c. split; [eapply nth_error_In; eauto|].
    specialize (H []). rewrite Hb in H. apply H. reflexivity. }
  destruct h; try discriminate Hr; try (cbn [errsE]; apply Hdef; intro j; reflexivity).
  - (* If *) destruct cs as [|c0 [|a [|b [|x cs]]]]; try discriminate Har.
    destruct k as [|[|[|k]]]; cbn in Hn, Hnb; try discriminate Hnb; [|destruct k; discriminate Hn].
    inversion Hn; subst. cbn [errsE]. specialize (H [] eq_refl). cbn in H. rewrite H. reflexivity.
  - (* Let *) destruct cs as [|a [|b [|y cs]]]; try discriminate Har.
    destruct k as [|[|k]]; cbn in Hn; [| |destruct k; discriminate Hn]; inversion Hn; subst; cbn [errsE].
    + specialize (H [] eq_refl). cbn in H. rewrite H. reflexivity.
    + specialize (H [eval a e] eq_refl). cbn in H. rewrite H. apply orb_true_r.
  - (* StreamMap *) destruct cs as [|a [|b [|y cs]]]; try discriminate Har.
    destruct k as [|[|k]]; cbn in Hn, Hlb; try discriminate Hlb; [|destruct k; discriminate Hn].
    inversion Hn; subst. cbn [errsE]. specialize (H [] eq_refl). cbn in H. rewrite H. reflexivity.
  - (* StreamFilter *) destruct cs as [|a [|b [|y cs]]]; try discriminate Har.
    destruct k as [|[|k]]; cbn in Hn, Hlb; try discriminate Hlb; [|destruct k; discriminate Hn].
    inversion Hn; subst. cbn [errsE]. specialize (H [] eq_refl). cbn in H. rewrite H. reflexivity.
  - (* StreamFold *) destruct cs as [|a0 [|z [|b [|y cs]]]]; try discriminate Har.
    destruct k as [|[|[|k]]]; cbn in Hn, Hlb; try discriminate Hlb; [| |destruct k; discriminate Hn];
      inversion Hn; subst; cbn [errsE]; specialize (H [] eq_refl); cbn in H; rewrite H; [reflexivity|].
    rewrite orb_true_r. reflexivity.
Qed.

(** *** terms without failing operations do not fail *)
Lemma op_fails_pure h vs : can_fail h = false -> op_fails h vs = false.
Proof.
  intro H. destruct h; try reflexivity.
  - destruct o; try discriminate H; destruct vs as [|a [|b [|c vs]]]; reflexivity.
  - discriminate H.
Qed.

Lemma fv_child_in i s h cs k c v :
  is_ref h = false -> nth_error cs k = Some c -> In v (fv c) -> ~ In v (binds h k) -> In v (fv (Node i s h cs)).
Proof.
  intros Hr Hn Hv Hb. rewrite fv_node.
  assert (In v (fv_children h 0 cs)) by (apply In_fv_children; exists k, c; cbn; tauto).
  destruct h; try assumption. discriminate Hr.
Qed.

Lemma pure_no_error t : pure t = true -> forall e ee, (forall v, In v (fv t) -> ee v = false) -> errsE t e ee = false.
Proof.
  induction t as [i s h cs IH] using node_ind'. intros Hp e ee Hee.
  cbn [pure] in Hp. apply andb_true_iff in Hp. destruct Hp as [Hcf Hp]. apply negb_true_iff in Hcf.
  rewrite forallb_forall in Hp. rewrite Forall_forall in IH.
  destruct (is_ref h) eqn:Hr.
  { destruct h; try discriminate Hr. cbn [errsE]. apply Hee. rewrite fv_node. left; reflexivity. }
  assert (Hch : forall k c, nth_error cs k = Some c -> forall vs e1, length vs = length (binds h k) ->
                  errsE c (upds (binds h k) vs e1) (updsb (binds h k) ee) = false).
  { intros k c Hn vs e1 Hl. pose proof (nth_error_In _ _ Hn) as Hin. apply IH; [exact Hin | apply Hp; exact Hin|].
    intros v Hv. destruct (in_dec var_eq_dec v (binds h k)) as [Hb|Hb]; [apply updsb_in; exact Hb|].
    rewrite updsb_notin by exact Hb. apply Hee. eapply fv_child_in; eauto. }
  assert (Hdef : (forall j, binds h j = []) ->
                 existsb (fun c => errsE c e ee) cs || op_fails h (map (fun c => eval c e) cs) = false).
  { intro Hb. rewrite op_fails_pure by exact Hcf. rewrite orb_false_r.
    apply not_true_is_false. intro Hex. apply existsb_exists in Hex. destruct Hex as [c [Hin Hc]].
    apply In_nth_error in Hin. destruct Hin as [k Hk]. specialize (Hch k c Hk [] e). rewrite Hb in Hch. cbn in Hch.
    rewrite Hch in Hc by reflexivity. discriminate. }
  destruct h; try discriminate Hr; try (cbn [errsE]; apply Hdef; intro j; reflexivity).
  - (* If *) destruct cs as [|c0 [|a [|b [|x cs]]]]; try reflexivity.
    cbn [errsE].
    pose proof (Hch 0%nat c0 eq_refl [] e eq_refl) as H0. pose proof (Hch 1%nat a eq_refl [] e eq_refl) as H1.
    pose proof (Hch 2%nat b eq_refl [] e eq_refl) as H2. cbn in H0, H1, H2. rewrite H0, H1, H2.
    destruct (eval c0 e) as [| [|] | | |]; reflexivity.
  - (* Let *) destruct cs as [|a [|b [|y cs]]]; try reflexivity.
    cbn [errsE].
    pose proof (Hch 0%nat a eq_refl [] e eq_refl) as H0. pose proof (Hch 1%nat b eq_refl [eval a e] e eq_refl) as H1.
    cbn in H0, H1. rewrite H0, H1. reflexivity.
  - (* StreamMap *) destruct cs as [|a [|b [|y cs]]]; try reflexivity.
    cbn [errsE]. pose proof (Hch 0%nat a eq_refl [] e eq_refl) as H0. cbn in H0. rewrite H0. cbn [orb].
    destruct (eval a e) as [| |l| |]; try reflexivity.
    induction l as [|v l IHl]; [reflexivity|]. cbn [existsb].
    pose proof (Hch 1%nat b eq_refl [v] e eq_refl) as H1. cbn in H1. rewrite H1. exact IHl.
  - (* StreamFilter *) destruct cs as [|a [|b [|y cs]]]; try reflexivity.
    cbn [errsE]. pose proof (Hch 0%nat a eq_refl [] e eq_refl) as H0. cbn in H0. rewrite H0. cbn [orb].
    destruct (eval a e) as [| |l| |]; try reflexivity.
    induction l as [|v l IHl]; [reflexivity|]. cbn [existsb].
    pose proof (Hch 1%nat b eq_refl [v] e eq_refl) as H1. cbn in H1. rewrite H1. exact IHl.
  - (* StreamFold *) destruct cs as [|a0 [|z [|b [|y cs]]]]; try reflexivity.
    cbn [errsE]. pose proof (Hch 0%nat a0 eq_refl [] e eq_refl) as H0. pose proof (Hch 1%nat z eq_refl [] e eq_refl) as H1.
    cbn in H0, H1. rewrite H0, H1. cbn [orb].
    destruct (eval a0 e) as [| |l| |]; try reflexivity.
    generalize (eval z e). induction l as [|v l IHl]; intro acc; [reflexivity|].
    pose proof (Hch 2%nat b eq_refl [acc; v] e eq_refl) as H2. cbn in H2. rewrite H2. apply IHl.
Qed.
