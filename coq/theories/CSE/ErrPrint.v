(** C35 — print pass, second pass over the same traversal: the ERROR FLAG of the rendered term equals the error flag of the
    node (given that every lifted node sits in a strict position below its binding site, ErrStrict.v).  The facts about
    values, scoping and the bindings stack are taken from the first pass (PrintCorrect.v). *)
From HailV Require Import Common.Prelude CSE.Model CSE.Basics CSE.EvalLemmas CSE.PrintDefs
  CSE.PrintLemmas1 CSE.PrintLemmas2 CSE.PrintLemmas3 CSE.PrintLemmas4 CSE.PrintLemmas5 CSE.PrintLemmas6 CSE.PrintLemmas7
  CSE.PrintLemmas8 CSE.PrintLemmas9 CSE.PrintCorrect CSE.ErrLemmas CSE.ErrStrict.

Lemma errsE_cref n e ee : errsE (cref n) e ee = ee (C n).
Proof. reflexivity. Qed.
Lemma errsE_clet n B body e ee :
  errsE (clet n B body) e ee = errsE B e ee || errsE body (upd e (C n) (eval B e)) (updb ee (C n) false).
Proof. reflexivity. Qed.
Lemma errsE_crel_nonref i s j s' h ts es e e' ee ee' :
  is_ref h = false -> crel h 0 ts es e e' -> ecrel h 0 ts es e e' ee ee' ->
  errsE (Node i s h ts) e ee = errsE (Node j s' h es) e' ee'.
Proof. intros H Hc He; apply errsE_crel; destruct h; try (split; assumption); discriminate H. Qed.

Section Print2.
  Variable R : node.
  Variable sts : list (N * site).
  Hypothesis Hcons : forall Y Z, subterm Y R -> subterm Z R -> nid Y = nid Z -> Y = Z.
  Hypothesis Hnames : NoDup (concat (map (fun e : N * site => map snd (stable (snd e))) sts)).
  Hypothesis Hfu : forall Y, subterm Y R -> forall v, In v (fv Y) -> uvar v.
  Hypothesis Hbu : forall Y, subterm Y R -> forall k v, In v (binds (nhead Y) k) -> uvar v.
  Hypothesis Href : forall Y, subterm Y R -> is_ref (nhead Y) = true -> nchildren Y = [].
  Hypothesis Harity : forall Y, subterm Y R -> arity_ok (nhead Y) (length (nchildren Y)) = true.
  Hypothesis Hloops : forall i s h cs k c, subterm (Node i s h cs) R -> nth_error cs k = Some c -> loop_body h k = true ->
    forall D, subterm D c -> incl (fv D) (fv c) -> (forall y, In y (fv D) -> ~ In y (binds h k)) -> pure D = true.

  Definition goodE (e : env) (ee : benv) (vs : list var) : Prop :=
    forall n Y, In (C n) vs -> name_node R sts n Y -> ee (C n) = errsE Y e ee.
  Definition sem2 (T X : node) : Prop :=
    forall e ee, uclean ee -> good R sts e (fv T) -> goodE e ee (fv T) -> errsE T e ee = errsE X e ee.
  Definition letfact (F : bframe) (n : N) (B : node) : Prop :=
    exists D XF, name_node R sts n D /\ sem2 B D /\ subterm XF R /\ nid XF = bnode F /\ strict_to D XF.
  Definition lets_fact (bs : bstack) : Prop := forall F, In F bs -> forall n B, In (n, B) (blets F) -> letfact F n B.
  Definition anc_ok (bs : bstack) (X : node) (d mbd : nat) (ctx : ctxt) : Prop :=
    forall F, In F bs -> exists XF mF cF, subterm XF R /\ nid XF = bnode F /\ posok (bdepth F) mF cF /\
                                          below XF (bdepth F) mF cF X d mbd ctx.
  Definition skel (bs bs' : bstack) : Prop :=
    forall F', In F' bs' -> exists F, In F bs /\ bdepth F' = bdepth F /\ bnode F' = bnode F.

  Definition pr_spec2 (X : node) : Prop :=
    forall d mbd ctx lifted bs P T bs',
      subterm X R -> inv R sts bs d (size X) (size X) P -> posok d mbd ctx -> anc_ok bs X d mbd ctx -> lets_fact bs ->
      pr sts X d mbd ctx lifted bs = (T, bs') -> lets_fact bs' /\ sem2 T X.

  Lemma letfact_bnode F F' n B : bnode F' = bnode F -> letfact F n B -> letfact F' n B.
  Proof.
    intros E [D [XF [H1 [H2 [H3 [H4 H5]]]]]]. exists D, XF.
    split; [exact H1|]. split; [exact H2|]. split; [exact H3|]. split; [congruence | exact H5].
  Qed.

  Lemma skel_of_fext Z p a b : Forall2 (fext R sts Z p) a b -> skel a b.
  Proof.
    intros H F' HF'. destruct (Forall2_fext_skel _ _ _ _ _ _ H) as [_ Hs].
    destruct (Hs F' HF') as [F [H1 [H2 [H3 _]]]]. exists F; auto.
  Qed.
  Lemma skel_upd bs dd f : (forall F, bdepth (f F) = bdepth F /\ bnode (f F) = bnode F) -> skel bs (bs_upd bs dd f).
  Proof.
    intros Hf F' HF'. apply bs_upd_In in HF'. destruct HF' as [F [HF E]]. exists F. split; [exact HF|].
    destruct (Nat.eqb (bdepth F) dd); subst F'; [apply Hf | split; reflexivity].
  Qed.
  Lemma skel_trans a b c : skel a b -> skel b c -> skel a c.
  Proof.
    intros H1 H2 F HF. destruct (H2 F HF) as [G [HG [E1 E2]]]. destruct (H1 G HG) as [K [HK [E3 E4]]].
    exists K. split; [exact HK|]. split; congruence.
  Qed.
  Lemma anc_ok_skel bs bs' X d mbd ctx : anc_ok bs X d mbd ctx -> skel bs bs' -> anc_ok bs' X d mbd ctx.
  Proof.
    intros H Hs F' HF'. destruct (Hs F' HF') as [F [HF [E1 E2]]].
    destruct (H F HF) as [XF [mF [cF [A1 [A2 [A3 A4]]]]]]. exists XF, mF, cF. rewrite E1, E2.
    split; [exact A1|]. split; [exact A2|]. split; [exact A3 | exact A4].
  Qed.
  Lemma anc_ok_child bs i s h cs d mbd ctx k c :
    anc_ok bs (Node i s h cs) d mbd ctx -> nth_error cs k = Some c ->
    anc_ok bs c (S d) (child_mbd h k d mbd) (child_ctx h k d ctx).
  Proof.
    intros H Hn F HF. destruct (H F HF) as [XF [mF [cF [A1 [A2 [A3 A4]]]]]]. exists XF, mF, cF.
    split; [exact A1|]. split; [exact A2|]. split; [exact A3|]. eapply below_step; eauto.
  Qed.

  Lemma sem2_cref name c : name_node R sts name c -> sem2 (cref name) c.
  Proof.
    intros Hnn e ee Hu Hg HgE. rewrite errsE_cref. apply HgE; [rewrite fv_cref; left; reflexivity | exact Hnn].
  Qed.

  Lemma errsE_upd_C Y e ee n v b : subterm Y R -> errsE Y (upd e (C n) v) (updb ee (C n) b) = errsE Y e ee.
  Proof.
    intro HY. apply errsE_ext. intros x Hx.
    assert (Hne : C n <> x) by (intro E; subst x; exact (Hfu Y HY _ Hx)).
    split; [apply upd_other; exact Hne|]. unfold updb. destruct (var_eqb (C n) x) eqn:E; [apply var_eqb_eq in E; contradiction | reflexivity].
  Qed.

  (** *** one child *)
  Lemma child_step2 i s h cs d mbd ctx k c bs sz szP P t bs' :
    nth_error cs k = Some c -> subterm (Node i s h cs) R ->
    pr_spec2 c -> inv R sts bs (S d) sz szP P -> subterm c R -> (size c <= sz)%nat -> (size c < szP)%nat ->
    posok d mbd ctx -> anc_ok bs (Node i s h cs) d mbd ctx -> lets_fact bs ->
    pr_child sts h d mbd ctx k c bs = (t, bs') ->
    lets_fact bs' /\ sem2 t c.
  Proof.
    intros Hn HX IH Hi Hc Hs1 Hs2 Hp Ha Hlf E. unfold pr_child in E.
    set (mbd' := child_mbd h k d mbd) in *. set (ctx' := child_ctx h k d ctx) in *.
    set (bd := bind_depth c mbd' ctx') in *.
    pose proof (posok_child h k d mbd ctx Hp) as Hp'. fold mbd' ctx' in Hp'.
    pose proof (anc_ok_child bs i s h cs d mbd ctx k c Ha Hn) as Ha'. fold mbd' ctx' in Ha'.
    destruct (lift_target bs bd (nid c)) as [name|] eqn:El.
    - destruct (lift_target_Some _ _ _ _ El) as [F [Hg Hl]].
      destruct (bs_get_In _ _ _ Hg) as [HF Hd].
      assert (Hnn : name_node R sts name c).
      { split; [exact Hc|]. exists (btable F). split; [eapply frame_in_table; eauto | exact Hl]. }
      unfold is_visited in E. rewrite Hg in E.
      destruct (memN (nid c) (bvis F)) eqn:Ev.
      + inversion E; subst. split; [exact Hlf | apply sem2_cref; exact Hnn].
      + destruct (pr sts c (S d) mbd' ctx' true (bs_upd bs bd (f_mark (nid c)))) as [B bs''] eqn:Ep.
        inversion E; subst t bs'. clear E.
        assert (Hnv : ~ In (nid c) (bvis F)) by (intro Hin; apply memN_In in Hin; congruence).
        set (bsm := bs_upd bs bd (f_mark (nid c))) in *.
        assert (Him : inv R sts bsm (S d) (size c) (size c) ((bd, nid c) :: P)) by (eapply inv_mark; eauto; lia).
        assert (Sk1 : skel bs bsm) by (apply skel_upd; intro G; split; reflexivity).
        assert (Hlfm : lets_fact bsm).
        { intros G HG n0 B0 Hin. apply bs_upd_In in HG. destruct HG as [G0 [HG0 EG]].
          destruct (Nat.eqb (bdepth G0) bd); subst G; [|eapply Hlf; eauto].
          cbn in Hin. eapply letfact_bnode; [|eapply Hlf; eauto]. reflexivity. }
        destruct (IH (S d) mbd' ctx' true bsm ((bd, nid c) :: P) B bs'' Hc Him Hp' (anc_ok_skel _ _ _ _ _ _ Ha' Sk1) Hlfm Ep)
          as [L2 S2].
        destruct (pr_correct R sts Hcons Hnames Hfu Hbu Href c (S d) mbd' ctx' true bsm ((bd, nid c) :: P) B bs'' Hc Him Ep)
          as [A1 _].
        pose proof (skel_of_fext _ _ _ _ A1) as Sk2.
        split; [|apply sem2_cref; exact Hnn].
        intros F3 HF3 n0 B0 Hin. apply bs_upd_In in HF3. destruct HF3 as [F2 [HF2 EF]].
        destruct (Nat.eqb (bdepth F2) bd) eqn:Eb; subst F3; [|eapply L2; eauto].
        apply Nat.eqb_eq in Eb. cbn [f_addlet blets] in Hin. apply in_app_or in Hin. destruct Hin as [Hin|[Hin|[]]].
        * eapply letfact_bnode; [|eapply L2; eauto]. reflexivity.
        * inversion Hin; subst n0 B0. clear Hin.
          destruct (skel_trans _ _ _ Sk1 Sk2 F2 HF2) as [F0 [HF0 [E1 E2]]].
          destruct (Ha F0 HF0) as [XF [mF [cF [X1 [X2 [X3 X4]]]]]].
          exists c, XF. split; [exact Hnn|]. split; [exact S2|]. split; [exact X1|]. split; [cbn; congruence|].
          assert (Hb : below XF (bdepth F0) mF cF c (S d) mbd' ctx') by (eapply below_step; eauto).
          apply (strict_reach R Hfu Href Harity Hloops XF (bdepth F0) mF cF c (S d) mbd' ctx' Hb X3 X1 c (st_refl c)).
          -- apply incl_refl.
          -- fold bd. lia.
          -- intros e ee _ H; exact H.
    - assert (Hi' : inv R sts bs (S d) (size c) (size c) P) by (eapply inv_mono; eauto; lia).
      exact (IH (S d) mbd' ctx' false bs P t bs' Hc Hi' Hp' Ha' Hlf E).
  Qed.

  (** *** all children *)
  Section Loop2.
    Variables (i : N) (s : bool) (h : head) (cs : list node) (d mbd : nat) (ctx : ctxt).
    Hypothesis Hnr : is_ref h = false.
    Hypothesis HX : subterm (Node i s h cs) R.
    Let X := Node i s h cs.

    Lemma loop2 cl : forall pre k bs ts bs' P,
      cs = pre ++ cl -> length pre = k ->
      Forall pr_spec2 cl -> (forall c, In c cl -> subterm c R) ->
      inv R sts bs (S d) (size X - 1) (size X) P -> posok d mbd ctx -> anc_ok bs X d mbd ctx -> lets_fact bs ->
      prs sts h d mbd ctx k cl bs = (ts, bs') ->
      lets_fact bs' /\ Forall2 sem2 ts cl.
    Proof.
      induction cl as [|c cl IH]; intros pre k bs ts bs' P Ecs Hk HF Hsub Hi Hp Ha Hlf E; cbn [prs] in E.
      - inversion E; subst. split; [exact Hlf | constructor].
      - destruct (pr_child sts h d mbd ctx k c bs) as [t bs1] eqn:E1.
        destruct (prs sts h d mbd ctx (S k) cl bs1) as [ts' bs2] eqn:E2.
        inversion E; subst ts bs'. clear E.
        pose proof (Forall_inv HF) as Hc. pose proof (Forall_inv_tail HF) as HF'. subst k.
        assert (Hn : nth_error cs (length pre) = Some c) by (rewrite Ecs; apply nth_error_mid).
        assert (Hsz : (size c < size X)%nat).
        { apply size_child. rewrite Ecs. apply in_or_app; right; left; reflexivity. }
        assert (Hcs : subterm c R) by (apply Hsub; left; reflexivity).
        pose proof (child_step R sts Hcons Hnames Hfu h d mbd ctx (length pre) c bs (size X - 1) (size X) P t bs1
                      (pr_correct R sts Hcons Hnames Hfu Hbu Href c) Hi Hcs ltac:(lia) Hsz E1) as [A1 [A2 _]].
        destruct (child_step2 i s h cs d mbd ctx (length pre) c bs (size X - 1) (size X) P t bs1 Hn HX Hc Hi Hcs ltac:(lia) Hsz
                    Hp Ha Hlf E1) as [L1 S1].
        destruct (IH (pre ++ [c]) (S (length pre)) bs1 ts' bs2 P) as [L2 S2]; auto.
        + rewrite <- app_assoc. exact Ecs.
        + rewrite app_length; cbn; lia.
        + intros c' Hc'; apply Hsub; right; exact Hc'.
        + eapply anc_ok_skel; [exact Ha | eapply skel_of_fext; exact A1].
    Qed.

    Hypothesis Hbuh : forall k v, In v (binds h k) -> uvar v.

    Lemma ecrel_of_cfacts bs' e ee cl : forall k tl,
      uclean ee -> cfacts R sts i s h cs mbd ctx bs' k cl tl -> Forall2 sem2 tl cl ->
      good R sts e (fv_children h k tl) -> goodE e ee (fv_children h k tl) -> ecrel h k tl cl e e ee ee.
    Proof.
      induction cl as [|c cl IH]; intros k [|t tl] Hu H HS Hg HgE; cbn [cfacts ecrel] in *; try tauto.
      destruct H as [[F1 [F2 F3]] H2]. inversion HS as [|? ? ? ? S1 S2]; subst. split.
      - intros vs Hl. apply S1; [apply uclean_updsb; exact Hu | |].
        + intros m Y Hm HY.
          assert (Hcb : ~ In (C m) (binds h k)) by (intro Hb; apply (Hbuh k (C m) Hb)).
          rewrite upds_notin by exact Hcb.
          rewrite (Hg m Y); [|cbn [fv_children]; apply in_or_app; left; apply In_removes; tauto | exact HY].
          destruct (F2 m Hm) as [D [HD Hud]].
          assert (Y = D) by (eapply name_node_uniq; eauto). subst Y.
          apply eval_ext. intros v Hv. symmetry. apply upds_notin. apply Hud; exact Hv.
        + intros m Y Hm HY.
          assert (Hcb : ~ In (C m) (binds h k)) by (intro Hb; apply (Hbuh k (C m) Hb)).
          rewrite updsb_notin by exact Hcb.
          rewrite (HgE m Y); [|cbn [fv_children]; apply in_or_app; left; apply In_removes; tauto | exact HY].
          destruct (F2 m Hm) as [D [HD Hud]].
          assert (Y = D) by (eapply name_node_uniq; eauto). subst Y.
          apply errsE_ext. intros v Hv. split; symmetry; [apply upds_notin | apply updsb_notin]; apply Hud; exact Hv.
      - apply IH; auto.
        + intros m Y Hm HY. apply Hg; [|exact HY]. cbn [fv_children]. apply in_or_app; right; exact Hm.
        + intros m Y Hm HY. apply HgE; [|exact HY]. cbn [fv_children]. apply in_or_app; right; exact Hm.
    Qed.

    Lemma node_sem2 bs' ts :
      cfacts R sts i s h cs mbd ctx bs' 0 cs ts -> Forall2 sem2 ts cs -> sem2 (Node i s h ts) X.
    Proof.
      intros H HS e ee Hu Hg HgE. rewrite fv_node_nonref in Hg, HgE by exact Hnr.
      apply errsE_crel_nonref; [exact Hnr | |].
      - eapply crel_of_cfacts; eauto.
      - eapply ecrel_of_cfacts; eauto.
    Qed.
  End Loop2.

  (** *** the lets of a binding site *)
  Section Wrap2.
    Variables (bs2 : bstack) (pp : pos) (d : nat) (T X : node) (OWN : list N).
    Hypothesis HX : subterm X R.
    Hypothesis Hout : forall m dG, cwit R bs2 pp m dG -> (dG < d)%nat -> ~ In m OWN.
    Hypothesis Htab : forall dG tbl i, has_frame bs2 dG tbl i -> in_table sts tbl.
    Hypothesis HT : sem2 T X.

    Lemma wrap_sem2 l : forall pre e ee,
      uclean ee ->
      lets_ok R sts bs2 pp d pre l -> NoDup (pre ++ map fst l) -> incl (pre ++ map fst l) OWN ->
      (forall n B, In (n, B) l -> exists D, name_node R sts n D /\ sem2 B D /\ strict_to D X) ->
      (forall n, In n pre -> forall Y, name_node R sts n Y -> e (C n) = eval Y e /\ ee (C n) = errsE Y e ee) ->
      (forall m dG, In (C m) (fv (wrap_lets l T)) -> cwit R bs2 pp m dG -> (dG < d)%nat ->
                    forall Y, name_node R sts m Y -> e (C m) = eval Y e /\ ee (C m) = errsE Y e ee) ->
      (forall m, In (C m) (fv T) -> exists dG, cwit R bs2 pp m dG /\ (dG < d \/ In m (pre ++ map fst l))%nat) ->
      errsE (wrap_lets l T) e ee = errsE X e ee.
    Proof.
      induction l as [|[n B] l IH]; intros pre e ee Hu Hl Hnd Hinc Hlf Ea Eb HTfv; cbn [map fst snd] in *.
      - cbn [wrap_lets fold_right]. rewrite app_nil_r in *. apply HT; [exact Hu | |].
        + intros m Y Hm HY. destruct (HTfv m Hm) as [dG [W [O|O]]]; [eapply (Eb m dG); eauto | apply Ea; assumption].
        + intros m Y Hm HY. destruct (HTfv m Hm) as [dG [W [O|O]]]; [eapply (Eb m dG); eauto | apply Ea; assumption].
      - destruct Hl as [[tbl [D [H1 [H2 [H3 [H4 [H5 [H6 [H7 H8]]]]]]]]] Hl'].
        assert (HnD : name_node R sts n D).
        { split; [exact H2|]. exists tbl; split; [eapply Htab; eauto | exact H4]. }
        destruct (Hlf n B (or_introl eq_refl)) as [D' [HnD' [SB Hst]]].
        assert (D' = D) by (eapply name_node_uniq; eauto). subst D'.
        change (wrap_lets ((n, B) :: l) T) with (clet n B (wrap_lets l T)) in *.
        assert (Hboth : forall m Y, In (C m) (fv B) -> name_node R sts m Y -> e (C m) = eval Y e /\ ee (C m) = errsE Y e ee).
        { intros m Y Hm HY. destruct (H7 (C m) Hm) as [Ha|[m' [dG [E [W O]]]]].
          - exfalso. exact (Hfu D H2 _ Ha).
          - inversion E; subst m'. destruct O as [O|[_ O]]; [|apply Ea; assumption].
            eapply (Eb m dG); eauto. apply fv_clet; left; exact Hm. }
        assert (EB : eval B e = eval D e) by (apply H8; intros m Y Hm HY; apply Hboth; assumption).
        assert (EBE : errsE B e ee = errsE D e ee).
        { apply SB; [exact Hu | |]; intros m Y Hm HY; apply Hboth; assumption. }
        rewrite errsE_clet.
        destruct (errsE B e ee) eqn:EBt.
        + cbn [orb]. symmetry. apply Hst; [exact Hu | congruence].
        + cbn [orb].
          assert (Hn_notin : ~ In n pre).
          { intro Hin. apply NoDup_remove_2 in Hnd. apply Hnd. apply in_or_app; left; exact Hin. }
          rewrite (IH (pre ++ [n]) (upd e (C n) (eval B e)) (updb ee (C n) false)).
          * apply errsE_upd_C; exact HX.
          * apply uclean_updb_C; exact Hu.
          * exact Hl'.
          * rewrite <- app_assoc; exact Hnd.
          * rewrite <- app_assoc; exact Hinc.
          * intros n0 B0 Hin. apply Hlf. right; exact Hin.
          * intros n' Hn' Y HY. rewrite (eval_upd_C R Hfu Y e n _ (proj1 HY)), (errsE_upd_C Y e ee n _ _ (proj1 HY)).
            apply in_app_or in Hn'. destruct Hn' as [Hn'|[Hn'|[]]].
            -- assert (Hne : C n <> C n') by (intro E; inversion E; subst; contradiction).
               rewrite upd_other by exact Hne. unfold updb.
               destruct (var_eqb (C n) (C n')) eqn:Ev; [apply var_eqb_eq in Ev; contradiction|]. apply Ea; assumption.
            -- subst n'. rewrite upd_same. unfold updb. rewrite var_eqb_refl.
               assert (Y = D) by (eapply name_node_uniq; eauto). subst Y. split; [exact EB | congruence].
          * intros m dG Hm W Hlt Y HY. rewrite (eval_upd_C R Hfu Y e n _ (proj1 HY)), (errsE_upd_C Y e ee n _ _ (proj1 HY)).
            assert (Hmn : m <> n).
            { intro E; subst m. apply (Hout n dG W Hlt). apply Hinc. apply in_or_app; right; left; reflexivity. }
            assert (Hne : C n <> C m) by congruence.
            rewrite upd_other by exact Hne. unfold updb.
            destruct (var_eqb (C n) (C m)) eqn:Ev; [apply var_eqb_eq in Ev; contradiction|].
            eapply (Eb m dG); eauto. apply fv_clet; right; split; [exact Hm | congruence].
          * intros m Hm. destruct (HTfv m Hm) as [dG [W O]]. exists dG. split; [exact W|]. rewrite <- app_assoc. exact O.
    Qed.
  End Wrap2.

  Lemma completion2 X d mbd ctx bs P s0 T F0' bs'' :
    subterm X R -> inv R sts bs d (size X) (size X) P -> In (nid X, s0) sts ->
    sext R sts (npos X mbd ctx) ({| bdepth := d; bnode := nid X; btable := stable s0; bvis := []; blets := [] |} :: bs) (F0' :: bs'') ->
    inv R sts (F0' :: bs'') (S d) (size X - 1) (size X) P ->
    fv_ok R (F0' :: bs'') (npos X mbd ctx) T ->
    lets_fact (F0' :: bs'') -> sem2 T X ->
    sem2 (wrap_lets (blets F0') T) X.
  Proof.
    intros HX Hi Hs A1 A2 A3 Hlf HT.
    set (pp := npos X mbd ctx) in *. set (bs2 := F0' :: bs'') in *.
    inversion A1 as [|F0 F0x bsx bsy HF0 HR]; subst.
    destruct HF0 as [D1 [D2 [D3 [D4 [l [D5 D6]]]]]]. cbn in D1, D2, D3, D5, D6.
    assert (Hlt : forall F, In F bs -> (bdepth F < d)%nat) by (apply (i_lt _ _ _ _ _ _ _ Hi)).
    pose proof (Forall2_fext_shrink R sts Hcons Hfu F0' bs'' d D1 pp bs bs'' HR Hlt) as HR'.
    destruct (Forall2_fext_skel _ _ _ _ _ _ HR') as [Hm Hsk].
    assert (HF0in : In F0' bs2) by (left; reflexivity).
    assert (Hown : names F0' = map fst l) by (unfold names; rewrite D5; reflexivity).
    assert (Hnd : NoDup (map fst l)) by (rewrite <- Hown; apply (i_names _ _ _ _ _ _ _ A2 F0' HF0in)).
    assert (Hvis : forall i, In i (bvis F0') -> exists n, lookup (btable F0') i = Some n /\ In n (map fst l)).
    { intros i Hiv. destruct (i_vis _ _ _ _ _ _ _ A2 F0' HF0in i Hiv) as [[n [L1 L2]]|Hp].
      - exists n. rewrite <- Hown. auto.
      - exfalso. pose proof (i_Plt _ _ _ _ _ _ _ Hi _ _ Hp). lia. }
    assert (Htab : forall dG tbl i, has_frame bs2 dG tbl i -> in_table sts tbl).
    { intros dG tbl i [G [HG [_ [Et _]]]]. rewrite <- Et. eapply frame_in_table; eauto. }
    assert (Hout : forall m dG, cwit R bs2 pp m dG -> (dG < d)%nat -> ~ In m (map fst l)).
    { intros m dG [tbl [D [[G [HG [G1 [G2 G3]]]] [W2 [W3 [W4 _]]]]]] Hdl Hin.
      rewrite <- Hown in Hin. destruct (proj2 (i_names _ _ _ _ _ _ _ A2 F0' HF0in) m Hin) as [i0 [L1 _]].
      destruct HG as [HG|HG]; [subst G; lia|].
      destruct (i_fr _ _ _ _ _ _ _ A2 G (or_intror HG)) as [sG [X1 X2]].
      rewrite D3 in L1. rewrite <- G2, X2 in W4.
      assert (bnode G = nid X) by (eapply (sites_inj sts Hnames); eauto).
      destruct (Hsk G HG) as [G0 [HG0 [_ [E2 _]]]].
      pose proof (i_anc _ _ _ _ _ _ _ Hi G0 X HG0 HX ltac:(congruence)). lia. }
    assert (HTfv : forall m, In (C m) (fv T) -> exists dG, cwit R bs2 pp m dG /\ (dG < d \/ In m ([] ++ map fst l))%nat).
    { intros m Hv. destruct (A3 (C m) Hv) as [Ha|[m' [dG [E W]]]]; [exfalso; exact (Hfu X HX _ Ha)|].
      inversion E; subst m'. exists dG. split; [exact W|].
      destruct W as [tbl [D [[G [HG [G1 [G2 G3]]]] [W2 [W3 [W4 _]]]]]].
      pose proof (i_lt _ _ _ _ _ _ _ A2 G HG) as Hl1.
      destruct (Nat.eq_dec dG d) as [Eq|Ne]; [right|left; lia]. cbn [app].
      assert (G = F0').
      { pose proof (bs_get_unique bs2 d G (i_nd _ _ _ _ _ _ _ A2) HG ltac:(lia)).
        pose proof (bs_get_unique bs2 d F0' (i_nd _ _ _ _ _ _ _ A2) HF0in D1). congruence. }
      subst G. destruct (Hvis _ G3) as [n [L1 L2]]. rewrite G2 in L1. assert (n = m) by congruence. subst; exact L2. }
    intros e ee Hu Hg HgE. rewrite D5 in *. cbn [app] in *.
    apply (wrap_sem2 bs2 pp d T X (map fst l) HX Hout Htab HT l [] e ee); auto.
    - cbn [app]. apply incl_refl.
    - intros n B Hin. destruct (Hlf F0' HF0in n B) as [D [XF [L1 [L2 [L3 [L4 L5]]]]]]; [rewrite D5; exact Hin|].
      exists D. split; [exact L1|]. split; [exact L2|].
      assert (XF = X) by (apply Hcons; [exact L3 | exact HX | congruence]). subst XF. exact L5.
    - intros n [].
  Qed.

  (** *** every node *)
  Lemma body2 X : forall i s h cs, X = Node i s h cs -> subterm X R -> Forall pr_spec2 cs ->
    forall d mbd ctx bs1 P ts bs2,
      inv R sts bs1 (S d) (size X - 1) (size X) P -> posok d mbd ctx -> anc_ok bs1 X d mbd ctx -> lets_fact bs1 ->
      prs sts h d mbd ctx 0 cs bs1 = (ts, bs2) ->
      lets_fact bs2 /\ sem2 (Node i s h ts) X.
  Proof.
    intros i s h cs EX HX IH d mbd ctx bs1 P ts bs2 Hi Hp Ha Hlf E. subst X.
    destruct (is_ref h) eqn:Hr.
    - pose proof (Href _ HX Hr) as Ec. cbn in Ec. subst cs. cbn in E. inversion E; subst.
      split; [exact Hlf|]. intros e ee _ _ _. reflexivity.
    - assert (Hsub : forall c, In c cs -> subterm c R).
      { intros c Hc. eapply subterm_trans; [apply subterm_child; exact Hc | exact HX]. }
      assert (IH1 : Forall (pr_spec R sts) cs).
      { apply Forall_forall. intros c _. apply (pr_correct R sts Hcons Hnames Hfu Hbu Href). }
      destruct (loop R sts Hcons Hnames Hfu i s h cs d mbd ctx Hr cs [] 0%nat bs1 ts bs2 P eq_refl eq_refl IH1 Hsub Hi E)
        as [_ [_ A3]].
      destruct (loop2 i s h cs d mbd ctx HX cs [] 0%nat bs1 ts bs2 P eq_refl eq_refl IH Hsub Hi Hp Ha Hlf E) as [L2 S2].
      split; [exact L2|]. eapply node_sem2; eauto; intros k v Hv; exact (Hbu _ HX k v Hv).
  Qed.

  Theorem pr_correct2 : forall X, pr_spec2 X.
  Proof.
    induction X as [i s h cs IH] using node_ind'.
    intros d mbd ctx lifted bs P T bs' HX Hi Hp Ha Hlf E. rewrite pr_eq in E. cbv zeta in E.
    set (X := Node i s h cs) in *.
    assert (IH1 : Forall (pr_spec R sts) cs).
    { apply Forall_forall. intros c _. apply (pr_correct R sts Hcons Hnames Hfu Hbu Href). }
    destruct (pr_ins sts i d lifted) as [tbl|] eqn:Eins.
    - assert (Hs : exists s0, In (i, s0) sts /\ tbl = stable s0).
      { unfold pr_ins in Eins. destruct lifted; [discriminate|]. unfold insert_site in Eins.
        destruct (lookup sts i) as [s0|] eqn:El; [|discriminate]. exists s0. split; [apply lookup_In; exact El|].
        destruct (Nat.eqb (sdepth s0) d); [|discriminate]. destruct (stable s0); [discriminate|]. congruence. }
      destruct Hs as [s0 [Hs0 Et]]. subst tbl.
      assert (Ebs1 : bs_set bs {| bdepth := d; bnode := i; btable := stable s0; bvis := []; blets := [] |} =
                     {| bdepth := d; bnode := i; btable := stable s0; bvis := []; blets := [] |} :: bs).
      { unfold bs_set. cbn [bdepth]. f_equal. apply bs_del_id. intros F HF.
        pose proof (i_lt _ _ _ _ _ _ _ Hi F HF). lia. }
      rewrite Ebs1 in E.
      destruct (prs sts h d mbd ctx 0 cs _) as [ts bs2] eqn:Ep.
      pose proof (inv_push R sts Hcons Hfu bs d X P s0 Hi HX Hs0) as Hi1.
      destruct (body R sts Hcons Hnames Hfu Hbu Href X i s h cs eq_refl HX IH1 d mbd ctx _ P ts bs2 Hi1 Ep) as [A1 [A2 [A3 A4]]].
      set (F00 := {| bdepth := d; bnode := i; btable := stable s0; bvis := []; blets := [] |}) in *.
      assert (Ha1 : anc_ok (F00 :: bs) X d mbd ctx).
      { intros F [HF|HF]; [|apply Ha; exact HF]. subst F. exists X, mbd, ctx. cbn. repeat split; auto; try apply Hp. apply below_refl. }
      assert (Hlf1 : lets_fact (F00 :: bs)).
      { intros F [HF|HF]; [subst F; intros n B []| apply Hlf; exact HF]. }
      destruct (body2 X i s h cs eq_refl HX IH d mbd ctx _ P ts bs2 Hi1 Hp Ha1 Hlf1 Ep) as [L2 S2].
      inversion A1 as [|F0 F0' bsx bs'' HF0 HR]; subst.
      assert (D1 : bdepth F0' = d) by (destruct HF0 as [D1 _]; exact D1).
      assert (Eg : bs_get (F0' :: bs'') d = Some F0').
      { unfold bs_get. cbn [find]. rewrite D1, Nat.eqb_refl. reflexivity. }
      rewrite Eg in E.
      assert (Ed : bs_del (F0' :: bs'') d = bs'').
      { unfold bs_del. cbn [filter]. rewrite D1, Nat.eqb_refl. cbn [negb]. apply bs_del_id.
        intros F HF. destruct (Forall2_fext_skel _ _ _ _ _ _ HR) as [_ Hsk].
        destruct (Hsk F HF) as [G [HG [E1 _]]]. pose proof (i_lt _ _ _ _ _ _ _ Hi G HG). lia. }
      rewrite Ed in E. inversion E; subst T bs'.
      split.
      + intros F HF. apply L2. right; exact HF.
      + eapply completion2; eauto.
    - destruct (prs sts h d mbd ctx 0 cs bs) as [ts bs2] eqn:Ep. inversion E; subst T bs'.
      assert (Hi1 : inv R sts bs (S d) (size X - 1) (size X) P) by (eapply inv_mono; eauto; lia).
      exact (body2 X i s h cs eq_refl HX IH d mbd ctx bs P ts bs2 Hi1 Hp Ha Hlf Ep).
  Qed.
End Print2.
