(** C35 — print pass, part 1: stack operations, uniqueness of names, monotonicity of the witnesses. *)
From HailV Require Import Common.Prelude CSE.Model CSE.Basics CSE.EvalLemmas CSE.PrintDefs.

(** *** stack operations *)
Lemma bs_get_In bs d F : bs_get bs d = Some F -> In F bs /\ bdepth F = d.
Proof.
  unfold bs_get; intro H; apply find_some in H; destruct H as [H1 H2]; apply Nat.eqb_eq in H2; tauto.
Qed.
Lemma bs_get_unique bs d F : NoDup (map bdepth bs) -> In F bs -> bdepth F = d -> bs_get bs d = Some F.
Proof.
  unfold bs_get. induction bs as [|G bs IH]; cbn; [tauto|].
  intros Hnd [H|H] Hd; inversion Hnd as [|? ? Hni Hnd']; subst.
  - rewrite Nat.eqb_refl; reflexivity.
  - destruct (Nat.eqb (bdepth G) (bdepth F)) eqn:E.
    + apply Nat.eqb_eq in E; exfalso; apply Hni; rewrite E; apply in_map; exact H.
    + apply IH; auto.
Qed.
Lemma bs_get_None bs d F : bs_get bs d = None -> In F bs -> bdepth F <> d.
Proof.
  unfold bs_get; intros H HF E. eapply find_none in H; [|exact HF]. cbn in H. apply Nat.eqb_neq in H; contradiction.
Qed.
Lemma bs_del_id bs d : (forall F, In F bs -> bdepth F <> d) -> bs_del bs d = bs.
Proof.
  unfold bs_del; induction bs as [|G bs IH]; cbn; [reflexivity|]. intro H.
  destruct (Nat.eqb (bdepth G) d) eqn:E; cbn.
  - apply Nat.eqb_eq in E; exfalso; eapply H; [left; reflexivity | exact E].
  - f_equal; apply IH; intros F HF; apply H; right; exact HF.
Qed.
Lemma bs_upd_In bs d f F' :
  In F' (bs_upd bs d f) <-> exists F, In F bs /\ F' = if Nat.eqb (bdepth F) d then f F else F.
Proof.
  unfold bs_upd; rewrite in_map_iff; split; intros [F [H1 H2]]; exists F; [split; [exact H2 | symmetry; exact H1] | split; [symmetry; exact H2 | exact H1]].
Qed.
Lemma bs_upd_depths bs d f : (forall F, bdepth (f F) = bdepth F) -> map bdepth (bs_upd bs d f) = map bdepth bs.
Proof.
  intro H; unfold bs_upd; rewrite map_map; apply map_ext; intro F. destruct (Nat.eqb (bdepth F) d); [apply H | reflexivity].
Qed.

(** *** names determine nodes *)
Lemma NoDup_concat_uniq {A B} (f : A -> list B) (l : list A) a b x :
  NoDup (concat (map f l)) -> In a l -> In b l -> In x (f a) -> In x (f b) -> a = b.
Proof.
  induction l as [|c l IH]; cbn; [tauto|].
  intros Hnd Ha Hb Hxa Hxb.
  assert (Hdis : forall y, In y (f c) -> ~ In y (concat (map f l))).
  { intros y Hy Hy'. clear - Hnd Hy Hy'. induction (f c) as [|z fc IHf]; cbn in *; [tauto|].
    inversion Hnd as [|? ? Hni Hnd']; subst. destruct Hy as [Hy|Hy].
    - subst; apply Hni; apply in_or_app; right; exact Hy'.
    - apply IHf; assumption. }
  assert (Hnd' : NoDup (concat (map f l))).
  { clear - Hnd. induction (f c) as [|z fc IHf]; cbn in *; [exact Hnd|]. inversion Hnd; auto. }
  assert (Hin : forall a', In a' l -> In x (f a') -> In x (concat (map f l))).
  { intros a' H1 H2; apply in_concat; exists (f a'); split; [apply in_map; exact H1 | exact H2]. }
  destruct Ha as [Ha|Ha], Hb as [Hb|Hb].
  - congruence.
  - subst; exfalso; eapply Hdis; [exact Hxa | eapply Hin; eauto].
  - subst; exfalso; eapply Hdis; [exact Hxb | eapply Hin; eauto].
  - apply IH; assumption.
Qed.
Lemma NoDup_concat_each {A B} (f : A -> list B) (l : list A) a :
  NoDup (concat (map f l)) -> In a l -> NoDup (f a).
Proof.
  induction l as [|c l IH]; cbn; [tauto|]. intros Hnd [H|H].
  - subst. clear IH. induction (f a) as [|z fc IHf]; cbn in *; [constructor|].
    inversion Hnd as [|? ? Hni Hnd']; subst. constructor; [|apply IHf; exact Hnd'].
    intro Hz; apply Hni; apply in_or_app; left; exact Hz.
  - apply IH; [|exact H]. clear - Hnd. induction (f c) as [|z fc IHf]; cbn in *; [exact Hnd|]. inversion Hnd; auto.
Qed.

Section Print1.
  Variable R : node.
  Variable sts : list (N * site).
  Hypothesis Hcons : forall Y Z, subterm Y R -> subterm Z R -> nid Y = nid Z -> Y = Z.
  Hypothesis Hnames : NoDup (concat (map (fun e : N * site => map snd (stable (snd e))) sts)).

  Lemma tables_inj tbl tbl' a b n :
    in_table sts tbl -> in_table sts tbl' -> lookup tbl a = Some n -> lookup tbl' b = Some n -> tbl = tbl' /\ a = b.
  Proof.
    intros [i [s [Hi Et]]] [j [s' [Hj Et']]] Ha Hb; subst.
    assert (E : (i, s) = (j, s')).
    { eapply (NoDup_concat_uniq (fun e : N * site => map snd (stable (snd e)))); [exact Hnames | exact Hi | exact Hj | |]; cbn.
      - apply lookup_In in Ha; apply (in_map snd) in Ha; exact Ha.
      - apply lookup_In in Hb; apply (in_map snd) in Hb; exact Hb. }
    inversion E; subst. split; [reflexivity|].
    eapply lookup_inj; [|exact Ha|exact Hb].
    apply (NoDup_concat_each (fun e : N * site => map snd (stable (snd e))) sts (j, s')); assumption.
  Qed.

  Lemma name_node_uniq n Y Z : name_node R sts n Y -> name_node R sts n Z -> Y = Z.
  Proof.
    intros [HY [t1 [Ht1 L1]]] [HZ [t2 [Ht2 L2]]].
    destruct (tables_inj _ _ _ _ _ Ht1 Ht2 L1 L2) as [_ E]. apply Hcons; assumption.
  Qed.

  (** *** growth of the stack preserves witnesses *)
  Definition grow (bs bs' : bstack) : Prop := forall dG tbl i, has_frame bs dG tbl i -> has_frame bs' dG tbl i.

  Lemma grow_refl bs : grow bs bs.
  Proof. intros ? ? ? H; exact H. Qed.
  Lemma grow_trans a b c : grow a b -> grow b c -> grow a c.
  Proof. intros H1 H2 ? ? ? H; apply H2, H1, H. Qed.

  Lemma cwit_grow bs bs' p m dG : grow bs bs' -> cwit R bs p m dG -> cwit R bs' p m dG.
  Proof. intros Hg [tbl [D [H1 H2]]]; exists tbl, D; split; [apply Hg; exact H1 | exact H2]. Qed.
  Lemma fv_ok_grow bs bs' p T : grow bs bs' -> fv_ok R bs p T -> fv_ok R bs' p T.
  Proof.
    intros Hg H v Hv; destruct (H v Hv) as [H1|[m [dG [E W]]]]; [left; exact H1 | right; exists m, dG; split; [exact E | eapply cwit_grow; eauto]].
  Qed.
  Lemma let_ok_grow bs bs' p k pre n B : grow bs bs' -> let_ok R sts bs p k pre n B -> let_ok R sts bs' p k pre n B.
  Proof.
    intros Hg [tbl [D [H1 [H2 [H3 [H4 [H5 [H6 [H7 H8]]]]]]]]]. exists tbl, D. repeat split; auto.
    intros v Hv; destruct (H7 v Hv) as [Ha|[m [dG [E [W O]]]]]; [left; exact Ha|].
    right; exists m, dG; repeat split; [exact E | eapply cwit_grow; eauto | exact O].
  Qed.
  Lemma lets_ok_grow bs bs' p k l : forall pre, grow bs bs' -> lets_ok R sts bs p k pre l -> lets_ok R sts bs' p k pre l.
  Proof.
    induction l as [|[n B] l IH]; intros pre Hg H; cbn in *; [exact I|].
    destruct H as [H1 H2]; split; [eapply let_ok_grow; eauto | apply IH; assumption].
  Qed.
  Lemma lets_ok_app bs p k l1 : forall pre l2,
    lets_ok R sts bs p k pre (l1 ++ l2) <-> lets_ok R sts bs p k pre l1 /\ lets_ok R sts bs p k (pre ++ map fst l1) l2.
  Proof.
    induction l1 as [|[n B] l1 IH]; intros pre l2; cbn.
    - rewrite app_nil_r; tauto.
    - rewrite IH, <- app_assoc; cbn; tauto.
  Qed.

  Lemma Forall2_fext_hasframe X p a b : Forall2 (fext R sts X p) a b -> grow a b.
  Proof.
    intros H dG tbl i [G [HG [E1 [E2 E3]]]].
    induction H as [|F F' a b HF HR IH]; [destruct HG|].
    destruct HG as [HG|HG].
    - subst G. destruct HF as [D1 [_ [D3 [D4 _]]]].
      exists F'; repeat split; [left; reflexivity | congruence | congruence | apply D4; exact E3].
    - destruct (IH HG) as [G' [HG' HH]]. exists G'; split; [right; exact HG' | exact HH].
  Qed.
  Lemma sext_grow p bs bs' : sext R sts p bs bs' -> grow bs bs'.
  Proof. apply Forall2_fext_hasframe. Qed.

  Lemma fext_refl bs p F : fext R sts bs p F F.
  Proof. repeat split; try apply incl_refl. exists []; rewrite app_nil_r; split; [reflexivity | exact I]. Qed.
  Lemma Forall2_fext_refl X p bs : Forall2 (fext R sts X p) bs bs.
  Proof. induction bs; constructor; [apply fext_refl | assumption]. Qed.
  Lemma sext_refl p bs : sext R sts p bs bs.
  Proof. apply Forall2_fext_refl. Qed.

  Lemma fext_grow bs bs' p F F' : grow bs bs' -> fext R sts bs p F F' -> fext R sts bs' p F F'.
  Proof.
    intros Hg [H1 [H2 [H3 [H4 [l [H5 H6]]]]]]. repeat split; auto. exists l; split; [exact H5 | eapply lets_ok_grow; eauto].
  Qed.
  Lemma Forall2_fext_grow a b p bs bs' : grow bs bs' -> Forall2 (fext R sts bs p) a b -> Forall2 (fext R sts bs' p) a b.
  Proof. intros Hg H; induction H; constructor; [eapply fext_grow; eauto | assumption]. Qed.

  Lemma fext_trans bs p F1 F2 F3 : fext R sts bs p F1 F2 -> fext R sts bs p F2 F3 -> fext R sts bs p F1 F3.
  Proof.
    intros [A1 [A2 [A3 [A4 [l1 [A5 A6]]]]]] [B1 [B2 [B3 [B4 [l2 [B5 B6]]]]]].
    repeat split; try congruence; [eapply incl_tran; eauto|].
    exists (l1 ++ l2); split; [rewrite B5, A5, app_assoc; reflexivity|].
    apply lets_ok_app; split; [exact A6|].
    unfold names in B6. rewrite A5, map_app, A1 in B6. exact B6.
  Qed.

  Lemma Forall2_fext_trans X p a b : forall c,
    Forall2 (fext R sts X p) a b -> Forall2 (fext R sts X p) b c -> Forall2 (fext R sts X p) a c.
  Proof.
    intros c H1; revert c; induction H1 as [|F1 F2 a b HF HR IH]; intros c H2; inversion H2; subst; constructor.
    - eapply fext_trans; eauto.
    - apply IH; assumption.
  Qed.
  Lemma sext_trans p a b c : sext R sts p a b -> sext R sts p b c -> sext R sts p a c.
  Proof.
    intros H1 H2. pose proof (sext_grow _ _ _ H2) as Hg. unfold sext in *.
    apply (Forall2_fext_grow _ _ _ _ _ Hg) in H1. eapply Forall2_fext_trans; eauto.
  Qed.
End Print1.
