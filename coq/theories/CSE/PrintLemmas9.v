(** C35 — print pass, part 9: free variables and meaning of a node wrapped in its lets. *)
From HailV Require Import Common.Prelude CSE.Model CSE.Basics CSE.EvalLemmas CSE.PrintDefs
  CSE.PrintLemmas1 CSE.PrintLemmas2 CSE.PrintLemmas3 CSE.PrintLemmas4 CSE.PrintLemmas5 CSE.PrintLemmas6 CSE.PrintLemmas7
  CSE.PrintLemmas8.

Section Print9.
  Variable R : node.
  Variable sts : list (N * site).
  Hypothesis Hcons : forall Y Z, subterm Y R -> subterm Z R -> nid Y = nid Z -> Y = Z.
  Hypothesis Hnames : NoDup (concat (map (fun e : N * site => map snd (stable (snd e))) sts)).
  Hypothesis Hfu : forall Y, subterm Y R -> forall v, In v (fv Y) -> uvar v.

  Section Wrap.
    Variables (bs2 : bstack) (pp : pos) (d : nat) (T X : node) (OWN : list N).
    Hypothesis HX : subterm X R.
    Hypothesis Hpfv : p_fv pp = fv X.
    Hypothesis Hout : forall m dG, cwit R bs2 pp m dG -> (dG < d)%nat -> ~ In m OWN.
    Hypothesis Htab : forall dG tbl i, has_frame bs2 dG tbl i -> in_table sts tbl.

    Lemma wrap_fv l : forall pre,
      lets_ok R sts bs2 pp d pre l ->
      (forall v, In v (fv T) -> In v (p_fv pp) \/
         exists m dG, v = C m /\ cwit R bs2 pp m dG /\ (dG < d \/ (dG = d /\ In m (pre ++ map fst l)))%nat) ->
      forall v, In v (fv (wrap_lets l T)) -> In v (p_fv pp) \/
         exists m dG, v = C m /\ cwit R bs2 pp m dG /\ (dG < d \/ (dG = d /\ In m pre))%nat.
    Proof.
      induction l as [|[n B] l IH]; intros pre Hl HT v Hv; cbn [wrap_lets fold_right map fst snd] in *.
      - rewrite app_nil_r in HT. apply HT; exact Hv.
      - destruct Hl as [[tbl [D [H1 [H2 [H3 [H4 [H5 [H6 [H7 H8]]]]]]]]] Hl'].
        apply fv_clet in Hv. destruct Hv as [Hv|[Hv Hne]].
        + destruct (H7 v Hv) as [Ha|[m [dG [E [W O]]]]]; [left; apply H6; exact Ha|].
          right; exists m, dG; auto.
        + assert (HT' : forall v, In v (fv T) -> In v (p_fv pp) \/
                    exists m dG, v = C m /\ cwit R bs2 pp m dG /\ (dG < d \/ (dG = d /\ In m ((pre ++ [n]) ++ map fst l)))%nat).
          { intros w Hw. destruct (HT w Hw) as [Ha|[m [dG [E [W O]]]]]; [left; exact Ha|].
            right; exists m, dG. rewrite <- app_assoc. cbn. auto. }
          destruct (IH (pre ++ [n]) Hl' HT' v Hv) as [Ha|[m [dG [E [W O]]]]]; [left; exact Ha|].
          right; exists m, dG. split; [exact E|]. split; [exact W|].
          destruct O as [O|[O1 O2]]; [left; exact O|]. right. split; [exact O1|].
          apply in_app_or in O2. destruct O2 as [O2|[O2|[]]]; [exact O2|]. subst. congruence.
    Qed.

    Lemma wrap_sem l : forall pre e,
      lets_ok R sts bs2 pp d pre l -> NoDup (pre ++ map fst l) -> incl (pre ++ map fst l) OWN ->
      (forall n, In n pre -> forall Y, name_node R sts n Y -> e (C n) = eval Y e) ->
      (forall m dG, In (C m) (fv (wrap_lets l T)) -> cwit R bs2 pp m dG -> (dG < d)%nat ->
                    forall Y, name_node R sts m Y -> e (C m) = eval Y e) ->
      (forall m, In (C m) (fv T) -> exists dG, cwit R bs2 pp m dG /\ (dG < d \/ In m (pre ++ map fst l))%nat) ->
      (forall e', good R sts e' (fv T) -> eval T e' = eval X e') ->
      eval (wrap_lets l T) e = eval X e.
    Proof.
      induction l as [|[n B] l IH]; intros pre e Hl Hnd Hinc Ea Eb HTfv HTsem; cbn [map fst snd] in *.
      - cbn [wrap_lets fold_right]. rewrite app_nil_r in *. apply HTsem. intros m Y Hm HY.
        destruct (HTfv m Hm) as [dG [W [O|O]]]; [eapply (Eb m dG); eauto | apply Ea; assumption].
      - destruct Hl as [[tbl [D [H1 [H2 [H3 [H4 [H5 [H6 [H7 H8]]]]]]]]] Hl'].
        assert (HnD : name_node R sts n D).
        { split; [exact H2|]. exists tbl; split; [eapply Htab; eauto | exact H4]. }
        assert (EB : eval B e = eval D e).
        { apply H8. intros m Y Hm HY. destruct (H7 (C m) Hm) as [Ha|[m' [dG [E [W O]]]]].
          - exfalso. exact (Hfu D H2 _ Ha).
          - inversion E; subst m'. destruct O as [O|[_ O]]; [|apply Ea; assumption].
            eapply (Eb m dG); eauto. change (wrap_lets ((n, B) :: l) T) with (clet n B (wrap_lets l T)).
            apply fv_clet; left; exact Hm. }
        change (wrap_lets ((n, B) :: l) T) with (clet n B (wrap_lets l T)). rewrite eval_clet.
        assert (Hn_notin : ~ In n pre).
        { intro Hin. apply NoDup_remove_2 in Hnd. apply Hnd. apply in_or_app; left; exact Hin. }
        rewrite (IH (pre ++ [n]) (upd e (C n) (eval B e))); auto.
        + apply (eval_upd_C R Hfu); assumption.
        + rewrite <- app_assoc; exact Hnd.
        + rewrite <- app_assoc; exact Hinc.
        + intros n' Hn' Y HY. rewrite (eval_upd_C R Hfu Y e n _ (proj1 HY)).
          apply in_app_or in Hn'. destruct Hn' as [Hn'|[Hn'|[]]].
          * rewrite upd_other by (intro E; inversion E; subst; contradiction). apply Ea; assumption.
          * subst n'. rewrite upd_same. assert (Y = D) by (eapply name_node_uniq; eauto). subst. exact EB.
        + intros m dG Hm W Hlt Y HY. rewrite (eval_upd_C R Hfu Y e n _ (proj1 HY)).
          assert (Hmn : m <> n).
          { intro E; subst m. apply (Hout n dG W Hlt). apply Hinc. apply in_or_app; right; left; reflexivity. }
          rewrite upd_other by congruence. eapply (Eb m dG); eauto.
          change (wrap_lets ((n, B) :: l) T) with (clet n B (wrap_lets l T)).
          apply fv_clet; right; split; [exact Hm | congruence].
        + intros m Hm. destruct (HTfv m Hm) as [dG [W O]]. exists dG. split; [exact W|]. rewrite <- app_assoc. exact O.
    Qed.
  End Wrap.
End Print9.
