(** C35 — the two passes together: [cse] preserves meaning and scoping for every consistent, well-formed DAG. *)
From HailV Require Import Common.Prelude CSE.Model CSE.Basics CSE.EvalLemmas CSE.PrintDefs
  CSE.PrintLemmas1 CSE.PrintLemmas4 CSE.PrintCorrect CSE.Analysis.

(** the same identity always labels the same subtree (true by construction for a Python object graph) *)
Definition consistent (R : node) : Prop := forall Y Z, subterm Y R -> subterm Z R -> nid Y = nid Z -> Y = Z.

Lemma is_uvar_uvar v : is_uvar v = true -> uvar v.
Proof. destruct v; cbn; [tauto | discriminate]. Qed.

Lemma wf_subterm R Y : subterm Y R -> wf_node R = true -> wf_node Y = true.
Proof.
  induction 1 as [|t i s h cs c Hin Hs IH]; intro H; [exact H|].
  apply IH. cbn [wf_node] in H. apply andb_true_iff in H. destruct H as [_ H].
  rewrite forallb_forall in H. apply H; exact Hin.
Qed.

Lemma binds_head_vars h k v : In v (binds h k) -> In v (head_vars h).
Proof.
  destruct h; cbn; try tauto; destruct k as [|[|[|k]]]; cbn; tauto.
Qed.

Lemma wf_fv t : wf_node t = true -> forall v, In v (fv t) -> uvar v.
Proof.
  induction t as [i s h cs IH] using node_ind'. intros H v Hv.
  cbn [wf_node] in H. apply andb_true_iff in H. destruct H as [H H3]. apply andb_true_iff in H. destruct H as [H1 H2].
  rewrite forallb_forall in H1, H3. rewrite fv_node in Hv.
  assert (Hc : In v (fv_children h 0 cs) -> uvar v).
  { intro Hin. apply In_fv_children in Hin. destruct Hin as [k [c [Hn [Hvc _]]]].
    apply nth_error_In in Hn. rewrite Forall_forall in IH. apply (IH c Hn); [apply H3; exact Hn | exact Hvc]. }
  destruct h; try (apply Hc; exact Hv).
  destruct Hv as [Hv|[]]. subst. apply is_uvar_uvar. apply H1. left; reflexivity.
Qed.

Section Top.
  Variable R : node.
  Hypothesis Hcons : consistent R.
  Hypothesis Hwf : wf_node R = true.

  Lemma top_fu : forall Y, subterm Y R -> forall v, In v (fv Y) -> uvar v.
  Proof. intros Y HY. apply wf_fv. eapply wf_subterm; eauto. Qed.
  Lemma top_bu : forall Y, subterm Y R -> forall k v, In v (binds (nhead Y) k) -> uvar v.
  Proof.
    intros Y HY k v Hv. pose proof (wf_subterm R Y HY Hwf) as H. destruct Y as [i s h cs]. cbn [nhead] in Hv.
    cbn [wf_node] in H. apply andb_true_iff in H. destruct H as [H _]. apply andb_true_iff in H. destruct H as [H1 _].
    rewrite forallb_forall in H1. apply is_uvar_uvar. apply H1. eapply binds_head_vars; eauto.
  Qed.
  Lemma top_ref : forall Y, subterm Y R -> is_ref (nhead Y) = true -> nchildren Y = [].
  Proof.
    intros Y HY Hr. pose proof (wf_subterm R Y HY Hwf) as H. destruct Y as [i s h cs]. cbn [nhead nchildren] in *.
    cbn [wf_node] in H. apply andb_true_iff in H. destruct H as [H _]. apply andb_true_iff in H. destruct H as [_ H2].
    rewrite Hr in H2. destruct cs; [reflexivity | discriminate].
  Qed.

  Lemma top_post sts : NoDup (concat (map (fun e : N * site => map snd (stable (snd e))) sts)) ->
    forall T bs', pr sts R 0 0 [] false [] = (T, bs') ->
    bs' = [] /\ (forall v, In v (fv T) -> In v (fv R)) /\ (forall e, eval T e = eval R e).
  Proof.
    intros Hnd T bs' E.
    assert (Hi : inv R sts [] 0 (size R) (size R) []).
    { constructor.
      - intros F [].
      - constructor.
      - intros F [].
      - intros F Y [].
      - intros k i Y [].
      - intros k i [].
      - intros F [].
      - intros F []. }
    destruct (pr_correct R sts Hcons Hnd top_fu top_bu top_ref R
                0%nat 0%nat [] false [] [] T bs' (st_refl R) Hi E) as [A1 [A2 [A3 A4]]].
    inversion A1; subst.
    assert (Hfv : forall v, In v (fv T) -> In v (fv R)).
    { intros v Hv. destruct (A3 v Hv) as [Ha|[m [dG [_ [tbl [D [[G [[] _]] _]]]]]]]. exact Ha. }
    split; [reflexivity|]. split; [exact Hfv|].
    intro e. apply A4. intros n Y Hn _. exfalso. exact (top_fu R (st_refl R) _ (Hfv _ Hn)).
  Qed.

  Theorem cse_preserves_meaning : forall e, eval (cse R) e = eval R e.
  Proof.
    intro e. unfold cse. destruct (pr (analyse R) R 0 0 [] false []) as [T bs'] eqn:E.
    cbn [fst]. apply (top_post _ (analyse_names_distinct R) T bs' E).
  Qed.

  Theorem cse_well_scoped : forall v, In v (fv (cse R)) -> In v (fv R).
  Proof.
    unfold cse. destruct (pr (analyse R) R 0 0 [] false []) as [T bs'] eqn:E.
    cbn [fst]. apply (top_post _ (analyse_names_distinct R) T bs' E).
  Qed.
End Top.

Theorem print_any_sites : forall (d : node) (sts : list (N * site)),
  consistent d -> wf_node d = true ->
  NoDup (concat (map (fun e : N * site => map snd (stable (snd e))) sts)) ->
  forall T bs', pr sts d 0 0 [] false [] = (T, bs') ->
    bs' = [] /\ (forall v, In v (fv T) -> In v (fv d)) /\ (forall rho, eval T rho = eval d rho).
Proof. intros d sts Hc Hw Hn T bs' E. exact (top_post d Hc Hw sts Hn T bs' E). Qed.

(** the hypotheses are satisfiable, and the pass does something on such a DAG *)
Lemma subterm_inv Y i s h cs :
  subterm Y (Node i s h cs) -> Y = Node i s h cs \/ exists c, In c cs /\ subterm Y c.
Proof. intro H; inversion H; subst; [left; reflexivity | right; eauto]. Qed.

Ltac enum_subterms :=
  repeat match goal with
         | H : subterm _ (Node _ _ _ _) |- _ =>
             apply subterm_inv in H; destruct H as [H|[?c [?Hin H]]]; [subst|]
         | H : In _ (_ :: _) |- _ => destruct H as [H|H]; [subst|]
         | H : In _ [] |- _ => destruct H
         end.

Definition example_shared : node := Node 2 false (HBin Add) [Node 3 false (HI32 1) []; Node 4 false (HRef (U 0)) []].
Definition example_dag : node :=
  Node 1 false HIf [Node 5 false HTrue []; Node 6 false (HBin Mul) [example_shared; example_shared]; example_shared].

Example example_consistent : consistent example_dag.
Proof.
  intros Y Z HY HZ E. unfold example_dag, example_shared in *.
  enum_subterms; cbn in E; try reflexivity; try discriminate E.
Qed.
Example example_wf : wf_node example_dag = true.
Proof. reflexivity. Qed.
Example example_cse :
  strip (cse example_dag) =
  Node 0 false HIf
    [Node 0 false HTrue [];
     Node 0 false (HLet (C 1))
       [Node 0 false (HBin Add) [Node 0 false (HI32 1) []; Node 0 false (HRef (U 0)) []];
        Node 0 false (HBin Mul) [Node 0 false (HRef (C 1)) []; Node 0 false (HRef (C 1)) []]];
     Node 0 false (HBin Add) [Node 0 false (HI32 1) []; Node 0 false (HRef (U 0)) []]].
Proof. vm_compute. reflexivity. Qed.
