(** C35 — print pass, part 8: inserting the lets of a binding site. *)
From HailV Require Import Common.Prelude CSE.Model CSE.Basics CSE.EvalLemmas CSE.PrintDefs
  CSE.PrintLemmas1 CSE.PrintLemmas2 CSE.PrintLemmas3 CSE.PrintLemmas4 CSE.PrintLemmas5 CSE.PrintLemmas6 CSE.PrintLemmas7.

Lemma fv_clet n B body v : In v (fv (clet n B body)) <-> In v (fv B) \/ (In v (fv body) /\ v <> C n).
Proof.
  unfold clet. rewrite fv_node. cbn [fv_children binds]. rewrite !in_app_iff, !In_removes. cbn [In]. intuition congruence.
Qed.
Lemma eval_clet n B body e : eval (clet n B body) e = eval body (upd e (C n) (eval B e)).
Proof. reflexivity. Qed.

Lemma upd_other e x v y : x <> y -> upd e x v y = e y.
Proof. intro H. unfold upd. destruct (var_eqb x y) eqn:E; [apply var_eqb_eq in E; contradiction | reflexivity]. Qed.
Lemma upd_same e x v : upd e x v x = v.
Proof. unfold upd. rewrite var_eqb_refl. reflexivity. Qed.

Section Print8.
  Variable R : node.
  Variable sts : list (N * site).
  Hypothesis Hcons : forall Y Z, subterm Y R -> subterm Z R -> nid Y = nid Z -> Y = Z.
  Hypothesis Hnames : NoDup (concat (map (fun e : N * site => map snd (stable (snd e))) sts)).
  Hypothesis Hfu : forall Y, subterm Y R -> forall v, In v (fv Y) -> uvar v.

  Lemma sites_inj i s j s' a b n :
    In (i, s) sts -> In (j, s') sts -> lookup (stable s) a = Some n -> lookup (stable s') b = Some n -> i = j.
  Proof.
    intros Hi Hj Ha Hb.
    assert (E : (i, s) = (j, s')).
    { eapply (NoDup_concat_uniq (fun e : N * site => map snd (stable (snd e)))); [exact Hnames | exact Hi | exact Hj | |]; cbn.
      - apply lookup_In in Ha; apply (in_map snd) in Ha; exact Ha.
      - apply lookup_In in Hb; apply (in_map snd) in Hb; exact Hb. }
    congruence.
  Qed.

  (* evaluation of original nodes ignores cse names *)
  Lemma eval_upd_C Y e n v : subterm Y R -> eval Y (upd e (C n) v) = eval Y e.
  Proof.
    intro HY. apply eval_ext. intros x Hx. apply upd_other. intro E; subst x. exact (Hfu Y HY _ Hx).
  Qed.

  (** dropping the top frame *)
  Section Shrink.
    Variables (F0' : bframe) (bs' : bstack) (d : nat).
    Hypothesis Hd0 : bdepth F0' = d.

    Lemma has_frame_shrink dG tbl i : has_frame (F0' :: bs') dG tbl i -> dG <> d -> has_frame bs' dG tbl i.
    Proof. intros [G [[HG|HG] HH]] Hne; [subst G; destruct HH as [E _]; congruence | exists G; auto]. Qed.
    Lemma cwit_shrink p m dG : cwit R (F0' :: bs') p m dG -> dG <> d -> cwit R bs' p m dG.
    Proof. intros [tbl [D [H1 H2]]] Hne. exists tbl, D. split; [apply has_frame_shrink; assumption | exact H2]. Qed.
    Lemma let_ok_shrink p k pre n B : let_ok R sts (F0' :: bs') p k pre n B -> (k < d)%nat -> let_ok R sts bs' p k pre n B.
    Proof.
      intros [tbl [D [H1 [H2 [H3 [H4 [H5 [H6 [H7 H8]]]]]]]]] Hk. exists tbl, D.
      split; [apply has_frame_shrink; [exact H1 | lia]|]. repeat split; auto.
      intros v Hv. destruct (H7 v Hv) as [Ha|[m [dG [E [W O]]]]]; [left; exact Ha|].
      right; exists m, dG. repeat split; [exact E | apply cwit_shrink; [exact W | lia] | exact O].
    Qed.
    Lemma lets_ok_shrink p k l : forall pre, lets_ok R sts (F0' :: bs') p k pre l -> (k < d)%nat -> lets_ok R sts bs' p k pre l.
    Proof.
      induction l as [|[n B] l IH]; intros pre H Hk; cbn in *; [exact I|].
      destruct H as [H1 H2]; split; [apply let_ok_shrink; assumption | apply IH; assumption].
    Qed.
    Lemma Forall2_fext_shrink p a b :
      Forall2 (fext R sts (F0' :: bs') p) a b -> (forall F, In F a -> (bdepth F < d)%nat) -> Forall2 (fext R sts bs' p) a b.
    Proof.
      intros H Hlt. induction H as [|F F' a b HF HR IH]; constructor.
      - destruct HF as [H1 [H2 [H3 [H4 [l [H5 H6]]]]]]. repeat split; auto. exists l; split; [exact H5|].
        apply lets_ok_shrink; [exact H6 | apply Hlt; left; reflexivity].
      - apply IH. intros G HG; apply Hlt; right; exact HG.
    Qed.
  End Shrink.

  Lemma inv_tail F bs d a b P : inv R sts (F :: bs) d a b P -> inv R sts bs d a b P.
  Proof.
    intros [A1 A2 A3 A4 A5 A6 A7 A8]. constructor; auto.
    - intros G HG; apply A1; right; exact HG.
    - inversion A2; assumption.
    - intros G HG; apply A3; right; exact HG.
    - intros G Y HG; apply A4; right; exact HG.
    - intros G HG; apply A7; right; exact HG.
    - intros G HG; apply A8; right; exact HG.
  Qed.

  Lemma inv_push bs d X P s0 :
    inv R sts bs d (size X) (size X) P -> subterm X R -> In (nid X, s0) sts ->
    inv R sts ({| bdepth := d; bnode := nid X; btable := stable s0; bvis := []; blets := [] |} :: bs)
        (S d) (size X - 1) (size X) P.
  Proof.
    intros [A1 A2 A3 A4 A5 A6 A7 A8] HX Hs.
    assert (Hpos : (1 <= size X)%nat) by (destruct X; cbn; lia).
    constructor.
    - intros F [HF|HF]; [subst; cbn; lia | specialize (A1 F HF); lia].
    - cbn. constructor; [|exact A2]. intro Hin. apply in_map_iff in Hin. destruct Hin as [F [E HF]].
      specialize (A1 F HF). lia.
    - intros F [HF|HF]; [subst; exists s0; cbn; auto | apply A3; exact HF].
    - intros F Y [HF|HF] HY E.
      + subst F. cbn in E. assert (Y = X) by (apply Hcons; assumption). subst. lia.
      + specialize (A4 F Y HF HY E). lia.
    - exact A5.
    - intros k i Hk. specialize (A6 k i Hk). lia.
    - intros F [HF|HF]; [subst; intros i []| apply A7; exact HF].
    - intros F [HF|HF]; [subst; split; [constructor | intros n []] | apply A8; exact HF].
  Qed.
End Print8.
