(** C35 — print pass, part 4: one child of a node (already bound / rendered in place / bound here for the first time). *)
From HailV Require Import Common.Prelude CSE.Model CSE.Basics CSE.EvalLemmas CSE.PrintDefs
  CSE.PrintLemmas1 CSE.PrintLemmas2 CSE.PrintLemmas3.

Section Print4.
  Variable R : node.
  Variable sts : list (N * site).
  Hypothesis Hcons : forall Y Z, subterm Y R -> subterm Z R -> nid Y = nid Z -> Y = Z.
  Hypothesis Hnames : NoDup (concat (map (fun e : N * site => map snd (stable (snd e))) sts)).

  Definition npos (X : node) (mbd : nat) (ctx : ctxt) : pos :=
    {| p_mbd := mbd; p_ctx := ctx; p_fv := fv X; p_sz := size X |}.

  Definition pr_post (X : node) (d mbd : nat) (ctx : ctxt) (bs : bstack) (P : list (nat * N)) (T : node) (bs' : bstack) : Prop :=
    sext R sts (npos X mbd ctx) bs bs' /\ inv R sts bs' d (size X) (size X) P /\ fv_ok R bs' (npos X mbd ctx) T /\
    (forall e, good R sts e (fv T) -> eval T e = eval X e).

  Definition pr_spec (X : node) : Prop :=
    forall d mbd ctx lifted bs P T bs',
      subterm X R -> inv R sts bs d (size X) (size X) P -> pr sts X d mbd ctx lifted bs = (T, bs') ->
      pr_post X d mbd ctx bs P T bs'.

  Section Child.
    Variables (h : head) (d mbd : nat) (ctx : ctxt) (k : nat) (c : node).
    Let pc := cpos h d mbd ctx k c.
    Let mbd' := child_mbd h k d mbd.
    Let ctx' := child_ctx h k d ctx.
    Let bd := bind_depth c mbd' ctx'.

    Definition child_post (bs : bstack) (sz szP : nat) (P : list (nat * N)) (t : node) (bs' : bstack) : Prop :=
      sext R sts pc bs bs' /\ inv R sts bs' (S d) sz szP P /\ fv_ok R bs' pc t /\
      (forall e, good R sts e (fv t) -> eval t e = eval c e).

    Lemma frame_in_table bs dd sz szP P F : inv R sts bs dd sz szP P -> In F bs -> in_table sts (btable F).
    Proof. intros Hi HF. destruct (i_fr _ _ _ _ _ _ _ Hi F HF) as [s0 [H1 H2]]. exists (bnode F), s0; auto. Qed.

    (* the facts about [cref name] standing for the child [c] *)
    Lemma cref_facts bs sz szP P F name :
      inv R sts bs (S d) sz szP P -> subterm c R -> In F bs -> bdepth F = bd ->
      lookup (btable F) (nid c) = Some name -> In (nid c) (bvis F) ->
      fv_ok R bs pc (cref name) /\ (forall e, good R sts e (fv (cref name)) -> eval (cref name) e = eval c e).
    Proof.
      intros Hi Hc HF Hd Hl Hv. split.
      - intros v Hv'. rewrite fv_cref in Hv'. destruct Hv' as [Hv'|[]]; subst v. right. exists name, bd. split; [reflexivity|].
        exists (btable F), c. repeat split.
        + exists F; auto.
        + exact Hc.
        + cbn; lia.
        + exact Hl.
        + apply incl_refl.
      - intros e Hg. rewrite eval_cref. apply Hg; [rewrite fv_cref; left; reflexivity|].
        split; [exact Hc|]. exists (btable F); split; [eapply frame_in_table; eauto | exact Hl].
    Qed.

    Lemma child_visited bs sz szP P F name :
      inv R sts bs (S d) sz szP P -> subterm c R -> bs_get bs bd = Some F ->
      lookup (btable F) (nid c) = Some name -> In (nid c) (bvis F) ->
      child_post bs sz szP P (cref name) bs.
    Proof.
      intros Hi Hc Hg Hl Hv. destruct (bs_get_In _ _ _ Hg) as [HF Hd].
      destruct (cref_facts bs sz szP P F name Hi Hc HF Hd Hl Hv) as [H1 H2].
      split; [apply sext_refl | split; [exact Hi | split; [exact H1 | exact H2]]].
    Qed.

    Lemma child_inline bs sz szP P t bs' :
      pr_spec c -> inv R sts bs (S d) sz szP P -> subterm c R -> (size c <= sz)%nat -> (size c <= szP)%nat ->
      pr sts c (S d) mbd' ctx' false bs = (t, bs') ->
      child_post bs sz szP P t bs'.
    Proof.
      intros IH Hi Hc Hs1 Hs2 E.
      destruct (IH (S d) mbd' ctx' false bs P t bs' Hc (inv_mono _ _ _ _ _ _ _ _ _ _ Hi (le_n _) Hs1 Hs2) E) as [A1 [A2 [A3 A4]]].
      assert (Hp : pos_le (npos c mbd' ctx') pc) by (repeat split; cbn; lia).
      split; [|split; [|split]].
      - eapply Forall2_fext_pos; eauto.
      - eapply inv_restore; eauto.
      - eapply fv_ok_pos; eauto.
      - exact A4.
    Qed.
  End Child.
End Print4.
