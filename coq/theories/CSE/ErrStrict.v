(** C35 — a node whose binding depth (computed at its own position, as both passes do) is the depth of an ancestor sits in a
    STRICT position below that ancestor: no [If] branch on the way (those reset the minimal binding depth), no binder of one
    of its variables, and — under the side condition on loops — no loop body unless the node cannot fail.  Hence: if
    the node fails, the ancestor fails. *)
From HailV Require Import Common.Prelude CSE.Model CSE.Basics CSE.EvalLemmas CSE.PrintDefs CSE.PrintLemmas1 CSE.PrintLemmas2
  CSE.ErrLemmas.

Definition uclean (ee : benv) : Prop := forall v, uvar v -> ee v = false.
Definition strict_to (D X : node) : Prop := forall e ee, uclean ee -> errsE D e ee = true -> errsE X e ee = true.

Lemma uclean_updsb xs ee : uclean ee -> uclean (updsb xs ee).
Proof.
  intros H v Hv. destruct (in_dec var_eq_dec v xs) as [Hi|Hn]; [apply updsb_in; exact Hi|].
  rewrite updsb_notin by exact Hn. apply H; exact Hv.
Qed.
Lemma uclean_updb_C ee n b : uclean ee -> uclean (updb ee (C n) b).
Proof. intros H v Hv. unfold updb. destruct v; cbn; [apply H; exact Hv | destruct Hv]. Qed.

Definition posok (d m : nat) (c : ctxt) : Prop := (m <= d)%nat /\ forall v, (ctx_get c v <= d)%nat.

Lemma posok_child h k d m c : posok d m c -> posok (S d) (child_mbd h k d m) (child_ctx h k d c).
Proof.
  intros [H1 H2]. split.
  - unfold child_mbd. destruct (new_block h k); lia.
  - intro v. unfold child_ctx. destruct (in_dec var_eq_dec v (binds h k)) as [Hi|Hn].
    + rewrite ctx_get_app_in by exact Hi. lia.
    + rewrite ctx_get_app_notin by exact Hn. specialize (H2 v). lia.
Qed.

(* [below X d m c Y dY mY cY]: the traversal that is at node [X] with depth [d], minimal binding depth [m] and context [c]
   reaches the node [Y] (a descendant) with [dY], [mY], [cY] *)
Inductive below (X : node) (d m : nat) (c : ctxt) : node -> nat -> nat -> ctxt -> Prop :=
| below_refl : below X d m c X d m c
| below_step i s h cs k ch dY mY cY :
    below X d m c (Node i s h cs) dY mY cY -> nth_error cs k = Some ch ->
    below X d m c ch (S dY) (child_mbd h k dY mY) (child_ctx h k dY cY).

Lemma below_posok X d m c Y dY mY cY : below X d m c Y dY mY cY -> posok d m c -> posok dY mY cY /\ (d <= dY)%nat.
Proof.
  induction 1 as [|i s h cs k ch dY mY cY Hb IH Hn]; intro Hp; [split; [exact Hp | lia]|].
  destruct (IH Hp) as [H1 H2]. split; [apply posok_child; exact H1 | lia].
Qed.
Lemma below_subterm X d m c Y dY mY cY : below X d m c Y dY mY cY -> subterm Y X.
Proof.
  induction 1 as [|i s h cs k ch dY mY cY Hb IH Hn]; [apply st_refl|].
  eapply subterm_trans; [|exact IH]. apply subterm_child. eapply nth_error_In; eauto.
Qed.
Lemma below_trans X d m c Y dY mY cY Z dZ mZ cZ :
  below X d m c Y dY mY cY -> below Y dY mY cY Z dZ mZ cZ -> below X d m c Z dZ mZ cZ.
Proof.
  intros H1 H2. induction H2 as [|i s h cs k ch dZ mZ cZ Hb IH Hn]; [exact H1|].
  eapply below_step; eauto.
Qed.

Section Strict.
  Variable R : node.
  Hypothesis Hfu : forall Y, subterm Y R -> forall v, In v (fv Y) -> uvar v.
  Hypothesis Href : forall Y, subterm Y R -> is_ref (nhead Y) = true -> nchildren Y = [].
  Hypothesis Harity : forall Y, subterm Y R -> arity_ok (nhead Y) (length (nchildren Y)) = true.
  Hypothesis Hloops : forall i s h cs k c, subterm (Node i s h cs) R -> nth_error cs k = Some c -> loop_body h k = true ->
    forall D, subterm D c -> incl (fv D) (fv c) -> (forall y, In y (fv D) -> ~ In y (binds h k)) -> pure D = true.

  Lemma strict_reach X d m c Y dY mY cY :
    below X d m c Y dY mY cY -> posok d m c -> subterm X R ->
    forall D, subterm D Y -> incl (fv D) (fv Y) -> (bind_depth D mY cY <= d)%nat -> strict_to D Y -> strict_to D X.
  Proof.
    induction 1 as [|i s h cs k ch dY mY cY Hb IH Hn]; intros Hp HX D HD Hincl Hbd Hst; [exact Hst|].
    destruct (below_posok _ _ _ _ _ _ _ _ Hb Hp) as [[Hp1 Hp2] Hle].
    pose proof (below_subterm _ _ _ _ _ _ _ _ Hb) as HYX.
    assert (HYR : subterm (Node i s h cs) R) by (eapply subterm_trans; eauto).
    assert (Hin : In ch cs) by (eapply nth_error_In; eauto).
    assert (Hnr : is_ref h = false).
    { destruct (is_ref h) eqn:Er; [|reflexivity]. pose proof (Href _ HYR Er) as E0. cbn in E0. subst cs. destruct Hin. }
    destruct (movable i s h cs dY mY cY Hnr k ch D _ Hn Hincl eq_refl ltac:(lia)) as [M1 [M2 [M3 M4]]].
    assert (Hnb : new_block h k = false).
    { unfold child_mbd in M1. destruct (new_block h k); [lia | reflexivity]. }
    apply (IH Hp HX D).
    - eapply subterm_trans; [exact HD | apply subterm_child; exact Hin].
    - exact M4.
    - rewrite <- M3. exact Hbd.
    - intros e ee Hu HDe.
      destruct (loop_body h k) eqn:Elb.
      + exfalso. pose proof (Hloops i s h cs k ch HYR Hn Elb D HD Hincl M2) as Hpure.
        assert (HDR : subterm D R).
        { eapply subterm_trans; [exact HD|]. eapply subterm_trans; [apply subterm_child; exact Hin | exact HYR]. }
        rewrite (pure_no_error D Hpure e ee) in HDe; [discriminate|].
        intros v Hv. apply Hu. exact (Hfu D HDR v Hv).
      + eapply errsE_strict_child; eauto.
        * exact (Harity _ HYR).
        * intros vs Hl. apply Hst; [apply uclean_updsb; exact Hu|].
          rewrite <- HDe. apply errsE_ext. intros v Hv. split.
          -- apply upds_notin. apply M2; exact Hv.
          -- apply updsb_notin. apply M2; exact Hv.
  Qed.
End Strict.
