(** C35 — basic facts about the model: decidable equalities, free variables, binding depth, subterms, and the
    congruence / coincidence lemmas of the evaluator. *)
From HailV Require Import Common.Prelude CSE.Model.

Lemma var_eqb_eq a b : var_eqb a b = true <-> a = b.
Proof.
  destruct a, b; cbn; rewrite ?N.eqb_eq; split; intro H; try discriminate; try (inversion H; reflexivity); congruence.
Qed.
Lemma var_eqb_refl a : var_eqb a a = true.
Proof. apply var_eqb_eq; reflexivity. Qed.
Lemma var_eqb_neq a b : var_eqb a b = false <-> a <> b.
Proof.
  split; intro H.
  - intro E; apply var_eqb_eq in E; congruence.
  - destruct (var_eqb a b) eqn:E; [apply var_eqb_eq in E; contradiction | reflexivity].
Qed.
Lemma var_eq_dec (a b : var) : {a = b} + {a <> b}.
Proof. destruct (var_eqb a b) eqn:E; [left; apply var_eqb_eq; exact E | right; apply var_eqb_neq; exact E]. Qed.

Lemma memv_In x l : memv x l = true <-> In x l.
Proof.
  unfold memv; rewrite existsb_exists; split.
  - intros [y [Hy E]]; apply var_eqb_eq in E; subst; exact Hy.
  - intro H; exists x; split; [exact H | apply var_eqb_refl].
Qed.
Lemma memv_false x l : memv x l = false <-> ~ In x l.
Proof.
  split; intro H.
  - intro HI; apply memv_In in HI; congruence.
  - destruct (memv x l) eqn:E; [apply memv_In in E; contradiction | reflexivity].
Qed.
Lemma memN_In x l : memN x l = true <-> In x l.
Proof.
  unfold memN; rewrite existsb_exists; split.
  - intros [y [Hy E]]; apply N.eqb_eq in E; subst; exact Hy.
  - intro H; exists x; split; [exact H | apply N.eqb_refl].
Qed.

Lemma In_removes v xs l : In v (removes xs l) <-> In v l /\ ~ In v xs.
Proof.
  unfold removes; rewrite filter_In, negb_true_iff, memv_false; tauto.
Qed.

(** *** association lists *)
Lemma lookup_In {A} (l : list (N * A)) k v : lookup l k = Some v -> In (k, v) l.
Proof.
  induction l as [|[k' v'] l IH]; cbn; [discriminate|].
  destruct (N.eqb k' k) eqn:E; intro H.
  - apply N.eqb_eq in E; inversion H; subst; left; reflexivity.
  - right; apply IH; exact H.
Qed.
Lemma lookup_None {A} (l : list (N * A)) k : lookup l k = None -> ~ In k (map fst l).
Proof.
  induction l as [|[k' v'] l IH]; cbn; [tauto|].
  destruct (N.eqb k' k) eqn:E; intro H; [discriminate|].
  apply N.eqb_neq in E; intros [H1|H1]; [contradiction | exact (IH H H1)].
Qed.
Lemma lookup_NoDup {A} (l : list (N * A)) k v : NoDup (map fst l) -> In (k, v) l -> lookup l k = Some v.
Proof.
  induction l as [|[k' v'] l IH]; cbn; [tauto|].
  intros Hnd [H|H]; inversion Hnd as [|? ? Hni Hnd']; subst.
  - inversion H; subst; rewrite N.eqb_refl; reflexivity.
  - destruct (N.eqb k' k) eqn:E.
    + apply N.eqb_eq in E; subst; exfalso; apply Hni; apply (in_map fst) in H; exact H.
    + apply IH; assumption.
Qed.
(* injectivity of a table whose names are pairwise distinct *)
Lemma lookup_inj (l : list (N * N)) i j n :
  NoDup (map snd l) -> lookup l i = Some n -> lookup l j = Some n -> i = j.
Proof.
  intros Hnd Hi Hj; apply lookup_In in Hi; apply lookup_In in Hj.
  induction l as [|[k v] l IH]; cbn in *; [tauto|].
  inversion Hnd as [|? ? Hni Hnd']; subst.
  destruct Hi as [Hi|Hi], Hj as [Hj|Hj].
  - congruence.
  - inversion Hi; subst; exfalso; apply Hni; apply (in_map snd) in Hj; exact Hj.
  - inversion Hj; subst; exfalso; apply Hni; apply (in_map snd) in Hi; exact Hi.
  - apply IH; assumption.
Qed.

(** *** induction principle, size, subterms *)
Section NodeInd.
  Variable P : node -> Prop.
  Hypothesis HN : forall i s h cs, Forall P cs -> P (Node i s h cs).
  Fixpoint node_ind' (t : node) : P t :=
    match t with
    | Node i s h cs =>
      HN i s h cs ((fix go (l : list node) : Forall P l :=
                      match l with [] => Forall_nil P | c :: r => Forall_cons c (node_ind' c) (go r) end) cs)
    end.
End NodeInd.

Fixpoint size (t : node) : nat :=
  match t with Node _ _ _ cs => S (fold_right (fun c acc => (size c + acc)%nat) 0%nat cs) end.

Lemma size_child i s h cs c : In c cs -> (size c < size (Node i s h cs))%nat.
Proof.
  cbn [size]. induction cs as [|c' cs IH]; cbn [In fold_right]; [tauto|].
  intros [H|H]; [subst; lia | specialize (IH H); lia].
Qed.

Inductive subterm : node -> node -> Prop :=
| st_refl t : subterm t t
| st_child t i s h cs c : In c cs -> subterm t c -> subterm t (Node i s h cs).

Lemma subterm_trans a b c : subterm a b -> subterm b c -> subterm a c.
Proof.
  intros Hab Hbc; induction Hbc as [|t i s h cs c' Hin Hbc IH]; [exact Hab|].
  eapply st_child; [exact Hin | apply IH; exact Hab].
Qed.
Lemma subterm_size a b : subterm a b -> (size a <= size b)%nat.
Proof.
  induction 1 as [|t i s h cs c Hin Hs IH]; [lia|].
  pose proof (size_child i s h cs c Hin); lia.
Qed.
Lemma subterm_child c i s h cs : In c cs -> subterm c (Node i s h cs).
Proof. intro H; eapply st_child; [exact H | apply st_refl]. Qed.

(** *** free variables *)
Fixpoint fv_children (h : head) (i : nat) (cs : list node) : list var :=
  match cs with [] => [] | c :: r => removes (binds h i) (fv c) ++ fv_children h (S i) r end.

Lemma fv_node i s h cs :
  fv (Node i s h cs) = match h with HRef x => [x] | _ => fv_children h 0 cs end.
Proof.
  destruct h; try reflexivity; cbn [fv]; generalize 0%nat;
    (induction cs as [|c cs IH]; intro n; cbn [fv_children]; [reflexivity | rewrite <- IH; reflexivity]).
Qed.

Lemma In_fv_children v h cs : forall i,
  In v (fv_children h i cs) <->
  exists k c, nth_error cs k = Some c /\ In v (fv c) /\ ~ In v (binds h (i + k)).
Proof.
  induction cs as [|c cs IH]; intro i; cbn [fv_children].
  - split; [intros [] | intros [k [c [H _]]]; destruct k; discriminate].
  - rewrite in_app_iff, In_removes, IH; split.
    + intros [[H1 H2]|[k [c' [H1 [H2 H3]]]]].
      * exists 0%nat, c; rewrite Nat.add_0_r; cbn; tauto.
      * exists (S k), c'; rewrite Nat.add_succ_r; cbn; tauto.
    + intros [k [c' [H1 [H2 H3]]]]; destruct k as [|k]; cbn in H1.
      * inversion H1; subst; rewrite Nat.add_0_r in H3; left; tauto.
      * right; exists k, c'; rewrite Nat.add_succ_r in H3; tauto.
Qed.

(** *** binding depth *)
Lemma bind_depth_ge_mbd t mbd ctx : (mbd <= bind_depth t mbd ctx)%nat.
Proof. unfold bind_depth; induction (fv t) as [|v l IH]; cbn; lia. Qed.
Lemma bind_depth_ge_var t mbd ctx v : In v (fv t) -> (ctx_get ctx v <= bind_depth t mbd ctx)%nat.
Proof.
  unfold bind_depth; induction (fv t) as [|w l IH]; cbn; [tauto|].
  intros [H|H]; [subst; lia | specialize (IH H); lia].
Qed.
Lemma bind_depth_cases t mbd ctx :
  bind_depth t mbd ctx = mbd \/ exists v, In v (fv t) /\ bind_depth t mbd ctx = ctx_get ctx v.
Proof.
  unfold bind_depth; induction (fv t) as [|w l IH]; cbn; [left; reflexivity|].
  destruct IH as [IH|[v [Hv IH]]].
  - destruct (Nat.max_spec (ctx_get ctx w) (fold_right (fun v acc => Nat.max (ctx_get ctx v) acc) mbd l)) as [[_ E]|[_ E]].
    + left; rewrite E; exact IH.
    + right; exists w; split; [left; reflexivity | exact E].
  - right.
    destruct (Nat.max_spec (ctx_get ctx w) (fold_right (fun v acc => Nat.max (ctx_get ctx v) acc) mbd l)) as [[_ E]|[_ E]].
    + exists v; split; [right; exact Hv | rewrite E; exact IH].
    + exists w; split; [left; reflexivity | exact E].
Qed.
Lemma bind_depth_le t mbd ctx k :
  (mbd <= k)%nat -> (forall v, In v (fv t) -> (ctx_get ctx v <= k)%nat) -> (bind_depth t mbd ctx <= k)%nat.
Proof.
  intros H1 H2; destruct (bind_depth_cases t mbd ctx) as [E|[v [Hv E]]]; rewrite E; [exact H1 | apply H2; exact Hv].
Qed.

Lemma ctx_get_app_notin xs d ctx v :
  ~ In v xs -> ctx_get (map (fun x => (x, d)) xs ++ ctx) v = ctx_get ctx v.
Proof.
  induction xs as [|x xs IH]; cbn; [reflexivity|].
  intro H; destruct (var_eqb x v) eqn:E; [apply var_eqb_eq in E; subst; tauto | apply IH; tauto].
Qed.
Lemma ctx_get_app_in xs d ctx v :
  In v xs -> ctx_get (map (fun x => (x, d)) xs ++ ctx) v = d.
Proof.
  induction xs as [|x xs IH]; cbn; [tauto|].
  intro H; destruct (var_eqb x v) eqn:E; [reflexivity|].
  apply var_eqb_neq in E; destruct H as [H|H]; [congruence | apply IH; exact H].
Qed.
