(** C35 — print pass, part 6: a child that is bound in a let here for the first time. *)
From HailV Require Import Common.Prelude CSE.Model CSE.Basics CSE.EvalLemmas CSE.PrintDefs
  CSE.PrintLemmas1 CSE.PrintLemmas2 CSE.PrintLemmas3 CSE.PrintLemmas4 CSE.PrintLemmas5.

Section Print6.
  Variable R : node.
  Variable sts : list (N * site).
  Hypothesis Hcons : forall Y Z, subterm Y R -> subterm Z R -> nid Y = nid Z -> Y = Z.
  Hypothesis Hnames : NoDup (concat (map (fun e : N * site => map snd (stable (snd e))) sts)).

  Section Child.
    Variables (h : head) (d mbd : nat) (ctx : ctxt) (k : nat) (c : node).
    Let pc := cpos h d mbd ctx k c.
    Let mbd' := child_mbd h k d mbd.
    Let ctx' := child_ctx h k d ctx.
    Let bd := bind_depth c mbd' ctx'.

    Lemma child_lifted bs sz szP P F name B bs'' :
      pr_spec R sts c -> inv R sts bs (S d) sz szP P -> subterm c R -> (size c <= sz)%nat -> (size c < szP)%nat ->
      bs_get bs bd = Some F -> lookup (btable F) (nid c) = Some name -> ~ In (nid c) (bvis F) ->
      pr sts c (S d) mbd' ctx' true (bs_upd bs bd (f_mark (nid c))) = (B, bs'') ->
      child_post R sts h d mbd ctx k c bs sz szP P (cref name) (bs_upd bs'' bd (f_addlet name B)).
    Proof.
      intros IH Hi Hc Hs1 Hs2 Hg Hl Hnv E.
      destruct (bs_get_In _ _ _ Hg) as [HF Hd].
      set (bsm := bs_upd bs bd (f_mark (nid c))) in *.
      set (P' := (bd, nid c) :: P).
      assert (Him : inv R sts bsm (S d) (size c) (size c) P') by (eapply inv_mark; eauto; lia).
      destruct (IH (S d) mbd' ctx' true bsm P' B bs'' Hc Him E) as [A1 [A2 [A3 A4]]].
      set (bs3 := bs_upd bs'' bd (f_addlet name B)).
      assert (HFm : has_frame bsm bd (btable F) (nid c)).
      { exists (f_mark (nid c) F). split.
        - apply bs_upd_In. exists F. split; [exact HF|]. rewrite Hd, Nat.eqb_refl. reflexivity.
        - cbn. split; [exact Hd|]. split; [reflexivity|]. left; reflexivity. }
      destruct (sext_grow _ _ _ _ _ A1 _ _ _ HFm) as [F2 [HF2 [D2 [T2 V2]]]].
      assert (Hg3 : grow bs'' bs3).
      { intros dG tbl i Hh. apply has_frame_upd; [|exact Hh]. intro G; cbn. split; [reflexivity|]. split; [reflexivity | apply incl_refl]. }
      assert (Hnp : ~ In (bd, nid c) P).
      { intro Hp. pose proof (i_P _ _ _ _ _ _ _ Hi bd (nid c) c Hp Hc eq_refl). lia. }
      assert (Hp : pos_le (npos c mbd' ctx') pc).
      { unfold pos_le; cbn. split; [reflexivity|]. split; [reflexivity|]. split; [reflexivity|lia]. }
      assert (Huniq : forall G, In G bs'' -> bdepth G = bd -> G = F2).
      { intros G HG EG. pose proof (bs_get_unique bs'' bd G (i_nd _ _ _ _ _ _ _ A2) HG EG).
        pose proof (bs_get_unique bs'' bd F2 (i_nd _ _ _ _ _ _ _ A2) HF2 D2). congruence. }
      assert (Hlet : let_ok R sts bs3 pc bd (names F2) name B).
      { exists (btable F), c.
        split; [apply Hg3; exists F2; split; [exact HF2 | split; [exact D2 | split; [exact T2 | exact V2]]]|].
        split; [exact Hc|]. split; [cbn; lia|]. split; [exact Hl|]. split; [reflexivity|]. split; [apply incl_refl|]. split.
        - intros v Hv. destruct (A3 v Hv) as [Ha|[m [dG [Ev W]]]]; [left; exact Ha|].
          right. exists m, dG. split; [exact Ev|].
          split; [eapply cwit_pos; [exact Hp|]; eapply cwit_grow; eauto|].
          destruct W as [tbl' [D' [W1 [W2 [W3 [W4 [W5 W6]]]]]]]. cbn [npos p_sz p_mbd p_ctx p_fv] in W3, W5, W6.
          assert (dG <= bd)%nat by (rewrite W5; apply bind_depth_incl; exact W6).
          destruct (Nat.eq_dec dG bd) as [Eq|Ne]; [right|left; lia]. split; [exact Eq|].
          destruct W1 as [G' [HG' [G1 [G2 G3]]]]. assert (G' = F2) by (apply Huniq; congruence). subst G'.
          destruct (i_vis _ _ _ _ _ _ _ A2 F2 HF2 (nid D') G3) as [[n [L1 L2]]|Hpp].
          + rewrite G2 in L1. assert (n = m) by congruence. subst; exact L2.
          + exfalso. destruct Hpp as [Hpp|Hpp].
            * inversion Hpp as [[Ea Eb]]. assert (D' = c) by (apply Hcons; [exact W2 | exact Hc | congruence]). subst. lia.
            * pose proof (i_P _ _ _ _ _ _ _ A2 (bdepth F2) (nid D') D' (or_intror Hpp) W2 eq_refl). lia.
        - exact A4. }
      assert (S1 : Forall2 (fext R sts bs3 pc) bs bsm).
      { apply Forall2_fext_upd. intros G HG EG. unfold fext; cbn. split; [reflexivity|]. split; [reflexivity|]. split; [reflexivity|].
        split; [apply incl_tl, incl_refl|]. exists []; rewrite app_nil_r; split; [reflexivity | exact I]. }
      assert (S2 : Forall2 (fext R sts bs3 pc) bsm bs'').
      { eapply Forall2_fext_grow; [exact Hg3|]. eapply Forall2_fext_pos; [exact Hp | exact A1]. }
      assert (S3 : Forall2 (fext R sts bs3 pc) bs'' bs3).
      { apply Forall2_fext_upd. intros G HG EG. assert (G = F2) by (apply Huniq; auto). subst G.
        unfold fext; cbn. split; [reflexivity|]. split; [reflexivity|]. split; [reflexivity|]. split; [apply incl_refl|].
        exists [(name, B)]. split; [reflexivity|]. cbn. split; [|exact I]. rewrite D2. exact Hlet. }
      assert (Sx : sext R sts pc bs bs3).
      { unfold sext. eapply Forall2_fext_trans; [|exact S3]. eapply Forall2_fext_trans; eauto. }
      assert (Hl2 : lookup (btable F2) (nid c) = Some name) by (rewrite T2; exact Hl).
      destruct (inv_addlet R sts Hnames bs'' d (size c) (size c) P bd (nid c) name B F2 A2 HF2 D2 Hl2 V2 Hnp) as [V3 N3].
      fold bs3 in V3, N3.
      destruct (Forall2_fext_skel _ _ _ _ _ _ Sx) as [Hm Hs].
      assert (Hi3 : inv R sts bs3 (S d) sz szP P).
      { destruct Hi as [B1 B2 B3 B4 B5 B6 B7 B8]. constructor; auto.
        - intros G3 HG3. destruct (Hs G3 HG3) as [G0 [HG0 [E1 _]]]. rewrite E1; auto.
        - rewrite Hm; exact B2.
        - intros G3 HG3. destruct (Hs G3 HG3) as [G0 [HG0 [_ [E2 E3]]]]. destruct (B3 G0 HG0) as [s0 [X1 X2]].
          exists s0; split; congruence.
        - intros G3 Y HG3 HY EY. destruct (Hs G3 HG3) as [G0 [HG0 [_ [E2 _]]]]. eapply B4; eauto; congruence. }
      assert (HF3 : In (f_addlet name B F2) bs3).
      { apply bs_upd_In. exists F2. split; [exact HF2|]. rewrite D2, Nat.eqb_refl. reflexivity. }
      destruct (cref_facts R sts Hcons h d mbd ctx k c bs3 sz szP P (f_addlet name B F2) name Hi3 Hc HF3 D2 Hl2 V2) as [C1 C2].
      split; [exact Sx | split; [exact Hi3 | split; [exact C1 | exact C2]]].
    Qed.
  End Child.
End Print6.
