(** C35 — print pass, part 3: invariant bookkeeping. *)
From HailV Require Import Common.Prelude CSE.Model CSE.Basics CSE.EvalLemmas CSE.PrintDefs CSE.PrintLemmas1 CSE.PrintLemmas2.

Lemma fv_cref n : fv (cref n) = [C n].
Proof. reflexivity. Qed.
Lemma eval_cref n e : eval (cref n) e = e (C n).
Proof. reflexivity. Qed.

Definition pos_le (p p' : pos) : Prop :=
  p_mbd p = p_mbd p' /\ p_ctx p = p_ctx p' /\ p_fv p = p_fv p' /\ (p_sz p <= p_sz p')%nat.

Section Print3.
  Variable R : node.
  Variable sts : list (N * site).

  Lemma cwit_pos bs p p' m dG : pos_le p p' -> cwit R bs p m dG -> cwit R bs p' m dG.
  Proof.
    intros [E1 [E2 [E3 E4]]] [tbl [D [H1 [H2 [H3 [H4 [H5 H6]]]]]]]. exists tbl, D.
    rewrite <- E1, <- E2, <- E3. repeat split; auto. lia.
  Qed.
  Lemma fv_ok_pos bs p p' T : pos_le p p' -> fv_ok R bs p T -> fv_ok R bs p' T.
  Proof.
    intros Hp H v Hv. destruct (H v Hv) as [Ha|[m [dG [E W]]]].
    - left. destruct Hp as [_ [_ [E3 _]]]. rewrite <- E3; exact Ha.
    - right; exists m, dG; split; [exact E | eapply cwit_pos; eauto].
  Qed.
  Lemma let_ok_pos bs p p' k pre n B : pos_le p p' -> let_ok R sts bs p k pre n B -> let_ok R sts bs p' k pre n B.
  Proof.
    intros Hp [tbl [D [H1 [H2 [H3 [H4 [H5 [H6 [H7 H8]]]]]]]]]. pose proof Hp as [E1 [E2 [E3 E4]]].
    exists tbl, D. rewrite <- E1, <- E2, <- E3. repeat split; auto; [lia|].
    intros v Hv. destruct (H7 v Hv) as [Ha|[m [dG [Ev [W O]]]]]; [left; exact Ha|].
    right; exists m, dG; repeat split; [exact Ev | eapply cwit_pos; eauto | exact O].
  Qed.
  Lemma lets_ok_pos bs p p' k l : forall pre, pos_le p p' -> lets_ok R sts bs p k pre l -> lets_ok R sts bs p' k pre l.
  Proof.
    induction l as [|[n B] l IH]; intros pre Hp H; cbn in *; [exact I|].
    destruct H as [H1 H2]; split; [eapply let_ok_pos; eauto | apply IH; assumption].
  Qed.
  Lemma Forall2_fext_pos X p p' a b : pos_le p p' -> Forall2 (fext R sts X p) a b -> Forall2 (fext R sts X p') a b.
  Proof.
    intros Hp H; induction H as [|F F' a b HF HR IH]; constructor; [|exact IH].
    destruct HF as [H1 [H2 [H3 [H4 [l [H5 H6]]]]]]. repeat split; auto. exists l; split; [exact H5 | eapply lets_ok_pos; eauto].
  Qed.

  (* skeleton facts carried by an extension *)
  Lemma Forall2_fext_skel X p a b : Forall2 (fext R sts X p) a b ->
    map bdepth b = map bdepth a /\
    forall F', In F' b -> exists F, In F a /\ bdepth F' = bdepth F /\ bnode F' = bnode F /\ btable F' = btable F.
  Proof.
    induction 1 as [|F F' a b HF HR [IH1 IH2]]; [split; [reflexivity | intros ? []]|].
    destruct HF as [H1 [H2 [H3 _]]]. split; [cbn; congruence|].
    intros G [HG|HG]; [subst; exists F; repeat split; auto; left; reflexivity|].
    destruct (IH2 G HG) as [G0 [HG0 HH]]; exists G0; split; [right; exact HG0 | exact HH].
  Qed.

  (* updating the frame at one depth *)
  Lemma Forall2_fext_upd X p bs dd f :
    (forall F, In F bs -> bdepth F = dd -> fext R sts X p F (f F)) -> Forall2 (fext R sts X p) bs (bs_upd bs dd f).
  Proof.
    induction bs as [|G bs IH]; intro H; cbn; constructor.
    - destruct (Nat.eqb (bdepth G) dd) eqn:E; [apply H; [left; reflexivity | apply Nat.eqb_eq; exact E] | apply fext_refl].
    - apply IH. intros F HF; apply H; right; exact HF.
  Qed.

  Lemma inv_mono bs d sz szP P d' sz' szP' :
    inv R sts bs d sz szP P -> (d <= d')%nat -> (sz' <= sz)%nat -> (szP' <= szP)%nat -> inv R sts bs d' sz' szP' P.
  Proof.
    intros [A1 A2 A3 A4 A5 A6 A7 A8] H1 H2 H3. constructor; auto.
    - intros F HF; specialize (A1 F HF); lia.
    - intros F Y HF HY E; specialize (A4 F Y HF HY E); lia.
    - intros k i Y Hk HY E; specialize (A5 k i Y Hk HY E); lia.
    - intros k i Hk; specialize (A6 k i Hk); lia.
  Qed.

  (* the position-independent parts of the invariant survive any extension of the stack *)
  Lemma inv_restore X p bs bs' d sz szP P d' sz' szP' :
    inv R sts bs d sz szP P -> Forall2 (fext R sts X p) bs bs' -> inv R sts bs' d' sz' szP' P -> inv R sts bs' d sz szP P.
  Proof.
    intros [A1 A2 A3 A4 A5 A6 A7 A8] HF [B1 B2 B3 B4 B5 B6 B7 B8].
    destruct (Forall2_fext_skel _ _ _ _ HF) as [Hm Hs]. constructor; auto.
    - intros F' HF'. destruct (Hs F' HF') as [F [HF0 [E1 _]]]. rewrite E1; apply A1; exact HF0.
    - intros F' Y HF' HY E. destruct (Hs F' HF') as [F [HF0 [_ [E2 _]]]]. eapply A4; [exact HF0 | exact HY | congruence].
  Qed.

  Lemma lift_target_Some bs bd i n : lift_target bs bd i = Some n ->
    exists F, bs_get bs bd = Some F /\ lookup (btable F) i = Some n.
  Proof. unfold lift_target. destruct (bs_get bs bd) as [F|]; [intro H; exists F; auto | discriminate]. Qed.

  Lemma has_frame_upd bs dd f dG tbl i :
    (forall F, bdepth (f F) = bdepth F /\ btable (f F) = btable F /\ incl (bvis F) (bvis (f F))) ->
    has_frame bs dG tbl i -> has_frame (bs_upd bs dd f) dG tbl i.
  Proof.
    intros Hf [G [HG [E1 [E2 E3]]]].
    exists (if Nat.eqb (bdepth G) dd then f G else G). split; [apply bs_upd_In; exists G; auto|].
    destruct (Hf G) as [F1 [F2 F3]]. destruct (Nat.eqb (bdepth G) dd); repeat split; auto; try congruence.
  Qed.
End Print3.
