(** C35 — analysis pass: the names it hands out are pairwise distinct (over all binding sites). *)
From Coq Require Import Permutation.
From HailV Require Import Common.Prelude CSE.Model CSE.Basics.

Definition fnames (frs : list aframe) : list N := concat (map (fun f => map snd (alift f)) frs).
Definition snames (sts : list (N * site)) : list N := concat (map (fun e : N * site => map snd (stable (snd e))) sts).
Definition anames (st : astate) : list N := fnames (afr st) ++ snames (asites st).
Definition aok (st : astate) : Prop := NoDup (anames st) /\ forall n, In n (anames st) -> (n <= acnt st)%N.

Fixpoint an_children (h : head) (d mbd : nat) (ctx : ctxt) (k : nat) (cs : list node) (st : astate) : astate :=
  match cs with
  | [] => st
  | c :: r =>
    let mbd' := child_mbd h k d mbd in
    let ctx' := child_ctx h k d ctx in
    let bd := bind_depth c mbd' ctx' in
    let st' :=
      if (bd <? length (afr st))%nat && memN (nid c) (avis (nth bd (afr st) aframe0))
      then a_seen st bd (nid c)
      else if is_ref (nhead c) then st
      else an_node c (S d) mbd' ctx' (a_push st) in
    an_children h d mbd ctx (S k) r st'
  end.

Lemma an_node_eq i s h cs d mbd ctx st :
  an_node (Node i s h cs) d mbd ctx st =
  let st1 := an_children h d mbd ctx 0 cs st in
  let st2 := if s then st1 else a_visit st1 (bind_depth (Node i s h cs) mbd ctx) i in
  a_pop st2 i.
Proof.
  cbn [an_node].
  match goal with |- a_pop (if s then ?f 0%nat cs st else _) i = _ =>
    assert (E : forall k st0, f k cs st0 = an_children h d mbd ctx k cs st0) end.
  { induction cs as [|c r IH]; intros k st0; [reflexivity|]. cbn [an_children]. rewrite <- IH. reflexivity. }
  rewrite !E. reflexivity.
Qed.

Lemma fnames_app a b : fnames (a ++ b) = fnames a ++ fnames b.
Proof. unfold fnames. rewrite map_app, concat_app. reflexivity. Qed.

Lemma fnames_upd_same n g frs : (forall f, alift (g f) = alift f) -> fnames (upd_nth n g frs) = fnames frs.
Proof.
  intro H. revert n. induction frs as [|f frs IH]; intros [|n]; cbn; try reflexivity.
  - unfold fnames; cbn. rewrite H. reflexivity.
  - unfold fnames in *; cbn. rewrite IH. reflexivity.
Qed.

Lemma fnames_upd_lift n i u frs :
  fnames (upd_nth n (fun f => {| avis := avis f; alift := alift f ++ [(i, u)] |}) frs) = fnames frs \/
  Permutation (fnames (upd_nth n (fun f => {| avis := avis f; alift := alift f ++ [(i, u)] |}) frs)) (u :: fnames frs).
Proof.
  revert n. induction frs as [|f frs IH]; intros [|n]; cbn [upd_nth]; try (left; reflexivity).
  - right. unfold fnames. cbn [map concat alift]. rewrite map_app. cbn [map snd].
    rewrite <- app_assoc. cbn [app]. symmetry. apply Permutation_middle.
  - destruct (IH n) as [E|P]; [left|right]; unfold fnames in *; cbn [map concat].
    + rewrite E; reflexivity.
    + eapply perm_trans; [apply Permutation_app_head; exact P|]. symmetry. apply Permutation_middle.
Qed.

Lemma aok_seen st bd i : aok st -> aok (a_seen st bd i).
Proof.
  intros [H1 H2]. unfold a_seen. destruct (lookup (alift (nth bd (afr st) aframe0)) i); [split; assumption|].
  unfold aok, anames; cbn [afr asites acnt].
  assert (Hf : ~ In (acnt st + 1)%N (anames st)) by (intro Hin; specialize (H2 _ Hin); lia).
  destruct (fnames_upd_lift bd i (acnt st + 1)%N (afr st)) as [E|P].
  - rewrite E. split; [exact H1|]. intros n Hn. specialize (H2 n Hn). lia.
  - assert (P' : Permutation (fnames (upd_nth bd (fun f => {| avis := avis f; alift := alift f ++ [(i, (acnt st + 1)%N)] |}) (afr st)) ++ snames (asites st))
                             ((acnt st + 1)%N :: anames st)).
    { unfold anames. change ((acnt st + 1)%N :: fnames (afr st) ++ snames (asites st))
        with (((acnt st + 1)%N :: fnames (afr st)) ++ snames (asites st)). apply Permutation_app_tail; exact P. }
    split.
    + eapply Permutation_NoDup; [symmetry; exact P'|]. constructor; assumption.
    + intros n Hn. eapply Permutation_in in Hn; [|exact P']. destruct Hn as [Hn|Hn]; [subst; lia | specialize (H2 n Hn); lia].
Qed.

Lemma aok_push st : aok st -> aok (a_push st).
Proof.
  intros [H1 H2]. unfold aok, anames, a_push in *; cbn [afr asites acnt].
  rewrite fnames_app. unfold fnames at 2; cbn. rewrite app_nil_r. split; assumption.
Qed.

Lemma aok_visit st bd i : aok st -> aok (a_visit st bd i).
Proof.
  intros [H1 H2]. unfold aok, anames, a_visit in *; cbn [afr asites acnt].
  rewrite fnames_upd_same by reflexivity. split; assumption.
Qed.

Lemma perm_move1 {T} (a b c e : list T) : Permutation (a ++ b ++ c ++ e) (c ++ a ++ b ++ e).
Proof.
  eapply perm_trans; [apply Permutation_app_head; apply Permutation_app_swap_app|]. apply Permutation_app_swap_app.
Qed.
Lemma perm_move2 {T} (a b c e : list T) : Permutation (a ++ b ++ c ++ e) ((a ++ c) ++ b ++ e).
Proof.
  rewrite <- app_assoc. apply Permutation_app_head. apply Permutation_app_swap_app.
Qed.

Lemma snames_set A sts i s :
  NoDup (A ++ map snd (stable s) ++ snames sts) -> NoDup (A ++ snames (assoc_set sts i s)) /\
  (forall n, In n (snames (assoc_set sts i s)) -> In n (map snd (stable s) ++ snames sts)).
Proof.
  revert A. induction sts as [|[k v] r IH]; intros A H; cbn [assoc_set].
  - unfold snames in *; cbn in *. split; [exact H|]. intros n Hn; exact Hn.
  - destruct (N.eqb k i) eqn:E.
    + unfold snames in *; cbn [map concat fst snd] in *. split.
      * pose proof (perm_move1 A (map snd (stable s)) (map snd (stable v)) (concat (map (fun e : N * site => map snd (stable (snd e))) r))) as P.
        eapply Permutation_NoDup in H; [|exact P]. clear P.
        induction (map snd (stable v)) as [|x l IHl]; cbn in H; [exact H|]. inversion H; auto.
      * intros n Hn. rewrite !in_app_iff in *. tauto.
    + unfold snames in *; cbn [map concat fst snd] in *.
      pose proof (perm_move2 A (map snd (stable s)) (map snd (stable v)) (concat (map (fun e : N * site => map snd (stable (snd e))) r))) as P.
      eapply Permutation_NoDup in H; [|exact P]. destruct (IH _ H) as [I1 I2]. split.
      * rewrite <- app_assoc in I1. exact I1.
      * intros n Hn. apply in_app_or in Hn. destruct Hn as [Hn|Hn].
        -- rewrite !in_app_iff. tauto.
        -- specialize (I2 n Hn). rewrite !in_app_iff in *. tauto.
Qed.

Lemma aok_pop st i : aok st -> aok (a_pop st i).
Proof.
  intros [H1 H2]. unfold a_pop.
  destruct (afr st) as [|f0 frs0] eqn:Ef.
  - cbn [last removelast alift aframe0]. unfold aok, anames in *; cbn [afr asites acnt]. rewrite Ef in *. split; assumption.
  - rewrite <- Ef.
    assert (Hne : afr st <> []) by (rewrite Ef; discriminate).
    pose proof (app_removelast_last aframe0 Hne) as El.
    set (fr := last (afr st) aframe0) in *. set (rest := removelast (afr st)) in *.
    assert (En : anames st = fnames rest ++ map snd (alift fr) ++ snames (asites st)).
    { unfold anames. rewrite El at 1. rewrite fnames_app. unfold fnames at 2; cbn. rewrite app_nil_r, <- app_assoc. reflexivity. }
    unfold aok, anames; cbn [afr asites acnt].
    destruct (alift fr) as [|p l] eqn:Ea.
    + rewrite En in *. cbn in *. split; assumption.
    + rewrite En in H1, H2.
      destruct (snames_set (fnames rest) (asites st) i {| sdepth := length rest; stable := p :: l |} H1) as [I1 I2].
      split; [exact I1|]. intros n Hn. apply H2. apply in_app_or in Hn. destruct Hn as [Hn|Hn].
      * apply in_or_app; left; exact Hn.
      * apply in_or_app; right. apply I2. exact Hn.
Qed.

Lemma aok_node X : forall d mbd ctx st, aok st -> aok (an_node X d mbd ctx st).
Proof.
  induction X as [i s h cs IH] using node_ind'. intros d mbd ctx st H. rewrite an_node_eq. cbv zeta.
  assert (Hc : forall k st0, aok st0 -> aok (an_children h d mbd ctx k cs st0)).
  { induction cs as [|c r IHr]; intros k st0 H0; cbn [an_children]; [exact H0|].
    inversion IH as [|? ? Hc Hr]; subst. apply IHr; [exact Hr|].
    destruct ((bind_depth c (child_mbd h k d mbd) (child_ctx h k d ctx) <? length (afr st0))%nat &&
              memN (nid c) (avis (nth (bind_depth c (child_mbd h k d mbd) (child_ctx h k d ctx)) (afr st0) aframe0))).
    - apply aok_seen; exact H0.
    - destruct (is_ref (nhead c)); [exact H0|]. apply Hc. apply aok_push; exact H0. }
  apply aok_pop. destruct s; [apply Hc; exact H | apply aok_visit; apply Hc; exact H].
Qed.

Theorem analyse_names_distinct R :
  NoDup (concat (map (fun e : N * site => map snd (stable (snd e))) (analyse R))).
Proof.
  unfold analyse.
  assert (H0 : aok {| afr := [aframe0]; asites := []; acnt := 0 |}).
  { unfold aok, anames; cbn. split; [constructor | intros n []]. }
  destruct (aok_node R 0 0 [] _ H0) as [H1 _]. unfold anames in H1.
  induction (fnames (afr (an_node R 0 0 [] {| afr := [aframe0]; asites := []; acnt := 0 |}))) as [|x l IHl]; cbn in H1; [exact H1|].
  inversion H1; auto.
Qed.
