# /verif set-up (offline).  `make setup` is MANIFEST.setup_cmd.
PY=/venv/bin/python
WHEELS=/opt/veriftools/wheels

.PHONY: setup deps coq manifest clean
setup: deps coq

deps:
	@mkdir -p .deps
	@if [ ! -d .deps/numpy ]; then /venv/bin/pip install -q --no-index --find-links $(WHEELS) --target .deps numpy ; fi

# pre-build every static theory whose dependencies exist (generated files are produced by the checks)
coq:
	@python3 tools/prebuild.py

manifest:
	@python3 tools/gen_manifest.py

clean:
	rm -rf .work replays coq/generated coq/Makefile.coq* coq/_CoqProject coq/.Makefile.coq.d
	find coq -name '*.vo' -o -name '*.vok' -o -name '*.vos' -o -name '*.glob' -o -name '.*.aux' | xargs rm -f
