DELIMITER $$

DROP PROCEDURE IF EXISTS mark_job_complete $$
CREATE PROCEDURE mark_job_complete(
  IN in_batch_id BIGINT,
  IN in_job_id INT,
  IN in_attempt_id VARCHAR(40),
  IN in_instance_name VARCHAR(100),
  IN new_state VARCHAR(40),
  IN new_status TEXT,
  IN new_start_time BIGINT,
  IN new_end_time BIGINT,
  IN new_reason VARCHAR(40),
  IN new_timestamp BIGINT
)
BEGIN
  DECLARE cur_job_group_id INT;
  DECLARE cur_job_state VARCHAR(40);
  DECLARE cur_instance_state VARCHAR(40);
  DECLARE cur_cores_mcpu INT;
  DECLARE cur_end_time BIGINT;
  DECLARE delta_cores_mcpu INT DEFAULT 0;
  DECLARE expected_attempt_id VARCHAR(40);
  DECLARE cur_batch_n_completed INT;
  DECLARE total_jobs_in_batch INT;

  START TRANSACTION;

  SELECT n_jobs INTO total_jobs_in_batch
  FROM batches
  WHERE id = in_batch_id
  LOCK IN SHARE MODE;

  SELECT state, cores_mcpu, job_group_id
  INTO cur_job_state, cur_cores_mcpu, cur_job_group_id
  FROM jobs
  WHERE batch_id = in_batch_id AND job_id = in_job_id
  FOR UPDATE;

  CALL add_attempt(in_batch_id, in_job_id, in_attempt_id, in_instance_name, cur_cores_mcpu, delta_cores_mcpu);

  SELECT end_time INTO cur_end_time FROM attempts
  WHERE batch_id = in_batch_id AND job_id = in_job_id AND attempt_id = in_attempt_id
  FOR UPDATE;

  UPDATE attempts
  SET start_time = new_start_time, rollup_time = new_end_time, end_time = new_end_time, reason = new_reason
  WHERE batch_id = in_batch_id AND job_id = in_job_id AND attempt_id = in_attempt_id;

  SELECT state INTO cur_instance_state FROM instances WHERE name = in_instance_name LOCK IN SHARE MODE;
  # add_attempt takes the cores of a new attempt from pending and active instances alike,
  # so both must give them back when the attempt ends
  IF (cur_instance_state = 'pending' OR cur_instance_state = 'active') AND cur_end_time IS NULL THEN
    UPDATE instances_free_cores_mcpu
    SET free_cores_mcpu = free_cores_mcpu + cur_cores_mcpu
    WHERE instances_free_cores_mcpu.name = in_instance_name;

    SET delta_cores_mcpu = delta_cores_mcpu + cur_cores_mcpu;
  END IF;

  SELECT attempt_id INTO expected_attempt_id FROM jobs
  WHERE batch_id = in_batch_id AND job_id = in_job_id
  FOR UPDATE;

  IF expected_attempt_id IS NOT NULL AND expected_attempt_id != in_attempt_id THEN
    COMMIT;
    SELECT 2 as rc,
      expected_attempt_id,
      delta_cores_mcpu,
      'input attempt id does not match expected attempt id' as message;
  ELSEIF cur_job_state = 'Ready' OR cur_job_state = 'Creating' OR cur_job_state = 'Running' THEN
    UPDATE jobs
    SET state = new_state, status = new_status, attempt_id = in_attempt_id
    WHERE batch_id = in_batch_id AND job_id = in_job_id;

    UPDATE job_groups_n_jobs_in_complete_states
    INNER JOIN (
      SELECT batch_id, ancestor_id
      FROM job_group_self_and_ancestors
      WHERE batch_id = in_batch_id AND job_group_id = cur_job_group_id
      ORDER BY job_group_id ASC
    ) AS t ON job_groups_n_jobs_in_complete_states.id = t.batch_id AND job_groups_n_jobs_in_complete_states.job_group_id = t.ancestor_id
    SET n_completed = n_completed + 1,
        n_cancelled = n_cancelled + (new_state = 'Cancelled'),
        n_failed = n_failed + (new_state = 'Error' OR new_state = 'Failed'),
        n_succeeded = n_succeeded + (new_state != 'Cancelled' AND new_state != 'Error' AND new_state != 'Failed');

    SELECT n_completed INTO cur_batch_n_completed
    FROM job_groups_n_jobs_in_complete_states
    WHERE id = in_batch_id AND job_group_id = 0;

    # Grabbing an exclusive lock on batches here could deadlock,
    # but this IF should only execute for the last job
    IF cur_batch_n_completed = total_jobs_in_batch THEN
      UPDATE batches
      SET time_completed = new_timestamp,
          `state` = 'complete'
      WHERE id = in_batch_id;
    END IF;

    CALL mark_job_group_complete(in_batch_id, cur_job_group_id, new_timestamp);

    UPDATE jobs
      LEFT JOIN `jobs_telemetry` ON `jobs_telemetry`.batch_id = jobs.batch_id AND `jobs_telemetry`.job_id = jobs.job_id
      INNER JOIN `job_parents`
        ON jobs.batch_id = `job_parents`.batch_id AND
           jobs.job_id = `job_parents`.job_id
      # Children in updates that are not committed yet must not be released: commit_batch_update
      # computes their n_pending_parents, state and cancelled flag from their parents' states.
      INNER JOIN `batch_updates`
        ON jobs.batch_id = `batch_updates`.batch_id AND
           jobs.update_id = `batch_updates`.update_id
      SET jobs.state = IF(jobs.n_pending_parents = 1, 'Ready', 'Pending'),
          jobs.n_pending_parents = jobs.n_pending_parents - 1,
          jobs.cancelled = IF(new_state = 'Success', jobs.cancelled, 1),
          jobs_telemetry.time_ready = IF(jobs.n_pending_parents = 1, new_timestamp, jobs_telemetry.time_ready)
      WHERE jobs.batch_id = in_batch_id AND
            `job_parents`.batch_id = in_batch_id AND
            `job_parents`.parent_id = in_job_id AND
            `batch_updates`.committed;

    COMMIT;
    SELECT 0 as rc,
      cur_job_state as old_state,
      delta_cores_mcpu, cur_batch_n_completed, total_jobs_in_batch;
  ELSEIF cur_job_state = 'Cancelled' OR cur_job_state = 'Error' OR
         cur_job_state = 'Failed' OR cur_job_state = 'Success' THEN
    COMMIT;
    SELECT 0 as rc,
      cur_job_state as old_state,
      delta_cores_mcpu;
  ELSE
    COMMIT;
    SELECT 1 as rc,
      cur_job_state,
      delta_cores_mcpu,
      'job state not Ready, Creating, Running or complete' as message;
  END IF;
END $$

DROP PROCEDURE IF EXISTS unschedule_job $$
CREATE PROCEDURE unschedule_job(
  IN in_batch_id BIGINT,
  IN in_job_id INT,
  IN in_attempt_id VARCHAR(40),
  IN in_instance_name VARCHAR(100),
  IN new_end_time BIGINT,
  IN new_reason VARCHAR(40)
)
BEGIN
  DECLARE cur_job_state VARCHAR(40);
  DECLARE cur_instance_state VARCHAR(40);
  DECLARE cur_attempt_id VARCHAR(40);
  DECLARE cur_cores_mcpu INT;
  DECLARE cur_end_time BIGINT;
  DECLARE delta_cores_mcpu INT DEFAULT 0;

  START TRANSACTION;

  SELECT state, cores_mcpu, attempt_id
  INTO cur_job_state, cur_cores_mcpu, cur_attempt_id
  FROM jobs
  WHERE batch_id = in_batch_id AND job_id = in_job_id
  FOR UPDATE;

  SELECT end_time INTO cur_end_time
  FROM attempts
  WHERE batch_id = in_batch_id AND job_id = in_job_id AND attempt_id = in_attempt_id
  FOR UPDATE;

  UPDATE attempts
  SET rollup_time = new_end_time, end_time = new_end_time, reason = new_reason
  WHERE batch_id = in_batch_id AND job_id = in_job_id AND attempt_id = in_attempt_id;

  SELECT state INTO cur_instance_state FROM instances WHERE name = in_instance_name LOCK IN SHARE MODE;

  # add_attempt takes the cores of a new attempt from pending and active instances alike,
  # so both must give them back when the attempt ends
  IF (cur_instance_state = 'pending' OR cur_instance_state = 'active') AND cur_end_time IS NULL THEN
    UPDATE instances_free_cores_mcpu
    SET free_cores_mcpu = free_cores_mcpu + cur_cores_mcpu
    WHERE instances_free_cores_mcpu.name = in_instance_name;

    SET delta_cores_mcpu = cur_cores_mcpu;
  END IF;

  IF (cur_job_state = 'Creating' OR cur_job_state = 'Running') AND cur_attempt_id = in_attempt_id THEN
    UPDATE jobs SET state = 'Ready', attempt_id = NULL WHERE batch_id = in_batch_id AND job_id = in_job_id;
    COMMIT;
    SELECT 0 as rc, delta_cores_mcpu;
  ELSE
    COMMIT;
    SELECT 1 as rc, cur_job_state, delta_cores_mcpu,
      'job state not Running or Creating or wrong attempt id' as message;
  END IF;
END $$

DELIMITER ;
