DELIMITER $$

DROP FUNCTION IF EXISTS is_job_cancelled $$
CREATE FUNCTION is_job_cancelled (batch_id BIGINT, job_id INT)
RETURNS BOOLEAN NOT DETERMINISTIC
RETURN (
    SELECT NOT j.always_run AND (j.cancelled OR c.cancelled IS NOT NULL)
    FROM jobs AS j
    LEFT JOIN LATERAL (
      SELECT 1 AS cancelled
      FROM job_group_self_and_ancestors AS self
      INNER JOIN job_groups_cancelled   AS c
         ON self.batch_id    = c.id
        AND self.ancestor_id = c.job_group_id
      WHERE self.batch_id     = j.batch_id
        AND self.job_group_id = j.job_group_id
      # a job can have several cancelled ancestors (a group cancelled before one of its ancestors):
      # the scalar subquery must still yield exactly one row
      LIMIT 1
    ) AS c ON TRUE
    WHERE j.batch_id = batch_id
      AND j.job_id   = job_id
) $$

DELIMITER ;
